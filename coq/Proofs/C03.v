(* C03 proofs: the lookup loop equals "first qualifying registration of the tried
   sequence"; the registry invariant of register_view; the tried sequence is sorted by
   the property's specificity order; order arithmetic; predicate characterisations. *)
From Coq Require Import List NArith ZArith Bool Lia Sorting.Sorted Sorting.Permutation.
Import ListNotations.
Require Import Verif.Lib.Wire Verif.Lib.Text Verif.Gen.Facts_C03 Verif.Model.C03.

(* ================================================================== *)
(* generic list facts *)

Lemma flat_map_flat_map {A B C} (f : B -> list C) (g : A -> list B) l :
  flat_map f (flat_map g l) = flat_map (fun x => flat_map f (g x)) l.
Proof. induction l as [|x l IH]; simpl; [reflexivity|]. rewrite flat_map_app, IH. reflexivity. Qed.

Lemma SSorted_app {A} (R : A -> A -> Prop) l1 l2 :
  StronglySorted R l1 -> StronglySorted R l2 ->
  (forall a b, In a l1 -> In b l2 -> R a b) -> StronglySorted R (l1 ++ l2).
Proof.
  induction l1 as [|x l1 IH]; simpl; intros H1 H2 H; [assumption|].
  inversion H1; subst. constructor.
  - apply IH; auto.
  - apply Forall_app. split; [assumption|]. apply Forall_forall. intros b Hb. apply H; auto.
Qed.

Lemma FOP_app {A} (P : A -> A -> Prop) l1 l2 :
  ForallOrdPairs P l1 -> ForallOrdPairs P l2 ->
  (forall a b, In a l1 -> In b l2 -> P a b) -> ForallOrdPairs P (l1 ++ l2).
Proof.
  induction l1 as [|x l1 IH]; simpl; intros H1 H2 H; [assumption|].
  inversion H1; subst. constructor.
  - apply Forall_app. split; [assumption|]. apply Forall_forall. intros b Hb. apply H; auto.
  - apply IH; auto.
Qed.

Lemma FOP_weaken {A} (P Q : A -> A -> Prop) l :
  ForallOrdPairs P l -> (forall a b, In a l -> In b l -> P a b -> Q a b) -> ForallOrdPairs Q l.
Proof.
  induction 1 as [|x l Hx Hl IH]; intros H; constructor.
  - apply Forall_forall. intros b Hb. rewrite Forall_forall in Hx. apply H; simpl; auto.
  - apply IH. intros a b Ha Hb. apply H; simpl; auto.
Qed.

Lemma FOP_map {A B} (f : A -> B) (P : B -> B -> Prop) l :
  ForallOrdPairs (fun a b => P (f a) (f b)) l -> ForallOrdPairs P (map f l).
Proof.
  induction 1 as [|x l Hx Hl IH]; simpl; constructor; [|assumption].
  apply Forall_map. exact Hx.
Qed.

Lemma SSorted_flat_map {A B} (R : B -> B -> Prop) (f : A -> list B) l :
  (forall x, In x l -> StronglySorted R (f x)) ->
  ForallOrdPairs (fun x y => forall a b, In a (f x) -> In b (f y) -> R a b) l ->
  StronglySorted R (flat_map f l).
Proof.
  intros Hs Hp. induction Hp as [|x l Hx Hl IH]; simpl; [constructor|].
  apply SSorted_app.
  - apply Hs. simpl; auto.
  - apply IH. intros y Hy. apply Hs. simpl; auto.
  - intros a b Ha Hb. apply in_flat_map in Hb. destruct Hb as (y & Hy & Hb).
    rewrite Forall_forall in Hx. exact (Hx y Hy a b Ha Hb).
Qed.

Lemma find_split {A} (f : A -> bool) l x :
  find f l = Some x ->
  exists l1 l2, l = l1 ++ x :: l2 /\ f x = true /\ forall y, In y l1 -> f y = false.
Proof.
  induction l as [|y l IH]; simpl; [discriminate|].
  destruct (f y) eqn:E.
  - intros H; inversion H; subst. exists [], l. repeat split; auto. intros ? [].
  - intros H. destruct (IH H) as (l1 & l2 & -> & Hx & Hl). exists (y :: l1), l2. repeat split; auto.
    intros z [->|Hz]; auto.
Qed.

Lemma find_none_iff {A} (f : A -> bool) l : find f l = None <-> forall y, In y l -> f y = false.
Proof.
  split; [apply find_none|]. induction l as [|y l IH]; simpl; intros H; [reflexivity|].
  rewrite (H y) by auto. apply IH. intros z Hz. apply H; auto.
Qed.

Lemma SSorted_split {A} (R : A -> A -> Prop) l1 x l2 :
  StronglySorted R (l1 ++ x :: l2) -> forall y, In y l2 -> R x y.
Proof.
  induction l1 as [|z l1 IH]; simpl; intros H y Hy.
  - inversion H; subst. rewrite Forall_forall in H3. auto.
  - inversion H; subst. eauto.
Qed.

Lemma texts_eqb_eq a b : texts_eqb a b = true <-> a = b.
Proof.
  revert b; induction a as [|x a IH]; destruct b as [|y b]; simpl; try (split; congruence).
  rewrite andb_true_iff, text_eqb_eq, IH. split; [intros [-> ->]; reflexivity|intros H; inversion H; auto].
Qed.

(* ================================================================== *)
(* the stable insertion sort *)

Section Sort.
  Context {A : Type} (leb : A -> A -> bool).
  Hypothesis leb_total : forall a b, leb a b = true \/ leb b a = true.
  Hypothesis leb_trans : forall a b c, leb a b = true -> leb b c = true -> leb a c = true.

  Lemma insert_perm x l : Permutation (insert_by leb x l) (x :: l).
  Proof.
    induction l as [|y l IH]; simpl; [reflexivity|].
    destruct (leb x y); [reflexivity|]. rewrite IH. apply perm_swap.
  Qed.

  Lemma isort_perm l : Permutation (isort leb l) l.
  Proof. induction l as [|x l IH]; simpl; [constructor|]. rewrite insert_perm, IH. reflexivity. Qed.

  Lemma insert_sorted x l :
    StronglySorted (fun a b => leb a b = true) l ->
    StronglySorted (fun a b => leb a b = true) (insert_by leb x l).
  Proof.
    induction 1 as [|y l Hl IH Hy]; simpl; [repeat constructor|].
    destruct (leb x y) eqn:E.
    - constructor; [constructor; assumption|]. constructor; [assumption|].
      rewrite Forall_forall in *. intros z Hz. eapply leb_trans; eauto.
    - constructor; [assumption|].
      assert (Hyx : leb y x = true) by (destruct (leb_total x y); congruence).
      apply Forall_forall. intros z Hz.
      apply (Permutation_in _ (insert_perm x l)) in Hz. destruct Hz as [<-|Hz]; [assumption|].
      rewrite Forall_forall in Hy. auto.
  Qed.

  Lemma isort_sorted l : StronglySorted (fun a b => leb a b = true) (isort leb l).
  Proof. induction l as [|x l IH]; simpl; [constructor|]. apply insert_sorted. assumption. Qed.
End Sort.

Lemma entry_leb_total a b : entry_leb a b = true \/ entry_leb b a = true.
Proof. unfold entry_leb. destruct (Z.leb_spec (e_order a) (e_order b)); [auto|right; apply Z.leb_le; lia]. Qed.
Lemma entry_leb_trans a b c : entry_leb a b = true -> entry_leb b c = true -> entry_leb a c = true.
Proof. unfold entry_leb. rewrite !Z.leb_le. lia. Qed.

(* ================================================================== *)
(* facts about the regenerated view-type tuples *)

Lemma find_view_types_ok : find_view_types = [IView; ISecuredView; IMultiView].
Proof. vm_compute. reflexivity. Qed.
Lemma register_view_types_ok : register_view_types = [IView; ISecuredView; IMultiView].
Proof. vm_compute. reflexivity. Qed.
Lemma unregister_view_types_ok : unregister_view_types = [IView; ISecuredView].
Proof. vm_compute. reflexivity. Qed.

(* ================================================================== *)
(* slots *)

Lemma slot_eqb_eq a b : slot_eqb a b = true <-> a = b.
Proof.
  destruct a as [a1 a2 a3 a4], b as [b1 b2 b3 b4]. unfold slot_eqb; simpl.
  rewrite !andb_true_iff, !N.eqb_eq, text_eqb_eq. split.
  - intros [[[-> ->] ->] ->]. reflexivity.
  - intros H; inversion H; auto.
Qed.
Lemma slot_eqb_refl a : slot_eqb a a = true.
Proof. apply slot_eqb_eq. reflexivity. Qed.
Lemma slot_eqb_neq a b : slot_eqb a b = false <-> a <> b.
Proof.
  split; [intros H E; apply slot_eqb_eq in E; congruence|].
  intros H. destruct (slot_eqb a b) eqn:E; [apply slot_eqb_eq in E; contradiction|reflexivity].
Qed.

Lemma reg_set_same R s vt c : reg_set R s vt c s vt = c.
Proof. unfold reg_set. rewrite slot_eqb_refl. destruct vt; reflexivity. Qed.
Lemma reg_set_other_slot R s vt c s' vt' : s <> s' -> reg_set R s vt c s' vt' = R s' vt'.
Proof. intros H. unfold reg_set. apply slot_eqb_neq in H. rewrite H. reflexivity. Qed.
Lemma reg_set_other_vt R s vt c vt' : vtype_eqb vt vt' = false -> reg_set R s vt c s vt' = R s vt'.
Proof. intros H. unfold reg_set. rewrite H, andb_false_r. reflexivity. Qed.

(* ================================================================== *)
(* the lookup loop = first qualifying registration of the tried sequence *)

Definition comp_regs (rq : request) (c : component) : list reg :=
  match c with CView v => [v] | CMulti m => map e_view (get_views m rq) end.

Definition tried (R : registry) (cls : N) (rq : request) : list reg :=
  flat_map (comp_regs rq) (find_views R cls (q_req_sro rq) (q_ctx_sro rq) (q_view_name rq)).

Lemma mv_call_find rq l :
  mv_call rq l = option_map r_tag (find (qualifies rq) (map e_view l)).
Proof.
  induction l as [|e l IH]; simpl; [reflexivity|]. unfold call_reg.
  destruct (qualifies rq (e_view e)); simpl; [reflexivity|exact IH].
Qed.

Lemma call_component_find rq c :
  call_component rq c = option_map r_tag (find (qualifies rq) (comp_regs rq c)).
Proof.
  destruct c as [v|m]; simpl; [|apply mv_call_find].
  unfold call_reg. destruct (qualifies rq v); reflexivity.
Qed.

Lemma find_app {A} (f : A -> bool) l1 l2 :
  find f (l1 ++ l2) = match find f l1 with Some x => Some x | None => find f l2 end.
Proof. induction l1 as [|x l1 IH]; simpl; [reflexivity|]. destruct (f x); auto. Qed.

Definition not_found (r : result) : Prop := r = NotFoundPme \/ r = NotFoundNone.

Lemma call_loop_find rq l pme :
  match find (qualifies rq) (flat_map (comp_regs rq) l) with
  | Some v => call_loop rq l pme = Ran (r_tag v)
  | None => not_found (call_loop rq l pme)
  end.
Proof.
  revert pme; induction l as [|c l IH]; intros pme; simpl.
  - destruct pme; [left|right]; reflexivity.
  - rewrite find_app, call_component_find.
    destruct (find (qualifies rq) (comp_regs rq c)); simpl; [reflexivity|apply IH].
Qed.

Lemma call_view_find R cls rq :
  match find (qualifies rq) (tried R cls rq) with
  | Some v => call_view R cls rq = Ran (r_tag v)
  | None => not_found (call_view R cls rq)
  end.
Proof. apply call_loop_find. Qed.

(* ================================================================== *)
(* the registry invariant of register_view (no two registrations with the same
   (slot, phash), no accept=) *)

Definition slot_regs (regs : list reg) (s : slot) : list reg :=
  filter (fun v => slot_eqb (r_slot v) s) regs.
Definition vt_of (v : reg) : vtype := if r_secured v then ISecuredView else IView.
Definition no_accept (regs : list reg) : Prop := forall v, In v regs -> r_accept v = None.
Definition key (v : reg) : slot * text := (r_slot v, r_phash v).

Definition entry_of (v : reg) : entry := (r_order v, v, r_phash v).
Definition entry_ok (e : entry) : Prop := e = entry_of (e_view e).
Definition entries_sorted (l : list entry) : Prop := StronglySorted (fun a b => entry_leb a b = true) l.

Definition mv_ok (m : mview) (l : list reg) : Prop :=
  mv_accepts m = [] /\ Permutation (map e_view (mv_views m)) l
  /\ entries_sorted (mv_views m) /\ Forall entry_ok (mv_views m).

Definition slot_inv (R : registry) (s : slot) (l : list reg) : Prop :=
  match l with
  | [] => R s IView = None /\ R s ISecuredView = None /\ R s IMultiView = None
  | [v] => R s (vt_of v) = Some (CView v) /\ forall vt, vt <> vt_of v -> R s vt = None
  | _ => R s IView = None /\ R s ISecuredView = None
         /\ exists m, R s IMultiView = Some (CMulti m) /\ mv_ok m l
  end.

Definition inv (regs : list reg) (R : registry) : Prop := forall s, slot_inv R s (slot_regs regs s).

Lemma attr_phash_eq v : attr_phash v = r_phash v.
Proof.
  unfold attr_phash, attr_wrapped. destruct (r_accept v); simpl; [reflexivity|].
  destruct (Z.eqb (r_order v) max_order); simpl; [|reflexivity].
  destruct (text_eqb_spec (r_phash v) default_phash); simpl; congruence.
Qed.
Lemma attr_order_eq v : attr_order v = r_order v.
Proof.
  unfold attr_order, attr_wrapped. destruct (r_accept v); simpl; [reflexivity|].
  destruct (Z.eqb_spec (r_order v) max_order); simpl; [|reflexivity].
  destruct (text_eqb (r_phash v) default_phash); simpl; congruence.
Qed.
Lemma attr_accept_none v : r_accept v = None -> attr_accept v = None.
Proof. unfold attr_accept. intros ->. destruct (attr_wrapped v); reflexivity. Qed.

Lemma replace_phash_none ph new l :
  (forall e, In e l -> e_phash e <> ph) -> replace_phash ph new l = None.
Proof.
  induction l as [|e l IH]; simpl; intros H; [reflexivity|].
  destruct (text_eqb_spec ph (e_phash e)) as [E|E]; [exfalso; apply (H e); auto|].
  rewrite IH; auto.
Qed.

Lemma mv_add_plain m v ao :
  (forall e, In e (mv_views m) -> e_phash e <> r_phash v) ->
  mv_add m v (r_order v) (r_phash v) None ao =
  mkMV (isort entry_leb (mv_views m ++ [entry_of v])) (mv_media m) (mv_accepts m).
Proof. intros H. unfold mv_add. rewrite replace_phash_none by assumption. reflexivity. Qed.

Lemma unregister_all_other R s l s' vt : s <> s' -> unregister_all R s l s' vt = R s' vt.
Proof.
  intros H. unfold unregister_all. revert R. induction l as [|x l IH]; intros R; simpl; [reflexivity|].
  rewrite IH. apply reg_set_other_slot. assumption.
Qed.

Lemma unregister_all_none R s l vt : R s vt = None -> unregister_all R s l s vt = None.
Proof.
  unfold unregister_all. revert R. induction l as [|x l IH]; intros R H; simpl; [assumption|].
  apply IH. unfold reg_set. rewrite slot_eqb_refl. simpl. destruct (vtype_eqb x vt); auto.
Qed.

Lemma unregister_all_in R s l vt : In vt l -> unregister_all R s l s vt = None.
Proof.
  unfold unregister_all. revert R. induction l as [|x l IH]; intros R H; [destruct H|].
  destruct H as [->|H]; simpl.
  - apply (unregister_all_none _ s l vt). apply reg_set_same.
  - apply IH. assumption.
Qed.

Lemma register_view_other ao R v s vt : r_slot v <> s -> register_view ao R v s vt = R s vt.
Proof.
  intros H. unfold register_view. cbv zeta.
  match goal with |- (if ?c then _ else _) s vt = _ => destruct c end;
    rewrite reg_set_other_slot by assumption; apply unregister_all_other; assumption.
Qed.

(* first registration of a slot *)
Lemma register_view_fresh ao R v :
  R (r_slot v) IView = None -> R (r_slot v) ISecuredView = None -> R (r_slot v) IMultiView = None ->
  register_view ao R v (r_slot v) (vt_of v) = Some (CView v)
  /\ forall vt, vt <> vt_of v -> register_view ao R v (r_slot v) vt = None.
Proof.
  intros H1 H2 H3. unfold register_view. cbv zeta. rewrite register_view_types_ok.
  cbn [first_registered]. rewrite H1, H2, H3. cbv beta iota. cbn [negb orb andb]. split.
  - apply reg_set_same.
  - intros vt Hvt. rewrite reg_set_other_vt.
    + apply unregister_all_none. destruct vt; assumption.
    + unfold vt_of in Hvt. destruct vt, (r_secured v); simpl; try reflexivity; contradiction.
Qed.

Lemma unregister_views_at R s c vt :
  reg_set (unregister_all R s unregister_view_types) s IMultiView c s vt =
  match vt with IMultiView => c | _ => None end.
Proof.
  rewrite unregister_view_types_ok. destruct vt.
  - rewrite reg_set_other_vt by reflexivity. apply unregister_all_in. simpl; auto.
  - rewrite reg_set_other_vt by reflexivity. apply unregister_all_in. simpl; auto.
  - apply reg_set_same.
Qed.

(* second registration of a slot (another phash): a MultiView is created *)
Lemma register_view_second ao R v o vt :
  R (r_slot v) (vt_of o) = Some (CView o) ->
  (forall vt, vt <> vt_of o -> R (r_slot v) vt = None) ->
  r_phash o <> r_phash v -> r_accept o = None -> r_accept v = None ->
  register_view ao R v (r_slot v) vt =
  match vt with
  | IMultiView => Some (CMulti (mkMV (isort entry_leb ([entry_of o] ++ [entry_of v])) [] []))
  | _ => None
  end.
Proof.
  intros H1 H2 Hne Ho Hv. unfold register_view. cbv zeta.
  rewrite register_view_types_ok.
  assert (Hf : first_registered R (r_slot v) [IView; ISecuredView; IMultiView] = Some (CView o)).
  { simpl. unfold vt_of in *. destruct (r_secured o).
    - rewrite (H2 IView) by discriminate. rewrite H1. reflexivity.
    - rewrite H1. reflexivity. }
  rewrite Hf. rewrite attr_phash_eq, attr_order_eq, (attr_accept_none _ Ho). cbv beta iota.
  destruct (text_eqb_spec (r_phash o) (r_phash v)) as [E|_]; [contradiction|]. cbn [negb orb andb].
  rewrite Hv.
  assert (Hm : mv_add mv_empty o (r_order o) (r_phash o) None None = mkMV [entry_of o] [] []).
  { reflexivity. }
  rewrite Hm. rewrite mv_add_plain.
  - apply unregister_views_at.
  - simpl. intros e [<-|[]]. simpl. assumption.
Qed.

(* later registrations: added to the MultiView *)
Lemma register_view_multi ao R v m vt :
  R (r_slot v) IView = None -> R (r_slot v) ISecuredView = None ->
  R (r_slot v) IMultiView = Some (CMulti m) ->
  (forall e, In e (mv_views m) -> e_phash e <> r_phash v) -> r_accept v = None ->
  register_view ao R v (r_slot v) vt =
  match vt with
  | IMultiView => Some (CMulti (mkMV (isort entry_leb (mv_views m ++ [entry_of v])) (mv_media m) (mv_accepts m)))
  | _ => None
  end.
Proof.
  intros H1 H2 H3 Hne Hv. unfold register_view. cbv zeta.
  rewrite register_view_types_ok. cbn [first_registered].
  rewrite H1, H2, H3. cbv beta iota. cbn [negb orb andb]. rewrite Hv. rewrite mv_add_plain by assumption.
  apply unregister_views_at.
Qed.

Lemma slot_regs_snoc_same regs v : slot_regs (regs ++ [v]) (r_slot v) = slot_regs regs (r_slot v) ++ [v].
Proof. unfold slot_regs. rewrite filter_app. simpl. rewrite slot_eqb_refl. reflexivity. Qed.
Lemma slot_regs_snoc_other regs v s : r_slot v <> s -> slot_regs (regs ++ [v]) s = slot_regs regs s.
Proof.
  intros H. unfold slot_regs. rewrite filter_app. simpl. apply slot_eqb_neq in H. rewrite H.
  apply app_nil_r.
Qed.
Lemma slot_regs_in regs s v : In v (slot_regs regs s) <-> In v regs /\ r_slot v = s.
Proof. unfold slot_regs. rewrite filter_In, slot_eqb_eq. reflexivity. Qed.

Lemma mv_ok_snoc m l v :
  mv_ok m l -> r_accept v = None ->
  mv_ok (mkMV (isort entry_leb (mv_views m ++ [entry_of v])) (mv_media m) (mv_accepts m)) (l ++ [v]).
Proof.
  intros (Ha & Hp & Hs & Hf) Hv. unfold mv_ok. simpl. repeat split.
  - assumption.
  - rewrite (Permutation_map e_view (isort_perm entry_leb (mv_views m ++ [entry_of v]))).
    rewrite map_app. simpl. apply Permutation_app; [assumption|reflexivity].
  - apply isort_sorted; [apply entry_leb_total|apply entry_leb_trans].
  - eapply Permutation_Forall; [apply Permutation_sym, isort_perm|].
    apply Forall_app. split; [assumption|]. constructor; [reflexivity|constructor].
Qed.

Lemma inv_step ao regs R v :
  inv regs R ->
  (forall w, In w regs -> r_slot w = r_slot v -> r_phash w <> r_phash v) ->
  no_accept (regs ++ [v]) ->
  inv (regs ++ [v]) (register_view ao R v).
Proof.
  intros Hinv Hk Hna s.
  assert (Hv : r_accept v = None) by (apply Hna, in_or_app; right; simpl; auto).
  destruct (slot_eqb (r_slot v) s) eqn:Es.
  2:{ apply slot_eqb_neq in Es. rewrite slot_regs_snoc_other by assumption.
      specialize (Hinv s). unfold slot_inv in *.
      destruct (slot_regs regs s) as [|a [|b t]]; rewrite !register_view_other by assumption; try assumption.
      destruct Hinv as [H1 H2]. split; [assumption|]. intros vt Hvt. rewrite register_view_other by assumption. auto. }
  apply slot_eqb_eq in Es. subst s. rewrite slot_regs_snoc_same.
  specialize (Hinv (r_slot v)). unfold slot_inv in Hinv.
  destruct (slot_regs regs (r_slot v)) as [|o [|o2 t]] eqn:El.
  - (* first registration of the slot *)
    destruct Hinv as (H1 & H2 & H3). exact (register_view_fresh ao R v H1 H2 H3).
  - (* second: a MultiView is created *)
    destruct Hinv as (H1 & H2).
    assert (Ho : In o regs /\ r_slot o = r_slot v) by (apply slot_regs_in; rewrite El; simpl; auto).
    destruct Ho as [Ho1 Ho2].
    assert (Hoa : r_accept o = None) by (apply Hna, in_or_app; auto).
    change ([o] ++ [v]) with [o; v]. unfold slot_inv.
    rewrite !(register_view_second ao R v o _ H1 H2 (Hk o Ho1 Ho2) Hoa Hv).
    split; [reflexivity|]. split; [reflexivity|].
    eexists. split; [reflexivity|].
    apply (mv_ok_snoc (mkMV [entry_of o] [] []) [o] v); [|assumption].
    unfold mv_ok; simpl. repeat split; try reflexivity; repeat constructor.
  - (* third and later: added to the MultiView *)
    destruct Hinv as (H1 & H2 & m & H3 & Hm).
    assert (Hne : forall e, In e (mv_views m) -> e_phash e <> r_phash v).
    { intros e He. destruct Hm as (_ & Hp & _ & Hf). rewrite Forall_forall in Hf.
      rewrite (Hf e He). simpl.
      assert (Hin : In (e_view e) (slot_regs regs (r_slot v))).
      { rewrite El. eapply Permutation_in; [exact Hp|]. apply in_map. assumption. }
      apply slot_regs_in in Hin. destruct Hin. apply Hk; assumption. }
    change ((o :: o2 :: t) ++ [v]) with (o :: o2 :: (t ++ [v])). unfold slot_inv.
    rewrite !(register_view_multi ao R v m _ H1 H2 H3 Hne Hv).
    split; [reflexivity|]. split; [reflexivity|].
    eexists. split; [reflexivity|].
    change (o :: o2 :: t ++ [v]) with ((o :: o2 :: t) ++ [v]).
    apply mv_ok_snoc; assumption.
Qed.

Lemma inv_empty : inv [] reg_empty.
Proof. intros s. simpl. auto. Qed.

Lemma NoDup_snoc {A} (l : list A) x : NoDup (l ++ [x]) -> NoDup l /\ ~ In x l.
Proof.
  intros H. split.
  - apply NoDup_remove_1 in H. rewrite app_nil_r in H. assumption.
  - apply NoDup_remove_2 in H. rewrite app_nil_r in H. assumption.
Qed.

Lemma register_all_inv ao regs :
  NoDup (map key regs) -> no_accept regs -> inv regs (register_all ao regs).
Proof.
  induction regs as [|v regs IH] using rev_ind; intros Hnd Hna; [apply inv_empty|].
  unfold register_all. rewrite fold_left_app. simpl.
  rewrite map_app in Hnd. simpl in Hnd. apply NoDup_snoc in Hnd. destruct Hnd as [Hnd Hni].
  apply inv_step.
  - apply IH; [assumption|]. intros w Hw. apply Hna, in_or_app. auto.
  - intros w Hw Hs Hp. apply Hni. apply in_map_iff. exists w. split; [|assumption].
    unfold key. congruence.
  - assumption.
Qed.

(* ================================================================== *)
(* the tried sequence, slot by slot *)

Definition block (R : registry) (s : slot) (rq : request) : list reg :=
  flat_map (fun vt => match R s vt with Some c => comp_regs rq c | None => [] end) find_view_types.

Lemma tried_blocks R cls rq :
  tried R cls rq =
  flat_map (fun rc => block R (mkSlot cls (fst rc) (snd rc) (q_view_name rq)) rq)
           (list_prod (q_req_sro rq) (q_ctx_sro rq)).
Proof.
  unfold tried, find_views. rewrite flat_map_flat_map. apply flat_map_ext. intros rc.
  rewrite flat_map_flat_map. unfold block. apply flat_map_ext. intros vt.
  destruct (R _ vt); simpl; [apply app_nil_r|reflexivity].
Qed.

Definition by_order (a b : reg) : Prop := (r_order a <= r_order b)%Z.

Lemma entries_sorted_by_order l :
  entries_sorted l -> Forall entry_ok l -> StronglySorted by_order (map e_view l).
Proof.
  induction 1 as [|e l Hl IH He]; intros Hok; simpl; [constructor|].
  inversion Hok as [|? ? Hoe Hol]; subst. constructor; [auto|].
  apply Forall_map. rewrite Forall_forall in *. intros b Hb.
  specialize (He b Hb). unfold entry_leb in He. apply Z.leb_le in He.
  unfold by_order. pose proof (Hol b Hb) as Hb'. unfold entry_ok in Hoe, Hb'.
  assert (E1 : e_order e = r_order (e_view e)) by (rewrite Hoe at 1; reflexivity).
  assert (E2 : e_order b = r_order (e_view b)) by (rewrite Hb' at 1; reflexivity).
  lia.
Qed.

Lemma block_spec R s l rq :
  slot_inv R s l -> Permutation (block R s rq) l /\ StronglySorted by_order (block R s rq).
Proof.
  unfold block. rewrite find_view_types_ok. cbn [flat_map]. unfold slot_inv.
  destruct l as [|v [|v2 t]].
  - intros (H1 & H2 & H3). rewrite H1, H2, H3. simpl. split; constructor.
  - intros (H1 & H2). unfold vt_of in *. destruct (r_secured v).
    + rewrite H1, (H2 IView), (H2 IMultiView) by discriminate. simpl. split; repeat constructor.
    + rewrite H1, (H2 ISecuredView), (H2 IMultiView) by discriminate. simpl. split; repeat constructor.
  - intros (H1 & H2 & m & H3 & Ha & Hp & Hs & Hf). rewrite H1, H2, H3. cbn [comp_regs app].
    rewrite app_nil_r. unfold get_views. rewrite Ha. split; [assumption|].
    apply entries_sorted_by_order; assumption.
Qed.

(* ================================================================== *)
(* resolution orders *)

Lemma precedes_irrefl l x : precedes l x x = false.
Proof.
  induction l as [|y l IH]; simpl; [reflexivity|].
  destruct (N.eqb y x) eqn:E; [reflexivity|exact IH].
Qed.

Lemma precedes_order l :
  NoDup l -> ForallOrdPairs (fun x y => precedes l y x = false /\ x <> y) l.
Proof.
  induction 1 as [|y l Hy Hl IH]; constructor.
  - apply Forall_forall. intros c Hc.
    assert (Hne : y <> c) by (intros ->; contradiction).
    split; [|assumption]. simpl. apply N.eqb_neq in Hne. rewrite Hne, N.eqb_refl. reflexivity.
  - eapply FOP_weaken; [exact IH|]. intros a b Ha Hb [H1 H2]. split; [|assumption].
    simpl. assert (y <> a) by (intros ->; contradiction). assert (y <> b) by (intros ->; contradiction).
    rewrite (proj2 (N.eqb_neq y b)), (proj2 (N.eqb_neq y a)) by assumption. assumption.
Qed.

Lemma prod_order {A B} (P1 : A -> A -> Prop) (P2 : B -> B -> Prop) l1 l2 :
  ForallOrdPairs P1 l1 -> ForallOrdPairs P2 l2 ->
  ForallOrdPairs (fun p q => P1 (fst p) (fst q) \/ (fst p = fst q /\ P2 (snd p) (snd q))) (list_prod l1 l2).
Proof.
  intros H1 H2. induction H1 as [|x l Hx Hl IH]; simpl; [constructor|].
  apply FOP_app.
  - apply FOP_map. eapply FOP_weaken; [exact H2|]. intros a b _ _ H. right. simpl. auto.
  - exact IH.
  - intros p q Hp Hq. apply in_map_iff in Hp. destruct Hp as (a & <- & _).
    destruct q as [q1 q2]. apply in_prod_iff in Hq. destruct Hq as [Hq _].
    left. simpl. rewrite Forall_forall in Hx. auto.
Qed.

Lemma SSorted_weaken_in {A} (P Q : A -> A -> Prop) l :
  StronglySorted P l -> (forall a b, In a l -> In b l -> P a b -> Q a b) -> StronglySorted Q l.
Proof.
  induction 1 as [|x l Hl IH Hx]; intros H; constructor.
  - apply IH. intros a b Ha Hb. apply H; simpl; auto.
  - rewrite Forall_forall in *. intros b Hb. apply H; simpl; auto.
Qed.

(* ================================================================== *)
(* lookup_winner *)

(* within a slot, more predicates give a smaller order (discharged for orders computed by
   PredicateList.make in order_respects_made below) *)
Definition order_respects (regs : list reg) : Prop :=
  forall a b, In a regs -> In b regs -> r_slot a = r_slot b ->
              (n_preds b < n_preds a)%nat -> (r_order a < r_order b)%Z.

Definition reg_wf (v : reg) : Prop := r_phash v = concat (map pred_phash (r_preds v)).

Lemma more_specific_irrefl rq x : more_specific rq x x = false.
Proof.
  unfold more_specific. rewrite !precedes_irrefl, Nat.ltb_irrefl, !andb_false_r. reflexivity.
Qed.

Definition tried_rel (rq : request) (a b : reg) : Prop :=
  more_specific rq b a = false /\ (r_slot a = r_slot b -> (r_order a <= r_order b)%Z).

Lemma tried_sorted regs R cls rq :
  inv regs R -> NoDup (q_req_sro rq) -> NoDup (q_ctx_sro rq) -> order_respects regs ->
  StronglySorted (tried_rel rq) (tried R cls rq).
Proof.
  intros Hinv Hr Hc Hord. unfold tried_rel. rewrite tried_blocks. apply SSorted_flat_map.
  - intros [r c] _. simpl.
    destruct (block_spec R _ _ rq (Hinv (mkSlot cls r c (q_view_name rq)))) as [Hp Hs].
    eapply SSorted_weaken_in; [exact Hs|]. intros a b Ha Hb Hab.
    apply (Permutation_in _ Hp), slot_regs_in in Ha. apply (Permutation_in _ Hp), slot_regs_in in Hb.
    destruct Ha as [Ha1 Ha2], Hb as [Hb1 Hb2]. split; [|intros _; exact Hab].
    unfold more_specific. rewrite Ha2, Hb2.
    rewrite !precedes_irrefl, andb_false_r. simpl. rewrite slot_eqb_refl. simpl.
    apply Nat.ltb_ge. destruct (Nat.le_gt_cases (n_preds b) (n_preds a)) as [|Hlt]; [assumption|].
    exfalso. unfold by_order in Hab.
    assert (r_order b < r_order a)%Z by (apply Hord; auto; congruence). lia.
  - eapply FOP_weaken; [exact (prod_order _ _ _ _ (precedes_order _ Hr) (precedes_order _ Hc))|].
    intros [r1 c1] [r2 c2] _ _ H a b Ha Hb. simpl in *.
    destruct (block_spec R _ _ rq (Hinv (mkSlot cls r1 c1 (q_view_name rq)))) as [Hp1 _].
    destruct (block_spec R _ _ rq (Hinv (mkSlot cls r2 c2 (q_view_name rq)))) as [Hp2 _].
    apply (Permutation_in _ Hp1), slot_regs_in in Ha. apply (Permutation_in _ Hp2), slot_regs_in in Hb.
    destruct Ha as [_ Ha], Hb as [_ Hb].
    assert (Hslot : r_slot a <> r_slot b).
    { rewrite Ha, Hb. intros E. inversion E as [[E1 E2]]. destruct H as [[_ N1]|[_ [_ N1]]]; congruence. }
    split; [|intros E; contradiction].
    unfold more_specific. rewrite Ha, Hb. simpl.
    destruct H as [[H1 H2]|[-> [H1 H2]]].
    + rewrite H1. simpl. assert (E : N.eqb r2 r1 = false) by (apply N.eqb_neq; congruence).
      rewrite E. simpl. unfold slot_eqb. simpl. rewrite E, !andb_false_r. reflexivity.
    + rewrite precedes_irrefl, N.eqb_refl, H1. simpl.
      assert (E : N.eqb c2 c1 = false) by (apply N.eqb_neq; congruence).
      unfold slot_eqb. simpl. rewrite E, !andb_false_r. reflexivity.
Qed.

Lemma tried_in regs R cls rq x :
  inv regs R -> In x (tried R cls rq) ->
  In x regs /\ s_cls (r_slot x) = cls /\ s_name (r_slot x) = q_view_name rq
  /\ In (s_req (r_slot x)) (q_req_sro rq) /\ In (s_ctx (r_slot x)) (q_ctx_sro rq).
Proof.
  intros Hinv Hx. rewrite tried_blocks in Hx. apply in_flat_map in Hx.
  destruct Hx as ([r c] & Hrc & Hx). simpl in Hx. apply in_prod_iff in Hrc.
  destruct (block_spec R _ _ rq (Hinv (mkSlot cls r c (q_view_name rq)))) as [Hp _].
  apply (Permutation_in _ Hp), slot_regs_in in Hx. destruct Hx as [H1 H2]. rewrite H2. simpl. tauto.
Qed.

Lemma in_tried regs R cls rq w :
  inv regs R -> In w regs -> s_cls (r_slot w) = cls -> s_name (r_slot w) = q_view_name rq ->
  In (s_req (r_slot w)) (q_req_sro rq) -> In (s_ctx (r_slot w)) (q_ctx_sro rq) ->
  In w (tried R cls rq).
Proof.
  intros Hinv Hw H1 H2 H3 H4. rewrite tried_blocks. apply in_flat_map.
  exists (s_req (r_slot w), s_ctx (r_slot w)). split; [apply in_prod; assumption|]. simpl.
  assert (Es : mkSlot cls (s_req (r_slot w)) (s_ctx (r_slot w)) (q_view_name rq) = r_slot w).
  { destruct (r_slot w); simpl in *; subst; reflexivity. }
  rewrite Es. destruct (block_spec R _ _ rq (Hinv (r_slot w))) as [Hp _].
  apply (Permutation_in _ (Permutation_sym Hp)). apply slot_regs_in. auto.
Qed.

Lemma candidate_iff cls rq v :
  candidate cls rq v = true <->
  s_cls (r_slot v) = cls /\ s_name (r_slot v) = q_view_name rq
  /\ In (s_req (r_slot v)) (q_req_sro rq) /\ In (s_ctx (r_slot v)) (q_ctx_sro rq)
  /\ qualifies rq v = true.
Proof.
  unfold candidate. rewrite !andb_true_iff, N.eqb_eq, text_eqb_eq, !memN_In. tauto.
Qed.

Lemma effective_nodup regs :
  Forall reg_wf regs -> NoDup (map key regs) -> effective regs = regs.
Proof.
  induction regs as [|v regs IH]; intros Hwf Hnd; simpl; [reflexivity|].
  inversion Hwf as [|? ? Hv Hwf']; subst. inversion Hnd as [|? ? Hni Hnd']; subst.
  destruct (existsb (same_registration v) regs) eqn:E.
  - exfalso. apply existsb_exists in E. destruct E as (w & Hw & Hs). apply Hni.
    apply in_map_iff. exists w. split; [|assumption]. unfold same_registration in Hs.
    apply andb_true_iff in Hs. destruct Hs as [Hs1 Hs2]. apply slot_eqb_eq in Hs1.
    apply texts_eqb_eq in Hs2. rename Hs2 into Eq.
    rewrite Forall_forall in Hwf'. unfold key. rewrite (Hwf' w Hw), Hv, Eq, Hs1. reflexivity.
  - rewrite IH; auto.
Qed.

(* the winner, characterised directly: a qualifying candidate; no qualifying candidate is more
   specific; within its own slot none has a smaller order *)
Lemma lookup_winner_char ao regs cls rq :
  NoDup (map key regs) -> no_accept regs ->
  NoDup (q_req_sro rq) -> NoDup (q_ctx_sro rq) -> order_respects regs ->
  match call_view (register_all ao regs) cls rq with
  | Ran t => exists x, In x regs /\ r_tag x = t /\ candidate cls rq x = true
                       /\ forall w, In w regs -> candidate cls rq w = true ->
                                     more_specific rq w x = false
                                     /\ (r_slot x = r_slot w -> (r_order x <= r_order w)%Z)
  | _ => forall w, In w regs -> candidate cls rq w = false
  end.
Proof.
  intros Hnd Hna Hr Hc Hord.
  pose proof (register_all_inv ao regs Hnd Hna) as Hinv.
  pose proof (tried_sorted regs _ cls rq Hinv Hr Hc Hord) as Hsorted.
  pose proof (call_view_find (register_all ao regs) cls rq) as Hf.
  destruct (find (qualifies rq) (tried (register_all ao regs) cls rq)) as [x|] eqn:Ef.
  - rewrite Hf. apply find_split in Ef. destruct Ef as (l1 & l2 & El & Hq & Hl1).
    assert (Hx : In x (tried (register_all ao regs) cls rq)) by (rewrite El; apply in_or_app; simpl; auto).
    destruct (tried_in _ _ _ _ _ Hinv Hx) as (Hx1 & Hx2 & Hx3 & Hx4 & Hx5).
    exists x. split; [assumption|]. split; [reflexivity|]. split; [apply candidate_iff; tauto|].
    intros w Hw1 Hw2. apply candidate_iff in Hw2. destruct Hw2 as (W1 & W2 & W3 & W4 & W5).
    pose proof (in_tried _ _ _ _ _ Hinv Hw1 W1 W2 W3 W4) as Hwt. rewrite El in Hwt.
    apply in_app_or in Hwt. destruct Hwt as [Hwt|[<-|Hwt]].
    + rewrite (Hl1 w Hwt) in W5. discriminate.
    + split; [apply more_specific_irrefl|intros _; apply Z.le_refl].
    + rewrite El in Hsorted. exact (SSorted_split _ _ _ _ Hsorted w Hwt).
  - assert (G : forall w, In w regs -> candidate cls rq w = false).
    { intros w Hw1. destruct (candidate cls rq w) eqn:Hw2; [exfalso|reflexivity].
      apply candidate_iff in Hw2. destruct Hw2 as (W1 & W2 & W3 & W4 & W5).
      pose proof (in_tried _ _ _ _ _ Hinv Hw1 W1 W2 W3 W4) as Hwt.
      rewrite (proj1 (find_none_iff _ _) Ef w Hwt) in W5. discriminate. }
    destruct Hf as [-> | ->]; exact G.
Qed.

Theorem lookup_winner ao regs cls rq :
  Forall reg_wf regs -> NoDup (map key regs) -> no_accept regs ->
  NoDup (q_req_sro rq) -> NoDup (q_ctx_sro rq) -> order_respects regs ->
  spec_ok cls regs rq (call_view (register_all ao regs) cls rq) = true.
Proof.
  intros Hwf Hnd Hna Hr Hc Hord.
  pose proof (lookup_winner_char ao regs cls rq Hnd Hna Hr Hc Hord) as H.
  unfold spec_ok, ok_by, winners_by. rewrite (effective_nodup regs Hwf Hnd).
  assert (Hnone : (forall w, In w regs -> candidate cls rq w = false) -> filter (candidate cls rq) regs = []).
  { intros G. destruct (filter (candidate cls rq) regs) as [|w t] eqn:Ec; [reflexivity|exfalso].
    assert (Hw : In w (filter (candidate cls rq) regs)) by (rewrite Ec; simpl; auto).
    apply filter_In in Hw. destruct Hw as [Hw1 Hw2]. rewrite (G w Hw1) in Hw2. discriminate. }
  destruct (call_view (register_all ao regs) cls rq) as [t| |].
  - destruct H as (x & Hx1 & Hx2 & Hx3 & Hmin).
    apply existsb_exists. exists x. split; [|apply N.eqb_eq; assumption].
    apply filter_In. split; [apply filter_In; auto|].
    apply negb_true_iff. apply not_true_iff_false. intros He. apply existsb_exists in He.
    destruct He as (w & Hw & Hms). apply filter_In in Hw. destruct Hw as [Hw1 Hw2].
    rewrite (proj1 (Hmin w Hw1 Hw2)) in Hms. discriminate.
  - rewrite (Hnone H). reflexivity.
  - rewrite (Hnone H). reflexivity.
Qed.

(* permuting the registration list: Not Found stays Not Found, and a different winner can only be
   another registration of the same slot with the same order *)
Lemma precedes_total l a b : In a l -> In b l -> a <> b -> precedes l a b = true \/ precedes l b a = true.
Proof.
  induction l as [|x l IH]; intros Ha Hb Hne; [destruct Ha|]. simpl.
  destruct (N.eqb_spec x a) as [->|Hxa].
  - left. destruct (N.eqb_spec a b) as [|_]; [contradiction|]. simpl.
    destruct Hb as [Hb|Hb]; [contradiction|]. apply memN_In. assumption.
  - destruct (N.eqb_spec x b) as [->|Hxb].
    + right. destruct Ha as [Ha|Ha]; [congruence|]. simpl. apply memN_In. assumption.
    + destruct Ha as [Ha|Ha]; [contradiction|]. destruct Hb as [Hb|Hb]; [contradiction|]. auto.
Qed.

Theorem lookup_order_insensitive ao regs regs' cls rq :
  Permutation regs regs' ->
  NoDup (map key regs) -> no_accept regs ->
  NoDup (q_req_sro rq) -> NoDup (q_ctx_sro rq) -> order_respects regs ->
  match call_view (register_all ao regs) cls rq, call_view (register_all ao regs') cls rq with
  | Ran t, Ran t' => exists x x', In x regs /\ In x' regs /\ r_tag x = t /\ r_tag x' = t'
                                  /\ r_slot x = r_slot x' /\ r_order x = r_order x'
  | Ran _, _ | _, Ran _ => False
  | _, _ => True
  end.
Proof.
  intros Hp Hnd Hna Hr Hc Hord.
  assert (Hnd' : NoDup (map key regs')) by (eapply Permutation_NoDup; [apply Permutation_map; exact Hp|assumption]).
  assert (Hna' : no_accept regs') by (intros v Hv; apply Hna; eapply Permutation_in; [apply Permutation_sym; exact Hp|assumption]).
  assert (Hord' : order_respects regs').
  { intros a b Ha Hb. apply Hord; eapply Permutation_in; try (apply Permutation_sym; exact Hp); assumption. }
  pose proof (lookup_winner_char ao regs cls rq Hnd Hna Hr Hc Hord) as H1.
  pose proof (lookup_winner_char ao regs' cls rq Hnd' Hna' Hr Hc Hord') as H2.
  destruct (call_view (register_all ao regs) cls rq) as [t| |];
    destruct (call_view (register_all ao regs') cls rq) as [t'| |]; try exact I.
  - destruct H1 as (x & Hx1 & Hx2 & Hx3 & Hmin). destruct H2 as (x' & Hx1' & Hx2' & Hx3' & Hmin').
    assert (Hx'r : In x' regs) by (eapply Permutation_in; [apply Permutation_sym; exact Hp|assumption]).
    assert (Hxr' : In x regs') by (eapply Permutation_in; [exact Hp|assumption]).
    destruct (Hmin x' Hx'r Hx3') as [M1 O1]. destruct (Hmin' x Hxr' Hx3) as [M2 O2].
    assert (Hs : r_slot x = r_slot x').
    { apply candidate_iff in Hx3, Hx3'. destruct Hx3 as (A1 & A2 & A3 & A4 & _), Hx3' as (B1 & B2 & B3 & B4 & _).
      unfold more_specific in M1, M2. apply orb_false_iff in M1, M2.
      destruct M1 as [M1 _], M2 as [M2 _]. apply orb_false_iff in M1, M2.
      destruct M1 as [M1a M1b], M2 as [M2a M2b].
      assert (Er : s_req (r_slot x) = s_req (r_slot x')).
      { destruct (N.eq_dec (s_req (r_slot x)) (s_req (r_slot x'))) as [|Hne]; [assumption|exfalso].
        destruct (precedes_total _ _ _ A3 B3 Hne); congruence. }
      assert (Ec : s_ctx (r_slot x) = s_ctx (r_slot x')).
      { destruct (N.eq_dec (s_ctx (r_slot x)) (s_ctx (r_slot x'))) as [|Hne]; [assumption|exfalso].
        rewrite Er, N.eqb_refl in M2b. rewrite <- Er, N.eqb_refl in M1b. simpl in M1b, M2b.
        destruct (precedes_total _ _ _ A4 B4 Hne); congruence. }
      destruct (r_slot x), (r_slot x'); simpl in *; congruence. }
    exists x, x'. repeat split; auto. specialize (O1 Hs). specialize (O2 (eq_sym Hs)). lia.
  - destruct H1 as (x & Hx1 & _ & Hx3 & _). rewrite (H2 x) in Hx3; [discriminate|]. eapply Permutation_in; eassumption.
  - destruct H1 as (x & Hx1 & _ & Hx3 & _). rewrite (H2 x) in Hx3; [discriminate|]. eapply Permutation_in; eassumption.
  - destruct H2 as (x & Hx1 & _ & Hx3 & _). rewrite (H1 x) in Hx3; [discriminate|].
    eapply Permutation_in; [apply Permutation_sym; exact Hp|assumption].
  - destruct H2 as (x & Hx1 & _ & Hx3 & _). rewrite (H1 x) in Hx3; [discriminate|].
    eapply Permutation_in; [apply Permutation_sym; exact Hp|assumption].
Qed.

(* ================================================================== *)
(* order arithmetic of PredicateList.make, over the translated expressions *)

Open Scope Z_scope.

Lemma order_more_first_gen M s1 s2 k1 k2 S :
  0 <= s1 -> 0 <= s2 <= S -> 0 <= k2 < k1 ->
  S * (k2 + 2) + (k2 + 1) * (k2 + 2) < M ->
  (M - s1) / (k1 + 1) < (M - s2) / (k2 + 1).
Proof.
  intros H1 H2 Hk HM.
  pose proof (Z.div_mod (M - s1) (k1 + 1) ltac:(lia)) as E1.
  pose proof (Z.mod_pos_bound (M - s1) (k1 + 1) ltac:(lia)) as B1.
  pose proof (Z.div_mod (M - s2) (k2 + 1) ltac:(lia)) as E2.
  pose proof (Z.mod_pos_bound (M - s2) (k2 + 1) ltac:(lia)) as B2.
  set (a := (M - s1) / (k1 + 1)) in *. set (b := (M - s2) / (k2 + 1)) in *.
  set (r1 := (M - s1) mod (k1 + 1)) in *. set (r2 := (M - s2) mod (k2 + 1)) in *.
  destruct (Z.lt_ge_cases a b) as [|Hab]; [assumption|exfalso].
  assert (HS : 0 <= S * (k2 + 2)) by nia.
  assert (Hb : 0 <= b) by nia.
  assert (Hprod : (k2 + 2) * b <= (k1 + 1) * a) by nia.
  assert (Hb2 : b <= S + k2) by nia.
  assert (HX : (k2 + 1) * b <= (S + k2) * (k2 + 1)) by nia.
  nia.
Qed.

Lemma order_of_eq s k : order_of s k = (max_order - s) / (k + 1).
Proof. reflexivity. Qed.
Lemma max_order_eq : max_order = 2 ^ 30.
Proof. reflexivity. Qed.
Lemma weight_eq n : 0 <= n -> weight n = 2 ^ (n + 1).
Proof. intros H. unfold weight. apply Z.shiftl_1_l. Qed.
Lemma score_step_eq s b : score_step s b = Z.lor s b.
Proof. reflexivity. Qed.
Lemma score_init_eq : score_init = 0.
Proof. reflexivity. Qed.

(* more predicates sort first, as long as the integer division has headroom *)
Theorem order_more_first s1 s2 k1 k2 S :
  0 <= s1 -> 0 <= s2 <= S -> 0 <= k2 < k1 ->
  S * (k2 + 2) + (k2 + 1) * (k2 + 2) < max_order ->
  order_of s1 k1 < order_of s2 k2.
Proof. intros. rewrite !order_of_eq. apply order_more_first_gen with (S := S); assumption. Qed.

(* at most 20 predicate names registered, at most 400 predicate instances on the lesser view *)
Theorem order_more_first_default s1 s2 k1 k2 :
  0 <= s1 -> 0 <= s2 < 2 ^ 21 -> 0 <= k2 < k1 -> k2 <= 400 ->
  order_of s1 k1 < order_of s2 k2.
Proof.
  intros H1 H2 Hk Hk2. apply order_more_first with (S := 2 ^ 21); try lia.
  rewrite max_order_eq. change (2 ^ 21) with 2097152. change (2 ^ 30) with 1073741824. nia.
Qed.

(* beyond the bound the claim fails: 28 names, 2 predicates against 1 *)
Theorem order_bound_tight_refuted :
  exists s1 s2 k1 k2 S,
    0 <= s1 /\ 0 <= s2 <= S /\ 0 <= k2 < k1
    /\ ~ (S * (k2 + 2) + (k2 + 1) * (k2 + 2) < max_order)
    /\ ~ (order_of s1 k1 < order_of s2 k2).
Proof.
  exists (weight 0), (weight 28), 2, 1, (weight 28). vm_compute. repeat split; intros; discriminate.
Qed.

Lemma lor_bound m a b : 0 <= m -> 0 <= a < 2 ^ m -> 0 <= b < 2 ^ m -> 0 <= Z.lor a b < 2 ^ m.
Proof.
  intros Hm Ha Hb. split; [apply Z.lor_nonneg; lia|].
  destruct (Z.eq_dec (Z.lor a b) 0) as [E|E]; [rewrite E; apply Z.pow_pos_nonneg; lia|].
  assert (Hpos : 0 < Z.lor a b) by (pose proof (proj2 (Z.lor_nonneg a b) (conj (proj1 Ha) (proj1 Hb))); lia).
  apply Z.log2_lt_pow2; [assumption|]. rewrite Z.log2_lor by lia.
  destruct (Z.eq_dec a 0) as [->|Ea]; destruct (Z.eq_dec b 0) as [->|Eb].
  - simpl in E. contradiction.
  - rewrite Z.max_r by (simpl; apply Z.log2_nonneg). apply Z.log2_lt_pow2; lia.
  - rewrite Z.max_l by (simpl; apply Z.log2_nonneg). apply Z.log2_lt_pow2; lia.
  - apply Z.max_lub_lt; apply Z.log2_lt_pow2; lia.
Qed.

Definition weight_below (N : Z) (w : Z) : Prop := exists n, 0 <= n < N /\ w = weight n.

Lemma score_bound N ws : 0 <= N -> Forall (weight_below N) ws -> 0 <= score_of ws < 2 ^ (N + 1).
Proof.
  intros HN H. unfold score_of. rewrite score_init_eq.
  assert (G : forall s, 0 <= s < 2 ^ (N + 1) -> 0 <= fold_left score_step ws s < 2 ^ (N + 1)).
  { induction H as [|w ws (n & Hn & ->) _ IH]; intros s Hs; simpl; [assumption|].
    apply IH. rewrite score_step_eq. apply lor_bound; [lia|assumption|].
    rewrite weight_eq by lia. split; [apply Z.pow_nonneg; lia|]. apply Z.pow_lt_mono_r; lia. }
  apply G. split; [lia|]. apply Z.pow_pos_nonneg; lia.
Qed.

(* the loops of make only produce weights of listed names *)
Lemma make_vals_weights N name n vals acc acc' :
  0 <= n < N -> Forall (weight_below N) (snd acc) -> length (fst acc) = length (snd acc) ->
  make_vals name n vals acc = Some acc' ->
  Forall (weight_below N) (snd acc') /\ length (fst acc') = length (snd acc').
Proof.
  intros Hn. revert acc. induction vals as [|[nt v] vals IH]; intros acc Hacc Hlen H; simpl in H.
  - inversion H; subst. auto.
  - destruct (factory name v) as [p|]; simpl in H; [|discriminate].
    apply IH in H; [assumption| |].
    + simpl. apply Forall_app. split; [assumption|]. constructor; [|constructor]. exists n. auto.
    + simpl. rewrite !app_length. simpl. congruence.
Qed.

Lemma make_loop_weights N names n kw acc acc' :
  0 <= n -> n + Z.of_nat (length names) <= N ->
  Forall (weight_below N) (snd acc) -> length (fst acc) = length (snd acc) ->
  make_loop names n kw acc = Some acc' ->
  Forall (weight_below N) (snd acc') /\ length (fst acc') = length (snd acc').
Proof.
  revert n acc. induction names as [|name names IH]; intros n acc Hn HN Hacc Hlen H; simpl in H.
  - inversion H; subst. auto.
  - simpl length in HN. destruct (assoc name kw) as [vals|].
    + destruct (make_vals name n vals acc) as [acc1|] eqn:E; simpl in H; [|discriminate].
      apply (make_vals_weights N) in E; [|lia|assumption|assumption]. destruct E as (E1 & E2).
      apply IH in H; try assumption; lia.
    + apply IH in H; try assumption; lia.
Qed.

Lemma make_spec names kw m :
  make names kw = Some m ->
  m_order m = order_of (score_of (m_weights m)) (Z.of_nat (length (m_preds m)))
  /\ m_phash m = concat (map pred_phash (m_preds m))
  /\ Forall (weight_below (Z.of_nat (length names))) (m_weights m).
Proof.
  unfold make. destruct (forallb _ kw); [|discriminate].
  destruct (make_loop names 0 kw ([], [])) as [[preds weights]|] eqn:E; simpl; [|discriminate].
  intros H; inversion H; subst; simpl. split; [reflexivity|]. split; [reflexivity|].
  apply (make_loop_weights (Z.of_nat (length names))) in E; simpl; try lia; [|constructor].
  apply E.
Qed.

Definition made_by (names : list text) (v : reg) : Prop :=
  exists cls a, reg_of_args names cls a = Some v.

Lemma made_by_wf names v : made_by names v -> reg_wf v.
Proof.
  intros (cls & a & H). unfold reg_of_args in H.
  destruct (make names (args_kw a)) as [m|] eqn:E; simpl in H; [|discriminate].
  inversion H; subst. unfold reg_wf. simpl. apply (make_spec _ _ _ E).
Qed.

Lemma order_respects_made names regs :
  (length names <= 20)%nat -> Forall (made_by names) regs ->
  Forall (fun v => (n_preds v <= 400)%nat) regs -> order_respects regs.
Proof.
  intros Hn Hm Hk a b Ha Hb _ Hlt. rewrite Forall_forall in Hm, Hk.
  destruct (Hm a Ha) as (ca & aa & Ea). destruct (Hm b Hb) as (cb & ab & Eb).
  pose proof (Hk b Hb) as Hkb.
  unfold reg_of_args in Ea, Eb.
  destruct (make names (args_kw aa)) as [ma|] eqn:Ma; simpl in Ea; [|discriminate].
  destruct (make names (args_kw ab)) as [mb|] eqn:Mb; simpl in Eb; [|discriminate].
  inversion Ea; subst a. inversion Eb; subst b. unfold n_preds in *. simpl in *.
  destruct (make_spec _ _ _ Ma) as (Oa & _ & Wa). destruct (make_spec _ _ _ Mb) as (Ob & _ & Wb).
  rewrite Oa, Ob.
  pose proof (score_bound _ _ (Zle_0_nat _) Wa) as Sa. pose proof (score_bound _ _ (Zle_0_nat _) Wb) as Sb.
  apply order_more_first_default; try lia.
  split; [lia|]. eapply Z.lt_le_trans; [apply Sb|]. apply Z.pow_le_mono_r; lia.
Qed.

(* lookup_winner for registrations as add_view produces them: the arithmetic hypothesis is
   discharged by make (at most 20 predicate names, at most 400 predicates per view) *)
Theorem lookup_winner_made ao names regs cls rq :
  (length names <= 20)%nat -> Forall (made_by names) regs ->
  Forall (fun v => (n_preds v <= 400)%nat) regs ->
  NoDup (map key regs) -> no_accept regs ->
  NoDup (q_req_sro rq) -> NoDup (q_ctx_sro rq) ->
  spec_ok cls regs rq (call_view (register_all ao regs) cls rq) = true.
Proof.
  intros Hn Hm Hk Hnd Hna Hr Hc. apply lookup_winner; try assumption.
  - eapply Forall_impl; [|exact Hm]. intros v. apply made_by_wf.
  - eapply order_respects_made; eassumption.
Qed.

Close Scope Z_scope.

(* ================================================================== *)
(* a view with a failing predicate never runs (any registry whatsoever) *)

Theorem failing_pred_never_runs R cls rq t :
  call_view R cls rq = Ran t ->
  exists x, In x (tried R cls rq) /\ qualifies rq x = true /\ r_tag x = t.
Proof.
  intros H. pose proof (call_view_find R cls rq) as Hf.
  destruct (find (qualifies rq) (tried R cls rq)) as [x|] eqn:E.
  - rewrite Hf in H. inversion H; subst. apply find_some in E. exists x. tauto.
  - destruct Hf as [Hf|Hf]; rewrite Hf in H; discriminate.
Qed.

(* and the search goes on after a mismatch: Not Found only if nothing tried qualifies *)
Theorem not_found_only_if_none R cls rq :
  not_found (call_view R cls rq) -> forall x, In x (tried R cls rq) -> qualifies rq x = false.
Proof.
  intros H. pose proof (call_view_find R cls rq) as Hf.
  destruct (find (qualifies rq) (tried R cls rq)) as [x|] eqn:E.
  - rewrite Hf in H. destruct H; discriminate.
  - apply find_none_iff. assumption.
Qed.

(* ================================================================== *)
(* an override replaces the single view of its slot, whichever interface either has
   (repair of C03-override-keeps-old-iface; fails to compile against the unrepaired text) *)

Lemma override_unregister_types_ok : override_unregister_types = [IView; ISecuredView].
Proof. vm_compute. reflexivity. Qed.

Theorem override_replaces ao R a b :
  R (r_slot a) IView = None -> R (r_slot a) ISecuredView = None -> R (r_slot a) IMultiView = None ->
  r_slot b = r_slot a -> r_phash b = r_phash a ->
  let R2 := register_view ao (register_view ao R a) b in
  R2 (r_slot a) (vt_of b) = Some (CView b) /\ forall vt, vt <> vt_of b -> R2 (r_slot a) vt = None.
Proof.
  intros H1 H2 H3 Hs Hp R2.
  destruct (register_view_fresh ao R a H1 H2 H3) as [Ha Hn]. set (R1 := register_view ao R a) in *.
  subst R2. unfold register_view. cbv zeta. rewrite register_view_types_ok, Hs.
  assert (Hf : first_registered R1 (r_slot a) [IView; ISecuredView; IMultiView] = Some (CView a)).
  { simpl. unfold vt_of in *. destruct (r_secured a).
    - rewrite (Hn IView) by discriminate. rewrite Ha. reflexivity.
    - rewrite Ha. reflexivity. }
  rewrite Hf, attr_phash_eq, Hp, text_eqb_refl. cbv beta iota. cbn [negb orb andb].
  rewrite override_unregister_types_ok. split.
  - apply reg_set_same.
  - intros vt Hvt. rewrite reg_set_other_vt.
    + assert (Hm : R1 (r_slot a) IMultiView = None) by (apply Hn; unfold vt_of; destruct (r_secured a); discriminate).
      destruct vt; [apply unregister_all_in; simpl; auto|apply unregister_all_in; simpl; auto|].
      apply unregister_all_none. assumption.
    + unfold vt_of in Hvt. destruct vt, (r_secured b); simpl; try reflexivity; contradiction.
Qed.

(* ================================================================== *)
(* the built-in predicates: each holds exactly when its documented condition does *)

Lemma sorted_texts_In x l : In x (sorted_texts l) <-> In x l.
Proof.
  unfold sorted_texts. split; apply Permutation_in; [|apply Permutation_sym]; apply isort_perm.
Qed.

Theorem pred_xhr rq b : eval_pred rq (PXhr b) = true <-> q_xhr rq = b.
Proof. simpl. apply eqb_true_iff. Qed.

Theorem pred_is_authenticated rq b : eval_pred rq (PIsAuth b) = true <-> q_auth rq = b.
Proof. simpl. apply eqb_true_iff. Qed.

(* request_method: the listed methods, and HEAD whenever GET is listed *)
Theorem pred_request_method v l :
  as_tuple v = Some l ->
  exists vals, mk_method v = Some (PMethod vals) /\
    forall rq, eval_pred rq (PMethod vals) = true <->
               (In (q_method rq) l \/ (q_method rq = rm_head /\ In rm_get l)).
Proof.
  intros Hv. unfold mk_method, as_sorted_tuple. rewrite Hv. cbn [obind].
  eexists. split; [reflexivity|]. intros rq. cbn [eval_pred]. rewrite mem_text_In.
  destruct (mem_text rm_get (sorted_texts l)) eqn:Eg; cbn [andb negb].
  - rewrite mem_text_In, sorted_texts_In in Eg.
    destruct (mem_text rm_head (sorted_texts l)) eqn:Eh; cbn [andb negb].
    + rewrite mem_text_In, sorted_texts_In in Eh. rewrite sorted_texts_In. split; [auto|].
      intros [H|[E _]]; [assumption|rewrite E; assumption].
    + rewrite sorted_texts_In, in_app_iff, sorted_texts_In. split.
      * intros [H|[E|[]]]; auto.
      * intros [H|[E _]]; [auto|]. right. left. auto.
  - rewrite sorted_texts_In. split; [auto|]. intros [H|[_ H]]; [assumption|].
    rewrite <- sorted_texts_In, <- mem_text_In in H. congruence.
Qed.

(* request_param: every (key, value) item needs the key present, and the value equal when one is given *)
Theorem pred_request_param rq reqs :
  eval_pred rq (PParam reqs) = true <->
  forall k v, In (k, v) reqs ->
    exists actual, assoc k (q_params rq) = Some actual /\ (v = None \/ v = Some actual).
Proof.
  simpl. rewrite forallb_forall. split.
  - intros H k v Hin. specialize (H _ Hin). simpl in H.
    destruct (assoc k (q_params rq)) as [actual|]; [|discriminate]. exists actual. split; [reflexivity|].
    destruct v as [v|]; [|auto]. apply text_eqb_eq in H. subst. auto.
  - intros H [k v] Hin. simpl. destruct (H k v Hin) as (actual & -> & Hv).
    destruct Hv as [->| ->]; [reflexivity|apply text_eqb_refl].
Qed.

(* how request_param items are parsed: 'k', 'k=v', and a leading '=' belonging to the key *)
Example param_req_forms :
  param_req [107]%N = ([107]%N, None)                                       (* 'k' *)
  /\ param_req [107; 61; 118]%N = ([107]%N, Some [118]%N)                   (* 'k=v' *)
  /\ param_req [32; 107; 32; 61; 32; 118; 32]%N = ([107]%N, Some [118]%N)   (* ' k = v ' *)
  /\ param_req [61; 107]%N = ([61; 107]%N, None)                            (* '=k' *)
  /\ param_req [61; 107; 61; 118]%N = ([61; 107]%N, Some [118]%N)           (* '=k=v' *)
  /\ param_req [107; 61; 118; 61; 119]%N = ([107]%N, Some [118; 61; 119]%N).  (* 'k=v=w' *)
Proof. vm_compute. repeat split. Qed.

Theorem pred_match_param rq reqs :
  eval_pred rq (PMatchParam reqs) = true <->
  exists md, q_matchdict rq = Some md /\ md <> [] /\ forall k v, In (k, v) reqs -> assoc k md = Some v.
Proof.
  simpl. destruct (q_matchdict rq) as [[|e md]|].
  - split; [discriminate|]. intros (md & H & Hne & _). inversion H; subst. contradiction.
  - rewrite forallb_forall. split.
    + intros H. eexists. split; [reflexivity|]. split; [discriminate|]. intros k v Hin.
      specialize (H _ Hin). cbn [fst snd] in H. unfold opt_text_eqb in H.
      destruct (assoc k (e :: md)) as [x|]; [|discriminate]. apply text_eqb_eq in H. congruence.
    + intros (md' & H & _ & Hall) [k v] Hin. inversion H; subst. cbn [fst snd].
      rewrite (Hall k v Hin). unfold opt_text_eqb. apply text_eqb_refl.
  - split; [discriminate|]. intros (md & H & _). discriminate.
Qed.

Theorem pred_header_present rq name :
  eval_pred rq (PHeader [(name, None)]) = true <-> assoc name (q_headers rq) <> None.
Proof.
  simpl. destruct (assoc name (q_headers rq)); simpl; split; congruence.
Qed.

Theorem pred_header_value rq name pat :
  eval_pred rq (PHeader [(name, Some pat)]) = true <->
  exists value, assoc name (q_headers rq) = Some value /\ regex_match (q_regex rq) pat value = true.
Proof.
  simpl. destruct (assoc name (q_headers rq)) as [value|]; simpl.
  - rewrite andb_true_r. split; [eauto|]. intros (v & H & Hm). inversion H; subst. assumption.
  - split; [discriminate|]. intros (v & H & _). discriminate.
Qed.

Theorem pred_containment rq i s :
  eval_pred rq (PContainment i s) = true <-> exists loc, In loc (q_lineage rq) /\ In i (snd loc).
Proof.
  simpl. rewrite existsb_exists. split; intros (loc & H1 & H2); exists loc; split; auto; apply memN_In; assumption.
Qed.

Theorem pred_physical_path rq val :
  eval_pred rq (PPhysPath val) = true <->
  q_has_name rq = true /\ rev (map fst (q_lineage rq)) = val.
Proof.
  simpl. rewrite andb_true_iff, texts_eqb_eq. reflexivity.
Qed.

Theorem pred_custom rq i : eval_pred rq (PCustom i) = true <-> In i (q_truth rq).
Proof. simpl. apply memN_In. Qed.

(* not_: negation exactly when the wrapped predicate has a non-empty phash *)
Theorem pred_not rq p :
  eval_pred rq (PNot p) = if nonempty (pred_phash p) then negb (eval_pred rq p) else eval_pred rq p.
Proof.
  simpl. destruct (pred_phash p) as [|c t] eqn:E; simpl; [reflexivity|].
  destruct not_mark; reflexivity.
Qed.


(* accept / path_info: one oracle look-up each *)
Theorem pred_accept rq values :
  eval_pred rq (PAccept values) = true <-> exists o, In o values /\ (0 < offer_q rq o)%N.
Proof.
  simpl. rewrite existsb_exists. split; intros (o & H1 & H2); exists o; split; auto; apply N.ltb_lt; assumption.
Qed.

Theorem pred_path_info rq pat :
  eval_pred rq (PPathInfo pat) = regex_match (q_regex rq) pat (q_upath rq).
Proof. reflexivity. Qed.

(* ================================================================== *)
(* MultiView.add keeps every list sorted by order, for any sequence of adds in which the order
   is a function of the phash (as it is when both come from PredicateList.make) *)

Lemma NoDup_app_snoc {A} (l : list A) x : NoDup l -> ~ In x l -> NoDup (l ++ [x]).
Proof.
  induction 1 as [|y l Hy Hl IH]; intros Hx; simpl; [constructor; [intros []|constructor]|].
  constructor.
  - intros Hin. apply in_app_or in Hin. destruct Hin as [Hin|[->|[]]]; [contradiction|]. apply Hx. simpl; auto.
  - apply IH. intros Hin. apply Hx. simpl; auto.
Qed.

Section MultiviewSorted.
  Variable f : text -> Z.

  Definition entries_f (l : list entry) : Prop := forall e, In e l -> e_order e = f (e_phash e).
  Definition list_ok (l : list entry) : Prop := entries_sorted l /\ entries_f l /\ NoDup (map e_phash l).
  Definition mv_sorted (m : mview) : Prop :=
    list_ok (mv_views m) /\ forall k s, In (k, s) (mv_media m) -> list_ok s.

  Lemma replace_phash_some ph new l l' :
    replace_phash ph new l = Some l' ->
    (exists e0, In e0 l /\ e_phash e0 = ph) /\ (forall x, In x l' -> x = new \/ In x l)
    /\ (e_phash new = ph -> map e_phash l' = map e_phash l).
  Proof.
    revert l'. induction l as [|e l IH]; intros l' H; simpl in H; [discriminate|].
    destruct (text_eqb_spec ph (e_phash e)) as [E|E].
    - inversion H; subst. split; [exists e; simpl; auto|]. split.
      + intros x [<-|Hx]; simpl; auto.
      + intros Hn. simpl. congruence.
    - destruct (replace_phash ph new l) as [r'|]; [|discriminate]. inversion H; subst.
      destruct (IH r' eq_refl) as ((e0 & H0 & H1) & H2 & H3). split; [exists e0; simpl; auto|]. split.
      + intros x [<-|Hx]; simpl; auto. destruct (H2 x Hx); auto.
      + intros Hn. simpl. rewrite H3 by assumption. reflexivity.
  Qed.

  Lemma replace_phash_ok ph new l l' :
    e_phash new = ph -> e_order new = f ph -> list_ok l ->
    replace_phash ph new l = Some l' -> list_ok l'.
  Proof.
    intros Hp Ho (Hs & Hf & Hn) H.
    destruct (replace_phash_some _ _ _ _ H) as (_ & Hin & Hmap).
    split; [|split].
    - clear Hn Hmap Hin. revert l' H. induction Hs as [|e l Hl IH He]; intros l' H; simpl in H; [discriminate|].
      assert (Hf' : entries_f l) by (intros x Hx; apply Hf; simpl; auto).
      destruct (text_eqb_spec ph (e_phash e)) as [E|E].
      + inversion H; subst l'. constructor; [assumption|].
        rewrite Forall_forall in *. intros x Hx. specialize (He x Hx). unfold entry_leb in *.
        rewrite Ho, E, <- (Hf e) by (simpl; auto). assumption.
      + destruct (replace_phash ph new l) as [r'|] eqn:Er; [|discriminate]. inversion H; subst l'.
        constructor; [apply IH; auto|].
        destruct (replace_phash_some _ _ _ _ Er) as ((e0 & H0 & H1) & H2 & _).
        rewrite Forall_forall in *. intros x Hx. destruct (H2 x Hx) as [->|Hx']; [|auto].
        specialize (He e0 H0). unfold entry_leb in *. rewrite Ho, <- H1, <- (Hf' e0 H0). assumption.
    - intros x Hx. destruct (Hin x Hx) as [->|Hx']; [congruence|auto].
    - rewrite Hmap by assumption. assumption.
  Qed.

  Lemma append_ok new l :
    e_order new = f (e_phash new) -> list_ok l -> (forall e, In e l -> e_phash e <> e_phash new) ->
    list_ok (isort entry_leb (l ++ [new])).
  Proof.
    intros Ho (Hs & Hf & Hn) Hne. split; [|split].
    - apply isort_sorted; [apply entry_leb_total|apply entry_leb_trans].
    - intros e He. apply (Permutation_in _ (isort_perm entry_leb _)) in He.
      apply in_app_or in He. destruct He as [He|[<-|[]]]; auto.
    - eapply Permutation_NoDup; [apply Permutation_map, Permutation_sym, isort_perm|].
      rewrite map_app. simpl. apply NoDup_app_snoc; [assumption|].
      intros Hin. apply in_map_iff in Hin. destruct Hin as (e & E & He). exact (Hne e He E).
  Qed.

  Lemma replace_phash_none_inv ph new l :
    replace_phash ph new l = None -> forall e, In e l -> e_phash e <> ph.
  Proof.
    induction l as [|e l IH]; simpl; intros H x Hx; [destruct Hx|].
    destruct (text_eqb_spec ph (e_phash e)) as [E|E]; [discriminate|].
    destruct (replace_phash ph new l); [discriminate|].
    destruct Hx as [<-|Hx]; [congruence|apply IH; auto].
  Qed.

  Lemma media_set_in k v m k' s' :
    In (k', s') (media_set k v m) -> (k', s') = (k, v) \/ In (k', s') m.
  Proof.
    induction m as [|[k0 v0] m IH]; simpl; [intros [H|[]]; auto|].
    destruct (text_eqb k k0); simpl; intros [H|H]; auto. destruct (IH H); auto.
  Qed.

  Lemma assoc_in {B} k (m : list (text * B)) s : assoc k m = Some s -> exists k', In (k', s) m.
  Proof.
    induction m as [|[k0 v0] m IH]; simpl; [discriminate|].
    destruct (text_eqb k k0); [intros H; inversion H; subst; eauto|].
    intros H. destruct (IH H) as (k' & Hk). eauto.
  Qed.

  Theorem mv_add_sorted m v order phash accept ao :
    order = f phash -> mv_sorted m -> mv_sorted (mv_add m v order phash accept ao).
  Proof.
    intros Ho (Hv & Hm). unfold mv_add.
    destruct (replace_phash phash (order, v, phash) (mv_views m)) as [views'|] eqn:E1.
    - split; [|exact Hm]. simpl. exact (replace_phash_ok phash (order, v, phash) _ _ eq_refl Ho Hv E1).
    - pose proof (replace_phash_none_inv _ _ _ E1) as Hne. destruct accept as [a|].
      + set (subset := match assoc (o_full a) (mv_media m) with Some s => s | None => [] end).
        assert (Hsub : list_ok subset).
        { unfold subset. destruct (assoc (o_full a) (mv_media m)) as [s|] eqn:Ea.
          - destruct (assoc_in _ _ _ Ea) as (k' & Hk). exact (Hm _ _ Hk).
          - repeat split; try constructor. intros e []. }
        destruct (replace_phash phash (order, v, phash) subset) as [subset'|] eqn:E2.
        * split; [exact Hv|]. simpl. intros k s Hks. apply media_set_in in Hks.
          destruct Hks as [Hks|Hks]; [|eauto]. injection Hks as Ek Es. rewrite Es.
          exact (replace_phash_ok phash (order, v, phash) _ _ eq_refl Ho Hsub E2).
        * split; [exact Hv|]. simpl. intros k s Hks. apply media_set_in in Hks.
          destruct Hks as [Hks|Hks]; [|eauto]. injection Hks as Ek Es. rewrite Es.
          apply append_ok; [exact Ho|assumption|]. exact (replace_phash_none_inv _ _ _ E2).
      + split; [|exact Hm]. simpl. apply append_ok; [exact Ho|assumption|exact Hne].
  Qed.

  (* any sequence of adds, starting from the empty MultiView *)
  Definition add_args := (reg * Z * text * option offer * option (list text))%type.
  Definition mv_add_args (m : mview) (a : add_args) : mview :=
    let '(v, order, phash, accept, ao) := a in mv_add m v order phash accept ao.

  Theorem multiview_sorted (adds : list add_args) :
    Forall (fun a => let '(_, order, phash, _, _) := a in order = f phash) adds ->
    mv_sorted (fold_left mv_add_args adds mv_empty).
  Proof.
    assert (G : forall m, mv_sorted m ->
                Forall (fun a : add_args => let '(_, order, phash, _, _) := a in order = f phash) adds ->
                mv_sorted (fold_left mv_add_args adds m)).
    { induction adds as [|a adds IH]; intros m Hm Hf; simpl; [assumption|].
      inversion Hf as [|? ? Ha Hf']; subst. apply IH; [|assumption].
      destruct a as [[[[v order] phash] accept] ao]. simpl. apply mv_add_sorted; assumption. }
    apply G. split; [|intros k s []]. repeat split; try constructor. intros e [].
  Qed.
End MultiviewSorted.
