(* C04 proofs, part 16: the error path (a callable raises).  The run with raising callables is the normal run cut
   right after the first raising callable started: same actions before it, in the same order, same Deferred forcings;
   nothing afterwards. *)
From Coq Require Import List NArith ZArith Bool Lia.
Import ListNotations.
Require Import Verif.Lib.Wire Verif.Gen.Facts_C04 Verif.Model.C04 Verif.Model.C04_err.
Require Import Verif.Proofs.C04_mono.

Lemma no_run_in e i : run_events e = [] -> ~ In (Run i) e.
Proof.
  intros H Hi. assert (In (Run i) (run_events e)) as H0 by (unfold run_events; apply filter_In; split; [exact Hi|reflexivity]).
  rewrite H in H0. destruct H0.
Qed.

Lemma exec_log_extends cfg : forall fuel st g pending log,
  exists s, snd (exec cfg fuel st g pending log) = log ++ s.
Proof.
  induction fuel as [|f IH]; intros; [exists []; simpl; rewrite app_nil_r; reflexivity|]. cbn [exec].
  destruct (match pending with [] => (st, g) | _ :: _ => restart st pending end) as [st1 g1].
  destruct (gen_next cfg st1 g1) as [a st2 g2 e|o e st'].
  - destruct (IH st2 g2 (aadds a) (log ++ e ++ [Run (aid a)])) as [s E]. exists ((e ++ [Run (aid a)]) ++ s).
    rewrite E, <- !app_assoc. reflexivity.
  - exists e. reflexivity.
Qed.

(* no callable raises: the plain run *)
Theorem exec_x_none cfg : forall fuel st g pending log,
  exec_x cfg (fun _ => false) fuel st g pending log =
  (Normal (fst (exec cfg fuel st g pending log)), snd (exec cfg fuel st g pending log)).
Proof.
  induction fuel as [|f IH]; intros; [reflexivity|]. cbn [exec_x exec].
  destruct (match pending with [] => (st, g) | _ :: _ => restart st pending end) as [st1 g1].
  destruct (gen_next cfg st1 g1) as [a st2 g2 e|o e st']; [apply IH|reflexivity].
Qed.

(* the run with raising callables is a prefix of the plain run; it ends Raised a exactly after the Run event of a,
   the first executed action whose callable raises, and otherwise equals the plain run *)
Theorem exec_x_prefix cfg bad : forall fuel st g pending log,
  let rx := exec_x cfg bad fuel st g pending log in
  let r := exec cfg fuel st g pending log in
  match fst rx with
  | Raised a => bad a = true /\ exists pre suf, snd rx = log ++ pre ++ [Run a] /\ snd r = snd rx ++ suf /\
                  forall i, In (Run i) pre -> bad i = false
  | Normal o => o = fst r /\ snd rx = snd r /\ exists s, snd r = log ++ s /\ forall i, In (Run i) s -> bad i = false
  end.
Proof.
  induction fuel as [|f IH]; intros st g pending log; cbv zeta.
  - simpl. split; [reflexivity|]. split; [reflexivity|]. exists []. rewrite app_nil_r. split; [reflexivity|intros i []].
  - cbn [exec_x exec].
    destruct (match pending with [] => (st, g) | _ :: _ => restart st pending end) as [st1 g1].
    pose proof (gen_next_no_run cfg st1 g1) as HNR.
    destruct (gen_next cfg st1 g1) as [a st2 g2 e|o e st'].
    + destruct (bad (aid a)) eqn:Eb.
      * cbn [fst snd]. split; [exact Eb|]. exists e.
        destruct (exec_log_extends cfg f st2 g2 (aadds a) (log ++ e ++ [Run (aid a)])) as [s Es].
        exists s. split; [reflexivity|]. split; [rewrite Es; reflexivity|]. intros i Hi. exfalso. apply (no_run_in _ i HNR). exact Hi.
      * specialize (IH st2 g2 (aadds a) (log ++ e ++ [Run (aid a)])). cbv zeta in IH.
        destruct (fst (exec_x cfg bad f st2 g2 (aadds a) (log ++ e ++ [Run (aid a)]))) as [o|a'].
        -- destruct IH as [A [B [s [C E]]]]. split; [exact A|]. split; [exact B|]. exists ((e ++ [Run (aid a)]) ++ s).
           split; [rewrite C, <- !app_assoc; reflexivity|]. intros i Hi. apply in_app_or in Hi. destruct Hi as [Hi|Hi]; [|apply E; exact Hi].
           apply in_app_or in Hi. destruct Hi as [Hi|[Hi|[]]]; [exfalso; apply (no_run_in _ i HNR); exact Hi|inversion Hi; subst; exact Eb].
        -- destruct IH as [A [pre [suf [B [C E]]]]]. split; [exact A|]. exists ((e ++ [Run (aid a)]) ++ pre), suf.
           split; [rewrite B, <- !app_assoc; reflexivity|]. split; [exact C|]. intros i Hi.
           apply in_app_or in Hi. destruct Hi as [Hi|Hi]; [|apply E; exact Hi].
           apply in_app_or in Hi. destruct Hi as [Hi|[Hi|[]]]; [exfalso; apply (no_run_in _ i HNR); exact Hi|inversion Hi; subst; exact Eb].
    + cbn [fst snd]. split; [reflexivity|]. split; [reflexivity|]. exists e. split; [reflexivity|]. intros i Hi. exfalso. apply (no_run_in _ i HNR). exact Hi.
Qed.

Theorem commit_x_none cfg acts :
  commit_x cfg (fun _ => false) acts = (Normal (fst (commit_with cfg acts)), snd (commit_with cfg acts)).
Proof. apply exec_x_none. Qed.

Theorem commit_x_prefix cfg bad acts :
  match fst (commit_x cfg bad acts) with
  | Raised a => bad a = true /\ exists pre suf, snd (commit_x cfg bad acts) = pre ++ [Run a] /\
                  snd (commit_with cfg acts) = snd (commit_x cfg bad acts) ++ suf /\
                  forall i, In (Run i) pre -> bad i = false
  | Normal o => o = fst (commit_with cfg acts) /\ snd (commit_x cfg bad acts) = snd (commit_with cfg acts) /\
                forall i, In (Run i) (snd (commit_with cfg acts)) -> bad i = false
  end.
Proof.
  pose proof (exec_x_prefix cfg bad (S (forest_size acts)) cstate0 gen0 acts []) as H. cbv zeta in H.
  unfold commit_x, commit_with. destruct (fst (exec_x cfg bad (S (forest_size acts)) cstate0 gen0 acts [])).
  - destruct H as [A [B [s [C E]]]]. split; [exact A|]. split; [exact B|]. change ([] ++ s) with s in C. rewrite C. exact E.
  - destruct H as [A [pre [suf [B [C E]]]]]. split; [exact A|]. exists pre, suf. change ([] ++ pre ++ [Run a]) with (pre ++ [Run a]) in B. tauto.
Qed.

(* the state left behind: with clear=True (the default, what commit() uses) self.actions is empty on every exit *)
Theorem actions_after_clear raised all : actions_after true raised all = [].
Proof. reflexivity. Qed.

Definition w_raise : list action :=
  [mkA 0 (Eager None) [] (Some 0%Z) []; mkA 1 (Eager None) [] (Some 0%Z) [mkA 3 (Eager None) [] (Some 0%Z) []];
   mkA 2 (Eager None) [] (Some 0%Z) []].
Example raise_witness :
  commit_x cfg_fixed (N.eqb 1) w_raise = (Raised 1, [Run 0; Run 1]%N) /\
  snd (commit_with cfg_fixed w_raise) = [Run 0; Run 1; Run 2; Run 3]%N.
Proof. vm_compute. split; reflexivity. Qed.
