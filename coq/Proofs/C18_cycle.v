(* C18 -- the pigeonhole half of cycle_iff_error: a non-empty finite set of nodes
   each of which has a predecessor inside the set contains a cycle. *)
From Coq Require Import List NArith ZArith Bool Lia Permutation.
Import ListNotations.
Require Import Verif.Lib.Wire Verif.Gen.Facts_C18 Verif.Model.C18.
Require Import Verif.Proofs.C18_kahn Verif.Proofs.C18_build Verif.Proofs.C18.

Section Pigeon.
Variable arcs : list arc.
Variable K : list node.
Hypothesis pred_in_K : forall k, In k K -> exists a, In (a, k) arcs /\ In a K.

Fixpoint chain (l : list node) : Prop :=
  match l with
  | a :: ((b :: _) as r) => In (a, b) arcs /\ chain r
  | _ => True
  end.

Lemma chain_suffix l1 l : chain (l1 ++ l) -> chain l.
Proof.
  induction l1 as [|x l1 IH]; simpl; [auto|].
  destruct (l1 ++ l) eqn:E; [destruct l1, l; try discriminate; auto|]. intros [_ H]. apply IH. exact H.
Qed.

Lemma chain_prefix l l3 : chain (l ++ l3) -> chain l.
Proof.
  induction l as [|x l IH]; simpl; [auto|].
  destruct l as [|y l]; simpl in *; [auto|]. intros [H1 H2]. split; [exact H1|apply IH; exact H2].
Qed.

Lemma chain_path l2 : forall x y, chain (x :: l2 ++ [y]) -> path arcs x y.
Proof.
  induction l2 as [|z l2 IH]; intros x y H; simpl in H.
  - apply path_one. tauto.
  - destruct H as [H1 H2]. eapply path_cons; [exact H1|apply IH; exact H2].
Qed.

Lemma long_chain n : forall k, In k K ->
  exists h t, length (h :: t) = S n /\ (forall x, In x (h :: t) -> In x K) /\ chain (h :: t).
Proof.
  induction n as [|n IH]; intros k Hk.
  - exists k, []. simpl. repeat split; auto. intros x [<-|[]]; exact Hk.
  - destruct (IH k Hk) as (h & t & Hlen & Hin & Hch).
    destruct (pred_in_K h (Hin h (or_introl eq_refl))) as (a & Ha & HaK).
    exists a, (h :: t). split; [simpl in *; lia|]. split.
    + intros x [<-|Hx]; [exact HaK|apply Hin; exact Hx].
    + simpl. split; [exact Ha|exact Hch].
Qed.

Lemma not_nodup_split (l : list node) : ~ NoDup l -> exists x l1 l2 l3, l = l1 ++ x :: l2 ++ x :: l3.
Proof.
  induction l as [|y l IH]; intros H; [exfalso; apply H; constructor|].
  destruct (in_dec text_eq_dec y l) as [Hi|Hi].
  - apply in_split in Hi. destruct Hi as (l2 & l3 & ->). exists y, [], l2, l3. reflexivity.
  - destruct IH as (x & l1 & l2 & l3 & ->).
    + intros Hnd. apply H. constructor; assumption.
    + exists x, (y :: l1), l2, l3. reflexivity.
Qed.

Lemma cycle_exists : K <> [] -> exists a, path arcs a a.
Proof.
  intros Hne. destruct K as [|k0 K'] eqn:EK; [congruence|]. rewrite <- EK in *.
  assert (Hk0 : In k0 K) by (rewrite EK; left; reflexivity).
  destruct (long_chain (length K) k0 Hk0) as (h & t & Hlen & Hin & Hch).
  assert (Hnd : ~ NoDup (h :: t)).
  { intros Hnd. pose proof (NoDup_incl_length Hnd Hin) as Hl. lia. }
  destruct (not_nodup_split _ Hnd) as (x & l1 & l2 & l3 & E).
  rewrite E in Hch. apply chain_suffix in Hch.
  replace (x :: l2 ++ x :: l3) with ((x :: l2 ++ [x]) ++ l3) in Hch
    by (simpl; rewrite <- app_assoc; reflexivity).
  apply chain_prefix in Hch. exists x. apply chain_path with (l2 := l2). exact Hch.
Qed.
End Pigeon.

(* => : a CyclicDependencyError is raised only when the present constraints contain a cycle *)
Lemma cyclic_error_has_cycle s l : sorted s = Cyclic l -> exists a, path (parcs s) a a.
Proof.
  intros E. destruct (cyclic_certificate_state s l E) as (Hne & Hcert).
  apply (cycle_exists (parcs s) (map fst l)).
  - intros k Hk. destruct (Hcert k Hk) as (a & H1 & H2). eauto.
  - destruct l; [congruence|discriminate].
Qed.

Lemma cycle_iff_error_state s :
  miss_before s = [] -> miss_after s = [] ->
  ((exists l, sorted s = Cyclic l) <-> exists a, path (parcs s) a a).
Proof.
  intros Hb Ha. split.
  - intros (l & E). eapply cyclic_error_has_cycle; eauto.
  - apply cyclic_error_state; assumption.
Qed.
