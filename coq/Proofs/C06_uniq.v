(* C06 -- separability implies "no other way": under [sep_val] and [caps_ok] the declarative enumeration
   of decompositions of the rendered path is exactly the one-element list of the supplied captures.
   So [only_way] (the hypothesis of the open specification and of C06_route_roundtrip_only_way) is the
   weaker hypothesis, and the separability theorems are corollaries of the enumeration ones. *)
From Coq Require Import List NArith ZArith Bool Lia.
Import ListNotations.
Require Import Verif.Lib.Wire Verif.Lib.Text Verif.Lib.PathNorm Verif.Lib.Utf8 Verif.Lib.Percent.
Require Verif.Gen.Facts_C01 Verif.Model.C01 Verif.Proofs.C01.
Require Import Verif.Gen.Facts_C17 Verif.Model.C17 Verif.Proofs.C17.
Require Import Verif.Gen.Facts_C06 Verif.Model.C06 Verif.Proofs.C06 Verif.Proofs.C06_open.

(* a flat_map over the descending lengths in which exactly one length contributes *)
Lemma flat_map_lens_one {B} (g : nat -> list B) n m :
  (m <= n)%nat -> (forall k, (k <= n)%nat -> k <> m -> g k = []) ->
  flat_map g (C01.lens_desc n) = g m.
Proof.
  induction n as [|n IH]; intros Hm Hz.
  - assert (m = 0%nat) by lia. subst m. cbn. apply app_nil_r.
  - cbn [C01.lens_desc flat_map]. destruct (Nat.eq_dec m (S n)) as [->|Hne].
    + assert (E : flat_map g (C01.lens_desc n) = []).
      { apply C01.flat_map_all_nil. intros x Hx. apply C01.In_lens_desc in Hx. apply Hz; lia. }
      rewrite E. apply app_nil_r.
    + rewrite (Hz (S n)) by lia. cbn [app]. apply IH; [lia|]. intros k Hk Hkm. apply Hz; [lia|exact Hkm].
Qed.

Lemma caps_eqb_refl : forall a, caps_eqb a a = true.
Proof.
  unfold caps_eqb. intros a. rewrite Nat.eqb_refl. cbn [andb].
  induction a as [|x a IH]; [reflexivity|]. cbn [combine forallb fst snd]. rewrite text_eqb_refl. exact IH.
Qed.

(* the enumeration of the rendered path under separability *)
Theorem sep_val_all_decs O st its : forall caps,
  sep_val O st its caps = true -> C01.caps_ok O st its caps = true ->
  C01.all_decs O st its (C01.render its caps) = [caps].
Proof.
  induction its as [|[l|n h] r IH]; intros caps Hs Hc.
  - cbn [C01.caps_ok C01.render C01.all_decs C01.all_decs_end] in *.
    destruct st; destruct caps as [|v [|]]; try discriminate; reflexivity.
  - cbn [sep_val C01.caps_ok C01.render C01.all_decs] in *.
    assert (E : strip_prefix l (l ++ C01.render r caps) = Some (C01.render r caps)) by (apply strip_prefix_spec; reflexivity).
    rewrite E. apply IH; assumption.
  - pose proof Hs as Hs0. pose proof Hc as Hc0.
    cbn [sep_val C01.caps_ok] in Hs, Hc. destruct caps as [|v c]; [discriminate|].
    apply andb_true_iff in Hs. destruct Hs as [_ Hs']. apply andb_true_iff in Hc. destruct Hc as [Hv Hc'].
    cbn [C01.render C01.all_decs].
    rewrite (flat_map_lens_one _ (length (v ++ C01.render r c)) (length v)).
    + rewrite firstn_app, Nat.sub_diag, firstn_all. cbn [firstn]. rewrite app_nil_r, Hv.
      rewrite skipn_app, Nat.sub_diag, skipn_all. cbn [skipn app].
      rewrite (IH c Hs' Hc'). reflexivity.
    + rewrite app_length. lia.
    + intros k Hk Hne.
      destruct (C01.hole_ok O h (firstn k (v ++ C01.render r c))) eqn:Hok; [|reflexivity].
      destruct (C01.all_decs O st r (skipn k (v ++ C01.render r c))) as [|c' rest] eqn:Ed; [reflexivity|].
      exfalso.
      assert (Hin : In c' (C01.all_decs O st r (skipn k (v ++ C01.render r c)))) by (rewrite Ed; left; reflexivity).
      apply C01.all_decs_char in Hin. destruct Hin as [Er Hc2].
      assert (Heq : v :: c = firstn k (v ++ C01.render r c) :: c').
      { apply (sep_val_unique O st (C01.Hole n h :: r)); try assumption.
        - cbn [C01.caps_ok]. rewrite Hok, Hc2. reflexivity.
        - cbn [C01.render]. rewrite <- Er. symmetry. apply firstn_skipn. }
      injection Heq as Hv' _. apply Hne.
      apply (f_equal (@length N)) in Hv'. rewrite firstn_length in Hv'. lia.
Qed.

(* separability + admissible captures => "no other way" *)
Theorem sep_val_only_way O p caps :
  sep_val O (C01.star p) (C01.items p) caps = true ->
  C01.caps_ok O (C01.star p) (C01.items p) caps = true ->
  only_way (hole_langs O (C01.items p)) (C01.star p) (C01.items p) caps = true.
Proof.
  intros Hs Hc. unfold only_way.
  rewrite (all_decs_open_faithful O _ _ _ _ (same_lang_refl _)).
  rewrite (sep_val_all_decs _ _ _ _ Hs Hc). apply caps_eqb_refl.
Qed.

(* the converse direction fails: "no other way" does not need separability.
   `/{x}-{y}` with x = 'a', y = 'b': '-' occurs in neither value, the class [^/] contains it, and it does not
   occur again -- that one IS separable; take x = 'a', y = 'b' on `/{x:[a-z]+}{y:\d+}` (two adjacent placeholders, never
   separable) with the path /a1: the only way is x = 'a', y = '1'. *)
Definition ex_adj_items : list C01.item :=
  [C01.Lit [47];
   C01.Hole [120] (C01.mkHre (C01.CSet false [C01.CRange 97 122]) 1 None);
   C01.Hole [121] (C01.mkHre (C01.CSet false [C01.CRange 48 57]) 1 None)].
Definition ex_adj_pat : C01.pat := C01.mkPat ex_adj_items None.
Definition ex_adj_O : C01.oracle := C01.mkOracle (fun _ => false) (fun _ => false).

Example only_way_weaker :
  only_way (hole_langs ex_adj_O ex_adj_items) None ex_adj_items [[97]; [49]] = true
  /\ sep_val ex_adj_O None ex_adj_items [[97]; [49]] = false.
Proof. split; vm_compute; reflexivity. Qed.
