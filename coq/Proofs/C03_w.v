(* C03 witnesses: non-vacuity of lookup_winner and the refutation of its full-strength form *)
From Coq Require Import List NArith ZArith Bool Lia.
Import ListNotations.
Require Import Verif.Lib.Wire Verif.Lib.Text Verif.Gen.Facts_C03 Verif.Model.C03 Verif.Proofs.C03.

Ltac nodup_tac :=
  repeat (constructor;
          [simpl; let HH := fresh in intros HH; repeat (destruct HH as [HH|HH]; [discriminate HH|]); exact HH|]);
  constructor.

Definition ex_offer : offer := mkOffer (hd [] accept_order_default) (hd [] accept_order_default) false.
Definition ex_args (tag : N) (ctx : N) (kw : kwargs) (acc : option offer) : view_args :=
  mkArgs 1 ctx [] kw acc false tag.
Definition ex_rq : request :=
  mkReq rm_get [] [] true None false [47%N] [] true [] [(hd [] accept_order_default, 1000%N)] []
        [1; 0]%N [5; 4; 0]%N [].
Definition ex_rq2 : request :=
  mkReq rm_head [] [] false None false [47%N] [] true [] [] [] [1; 0]%N [5; 4; 0]%N [].
Definition ex_kw2 : kwargs := [(nm_xhr, [(false, VBool true)]); (nm_request_method, [(false, VText rm_get)])].
Definition ex_a1 := ex_args 7 5 [] None.
Definition ex_a2 := ex_args 8 5 ex_kw2 None.
Definition ex_a3 := ex_args 9 4 [(nm_xhr, [(false, VBool true)])] None.
Definition ex_a4 := ex_args 9 5 [] (Some ex_offer).

(* non-vacuity of lookup_winner: three registrations without accept=, two sharing the most
   specific slot; the hypotheses hold, the two-predicate view wins, and on a request failing
   its predicates the search falls through to the predicate-less view of the same slot *)
Definition ex_regs : list reg :=
  Eval vm_compute in somes [reg_of_args pred_names view_classifier ex_a1;
                            reg_of_args pred_names view_classifier ex_a2;
                            reg_of_args pred_names view_classifier ex_a3].

Lemma ex_regs_made : Forall (made_by pred_names) ex_regs.
Proof.
  unfold ex_regs.
  constructor; [exists view_classifier, ex_a1; vm_compute; reflexivity|].
  constructor; [exists view_classifier, ex_a2; vm_compute; reflexivity|].
  constructor; [exists view_classifier, ex_a3; vm_compute; reflexivity|]. constructor.
Qed.

Example lookup_winner_nonvacuous :
  Forall reg_wf ex_regs /\ NoDup (map key ex_regs) /\ no_accept ex_regs
  /\ NoDup (q_req_sro ex_rq) /\ NoDup (q_ctx_sro ex_rq) /\ order_respects ex_regs
  /\ call_view (register_all accept_order_default ex_regs) view_classifier ex_rq = Ran 8
  /\ map r_tag (spec_winners view_classifier ex_regs ex_rq) = [8%N]
  /\ call_view (register_all accept_order_default ex_regs) view_classifier ex_rq2 = Ran 7.
Proof.
  split; [eapply Forall_impl; [|exact ex_regs_made]; intros v; apply made_by_wf|].
  split. { unfold ex_regs. nodup_tac. }
  split. { intros v Hv. unfold ex_regs in Hv. simpl in Hv.
           repeat (destruct Hv as [<-|Hv]; [reflexivity|]). contradiction. }
  split. { simpl. nodup_tac. }
  split. { simpl. nodup_tac. }
  split. { apply (order_respects_made pred_names); [vm_compute; lia|exact ex_regs_made|].
           unfold ex_regs. repeat constructor; unfold n_preds; simpl; lia. }
  vm_compute. repeat split.
Qed.

(* the full-strength statement is false of the code: with accept= in the slot, the one-predicate
   accept view is tried before the two-predicate view (finding C03-accept-first) *)
Definition ex_regs_accept : list reg :=
  Eval vm_compute in somes [reg_of_args pred_names view_classifier ex_a2;
                            reg_of_args pred_names view_classifier ex_a4].

Lemma ex_regs_accept_made : Forall (made_by pred_names) ex_regs_accept.
Proof.
  unfold ex_regs_accept.
  constructor; [exists view_classifier, ex_a2; vm_compute; reflexivity|].
  constructor; [exists view_classifier, ex_a4; vm_compute; reflexivity|]. constructor.
Qed.

Theorem lookup_winner_refuted :
  exists ao regs cls rq,
    Forall reg_wf regs /\ NoDup (map key regs) /\ NoDup (q_req_sro rq) /\ NoDup (q_ctx_sro rq)
    /\ order_respects regs /\ ~ no_accept regs
    /\ spec_ok cls regs rq (call_view (register_all ao regs) cls rq) = false.
Proof.
  exists accept_order_default, ex_regs_accept, view_classifier, ex_rq.
  split; [eapply Forall_impl; [|exact ex_regs_accept_made]; intros v; apply made_by_wf|].
  split. { unfold ex_regs_accept. nodup_tac. }
  split. { simpl. nodup_tac. }
  split. { simpl. nodup_tac. }
  split. { apply (order_respects_made pred_names); [vm_compute; lia|exact ex_regs_accept_made|].
           unfold ex_regs_accept. repeat constructor; unfold n_preds; simpl; lia. }
  split. { intros H. unfold ex_regs_accept in H.
           match type of H with no_accept [_; ?b] => specialize (H b (or_intror (or_introl eq_refl))) end.
           discriminate H. }
  vm_compute. reflexivity.
Qed.
