(* C12 proofs, part 2: the urllib.parse.urlsplit fragment [urlparse_m]. *)
From Coq Require Import List NArith ZArith Bool Lia ZifyBool ZifyN.
Import ListNotations.
Require Import Verif.Lib.Wire Verif.Lib.Text Verif.Lib.Utf8 Verif.Gen.Facts_C12 Verif.Model.C12 Verif.Proofs.C12.
Open Scope N_scope.

(* ------------------------------------------------------------------ urlparse_m through its named pieces *)
Definition bracket_verdict (v6 : list (text * bool)) (scheme n : text) : parsed :=
  if xorb (memN 91 n) (memN 93 n) then PValueError
  else if memN 91 n && memN 93 n then
    match lookup_b (bracket_content n) v6 with
    | Some true => checknetloc scheme n
    | Some false => PValueError
    | None => PUnmodelled
    end
  else checknetloc scheme n.

Lemma urlparse_m_unfold v6 u :
  urlparse_m v6 u =
  match url_netloc u with
  | None => PUrl (url_scheme u) []
  | Some n => bracket_verdict v6 (url_scheme u) n
  end.
Proof.
  unfold urlparse_m, url_netloc, url_scheme, bracket_verdict, bracket_content.
  fold (url_prepare u). destruct (split_scheme (url_prepare u)) as [sc url]. cbn [fst snd].
  destruct url as [|a url]; [reflexivity|].
  destruct a as [|p]; [reflexivity|].
  do 6 (destruct p as [p|p|]; try reflexivity).
  destruct url as [|b url]; [reflexivity|].
  destruct b as [|p]; [reflexivity|].
  do 6 (destruct p as [p|p|]; try reflexivity).
Qed.

(* ------------------------------------------------------------------ exactly which inputs raise ValueError *)
Lemma checknetloc_not_valueerror sc n : checknetloc sc n <> PValueError.
Proof. unfold checknetloc. destruct (forallb _ n); discriminate. Qed.

Lemma urlparse_valueerror_iff v6 u :
  urlparse_m v6 u = PValueError <->
  exists n, url_netloc u = Some n /\
            (memN 91 n <> memN 93 n \/
             (memN 91 n = true /\ memN 93 n = true /\ lookup_b (bracket_content n) v6 = Some false)).
Proof.
  rewrite urlparse_m_unfold. destruct (url_netloc u) as [n|].
  - unfold bracket_verdict. split.
    + intros H. exists n. split; [reflexivity|].
      destruct (memN 91 n), (memN 93 n); cbn [xorb andb] in H.
      * right. repeat split. destruct (lookup_b (bracket_content n) v6) as [[|]|]; try reflexivity;
          try discriminate. exfalso. exact (checknetloc_not_valueerror _ _ H).
      * left. discriminate.
      * left. discriminate.
      * exfalso. exact (checknetloc_not_valueerror _ _ H).
    + intros [n' [E [H|[H1 [H2 H3]]]]]; injection E as <-.
      * destruct (memN 91 n), (memN 93 n); cbn [xorb]; try reflexivity; exfalso; apply H; reflexivity.
      * rewrite H1, H2, H3. reflexivity.
  - split; [discriminate|]. intros [n [E _]]. discriminate.
Qed.

(* the pieces are made of characters of the input *)
Lemma In_take_while f s c : In c (take_while f s) -> In c s.
Proof.
  induction s as [|x s IH]; simpl; [tauto|]. destruct (f x); simpl; [|tauto]. intros [H|H]; auto.
Qed.
Lemma In_drop_while f s c : In c (drop_while f s) -> In c s.
Proof.
  induction s as [|x s IH]; simpl; [tauto|]. destruct (f x); simpl; [auto|]. intros [H|H]; auto.
Qed.
Lemma cut_at_spec c s a b : cut_at c s = Some (a, b) -> s = a ++ c :: b /\ ~ In c a.
Proof.
  revert a b; induction s as [|x s IH]; intros a b; simpl; [discriminate|].
  destruct (N.eqb_spec x c) as [->|Hne].
  - intros H. injection H as <- <-. split; [reflexivity|intros []].
  - destruct (cut_at c s) as [[a' b']|]; [|discriminate].
    intros H. injection H as <- <-. destruct (IH a' b' eq_refl) as [-> Hn].
    split; [reflexivity|]. simpl. intros [H|H]; [congruence|auto].
Qed.
Lemma cut_at_app c a b : ~ In c a -> cut_at c (a ++ c :: b) = Some (a, b).
Proof.
  induction a as [|x a IH]; simpl; intros H.
  - rewrite N.eqb_refl. reflexivity.
  - destruct (N.eqb_spec x c) as [->|Hne]; [exfalso; auto|]. rewrite IH by tauto. reflexivity.
Qed.

Lemma In_split_scheme_rest url c : In c (snd (split_scheme url)) -> In c url.
Proof.
  unfold split_scheme. destruct (cut_at 58 url) as [[pre post]|] eqn:E; [|auto].
  destruct pre as [|c0 pre]; [auto|].
  destruct (is_ascii_alpha c0 && forallb (fun c1 => memN c1 url_scheme_chars) (c0 :: pre)); [|auto].
  cbn [snd]. apply cut_at_spec in E as [-> _]. intros H. apply in_or_app. right. right. exact H.
Qed.

Lemma In_url_prepare u c : In c (url_prepare u) -> In c u.
Proof. unfold url_prepare. intros H. apply filter_In in H as [H _]. exact (In_drop_while _ _ _ H). Qed.

Lemma netloc_chars_from_input u n c : url_netloc u = Some n -> In c n -> In c u.
Proof.
  unfold url_netloc. intros E Hin.
  assert (Hsub : forall x, In x (snd (split_scheme (url_prepare u))) -> In x u)
    by (intros x Hx; apply In_url_prepare, In_split_scheme_rest, Hx).
  destruct (snd (split_scheme (url_prepare u))) as [|a [|b rest]]; try discriminate.
  - destruct a as [|p]; [discriminate|]. do 6 (destruct p as [p|p|]; try discriminate).
  - destruct a as [|p]; [discriminate|]. do 6 (destruct p as [p|p|]; try discriminate).
    destruct b as [|p]; [discriminate|]. do 6 (destruct p as [p|p|]; try discriminate).
    injection E as <-. apply Hsub. right. right. exact (In_take_while _ _ _ Hin).
Qed.

Lemma memN_false_not_In c l : memN c l = false <-> ~ In c l.
Proof.
  split.
  - intros H Hin. apply memN_In in Hin. congruence.
  - intros H. destruct (memN c l) eqn:E; [apply memN_In in E; contradiction|reflexivity].
Qed.

(* an origin without square brackets never raises; if it is latin-1 it always parses *)
Lemma no_brackets_no_valueerror v6 u :
  memN 91 u = false -> memN 93 u = false -> urlparse_m v6 u <> PValueError.
Proof.
  intros H1 H2 Hv. apply urlparse_valueerror_iff in Hv as [n [E Hn]].
  assert (E1 : memN 91 n = false)
    by (apply memN_false_not_In; intros Hin; apply (proj1 (memN_false_not_In 91 u) H1); eapply netloc_chars_from_input; eauto).
  assert (E2 : memN 93 n = false)
    by (apply memN_false_not_In; intros Hin; apply (proj1 (memN_false_not_In 93 u) H2); eapply netloc_chars_from_input; eauto).
  rewrite E1, E2 in Hn. destruct Hn as [Hn|[Hn _]]; [apply Hn; reflexivity|discriminate].
Qed.

Lemma latin1_no_brackets_parses v6 u :
  memN 91 u = false -> memN 93 u = false -> forallb (fun c => c <? 256) u = true ->
  exists sc n, urlparse_m v6 u = PUrl sc n.
Proof.
  intros H1 H2 Hl. rewrite urlparse_m_unfold. destruct (url_netloc u) as [n|] eqn:E; [|eauto].
  assert (E1 : memN 91 n = false)
    by (apply memN_false_not_In; intros Hin; apply (proj1 (memN_false_not_In 91 u) H1); eapply netloc_chars_from_input; eauto).
  assert (E2 : memN 93 n = false)
    by (apply memN_false_not_In; intros Hin; apply (proj1 (memN_false_not_In 93 u) H2); eapply netloc_chars_from_input; eauto).
  unfold bracket_verdict. rewrite E1, E2. cbn [xorb andb]. unfold checknetloc.
  assert (Hn : forallb (fun c => c <? 256) n = true).
  { apply forallb_forall. intros x Hx. rewrite forallb_forall in Hl. apply Hl. eapply netloc_chars_from_input; eauto. }
  rewrite Hn. eauto.
Qed.

(* a ValueError needs a '//' authority containing a bracket *)
Lemma valueerror_needs_bracket v6 u :
  urlparse_m v6 u = PValueError -> In 91 u \/ In 93 u.
Proof.
  intros H. destruct (memN 91 u) eqn:E1; [left; apply memN_In; exact E1|].
  destruct (memN 93 u) eqn:E2; [right; apply memN_In; exact E2|].
  exfalso. exact (no_brackets_no_valueerror v6 u E1 E2 H).
Qed.

(* ------------------------------------------------------------------ scheme "://" authority [rest] *)
Definition netloc_char (c : N) : bool :=
  (c <? 256) && negb (memN c [47; 63; 35; 91; 93]) && negb (memN c url_unsafe).

Lemma scheme_chars_facts :
  forallb (fun c => negb (memN c url_unsafe) && negb (c =? 58)) url_scheme_chars = true /\
  forallb (fun c => c <=? 32) url_c0 = true /\ url_unsafe = [9; 10; 13].
Proof. vm_compute. repeat split; reflexivity. Qed.

Lemma scheme_char_ok c :
  memN c url_scheme_chars = true -> negb (memN c url_unsafe) = true /\ c <> 58.
Proof.
  intros H. destruct scheme_chars_facts as [Hf _]. rewrite forallb_forall in Hf.
  apply memN_In in H. specialize (Hf c H). apply andb_true_iff in Hf as [H1 H2].
  split; [exact H1|]. apply negb_true_iff in H2. apply N.eqb_neq in H2. exact H2.
Qed.

Lemma alpha_not_c0 c : is_ascii_alpha c = true -> memN c url_c0 = false.
Proof.
  intros Ha. destruct (memN c url_c0) eqn:E; [|reflexivity].
  destruct scheme_chars_facts as [_ [Hf _]]. rewrite forallb_forall in Hf.
  apply memN_In in E. specialize (Hf c E). unfold is_ascii_alpha in Ha. lia.
Qed.

Lemma take_while_app_stop f n rest :
  forallb f n = true -> (rest = [] \/ exists d r, rest = d :: r /\ f d = false) ->
  take_while f (n ++ rest) = n.
Proof.
  intros Hn Hr. induction n as [|x n IH]; cbn [app take_while].
  - destruct Hr as [->|[d [r [-> Hd]]]]; [reflexivity|]. cbn [take_while]. rewrite Hd. reflexivity.
  - cbn [forallb] in Hn. apply andb_true_iff in Hn as [H1 H2]. rewrite H1, IH by assumption. reflexivity.
Qed.

Lemma lower_app a b : lower (a ++ b) = lower a ++ lower b.
Proof. unfold lower. apply map_app. Qed.

(* Every origin of the shape browsers send -- scheme "://" authority, optionally followed by a
   path, query or fragment -- is split into the lower-cased scheme and the authority, unchanged. *)
Lemma urlparse_scheme_authority v6 c0 s n rest :
  is_ascii_alpha c0 = true -> forallb (fun c => memN c url_scheme_chars) (c0 :: s) = true ->
  forallb netloc_char n = true ->
  (rest = [] \/ exists d r, rest = d :: r /\ memN d netloc_delims = true) ->
  urlparse_m v6 ((c0 :: s) ++ [58; 47; 47] ++ n ++ rest) = PUrl (lower (c0 :: s)) n.
Proof.
  intros Ha Hs Hn Hrest.
  destruct scheme_chars_facts as [_ [_ Hunsafe]].
  assert (Hs1 : forallb (fun c => negb (memN c url_unsafe)) (c0 :: s) = true)
    by (eapply forallb_impl; [|exact Hs]; intros x Hx; apply scheme_char_ok in Hx; tauto).
  assert (Hs2 : ~ In 58 (c0 :: s)).
  { intros Hin. rewrite forallb_forall in Hs. apply Hs in Hin. apply scheme_char_ok in Hin. tauto. }
  assert (Hn1 : forallb (fun c => negb (memN c url_unsafe)) n = true).
  { eapply forallb_impl; [|exact Hn]. intros x Hx. unfold netloc_char in Hx.
    apply andb_true_iff in Hx as [_ Hx]. exact Hx. }
  assert (Hn2 : forallb (fun c => negb (memN c netloc_delims)) n = true).
  { eapply forallb_impl; [|exact Hn]. intros x Hx. unfold netloc_char in Hx.
    apply andb_true_iff in Hx as [Hx _]. apply andb_true_iff in Hx as [_ Hx].
    unfold netloc_delims. cbn [memN] in *. lia. }
  assert (Hn3 : memN 91 n = false /\ memN 93 n = false).
  { split; apply memN_false_not_In; intros Hin; rewrite forallb_forall in Hn; apply Hn in Hin;
      vm_compute in Hin; discriminate. }
  assert (Hn4 : forallb (fun c => c <? 256) n = true).
  { eapply forallb_impl; [|exact Hn]. intros x Hx. unfold netloc_char in Hx.
    apply andb_true_iff in Hx as [Hx _]. apply andb_true_iff in Hx as [Hx _]. exact Hx. }
  (* the prepared url *)
  set (rest' := filter (fun c => negb (memN c url_unsafe)) rest).
  assert (Hrest' : rest' = [] \/ exists d r, rest' = d :: r /\ negb (memN d netloc_delims) = false).
  { destruct Hrest as [->|[d [r [-> Hd]]]]; [left; reflexivity|]. right.
    unfold rest'. cbn [filter].
    assert (Hdu : negb (memN d url_unsafe) = true).
    { rewrite Hunsafe. unfold netloc_delims in Hd. cbn [memN] in *. lia. }
    rewrite Hdu. eexists _, _. split; [reflexivity|]. rewrite Hd. reflexivity. }
  assert (Eprep : url_prepare ((c0 :: s) ++ [58; 47; 47] ++ n ++ rest) = (c0 :: s) ++ 58 :: 47 :: 47 :: n ++ rest').
  { unfold url_prepare. cbn [app drop_while]. rewrite (alpha_not_c0 c0 Ha).
    change (c0 :: s ++ 58 :: 47 :: 47 :: n ++ rest) with ((c0 :: s) ++ [58; 47; 47] ++ n ++ rest).
    rewrite !filter_app, (filter_all _ _ Hs1), (filter_all _ _ Hn1).
    assert (E : filter (fun c => negb (memN c url_unsafe)) [58; 47; 47] = [58; 47; 47])
      by (rewrite Hunsafe; reflexivity).
    rewrite E. reflexivity. }
  assert (Esplit : split_scheme ((c0 :: s) ++ 58 :: 47 :: 47 :: n ++ rest') = (lower (c0 :: s), 47 :: 47 :: n ++ rest')).
  { unfold split_scheme. rewrite (cut_at_app 58 (c0 :: s) _ Hs2). rewrite Ha, Hs. reflexivity. }
  rewrite urlparse_m_unfold. unfold url_netloc, url_scheme. rewrite Eprep, Esplit. cbn [fst snd].
  rewrite (take_while_app_stop _ n rest' Hn2 Hrest').
  unfold bracket_verdict. destruct Hn3 as [-> ->]. cbn [xorb andb].
  unfold checknetloc. rewrite Hn4. reflexivity.
Qed.

(* host, host ":" port: the two forms of an Origin header *)
Definition host_char (c : N) : bool := netloc_char c && negb (c =? 58).
Definition digit (c : N) : bool := (48 <=? c) && (c <=? 57).

Lemma urlparse_origin_host v6 c0 s h :
  is_ascii_alpha c0 = true -> forallb (fun c => memN c url_scheme_chars) (c0 :: s) = true ->
  forallb host_char h = true ->
  urlparse_m v6 ((c0 :: s) ++ [58; 47; 47] ++ h) = PUrl (lower (c0 :: s)) h.
Proof.
  intros Ha Hs Hh. rewrite <- (app_nil_r h) at 1.
  apply urlparse_scheme_authority; auto.
  eapply forallb_impl; [|exact Hh]. intros x Hx. unfold host_char in Hx. apply andb_true_iff in Hx. tauto.
Qed.

Lemma urlparse_origin_host_port v6 c0 s h p :
  is_ascii_alpha c0 = true -> forallb (fun c => memN c url_scheme_chars) (c0 :: s) = true ->
  forallb host_char h = true -> forallb digit p = true ->
  urlparse_m v6 ((c0 :: s) ++ [58; 47; 47] ++ h ++ [58] ++ p) = PUrl (lower (c0 :: s)) (h ++ [58] ++ p).
Proof.
  intros Ha Hs Hh Hp. rewrite <- (app_nil_r (h ++ [58] ++ p)) at 1.
  apply urlparse_scheme_authority; auto.
  rewrite !forallb_app. rewrite andb_true_iff. split.
  - eapply forallb_impl; [|exact Hh]. intros x Hx. unfold host_char in Hx. apply andb_true_iff in Hx. tauto.
  - rewrite andb_true_iff. split; [vm_compute; reflexivity|].
    eapply forallb_impl; [|exact Hp]. intros x Hx. unfold digit in Hx. unfold netloc_char.
    destruct scheme_chars_facts as [_ [_ ->]]. cbn [memN]. lia.
Qed.
