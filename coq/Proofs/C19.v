(* C19 -- lemmas and proofs. *)
From Coq Require Import List NArith ZArith Bool Lia ZifyBool ZifyN.
Import ListNotations.
Require Import Verif.Lib.Wire Verif.Lib.Utf8 Verif.Gen.Facts_C19 Verif.Model.C19.
Ltac Zify.zify_post_hook ::= Z.div_mod_to_equations.
Open Scope N_scope.

(* the choices read from the source are the ones the property demands *)
Lemma facts_policy_ok : facts_policy = spec_policy.
Proof. vm_compute. reflexivity. Qed.

Lemma model_meets_spec : forall i, model i = spec i.
Proof. intros i. unfold model, spec. rewrite facts_policy_ok. reflexivity. Qed.

(* ------------------------------------------------------------------ res helpers *)
Lemma rmap_ok {A B} (f : A -> B) r b : rmap f r = Ok b <-> exists a, r = Ok a /\ b = f a.
Proof.
  destruct r; simpl; split; try (intros [a0 [H _]]; discriminate); try discriminate.
  - intros H; injection H as <-. eauto.
  - intros [a0 [H ->]]. injection H as ->. reflexivity.
Qed.

Lemma rbind_ok {A B} (r : res A) (f : A -> res B) b : rbind r f = Ok b <-> exists a, r = Ok a /\ f a = Ok b.
Proof.
  destruct r; simpl; split; try (intros [a0 [H _]]; discriminate); try discriminate.
  - eauto.
  - intros [a0 [H H2]]. injection H as ->. assumption.
Qed.

(* ------------------------------------------------------------------ string.Template: single pass *)
Definition tok_text (e : env) (t : tok) : text :=
  match t with
  | TChar c => [c]
  | TDollar => [36]
  | TRef n => or_empty (lookup n e)
  | TInvalid => []
  end.
Definition tok_ok (e : env) (t : tok) : Prop :=
  match t with TRef n => lookup n e <> None | TInvalid => False | _ => True end.

(* the token list depends on the template only; the result is the concatenation, token by
   token, of template characters, '$' for '$$', and the mapping's value for a placeholder:
   no value is scanned again *)
Lemma render_single_pass ts e out :
  render ts e = Ok out <-> Forall (tok_ok e) ts /\ out = flat_map (tok_text e) ts.
Proof.
  revert out; induction ts as [|t r IH]; intros out; simpl.
  - split; [intros H; injection H as <-; split; [constructor|reflexivity] | intros [_ ->]; reflexivity].
  - destruct t as [c| |n|]; simpl.
    + rewrite rmap_ok. split.
      * intros [a [Ha ->]]. apply IH in Ha as [Hf ->]. split; [constructor; [exact I|assumption]|reflexivity].
      * intros [Hf ->]. inversion Hf; subst. eexists; split; [apply IH; split; [assumption|reflexivity]|reflexivity].
    + rewrite rmap_ok. split.
      * intros [a [Ha ->]]. apply IH in Ha as [Hf ->]. split; [constructor; [exact I|assumption]|reflexivity].
      * intros [Hf ->]. inversion Hf; subst. eexists; split; [apply IH; split; [assumption|reflexivity]|reflexivity].
    + destruct (lookup n e) as [v|] eqn:El; simpl.
      * rewrite rmap_ok. split.
        -- intros [a [Ha ->]]. apply IH in Ha as [Hf ->].
           split; [constructor; [simpl; rewrite El; discriminate|assumption]|reflexivity].
        -- intros [Hf ->]. inversion Hf; subst.
           eexists; split; [apply IH; split; [assumption|reflexivity]|reflexivity].
      * split; [discriminate|]. intros [Hf _]. inversion Hf as [|? ? H1 _]; subst. simpl in H1. congruence.
    + split; [discriminate|]. intros [Hf _]. inversion Hf as [|? ? H1 _]; subst. destruct H1.
Qed.

Lemma substitute_single_pass tmpl e out :
  substitute tmpl e = Ok out <->
  Forall (tok_ok e) (tokenise tmpl) /\ out = flat_map (tok_text e) (tokenise tmpl).
Proof. apply render_single_pass. Qed.

(* template characters in the token list come from the template *)
Lemma tokenise_from_chars m s c : In (TChar c) (tokenise_from m s) -> In c s.
Proof.
  revert m; induction s as [|x r IH]; intros m; simpl.
  - destruct m; simpl; intuition discriminate.
  - destruct m as [| |acc|acc].
    + destruct (x =? 36); simpl; [intros H; right; eapply IH; exact H|].
      intros [H|H]; [injection H as ->; left; reflexivity|right; eapply IH; exact H].
    + destruct (x =? 36); simpl; [intros [H|H]; [discriminate|right; eapply IH; exact H]|].
      destruct (is_id_start x); [intros H; right; eapply IH; exact H|].
      destruct (x =? 123); [intros H; right; eapply IH; exact H|].
      simpl; intuition discriminate.
    + destruct (is_id_char x); [intros H; right; eapply IH; exact H|].
      simpl. intros [H|H]; [discriminate|].
      destruct (x =? 36); simpl in H; [right; eapply IH; exact H|].
      destruct H as [H|H]; [injection H as ->; left; reflexivity|right; eapply IH; exact H].
    + destruct (if is_nil acc then is_id_start x else is_id_char x); [intros H; right; eapply IH; exact H|].
      destruct ((x =? 125) && negb (is_nil acc)); simpl; [|intuition discriminate].
      intros [H|H]; [discriminate|right; eapply IH; exact H].
Qed.

(* ---- a value plugged into a fixed frame *)
Inductive piece := Lit (s : text) | Hole.
Definition frame := list piece.
Definition fill (ps : frame) (v : text) : text :=
  flat_map (fun p => match p with Lit s => s | Hole => v end) ps.
Definition penv := list (text * frame).
Definition inst (v : text) (E : penv) : env := map (fun kp => (fst kp, fill (snd kp) v)) E.
Fixpoint plookup (k : text) (E : penv) : option frame :=
  match E with [] => None | (k', p) :: r => if text_eqb k k' then Some p else plookup k r end.
Fixpoint paset (k : text) (p : frame) (E : penv) : penv :=
  match E with
  | [] => [(k, p)]
  | (k', p') :: r => if text_eqb k k' then (k', p) :: r else (k', p') :: paset k p r
  end.

Lemma fill_app a b v : fill (a ++ b) v = fill a v ++ fill b v.
Proof. unfold fill. apply flat_map_app. Qed.

Lemma lookup_inst k v E : lookup k (inst v E) = option_map (fun p => fill p v) (plookup k E).
Proof.
  induction E as [|[k' p] r IH]; simpl; [reflexivity|].
  destruct (text_eqb k k'); [reflexivity|exact IH].
Qed.

Lemma aset_inst k p v E : aset k (fill p v) (inst v E) = inst v (paset k p E).
Proof.
  induction E as [|[k' p'] r IH]; simpl; [reflexivity|].
  destruct (text_eqb k k'); simpl; [reflexivity|]. rewrite IH. reflexivity.
Qed.

(* rendering against a mapping whose values are frames around v yields a frame around v,
   the same frame (or the same error) for every v *)
Lemma render_frame ts E : exists R : res frame, forall v, render ts (inst v E) = rmap (fun ps => fill ps v) R.
Proof.
  induction ts as [|t r [R IH]]; simpl.
  - exists (Ok []). reflexivity.
  - destruct t as [c| |n|].
    + exists (rmap (cons (Lit [c])) R). intros v. rewrite IH. destruct R; reflexivity.
    + exists (rmap (cons (Lit [36])) R). intros v. rewrite IH. destruct R; reflexivity.
    + destruct (plookup n E) as [p|] eqn:El.
      * exists (rmap (app p) R). intros v. rewrite lookup_inst, El. simpl. rewrite IH.
        destruct R; simpl; try reflexivity. rewrite fill_app. reflexivity.
      * exists KeyErr. intros v. rewrite lookup_inst, El. reflexivity.
    + exists ValErr. reflexivity.
Qed.

Lemma substitute_frame tmpl E :
  exists R : res frame, forall v, substitute tmpl (inst v E) = rmap (fun ps => fill ps v) R.
Proof. apply render_frame. Qed.

Lemma fill_lit s v : fill [Lit s] v = s.
Proof. unfold fill; simpl. apply app_nil_r. Qed.
Lemma fill_hole v : fill [Hole] v = v.
Proof. unfold fill; simpl. apply app_nil_r. Qed.
Lemma fill_cons_lit s ps v : fill (Lit s :: ps) v = s ++ fill ps v.
Proof. reflexivity. Qed.

Lemma aset_inst_lit k s v E : aset k s (inst v E) = inst v (paset k [Lit s] E).
Proof. rewrite <- aset_inst. rewrite fill_lit. reflexivity. Qed.

(* ------------------------------------------------------------------ prepare under the specification policy *)
Definition with_detail (i : input) (d : option text) : input :=
  mkInput (i_cls i) d (i_comment i) (i_expl i) (i_location i) (i_headers i) (i_environ i) (i_tmpl i) (i_offers i).

Definition expl_of (c : cls) (i : input) : text := match i_expl i with Some x => x | None => c_expl c end.
Definition html_comment_of (b : branch) (i : input) : text :=
  if is_nil (or_empty (i_comment i)) then []
  else b_cpre b ++ maybe_esc (b_esc b) (b_comment_escaped b) (or_empty (i_comment i)) ++ b_csuf b.

Definition base_args (b : branch) (c : cls) (i : input) : env :=
  [ (s_k_br, b_br b);
    (s_k_expl, esc_apply (b_esc b) (expl_of c i));
    (s_k_detail, esc_apply (b_esc b) (or_empty (i_detail i)));
    (s_k_comment, esc_apply (b_esc b) (or_empty (i_comment i)));
    (s_k_html_comment, html_comment_of b i) ].

Definition env_step (f : escfn) (a : env) (kv : text * text) : env :=
  if env_skipped (fst kv) then a else aset (fst kv) (esc_apply f (snd kv)) a.
Definition hdr_step (f : escfn) (a : env) (kv : text * text) : env :=
  aset (lower (fst kv)) (esc_apply f (snd kv)) a.

Lemma build_args_spec b c i custom :
  build_args spec_policy b c i custom =
  if custom then fold_left (hdr_step (b_esc b)) (headers_of c i) (fold_left (env_step (b_esc b)) (i_environ i) (base_args b c i))
  else base_args b c i.
Proof. reflexivity. Qed.

Definition is_custom (c : cls) (i : input) : bool :=
  match i_tmpl i with Some _ => true | None => negb (c_default_tmpl c) end.
Definition tmpl_of (c : cls) (i : input) : text := match i_tmpl i with Some t => t | None => c_tmpl c end.

Lemma page_text_unfold P b c i :
  page_text P b c i = rbind (substitute (tmpl_of c i) (build_args P b c i (is_custom c i))) (page_of b c).
Proof. reflexivity. Qed.

(* ---- the detail text is plugged into a frame that does not depend on it *)
Definition penv_step (f : escfn) (E : penv) (kv : text * text) : penv :=
  if env_skipped (fst kv) then E else paset (fst kv) [Lit (esc_apply f (snd kv))] E.
Definition phdr_step (f : escfn) (E : penv) (kv : text * text) : penv :=
  paset (lower (fst kv)) [Lit (esc_apply f (snd kv))] E.

Lemma fold_env_inst f v l : forall E,
  fold_left (env_step f) l (inst v E) = inst v (fold_left (penv_step f) l E).
Proof.
  induction l as [|kv r IH]; intros E; simpl; [reflexivity|].
  unfold env_step at 2, penv_step at 2. destruct (env_skipped (fst kv)); [apply IH|].
  rewrite aset_inst_lit. apply IH.
Qed.

Lemma fold_hdr_inst f v l : forall E,
  fold_left (hdr_step f) l (inst v E) = inst v (fold_left (phdr_step f) l E).
Proof.
  induction l as [|kv r IH]; intros E; simpl; [reflexivity|].
  unfold hdr_step at 2, phdr_step at 2. rewrite aset_inst_lit. apply IH.
Qed.

Definition base_penv (b : branch) (c : cls) (i : input) : penv :=
  [ (s_k_br, [Lit (b_br b)]);
    (s_k_expl, [Lit (esc_apply (b_esc b) (expl_of c i))]);
    (s_k_detail, [Hole]);
    (s_k_comment, [Lit (esc_apply (b_esc b) (or_empty (i_comment i)))]);
    (s_k_html_comment, [Lit (html_comment_of b i)]) ].

Lemma base_args_inst b c i d :
  base_args b c (with_detail i d) = inst (esc_apply (b_esc b) (or_empty d)) (base_penv b c i).
Proof.
  unfold base_args, base_penv, inst. cbn [map fst snd].
  rewrite !fill_lit, fill_hole. reflexivity.
Qed.

Lemma args_frame b c i custom : exists E : penv, forall d,
  build_args spec_policy b c (with_detail i d) custom = inst (esc_apply (b_esc b) (or_empty d)) E.
Proof.
  destruct custom.
  - exists (fold_left (phdr_step (b_esc b)) (headers_of c i) (fold_left (penv_step (b_esc b)) (i_environ i) (base_penv b c i))).
    intros d. rewrite build_args_spec, base_args_inst, fold_env_inst.
    change (headers_of c (with_detail i d)) with (headers_of c i).
    change (i_environ (with_detail i d)) with (i_environ i).
    rewrite fold_hdr_inst. reflexivity.
  - exists (base_penv b c i). intros d. rewrite build_args_spec. apply base_args_inst.
Qed.

Definition jpiece (p : piece) : piece := match p with Lit s => Lit (flat_map json_char s) | Hole => Hole end.
Lemma json_chars_fill ps v : flat_map json_char (fill ps v) = fill (map jpiece ps) (flat_map json_char v).
Proof.
  induction ps as [|p r IH]; [reflexivity|].
  change (fill (p :: r) v) with ((match p with Lit s => s | Hole => v end) ++ fill r v).
  rewrite flat_map_app, IH. destruct p; reflexivity.
Qed.

Definition plug (b : branch) (v : text) : text :=
  match b_page b with PageJson => flat_map json_char v | _ => v end.

Definition k_message : text := [109; 101; 115; 115; 97; 103; 101].
Definition k_code : text := [99; 111; 100; 101].
Definition k_title : text := [116; 105; 116; 108; 101].
Lemma json_keys_ok : json_keys = [(k_message, 0); (k_code, 1); (k_title, 2)].
Proof. vm_compute. reflexivity. Qed.

Lemma json_page_eq c body :
  page_of (mkBranch (Some t_json) t_json true EscNone [10] [] [] true PageJson) c body =
  Ok (json_object [(k_message, body); (k_code, status_of c); (k_title, c_title c)]).
Proof. unfold page_of. cbn [b_page]. rewrite json_keys_ok. reflexivity. Qed.

Lemma json_object3 k1 k2 k3 a b c :
  json_object [(k1, a); (k2, b); (k3, c)] =
  ([123] ++ json_string k1 ++ [58; 32; 34]) ++ flat_map json_char a ++
  ([34; 44; 32] ++ json_member (k2, b) ++ [44; 32] ++ json_member (k3, c) ++ [125]).
Proof.
  unfold json_object, json_members, json_member at 1, json_string at 2. cbn [fst snd].
  repeat (rewrite <- app_assoc || rewrite <- app_comm_cons). reflexivity.
Qed.

Lemma page_of_frame b c ps : exists R : res frame, forall v,
  page_of b c (fill ps v) = rmap (fun q => fill q (plug b v)) R.
Proof.
  unfold page_of, plug. destruct (b_page b).
  - destruct (substitute_frame html_template [(k_status, [Lit (status_of c)]); (k_body, ps)]) as [R HR].
    exists R. intros v. rewrite <- HR. unfold inst. cbn [map fst snd]. rewrite fill_lit. reflexivity.
  - rewrite json_keys_ok. cbn [map fst snd].
    exists (Ok (Lit ([123] ++ json_string k_message ++ [58; 32; 34])
                :: map jpiece ps
                ++ [Lit ([34; 44; 32] ++ json_member (k_code, status_of c) ++ [44; 32]
                         ++ json_member (k_title, c_title c) ++ [125])])).
    intros v. cbn [rmap]. f_equal.
    rewrite fill_cons_lit, fill_app, fill_lit, <- json_chars_fill.
    apply json_object3.
  - destruct (substitute_frame plain_template [(k_status, [Lit (status_of c)]); (k_body, ps)]) as [R HR].
    exists R. intros v. rewrite <- HR. unfold inst. cbn [map fst snd]. rewrite fill_lit. reflexivity.
Qed.

(* For every class, branch, template (class or custom), headers, environ, comment and
   explanation there is ONE frame (or one error) such that for every detail text the page is
   that frame with the (escaped) detail plugged in: nothing inside the detail is expanded or
   interpreted, and nothing outside depends on it. *)
Lemma no_placeholder_expansion b c i : exists R : res frame, forall d,
  page_text spec_policy b c (with_detail i d) =
  rmap (fun q => fill q (plug b (esc_apply (b_esc b) (or_empty d)))) R.
Proof.
  destruct (args_frame b c i (is_custom c i)) as [E HE].
  destruct (substitute_frame (tmpl_of c i) E) as [R0 HR0].
  destruct R0 as [ps| | |].
  - destruct (page_of_frame b c ps) as [R HR]. exists R. intros d.
    rewrite page_text_unfold.
    change (is_custom c (with_detail i d)) with (is_custom c i).
    change (tmpl_of c (with_detail i d)) with (tmpl_of c i).
    rewrite HE, HR0. simpl. apply HR.
  - exists KeyErr. intros d. rewrite page_text_unfold.
    change (is_custom c (with_detail i d)) with (is_custom c i).
    change (tmpl_of c (with_detail i d)) with (tmpl_of c i).
    rewrite HE, HR0. reflexivity.
  - exists ValErr. intros d. rewrite page_text_unfold.
    change (is_custom c (with_detail i d)) with (is_custom c i).
    change (tmpl_of c (with_detail i d)) with (tmpl_of c i).
    rewrite HE, HR0. reflexivity.
  - exists EncErr. intros d. rewrite page_text_unfold.
    change (is_custom c (with_detail i d)) with (is_custom c i).
    change (tmpl_of c (with_detail i d)) with (tmpl_of c i).
    rewrite HE, HR0. reflexivity.
Qed.

(* ------------------------------------------------------------------ html_escape *)
Definition is_markup (c : N) : bool := (c =? 60) || (c =? 62) || (c =? 34) || (c =? 39).
Definition is_digit (c : N) : bool := (48 <=? c) && (c <=? 57).
Definition mk (s : text) : text := filter is_markup s.

Lemma dec_aux_digits fuel : forall n acc,
  forallb is_digit acc = true -> forallb is_digit (dec_aux fuel n acc) = true.
Proof.
  induction fuel as [|f IH]; intros n acc H; cbn [dec_aux]; [assumption|].
  assert (Hd : forallb is_digit ((48 + n mod 10) :: acc) = true).
  { cbn [forallb]. rewrite H, andb_true_r. unfold is_digit. assert (n mod 10 < 10) by (apply N.mod_upper_bound; lia). lia. }
  destruct (n / 10 =? 0); [exact Hd|apply IH; exact Hd].
Qed.

Lemma dec_digits n : forallb is_digit (dec n) = true.
Proof. apply dec_aux_digits. reflexivity. Qed.

Lemma dec_aux_nonempty fuel n acc : acc <> [] \/ fuel <> O -> dec_aux fuel n acc <> [].
Proof.
  revert n acc; induction fuel as [|f IH]; intros n acc H; cbn [dec_aux].
  - destruct H as [H|H]; [assumption|congruence].
  - destruct (n / 10 =? 0); [discriminate|]. apply IH. left; discriminate.
Qed.

Lemma dec_nonempty n : dec n <> [].
Proof. apply dec_aux_nonempty. right; discriminate. Qed.

(* the units html_escape is made of *)
Inductive unit_ok : text -> Prop :=
| U_plain c : c <? 128 = true -> is_markup c = false -> c <> 38 -> unit_ok [c]
| U_amp : unit_ok ent_amp
| U_lt : unit_ok ent_lt
| U_gt : unit_ok ent_gt
| U_quot : unit_ok ent_quot
| U_apos : unit_ok ent_apos
| U_dec ds : ds <> [] -> forallb is_digit ds = true -> unit_ok ([38; 35] ++ ds ++ [59]).

Lemma html_escape1_unit c : unit_ok (html_escape1 c).
Proof.
  unfold html_escape1.
  destruct (c =? 38) eqn:E1; [constructor|].
  destruct (c =? 60) eqn:E2; [constructor|].
  destruct (c =? 62) eqn:E3; [constructor|].
  destruct (c =? 34) eqn:E4; [constructor|].
  destruct (c =? 39) eqn:E5; [constructor|].
  destruct (c <? 128) eqn:E6.
  - apply U_plain; [assumption| unfold is_markup; rewrite E2, E3, E4, E5; reflexivity | lia].
  - apply U_dec; [apply dec_nonempty|apply dec_digits].
Qed.

Lemma flat_map_concat_map {A B} (f : A -> list B) l : flat_map f l = concat (map f l).
Proof. induction l; simpl; congruence. Qed.

(* html_escape s is, character by character of s, a plain ASCII character other than
   ampersand, angle brackets and quotes, or one complete character reference *)
Lemma escape_units s :
  html_escape s = concat (map html_escape1 s) /\ Forall unit_ok (map html_escape1 s).
Proof.
  split; [apply flat_map_concat_map|].
  induction s; simpl; constructor; [apply html_escape1_unit|assumption].
Qed.

Lemma forallb_digit_props ds c : forallb is_digit ds = true -> In c ds -> is_markup c = false /\ c <? 128 = true /\ c <> 38.
Proof.
  intros H Hin. rewrite forallb_forall in H. specialize (H _ Hin). unfold is_digit in H. unfold is_markup. lia.
Qed.

Lemma unit_chars u : unit_ok u -> forall c, In c u -> is_markup c = false /\ c <? 128 = true.
Proof.
  intros Hu c Hin. destruct Hu as [x H1 H2 H3| | | | | |ds Hn Hd].
  - destruct Hin as [<-|[]]. split; assumption.
  - simpl in Hin. unfold is_markup. repeat (destruct Hin as [<-|Hin]; [split; reflexivity|]). destruct Hin.
  - simpl in Hin. unfold is_markup. repeat (destruct Hin as [<-|Hin]; [split; reflexivity|]). destruct Hin.
  - simpl in Hin. unfold is_markup. repeat (destruct Hin as [<-|Hin]; [split; reflexivity|]). destruct Hin.
  - simpl in Hin. unfold is_markup. repeat (destruct Hin as [<-|Hin]; [split; reflexivity|]). destruct Hin.
  - simpl in Hin. unfold is_markup. repeat (destruct Hin as [<-|Hin]; [split; reflexivity|]). destruct Hin.
  - simpl in Hin. destruct Hin as [<-|[<-|Hin]]; [split; reflexivity|split; reflexivity|].
    apply in_app_or in Hin as [Hin|[<-|[]]]; [|split; reflexivity].
    destruct (forallb_digit_props ds c Hd Hin) as (A & B & _). split; assumption.
Qed.

(* no angle bracket or quote in the escaped text, and it is ASCII *)
Lemma escape_no_markup s c : In c (html_escape s) -> is_markup c = false /\ c <? 128 = true.
Proof.
  unfold html_escape. rewrite in_flat_map. intros [x [_ Hin]].
  exact (unit_chars _ (html_escape1_unit x) c Hin).
Qed.

Lemma mk_nil_of_no_markup s : (forall c, In c s -> is_markup c = false) -> mk s = [].
Proof.
  induction s as [|x r IH]; intros H; [reflexivity|]. unfold mk; simpl.
  rewrite (H x (or_introl eq_refl)). apply IH. intros c Hc. apply H. right; assumption.
Qed.

Lemma mk_escape s : mk (html_escape s) = [].
Proof. apply mk_nil_of_no_markup. intros c Hc. apply (escape_no_markup s c Hc). Qed.

(* every '&' of the escaped text starts a character reference: an '&' occurs only as the
   first character of a unit, and such a unit is a complete reference *)
Lemma unit_amp u : unit_ok u -> forall a b, u = a ++ 38 :: b ->
  a = [] /\ (u = ent_amp \/ u = ent_lt \/ u = ent_gt \/ u = ent_quot \/ u = ent_apos \/
             exists ds, ds <> [] /\ forallb is_digit ds = true /\ u = [38; 35] ++ ds ++ [59]).
Proof.
  intros Hu a b E.
  assert (Htail : forall t, (forall c, In c t -> c <> 38) -> forall a' b', t = a' ++ 38 :: b' -> False).
  { intros t Ht a' b' ->. apply (Ht 38); [apply in_or_app; right; left; reflexivity|reflexivity]. }
  destruct Hu as [x H1 H2 H3| | | | | |ds Hn Hd].
  - destruct a as [|y a]; simpl in E.
    + injection E as -> _. congruence.
    + injection E as _ E. destruct a; discriminate.
  - destruct a as [|y a]; [split; [reflexivity|left; reflexivity]|].
    exfalso. unfold ent_amp in E. simpl in E. injection E as _ E.
    eapply (Htail [97; 109; 112; 59]); [|exact E]. simpl. intros c Hc. repeat (destruct Hc as [<-|Hc]; [discriminate|]). destruct Hc.
  - destruct a as [|y a]; [split; [reflexivity|right; left; reflexivity]|].
    exfalso. unfold ent_lt in E. simpl in E. injection E as _ E.
    eapply (Htail [108; 116; 59]); [|exact E]. simpl. intros c Hc. repeat (destruct Hc as [<-|Hc]; [discriminate|]). destruct Hc.
  - destruct a as [|y a]; [split; [reflexivity|right; right; left; reflexivity]|].
    exfalso. unfold ent_gt in E. simpl in E. injection E as _ E.
    eapply (Htail [103; 116; 59]); [|exact E]. simpl. intros c Hc. repeat (destruct Hc as [<-|Hc]; [discriminate|]). destruct Hc.
  - destruct a as [|y a]; [split; [reflexivity|right; right; right; left; reflexivity]|].
    exfalso. unfold ent_quot in E. simpl in E. injection E as _ E.
    eapply (Htail [113; 117; 111; 116; 59]); [|exact E]. simpl. intros c Hc. repeat (destruct Hc as [<-|Hc]; [discriminate|]). destruct Hc.
  - destruct a as [|y a]; [split; [reflexivity|right; right; right; right; left; reflexivity]|].
    exfalso. unfold ent_apos in E. simpl in E. injection E as _ E.
    eapply (Htail [35; 120; 50; 55; 59]); [|exact E]. simpl. intros c Hc. repeat (destruct Hc as [<-|Hc]; [discriminate|]). destruct Hc.
  - destruct a as [|y a]; [split; [reflexivity|]; do 5 right; exists ds; auto|].
    exfalso. simpl in E. injection E as _ E.
    eapply (Htail (35 :: ds ++ [59])); [|exact E].
    intros c [<-|Hc]; [discriminate|]. apply in_app_or in Hc as [Hc|[<-|[]]]; [|discriminate].
    apply (forallb_digit_props ds c Hd Hc).
Qed.

(* ------------------------------------------------------------------ the markup of the HTML page does not depend on supplied text *)
Definition res_rel {A} (R : A -> A -> Prop) (r1 r2 : res A) : Prop :=
  match r1, r2 with
  | Ok a, Ok b => R a b
  | KeyErr, KeyErr | ValErr, ValErr | EncErr, EncErr => True
  | _, _ => False
  end.
Definition same_mk (a b : text) : Prop := mk a = mk b.
Definition env_sim (e1 e2 : env) : Prop :=
  Forall2 (fun a b => fst a = fst b /\ same_mk (snd a) (snd b)) e1 e2.

Lemma mk_app a b : mk (a ++ b) = mk a ++ mk b.
Proof. apply filter_app. Qed.

Lemma lookup_sim k e1 e2 : env_sim e1 e2 ->
  match lookup k e1, lookup k e2 with
  | Some a, Some b => same_mk a b
  | None, None => True
  | _, _ => False
  end.
Proof.
  induction 1 as [|[k1 v1] [k2 v2] r1 r2 [Hk Hv] _ IH]; simpl; [exact I|].
  simpl in Hk, Hv. subst k2. destruct (text_eqb k k1); [exact Hv|exact IH].
Qed.

Lemma aset_sim k v1 v2 e1 e2 : env_sim e1 e2 -> same_mk v1 v2 -> env_sim (aset k v1 e1) (aset k v2 e2).
Proof.
  intros H Hv. induction H as [|[k1 w1] [k2 w2] r1 r2 [Hk Hw] Hr IH]; simpl.
  - constructor; [split; [reflexivity|exact Hv]|constructor].
  - simpl in Hk, Hw. subst k2. destruct (text_eqb k k1).
    + constructor; [split; [reflexivity|exact Hv]|exact Hr].
    + constructor; [split; [reflexivity|exact Hw]|exact IH].
Qed.

Lemma render_sim ts e1 e2 : env_sim e1 e2 -> res_rel same_mk (render ts e1) (render ts e2).
Proof.
  intros H. induction ts as [|t r IH]; simpl; [reflexivity|].
  destruct t as [c| |n|]; simpl.
  - destruct (render r e1), (render r e2); simpl in *; try exact IH.
    unfold same_mk in *. unfold mk in *. simpl. rewrite IH. reflexivity.
  - destruct (render r e1), (render r e2); simpl in *; exact IH.
  - pose proof (lookup_sim n e1 e2 H) as Hl.
    destruct (lookup n e1), (lookup n e2); try contradiction; [|exact I].
    destruct (render r e1), (render r e2); simpl in *; try exact IH.
    unfold same_mk in *. rewrite !mk_app, Hl, IH. reflexivity.
  - exact I.
Qed.

Lemma rbind_rel {A B} (R : A -> A -> Prop) (S : B -> B -> Prop) r1 r2 (f1 f2 : A -> res B) :
  res_rel R r1 r2 -> (forall a b, R a b -> res_rel S (f1 a) (f2 b)) -> res_rel S (rbind r1 f1) (rbind r2 f2).
Proof. destruct r1, r2; simpl; auto; contradiction. Qed.

Definition bh : branch := mkBranch (Some t_html) t_html false EscHtml s_br_html s_cpre s_csuf true PageHtml.
Definition bj : branch := mkBranch (Some t_json) t_json true EscNone [10] [] [] true PageJson.
Definition bp : branch := mkBranch None t_plain false EscNone [10] [] [] true PagePlain.
Lemma spec_branches : p_branches spec_policy = [bh; bj; bp].
Proof. reflexivity. Qed.

Definition same_shape (i i' : input) : Prop :=
  i_cls i = i_cls i' /\ i_tmpl i = i_tmpl i' /\
  map fst (i_headers i) = map fst (i_headers i') /\
  map fst (i_environ i) = map fst (i_environ i') /\
  is_nil (or_empty (i_comment i)) = is_nil (or_empty (i_comment i')).

Lemma fold_env_sim l : forall l' a a', map fst l = map fst l' -> env_sim a a' ->
  env_sim (fold_left (env_step EscHtml) l a) (fold_left (env_step EscHtml) l' a').
Proof.
  induction l as [|[k v] r IH]; intros [|[k' v'] r'] a a' Hm Ha; simpl in Hm; try discriminate; simpl; [exact Ha|].
  injection Hm as -> Hm. apply IH; [exact Hm|].
  unfold env_step; simpl. destruct (env_skipped k'); [exact Ha|].
  apply aset_sim; [exact Ha|]. unfold same_mk. rewrite !mk_escape. reflexivity.
Qed.

Lemma fold_hdr_sim l : forall l' a a', map fst l = map fst l' -> env_sim a a' ->
  env_sim (fold_left (hdr_step EscHtml) l a) (fold_left (hdr_step EscHtml) l' a').
Proof.
  induction l as [|[k v] r IH]; intros [|[k' v'] r'] a a' Hm Ha; simpl in Hm; try discriminate; simpl; [exact Ha|].
  injection Hm as -> Hm. apply IH; [exact Hm|].
  unfold hdr_step; simpl. apply aset_sim; [exact Ha|]. unfold same_mk. rewrite !mk_escape. reflexivity.
Qed.

Lemma base_args_sim c i i' :
  is_nil (or_empty (i_comment i)) = is_nil (or_empty (i_comment i')) ->
  env_sim (base_args bh c i) (base_args bh c i').
Proof.
  intros Hc. unfold base_args, env_sim.
  repeat constructor; simpl; unfold same_mk; rewrite ?mk_escape; try reflexivity.
  unfold html_comment_of. rewrite <- Hc. destruct (is_nil (or_empty (i_comment i))); [reflexivity|].
  simpl. rewrite !mk_app, !mk_escape. reflexivity.
Qed.

(* Two requests that differ only in the TEXTS supplied (detail, explanation, comment,
   location, header values, environ values -- same class, same template, same header and
   environ names, comment present in both or in neither) get HTML pages with exactly the
   same sequence of markup characters (angle brackets and quotes), or fail alike. *)
Lemma no_request_markup c i i' : same_shape i i' ->
  res_rel same_mk (page_text spec_policy bh c i) (page_text spec_policy bh c i').
Proof.
  intros (Hcls & Ht & Hh & He & Hc).
  rewrite !page_text_unfold.
  assert (Htm : tmpl_of c i = tmpl_of c i') by (unfold tmpl_of; rewrite Ht; reflexivity).
  assert (Hcu : is_custom c i = is_custom c i') by (unfold is_custom; rewrite Ht; reflexivity).
  rewrite <- Htm, <- Hcu.
  apply rbind_rel with (R := same_mk).
  - apply render_sim. rewrite !build_args_spec.
    destruct (is_custom c i); [|apply base_args_sim; exact Hc].
    apply fold_hdr_sim.
    + unfold headers_of. rewrite !map_app. f_equal; [destruct (c_move c); reflexivity|exact Hh].
    + apply fold_env_sim; [exact He|apply base_args_sim; exact Hc].
  - intros a b Hab. unfold page_of. cbn [bh b_page].
    apply render_sim.
    constructor; [split; reflexivity|]. constructor; [split; [reflexivity|exact Hab]|constructor].
Qed.
