(* C19 -- lemmas and proofs. *)
From Coq Require Import List NArith ZArith Bool Lia ZifyBool ZifyN.
Import ListNotations.
Require Import Verif.Lib.Wire Verif.Lib.Utf8 Verif.Model.C19_base Verif.Gen.Facts_C19 Verif.Model.C19.
Ltac Zify.zify_post_hook ::= Z.div_mod_to_equations.
Open Scope N_scope.

(* ------------------------------------------------------------------ res helpers *)
Lemma rmap_ok {A B} (f : A -> B) r b : rmap f r = Ok b <-> exists a, r = Ok a /\ b = f a.
Proof.
  destruct r; simpl; split; try (intros [a0 [H _]]; discriminate); try discriminate.
  - intros H; injection H as <-. eauto.
  - intros [a0 [H ->]]. injection H as ->. reflexivity.
Qed.

Lemma rbind_ok {A B} (r : res A) (f : A -> res B) b : rbind r f = Ok b <-> exists a, r = Ok a /\ f a = Ok b.
Proof.
  destruct r; simpl; split; try (intros [a0 [H _]]; discriminate); try discriminate.
  - eauto.
  - intros [a0 [H H2]]. injection H as ->. assumption.
Qed.

(* ------------------------------------------------------------------ string.Template: single pass *)
Definition tok_text (e : env) (t : tok) : text :=
  match t with
  | TChar c => [c]
  | TDollar => [36]
  | TRef n => or_empty (lookup n e)
  | TInvalid => []
  end.
Definition tok_ok (e : env) (t : tok) : Prop :=
  match t with TRef n => lookup n e <> None | TInvalid => False | _ => True end.

(* the token list depends on the template only; the result is the concatenation, token by
   token, of template characters, '$' for '$$', and the mapping's value for a placeholder:
   no value is scanned again *)
Lemma render_single_pass ts e out :
  render ts e = Ok out <-> Forall (tok_ok e) ts /\ out = flat_map (tok_text e) ts.
Proof.
  revert out; induction ts as [|t r IH]; intros out; simpl.
  - split; [intros H; injection H as <-; split; [constructor|reflexivity] | intros [_ ->]; reflexivity].
  - destruct t as [c| |n|]; simpl.
    + rewrite rmap_ok. split.
      * intros [a [Ha ->]]. apply IH in Ha as [Hf ->]. split; [constructor; [exact I|assumption]|reflexivity].
      * intros [Hf ->]. inversion Hf; subst. eexists; split; [apply IH; split; [assumption|reflexivity]|reflexivity].
    + rewrite rmap_ok. split.
      * intros [a [Ha ->]]. apply IH in Ha as [Hf ->]. split; [constructor; [exact I|assumption]|reflexivity].
      * intros [Hf ->]. inversion Hf; subst. eexists; split; [apply IH; split; [assumption|reflexivity]|reflexivity].
    + destruct (lookup n e) as [v|] eqn:El; simpl.
      * rewrite rmap_ok. split.
        -- intros [a [Ha ->]]. apply IH in Ha as [Hf ->].
           split; [constructor; [simpl; rewrite El; discriminate|assumption]|reflexivity].
        -- intros [Hf ->]. inversion Hf; subst.
           eexists; split; [apply IH; split; [assumption|reflexivity]|reflexivity].
      * split; [discriminate|]. intros [Hf _]. inversion Hf as [|? ? H1 _]; subst. simpl in H1. congruence.
    + split; [discriminate|]. intros [Hf _]. inversion Hf as [|? ? H1 _]; subst. destruct H1.
Qed.

Lemma substitute_single_pass tmpl e out :
  substitute tmpl e = Ok out <->
  Forall (tok_ok e) (tokenise tmpl) /\ out = flat_map (tok_text e) (tokenise tmpl).
Proof. apply render_single_pass. Qed.

(* template characters in the token list come from the template *)
Lemma tokenise_from_chars m s c : In (TChar c) (tokenise_from m s) -> In c s.
Proof.
  revert m; induction s as [|x r IH]; intros m; simpl.
  - destruct m; simpl; intuition discriminate.
  - destruct m as [| |acc|acc].
    + destruct (x =? 36); simpl; [intros H; right; eapply IH; exact H|].
      intros [H|H]; [injection H as ->; left; reflexivity|right; eapply IH; exact H].
    + destruct (x =? 36); simpl; [intros [H|H]; [discriminate|right; eapply IH; exact H]|].
      destruct (is_id_start x); [intros H; right; eapply IH; exact H|].
      destruct (x =? 123); [intros H; right; eapply IH; exact H|].
      simpl; intuition discriminate.
    + destruct (is_id_char x); [intros H; right; eapply IH; exact H|].
      simpl. intros [H|H]; [discriminate|].
      destruct (x =? 36); simpl in H; [right; eapply IH; exact H|].
      destruct H as [H|H]; [injection H as ->; left; reflexivity|right; eapply IH; exact H].
    + destruct (if is_nil acc then is_id_start x else is_id_char x); [intros H; right; eapply IH; exact H|].
      destruct ((x =? 125) && negb (is_nil acc)); simpl; [|intuition discriminate].
      intros [H|H]; [discriminate|right; eapply IH; exact H].
Qed.

(* ---- a value plugged into a fixed frame *)
Inductive piece := Lit (s : text) | Hole.
Definition frame := list piece.
Definition fill (ps : frame) (v : text) : text :=
  flat_map (fun p => match p with Lit s => s | Hole => v end) ps.
Definition penv := list (text * frame).
Definition inst (v : text) (E : penv) : env := map (fun kp => (fst kp, fill (snd kp) v)) E.
Fixpoint plookup (k : text) (E : penv) : option frame :=
  match E with [] => None | (k', p) :: r => if text_eqb k k' then Some p else plookup k r end.
Fixpoint paset (k : text) (p : frame) (E : penv) : penv :=
  match E with
  | [] => [(k, p)]
  | (k', p') :: r => if text_eqb k k' then (k', p) :: r else (k', p') :: paset k p r
  end.

Lemma fill_app a b v : fill (a ++ b) v = fill a v ++ fill b v.
Proof. unfold fill. apply flat_map_app. Qed.

Lemma lookup_inst k v E : lookup k (inst v E) = option_map (fun p => fill p v) (plookup k E).
Proof.
  induction E as [|[k' p] r IH]; simpl; [reflexivity|].
  destruct (text_eqb k k'); [reflexivity|exact IH].
Qed.

Lemma aset_inst k p v E : aset k (fill p v) (inst v E) = inst v (paset k p E).
Proof.
  induction E as [|[k' p'] r IH]; simpl; [reflexivity|].
  destruct (text_eqb k k'); simpl; [reflexivity|]. rewrite IH. reflexivity.
Qed.

(* rendering against a mapping whose values are frames around v yields a frame around v,
   the same frame (or the same error) for every v *)
Lemma render_frame ts E : exists R : res frame, forall v, render ts (inst v E) = rmap (fun ps => fill ps v) R.
Proof.
  induction ts as [|t r [R IH]]; simpl.
  - exists (Ok []). reflexivity.
  - destruct t as [c| |n|].
    + exists (rmap (cons (Lit [c])) R). intros v. rewrite IH. destruct R; reflexivity.
    + exists (rmap (cons (Lit [36])) R). intros v. rewrite IH. destruct R; reflexivity.
    + destruct (plookup n E) as [p|] eqn:El.
      * exists (rmap (app p) R). intros v. rewrite lookup_inst, El. simpl. rewrite IH.
        destruct R; simpl; try reflexivity. rewrite fill_app. reflexivity.
      * exists KeyErr. intros v. rewrite lookup_inst, El. reflexivity.
    + exists ValErr. reflexivity.
Qed.

Lemma substitute_frame tmpl E :
  exists R : res frame, forall v, substitute tmpl (inst v E) = rmap (fun ps => fill ps v) R.
Proof. apply render_frame. Qed.

Lemma fill_lit s v : fill [Lit s] v = s.
Proof. unfold fill; simpl. apply app_nil_r. Qed.
Lemma fill_hole v : fill [Hole] v = v.
Proof. unfold fill; simpl. apply app_nil_r. Qed.
Lemma fill_cons_lit s ps v : fill (Lit s :: ps) v = s ++ fill ps v.
Proof. reflexivity. Qed.

Lemma aset_inst_lit k s v E : aset k s (inst v E) = inst v (paset k [Lit s] E).
Proof. rewrite <- aset_inst. rewrite fill_lit. reflexivity. Qed.

(* ------------------------------------------------------------------ prepare under the specification policy *)
Definition with_detail (i : input) (d : option text) : input :=
  mkInput (i_cls i) d (i_comment i) (i_expl i) (i_location i) (i_headers i) (i_environ i) (i_tmpl i) (i_offers i).

Definition expl_of (c : cls) (i : input) : text := match i_expl i with Some x => x | None => c_expl c end.
Definition html_comment_of (b : branch) (i : input) : text :=
  if is_nil (or_empty (i_comment i)) then []
  else b_cpre b ++ maybe_esc (b_esc b) (b_comment_escaped b) (or_empty (i_comment i)) ++ b_csuf b.

Definition base_args (b : branch) (c : cls) (i : input) : env :=
  [ (s_k_br, b_br b);
    (s_k_expl, esc_apply (b_esc b) (expl_of c i));
    (s_k_detail, esc_apply (b_esc b) (or_empty (i_detail i)));
    (s_k_comment, esc_apply (b_esc b) (or_empty (i_comment i)));
    (s_k_html_comment, html_comment_of b i) ].

Definition env_step (f : escfn) (a : env) (kv : text * text) : env :=
  if env_skipped (fst kv) then a else aset (fst kv) (esc_apply f (snd kv)) a.
Definition hdr_step (f : escfn) (a : env) (kv : text * text) : env :=
  aset (lower (fst kv)) (esc_apply f (snd kv)) a.

Lemma build_args_spec b c i custom :
  build_args spec_policy b c i custom =
  if custom then fold_left (hdr_step (b_esc b)) (headers_of c i) (fold_left (env_step (b_esc b)) (i_environ i) (base_args b c i))
  else base_args b c i.
Proof. reflexivity. Qed.

Definition is_custom (c : cls) (i : input) : bool :=
  match i_tmpl i with Some _ => true | None => negb (c_default_tmpl c) end.
Definition tmpl_of (c : cls) (i : input) : text := match i_tmpl i with Some t => t | None => c_tmpl c end.

Lemma page_text_unfold P b c i :
  page_text P b c i = rbind (substitute (tmpl_of c i) (build_args P b c i (is_custom c i))) (page_of b c).
Proof. reflexivity. Qed.

(* ---- the detail text is plugged into a frame that does not depend on it *)
Definition penv_step (f : escfn) (E : penv) (kv : text * text) : penv :=
  if env_skipped (fst kv) then E else paset (fst kv) [Lit (esc_apply f (snd kv))] E.
Definition phdr_step (f : escfn) (E : penv) (kv : text * text) : penv :=
  paset (lower (fst kv)) [Lit (esc_apply f (snd kv))] E.

Lemma fold_env_inst f v l : forall E,
  fold_left (env_step f) l (inst v E) = inst v (fold_left (penv_step f) l E).
Proof.
  induction l as [|kv r IH]; intros E; simpl; [reflexivity|].
  unfold env_step at 2, penv_step at 2. destruct (env_skipped (fst kv)); [apply IH|].
  rewrite aset_inst_lit. apply IH.
Qed.

Lemma fold_hdr_inst f v l : forall E,
  fold_left (hdr_step f) l (inst v E) = inst v (fold_left (phdr_step f) l E).
Proof.
  induction l as [|kv r IH]; intros E; simpl; [reflexivity|].
  unfold hdr_step at 2, phdr_step at 2. rewrite aset_inst_lit. apply IH.
Qed.

Definition base_penv (b : branch) (c : cls) (i : input) : penv :=
  [ (s_k_br, [Lit (b_br b)]);
    (s_k_expl, [Lit (esc_apply (b_esc b) (expl_of c i))]);
    (s_k_detail, [Hole]);
    (s_k_comment, [Lit (esc_apply (b_esc b) (or_empty (i_comment i)))]);
    (s_k_html_comment, [Lit (html_comment_of b i)]) ].

Lemma base_args_inst b c i d :
  base_args b c (with_detail i d) = inst (esc_apply (b_esc b) (or_empty d)) (base_penv b c i).
Proof.
  unfold base_args, base_penv, inst. cbn [map fst snd].
  rewrite !fill_lit, fill_hole. reflexivity.
Qed.

Lemma args_frame b c i custom : exists E : penv, forall d,
  build_args spec_policy b c (with_detail i d) custom = inst (esc_apply (b_esc b) (or_empty d)) E.
Proof.
  destruct custom.
  - exists (fold_left (phdr_step (b_esc b)) (headers_of c i) (fold_left (penv_step (b_esc b)) (i_environ i) (base_penv b c i))).
    intros d. rewrite build_args_spec, base_args_inst, fold_env_inst.
    change (headers_of c (with_detail i d)) with (headers_of c i).
    change (i_environ (with_detail i d)) with (i_environ i).
    rewrite fold_hdr_inst. reflexivity.
  - exists (base_penv b c i). intros d. rewrite build_args_spec. apply base_args_inst.
Qed.

Definition jpiece (p : piece) : piece := match p with Lit s => Lit (flat_map json_char s) | Hole => Hole end.
Lemma json_chars_fill ps v : flat_map json_char (fill ps v) = fill (map jpiece ps) (flat_map json_char v).
Proof.
  induction ps as [|p r IH]; [reflexivity|].
  change (fill (p :: r) v) with ((match p with Lit s => s | Hole => v end) ++ fill r v).
  rewrite flat_map_app, IH. destruct p; reflexivity.
Qed.

Definition plug (b : branch) (v : text) : text :=
  match b_page b with PageJson => flat_map json_char v | _ => v end.

Definition k_message : text := [109; 101; 115; 115; 97; 103; 101].
Definition k_code : text := [99; 111; 100; 101].
Definition k_title : text := [116; 105; 116; 108; 101].
Lemma json_keys_ok : json_keys = [(k_message, 0); (k_code, 1); (k_title, 2)].
Proof. vm_compute. reflexivity. Qed.

Lemma json_page_eq c body :
  page_of (mkBranch (Some t_json) t_json true EscNone [10] [] [] true PageJson) c body =
  Ok (json_object [(k_message, body); (k_code, status_of c); (k_title, c_title c)]).
Proof. unfold page_of. cbn [b_page]. rewrite json_keys_ok. reflexivity. Qed.

Lemma json_object3 k1 k2 k3 a b c :
  json_object [(k1, a); (k2, b); (k3, c)] =
  ([123] ++ json_string k1 ++ [58; 32; 34]) ++ flat_map json_char a ++
  ([34; 44; 32] ++ json_member (k2, b) ++ [44; 32] ++ json_member (k3, c) ++ [125]).
Proof.
  unfold json_object, json_members, json_member at 1, json_string at 2. cbn [fst snd].
  repeat (rewrite <- app_assoc || rewrite <- app_comm_cons). reflexivity.
Qed.

Lemma page_of_frame b c ps : exists R : res frame, forall v,
  page_of b c (fill ps v) = rmap (fun q => fill q (plug b v)) R.
Proof.
  unfold page_of, plug. destruct (b_page b).
  - destruct (substitute_frame html_template [(k_status, [Lit (status_of c)]); (k_body, ps)]) as [R HR].
    exists R. intros v. rewrite <- HR. unfold inst. cbn [map fst snd]. rewrite fill_lit. reflexivity.
  - rewrite json_keys_ok. cbn [map fst snd].
    exists (Ok (Lit ([123] ++ json_string k_message ++ [58; 32; 34])
                :: map jpiece ps
                ++ [Lit ([34; 44; 32] ++ json_member (k_code, status_of c) ++ [44; 32]
                         ++ json_member (k_title, c_title c) ++ [125])])).
    intros v. cbn [rmap]. f_equal.
    rewrite fill_cons_lit, fill_app, fill_lit, <- json_chars_fill.
    apply json_object3.
  - destruct (substitute_frame plain_template [(k_status, [Lit (status_of c)]); (k_body, ps)]) as [R HR].
    exists R. intros v. rewrite <- HR. unfold inst. cbn [map fst snd]. rewrite fill_lit. reflexivity.
Qed.

(* For every class, branch, template (class or custom), headers, environ, comment and
   explanation there is ONE frame (or one error) such that for every detail text the page is
   that frame with the (escaped) detail plugged in: nothing inside the detail is expanded or
   interpreted, and nothing outside depends on it. *)
Lemma no_placeholder_expansion b c i : exists R : res frame, forall d,
  page_text spec_policy b c (with_detail i d) =
  rmap (fun q => fill q (plug b (esc_apply (b_esc b) (or_empty d)))) R.
Proof.
  destruct (args_frame b c i (is_custom c i)) as [E HE].
  destruct (substitute_frame (tmpl_of c i) E) as [R0 HR0].
  destruct R0 as [ps| | |].
  - destruct (page_of_frame b c ps) as [R HR]. exists R. intros d.
    rewrite page_text_unfold.
    change (is_custom c (with_detail i d)) with (is_custom c i).
    change (tmpl_of c (with_detail i d)) with (tmpl_of c i).
    rewrite HE, HR0. simpl. apply HR.
  - exists KeyErr. intros d. rewrite page_text_unfold.
    change (is_custom c (with_detail i d)) with (is_custom c i).
    change (tmpl_of c (with_detail i d)) with (tmpl_of c i).
    rewrite HE, HR0. reflexivity.
  - exists ValErr. intros d. rewrite page_text_unfold.
    change (is_custom c (with_detail i d)) with (is_custom c i).
    change (tmpl_of c (with_detail i d)) with (tmpl_of c i).
    rewrite HE, HR0. reflexivity.
  - exists EncErr. intros d. rewrite page_text_unfold.
    change (is_custom c (with_detail i d)) with (is_custom c i).
    change (tmpl_of c (with_detail i d)) with (tmpl_of c i).
    rewrite HE, HR0. reflexivity.
Qed.

(* ------------------------------------------------------------------ html_escape *)
Definition is_markup (c : N) : bool := (c =? 60) || (c =? 62) || (c =? 34) || (c =? 39).
Definition is_digit (c : N) : bool := (48 <=? c) && (c <=? 57).
Definition mk (s : text) : text := filter is_markup s.

Lemma dec_aux_digits fuel : forall n acc,
  forallb is_digit acc = true -> forallb is_digit (dec_aux fuel n acc) = true.
Proof.
  induction fuel as [|f IH]; intros n acc H; cbn [dec_aux]; [assumption|].
  assert (Hd : forallb is_digit ((48 + n mod 10) :: acc) = true).
  { cbn [forallb]. rewrite H, andb_true_r. unfold is_digit. assert (n mod 10 < 10) by (apply N.mod_upper_bound; lia). lia. }
  destruct (n / 10 =? 0); [exact Hd|apply IH; exact Hd].
Qed.

Lemma dec_digits n : forallb is_digit (dec n) = true.
Proof. apply dec_aux_digits. reflexivity. Qed.

Lemma dec_aux_nonempty fuel n acc : acc <> [] \/ fuel <> O -> dec_aux fuel n acc <> [].
Proof.
  revert n acc; induction fuel as [|f IH]; intros n acc H; cbn [dec_aux].
  - destruct H as [H|H]; [assumption|congruence].
  - destruct (n / 10 =? 0); [discriminate|]. apply IH. left; discriminate.
Qed.

Lemma dec_nonempty n : dec n <> [].
Proof. apply dec_aux_nonempty. right; discriminate. Qed.

(* the units html_escape is made of *)
Inductive unit_ok : text -> Prop :=
| U_plain c : c <? 128 = true -> is_markup c = false -> c <> 38 -> unit_ok [c]
| U_amp : unit_ok ent_amp
| U_lt : unit_ok ent_lt
| U_gt : unit_ok ent_gt
| U_quot : unit_ok ent_quot
| U_apos : unit_ok ent_apos
| U_dec ds : ds <> [] -> forallb is_digit ds = true -> unit_ok ([38; 35] ++ ds ++ [59]).

Lemma html_escape1_unit c : unit_ok (html_escape1 c).
Proof.
  unfold html_escape1.
  destruct (c =? 38) eqn:E1; [constructor|].
  destruct (c =? 60) eqn:E2; [constructor|].
  destruct (c =? 62) eqn:E3; [constructor|].
  destruct (c =? 34) eqn:E4; [constructor|].
  destruct (c =? 39) eqn:E5; [constructor|].
  destruct (c <? 128) eqn:E6.
  - apply U_plain; [assumption| unfold is_markup; rewrite E2, E3, E4, E5; reflexivity | lia].
  - apply U_dec; [apply dec_nonempty|apply dec_digits].
Qed.

Lemma flat_map_concat_map {A B} (f : A -> list B) l : flat_map f l = concat (map f l).
Proof. induction l; simpl; congruence. Qed.

(* html_escape s is, character by character of s, a plain ASCII character other than
   ampersand, angle brackets and quotes, or one complete character reference *)
Lemma escape_units s :
  html_escape s = concat (map html_escape1 s) /\ Forall unit_ok (map html_escape1 s).
Proof.
  split; [apply flat_map_concat_map|].
  induction s; simpl; constructor; [apply html_escape1_unit|assumption].
Qed.

Lemma forallb_digit_props ds c : forallb is_digit ds = true -> In c ds -> is_markup c = false /\ c <? 128 = true /\ c <> 38.
Proof.
  intros H Hin. rewrite forallb_forall in H. specialize (H _ Hin). unfold is_digit in H. unfold is_markup. lia.
Qed.

Lemma unit_chars u : unit_ok u -> forall c, In c u -> is_markup c = false /\ c <? 128 = true.
Proof.
  intros Hu c Hin. destruct Hu as [x H1 H2 H3| | | | | |ds Hn Hd].
  - destruct Hin as [<-|[]]. split; assumption.
  - simpl in Hin. unfold is_markup. repeat (destruct Hin as [<-|Hin]; [split; reflexivity|]). destruct Hin.
  - simpl in Hin. unfold is_markup. repeat (destruct Hin as [<-|Hin]; [split; reflexivity|]). destruct Hin.
  - simpl in Hin. unfold is_markup. repeat (destruct Hin as [<-|Hin]; [split; reflexivity|]). destruct Hin.
  - simpl in Hin. unfold is_markup. repeat (destruct Hin as [<-|Hin]; [split; reflexivity|]). destruct Hin.
  - simpl in Hin. unfold is_markup. repeat (destruct Hin as [<-|Hin]; [split; reflexivity|]). destruct Hin.
  - simpl in Hin. destruct Hin as [<-|[<-|Hin]]; [split; reflexivity|split; reflexivity|].
    apply in_app_or in Hin as [Hin|[<-|[]]]; [|split; reflexivity].
    destruct (forallb_digit_props ds c Hd Hin) as (A & B & _). split; assumption.
Qed.

(* no angle bracket or quote in the escaped text, and it is ASCII *)
Lemma escape_no_markup s c : In c (html_escape s) -> is_markup c = false /\ c <? 128 = true.
Proof.
  unfold html_escape. rewrite in_flat_map. intros [x [_ Hin]].
  exact (unit_chars _ (html_escape1_unit x) c Hin).
Qed.

Lemma mk_nil_of_no_markup s : (forall c, In c s -> is_markup c = false) -> mk s = [].
Proof.
  induction s as [|x r IH]; intros H; [reflexivity|]. unfold mk; simpl.
  rewrite (H x (or_introl eq_refl)). apply IH. intros c Hc. apply H. right; assumption.
Qed.

Lemma mk_escape s : mk (html_escape s) = [].
Proof. apply mk_nil_of_no_markup. intros c Hc. apply (escape_no_markup s c Hc). Qed.

(* every '&' of the escaped text starts a character reference: an '&' occurs only as the
   first character of a unit, and such a unit is a complete reference *)
Lemma unit_amp u : unit_ok u -> forall a b, u = a ++ 38 :: b ->
  a = [] /\ (u = ent_amp \/ u = ent_lt \/ u = ent_gt \/ u = ent_quot \/ u = ent_apos \/
             exists ds, ds <> [] /\ forallb is_digit ds = true /\ u = [38; 35] ++ ds ++ [59]).
Proof.
  intros Hu a b E.
  assert (Htail : forall t, (forall c, In c t -> c <> 38) -> forall a' b', t = a' ++ 38 :: b' -> False).
  { intros t Ht a' b' ->. apply (Ht 38); [apply in_or_app; right; left; reflexivity|reflexivity]. }
  destruct Hu as [x H1 H2 H3| | | | | |ds Hn Hd].
  - destruct a as [|y a]; simpl in E.
    + injection E as -> _. congruence.
    + injection E as _ E. destruct a; discriminate.
  - destruct a as [|y a]; [split; [reflexivity|left; reflexivity]|].
    exfalso. unfold ent_amp in E. simpl in E. injection E as _ E.
    eapply (Htail [97; 109; 112; 59]); [|exact E]. simpl. intros c Hc. repeat (destruct Hc as [<-|Hc]; [discriminate|]). destruct Hc.
  - destruct a as [|y a]; [split; [reflexivity|right; left; reflexivity]|].
    exfalso. unfold ent_lt in E. simpl in E. injection E as _ E.
    eapply (Htail [108; 116; 59]); [|exact E]. simpl. intros c Hc. repeat (destruct Hc as [<-|Hc]; [discriminate|]). destruct Hc.
  - destruct a as [|y a]; [split; [reflexivity|right; right; left; reflexivity]|].
    exfalso. unfold ent_gt in E. simpl in E. injection E as _ E.
    eapply (Htail [103; 116; 59]); [|exact E]. simpl. intros c Hc. repeat (destruct Hc as [<-|Hc]; [discriminate|]). destruct Hc.
  - destruct a as [|y a]; [split; [reflexivity|right; right; right; left; reflexivity]|].
    exfalso. unfold ent_quot in E. simpl in E. injection E as _ E.
    eapply (Htail [113; 117; 111; 116; 59]); [|exact E]. simpl. intros c Hc. repeat (destruct Hc as [<-|Hc]; [discriminate|]). destruct Hc.
  - destruct a as [|y a]; [split; [reflexivity|right; right; right; right; left; reflexivity]|].
    exfalso. unfold ent_apos in E. simpl in E. injection E as _ E.
    eapply (Htail [35; 120; 50; 55; 59]); [|exact E]. simpl. intros c Hc. repeat (destruct Hc as [<-|Hc]; [discriminate|]). destruct Hc.
  - destruct a as [|y a]; [split; [reflexivity|]; do 5 right; exists ds; auto|].
    exfalso. simpl in E. injection E as _ E.
    eapply (Htail (35 :: ds ++ [59])); [|exact E].
    intros c [<-|Hc]; [discriminate|]. apply in_app_or in Hc as [Hc|[<-|[]]]; [|discriminate].
    apply (forallb_digit_props ds c Hd Hc).
Qed.

(* ------------------------------------------------------------------ the markup of the HTML page does not depend on supplied text *)
Definition res_rel {A} (R : A -> A -> Prop) (r1 r2 : res A) : Prop :=
  match r1, r2 with
  | Ok a, Ok b => R a b
  | KeyErr, KeyErr | ValErr, ValErr | EncErr, EncErr => True
  | _, _ => False
  end.
Definition same_mk (a b : text) : Prop := mk a = mk b.
Definition env_sim (e1 e2 : env) : Prop :=
  Forall2 (fun a b => fst a = fst b /\ same_mk (snd a) (snd b)) e1 e2.

Lemma mk_app a b : mk (a ++ b) = mk a ++ mk b.
Proof. apply filter_app. Qed.

Lemma lookup_sim k e1 e2 : env_sim e1 e2 ->
  match lookup k e1, lookup k e2 with
  | Some a, Some b => same_mk a b
  | None, None => True
  | _, _ => False
  end.
Proof.
  induction 1 as [|[k1 v1] [k2 v2] r1 r2 [Hk Hv] _ IH]; simpl; [exact I|].
  simpl in Hk, Hv. subst k2. destruct (text_eqb k k1); [exact Hv|exact IH].
Qed.

Lemma aset_sim k v1 v2 e1 e2 : env_sim e1 e2 -> same_mk v1 v2 -> env_sim (aset k v1 e1) (aset k v2 e2).
Proof.
  intros H Hv. induction H as [|[k1 w1] [k2 w2] r1 r2 [Hk Hw] Hr IH]; simpl.
  - constructor; [split; [reflexivity|exact Hv]|constructor].
  - simpl in Hk, Hw. subst k2. destruct (text_eqb k k1).
    + constructor; [split; [reflexivity|exact Hv]|exact Hr].
    + constructor; [split; [reflexivity|exact Hw]|exact IH].
Qed.

Lemma render_sim ts e1 e2 : env_sim e1 e2 -> res_rel same_mk (render ts e1) (render ts e2).
Proof.
  intros H. induction ts as [|t r IH]; simpl; [reflexivity|].
  destruct t as [c| |n|]; simpl.
  - destruct (render r e1), (render r e2); simpl in *; try exact IH.
    unfold same_mk in *. unfold mk in *. simpl. rewrite IH. reflexivity.
  - destruct (render r e1), (render r e2); simpl in *; exact IH.
  - pose proof (lookup_sim n e1 e2 H) as Hl.
    destruct (lookup n e1), (lookup n e2); try contradiction; [|exact I].
    destruct (render r e1), (render r e2); simpl in *; try exact IH.
    unfold same_mk in *. rewrite !mk_app, Hl, IH. reflexivity.
  - exact I.
Qed.

Lemma rbind_rel {A B} (R : A -> A -> Prop) (S : B -> B -> Prop) r1 r2 (f1 f2 : A -> res B) :
  res_rel R r1 r2 -> (forall a b, R a b -> res_rel S (f1 a) (f2 b)) -> res_rel S (rbind r1 f1) (rbind r2 f2).
Proof. destruct r1, r2; simpl; auto; contradiction. Qed.

Definition bh : branch := mkBranch (Some t_html) t_html false EscHtml s_br_html s_cpre s_csuf true PageHtml.
Definition bj : branch := mkBranch (Some t_json) t_json true EscNone [10] [] [] true PageJson.
Definition bp : branch := mkBranch None t_plain false EscNone [10] [] [] true PagePlain.
Lemma spec_branches : p_branches spec_policy = [bh; bj; bp].
Proof. reflexivity. Qed.

Definition same_shape (i i' : input) : Prop :=
  i_cls i = i_cls i' /\ i_tmpl i = i_tmpl i' /\
  map fst (i_headers i) = map fst (i_headers i') /\
  map fst (i_environ i) = map fst (i_environ i') /\
  is_nil (or_empty (i_comment i)) = is_nil (or_empty (i_comment i')).

Lemma fold_env_sim l : forall l' a a', map fst l = map fst l' -> env_sim a a' ->
  env_sim (fold_left (env_step EscHtml) l a) (fold_left (env_step EscHtml) l' a').
Proof.
  induction l as [|[k v] r IH]; intros [|[k' v'] r'] a a' Hm Ha; simpl in Hm; try discriminate; simpl; [exact Ha|].
  injection Hm as -> Hm. apply IH; [exact Hm|].
  unfold env_step; simpl. destruct (env_skipped k'); [exact Ha|].
  apply aset_sim; [exact Ha|]. unfold same_mk. rewrite !mk_escape. reflexivity.
Qed.

Lemma fold_hdr_sim l : forall l' a a', map fst l = map fst l' -> env_sim a a' ->
  env_sim (fold_left (hdr_step EscHtml) l a) (fold_left (hdr_step EscHtml) l' a').
Proof.
  induction l as [|[k v] r IH]; intros [|[k' v'] r'] a a' Hm Ha; simpl in Hm; try discriminate; simpl; [exact Ha|].
  injection Hm as -> Hm. apply IH; [exact Hm|].
  unfold hdr_step; simpl. apply aset_sim; [exact Ha|]. unfold same_mk. rewrite !mk_escape. reflexivity.
Qed.

Lemma base_args_sim c i i' :
  is_nil (or_empty (i_comment i)) = is_nil (or_empty (i_comment i')) ->
  env_sim (base_args bh c i) (base_args bh c i').
Proof.
  intros Hc. unfold base_args, env_sim.
  repeat constructor; simpl; unfold same_mk; rewrite ?mk_escape; try reflexivity.
  unfold html_comment_of. rewrite <- Hc. destruct (is_nil (or_empty (i_comment i))); [reflexivity|].
  simpl. rewrite !mk_app, !mk_escape. reflexivity.
Qed.

(* Two requests that differ only in the TEXTS supplied (detail, explanation, comment,
   location, header values, environ values -- same class, same template, same header and
   environ names, comment present in both or in neither) get HTML pages with exactly the
   same sequence of markup characters (angle brackets and quotes), or fail alike. *)
Lemma no_request_markup c i i' : same_shape i i' ->
  res_rel same_mk (page_text spec_policy bh c i) (page_text spec_policy bh c i').
Proof.
  intros (Hcls & Ht & Hh & He & Hc).
  rewrite !page_text_unfold.
  assert (Htm : tmpl_of c i = tmpl_of c i') by (unfold tmpl_of; rewrite Ht; reflexivity).
  assert (Hcu : is_custom c i = is_custom c i') by (unfold is_custom; rewrite Ht; reflexivity).
  rewrite <- Htm, <- Hcu.
  apply rbind_rel with (R := same_mk).
  - apply render_sim. rewrite !build_args_spec.
    destruct (is_custom c i); [|apply base_args_sim; exact Hc].
    apply fold_hdr_sim.
    + unfold headers_of. rewrite !map_app. f_equal; [destruct (c_move c); reflexivity|exact Hh].
    + apply fold_env_sim; [exact He|apply base_args_sim; exact Hc].
  - intros a b Hab. unfold page_of. cbn [bh b_page].
    apply render_sim.
    constructor; [split; reflexivity|]. constructor; [split; [reflexivity|exact Hab]|constructor].
Qed.

(* ------------------------------------------------------------------ explicit shape of the default HTML page *)
Definition H1 : text := [60; 104; 116; 109; 108; 62; 10; 32; 60; 104; 101; 97; 100; 62; 10; 32; 32; 60; 116; 105; 116; 108; 101; 62].
Definition H2 : text := [60; 47; 116; 105; 116; 108; 101; 62; 10; 32; 60; 47; 104; 101; 97; 100; 62; 10; 32; 60; 98; 111; 100; 121; 62; 10; 32; 32; 60; 104; 49; 62].
Definition H3 : text := [60; 47; 104; 49; 62; 10; 32; 32].
Definition H4 : text := [10; 32; 60; 47; 98; 111; 100; 121; 62; 10; 60; 47; 104; 116; 109; 108; 62].

Lemma html_template_tokens :
  tokenise html_template =
  map TChar H1 ++ [TRef k_status] ++ map TChar H2 ++ [TRef k_status] ++ map TChar H3 ++ [TRef k_body] ++ map TChar H4.
Proof. vm_compute. reflexivity. Qed.

Lemma default_body_tokens :
  tokenise default_body_template =
  [TRef s_k_expl; TRef s_k_br; TRef s_k_br; TChar 10; TRef s_k_detail; TChar 10; TRef s_k_html_comment; TChar 10].
Proof. vm_compute. reflexivity. Qed.

Lemma render_chars l ts e : render (map TChar l ++ ts) e = rmap (app l) (render ts e).
Proof.
  induction l as [|x r IH]; simpl; [destruct (render ts e); reflexivity|].
  rewrite IH. destruct (render ts e); reflexivity.
Qed.

Definition default_body (b : branch) (c : cls) (i : input) : text :=
  esc_apply (b_esc b) (expl_of c i) ++ b_br b ++ b_br b ++ [10] ++
  esc_apply (b_esc b) (or_empty (i_detail i)) ++ [10] ++ html_comment_of b i ++ [10].

Lemma default_body_render b c i :
  substitute default_body_template (base_args b c i) = Ok (default_body b c i).
Proof.
  unfold substitute. rewrite default_body_tokens. unfold default_body.
  cbn [render base_args lookup text_eqb s_k_br s_k_expl s_k_detail s_k_comment s_k_html_comment N.eqb Pos.eqb andb rmap].
  reflexivity.
Qed.

Lemma html_page_render st body :
  substitute html_template [(k_status, st); (k_body, body)] = Ok (H1 ++ st ++ H2 ++ st ++ H3 ++ body ++ H4).
Proof.
  unfold substitute. rewrite html_template_tokens.
  rewrite render_chars. cbn [app render lookup text_eqb k_status k_body N.eqb Pos.eqb andb].
  rewrite render_chars. cbn [app render lookup text_eqb k_status k_body N.eqb Pos.eqb andb].
  rewrite render_chars. cbn [app render lookup text_eqb k_status k_body N.eqb Pos.eqb andb].
  rewrite <- (app_nil_r (map TChar H4)). rewrite render_chars. cbn [render rmap]. rewrite app_nil_r.
  reflexivity.
Qed.

(* for a class that uses HTTPException's own body template, and no body_template= argument *)
Lemma html_default_shape c i :
  c_default_tmpl c = true -> c_tmpl c = default_body_template -> i_tmpl i = None ->
  page_text spec_policy bh c i =
  Ok (H1 ++ status_of c ++ H2 ++ status_of c ++ H3 ++
      (html_escape (expl_of c i) ++ s_br_html ++ s_br_html ++ [10] ++
       html_escape (or_empty (i_detail i)) ++ [10] ++
       (if is_nil (or_empty (i_comment i)) then [] else s_cpre ++ html_escape (or_empty (i_comment i)) ++ s_csuf) ++ [10])
      ++ H4).
Proof.
  intros Hd Ht Hn. rewrite page_text_unfold. unfold tmpl_of, is_custom. rewrite Hn, Hd, Ht. cbn [negb].
  rewrite build_args_spec, default_body_render. cbn [rbind]. unfold page_of. cbn [bh b_page].
  rewrite html_page_render. reflexivity.
Qed.

Lemma classes_default_ok :
  forallb (fun c => implb (c_default_tmpl c) (text_eqb (c_tmpl c) default_body_template)) classes = true.
Proof. vm_compute. reflexivity. Qed.

Lemma find_cls_In n l c : find_cls n l = Some c -> In c l /\ c_name c = n.
Proof.
  induction l as [|x r IH]; simpl; [discriminate|].
  destruct (text_eqb n (c_name x)) eqn:E.
  - intros H; injection H as <-. apply text_eqb_eq in E. split; [left; reflexivity|symmetry; exact E].
  - intros H. destruct (IH H). split; [right; assumption|assumption].
Qed.

Lemma default_tmpl_text n c : find_cls n classes = Some c -> c_default_tmpl c = true -> c_tmpl c = default_body_template.
Proof.
  intros Hf Hd. apply find_cls_In in Hf as [Hin _].
  pose proof classes_default_ok as H. rewrite forallb_forall in H. specialize (H c Hin).
  rewrite Hd in H. simpl in H. apply text_eqb_eq. exact H.
Qed.

Lemma fallback_ok : fallback_type = t_plain /\ offers = [t_html; t_json].
Proof. split; reflexivity. Qed.

Lemma spec_html_unfold i c :
  find_cls (i_cls i) classes = Some c -> c_empty c = false -> chosen_type i = t_html ->
  spec i = Some (rbind (page_text spec_policy bh c i) (fun page =>
                 rmap (mkOutput (status_of c) t_html cs_utf8) (utf8_bytes page))).
Proof.
  intros Hf He Hc. unfold spec, prepare. rewrite Hf, He, Hc. reflexivity.
Qed.

(* the whole response of a default-template class in the HTML form *)
Lemma html_body_shape i c :
  find_cls (i_cls i) classes = Some c -> c_empty c = false -> c_default_tmpl c = true -> i_tmpl i = None ->
  chosen_type i = t_html ->
  spec i = Some (rmap (mkOutput (status_of c) t_html cs_utf8)
    (utf8_bytes
      (H1 ++ status_of c ++ H2 ++ status_of c ++ H3 ++
       (html_escape (expl_of c i) ++ s_br_html ++ s_br_html ++ [10] ++
        html_escape (or_empty (i_detail i)) ++ [10] ++
        (if is_nil (or_empty (i_comment i)) then [] else s_cpre ++ html_escape (or_empty (i_comment i)) ++ s_csuf) ++ [10])
       ++ H4))).
Proof.
  intros Hf He Hd Hn Hc. rewrite (spec_html_unfold i c Hf He Hc).
  rewrite (html_default_shape c i Hd (default_tmpl_text _ c Hf Hd) Hn). reflexivity.
Qed.

(* ------------------------------------------------------------------ the default 404 page *)
Definition n_notfound : text := [72; 84; 84; 80; 78; 111; 116; 70; 111; 117; 110; 100].
Lemma router_passes_path_info : notfound_detail_attr = [112; 97; 116; 104; 95; 105; 110; 102; 111].
Proof. reflexivity. Qed.

Lemma not_found_page_safe : exists st pre post,
  (forall path i,
     i_cls i = n_notfound -> i_detail i = Some path -> i_comment i = None -> i_expl i = None ->
     i_tmpl i = None -> chosen_type i = t_html ->
     spec i = Some (rmap (mkOutput st t_html cs_utf8) (utf8_bytes (pre ++ html_escape path ++ post))))
  /\ (forall path ch, In ch (html_escape path) -> is_markup ch = false /\ ch <? 128 = true).
Proof.
  destruct (find_cls n_notfound classes) as [c|] eqn:Hf; [|vm_compute in Hf; discriminate].
  assert (He : c_empty c = false) by (vm_compute in Hf; injection Hf as <-; reflexivity).
  assert (Hd : c_default_tmpl c = true) by (vm_compute in Hf; injection Hf as <-; reflexivity).
  exists (status_of c).
  exists (H1 ++ status_of c ++ H2 ++ status_of c ++ H3 ++ html_escape (c_expl c) ++ s_br_html ++ s_br_html ++ [10]).
  exists ([10; 10] ++ H4).
  split; [|intros path ch; apply escape_no_markup].
  intros path i Hn Hdet Hcm Hex Ht Hc.
  rewrite <- Hn in Hf. rewrite (html_body_shape i c Hf He Hd Ht Hc).
  unfold expl_of. rewrite Hdet, Hcm, Hex. cbn [or_empty is_nil].
  do 3 f_equal. rewrite <- !app_assoc. reflexivity.
Qed.

(* ------------------------------------------------------------------ content type *)
Lemma content_type_matches i c o :
  Forall (fun t => In t offers) (i_offers i) ->
  find_cls (i_cls i) classes = Some c -> c_empty c = false ->
  spec i = Some (Ok o) ->
  o_ctype o = spec_type i /\
  (o_ctype o = t_html /\ o_charset o = cs_utf8 \/ o_ctype o = t_json /\ o_charset o = [] \/
   o_ctype o = t_plain /\ o_charset o = cs_utf8).
Proof.
  intros Hoff Hf He. unfold spec, prepare. rewrite Hf, He. unfold chosen_type, spec_type.
  destruct (i_offers i) as [|t r].
  - simpl. intros H. injection H as H. apply rbind_ok in H as [page [_ H]]. apply rmap_ok in H as [bytes [_ ->]].
    simpl. split; [reflexivity|right; right; split; reflexivity].
  - inversion Hoff as [|? ? Ht _]; subst. simpl in Ht. destruct Ht as [<-|[<-|[]]].
    + simpl. intros H. injection H as H. apply rbind_ok in H as [page [_ H]]. apply rmap_ok in H as [bytes [_ ->]].
      simpl. split; [reflexivity|left; split; reflexivity].
    + simpl. intros H. injection H as H. apply rbind_ok in H as [page [_ H]]. apply rmap_ok in H as [bytes [_ ->]].
      simpl. split; [reflexivity|right; left; split; reflexivity].
Qed.

(* ------------------------------------------------------------------ json.dumps output reads back *)
Lemma unhex1_hex1 d : d < 16 -> unhex1 (hex1 d) = Some d.
Proof.
  intros H. unfold unhex1, hex1. destruct (d <? 10) eqn:E.
  - replace ((48 <=? 48 + d) && (48 + d <=? 57)) with true by lia. f_equal; lia.
  - replace ((48 <=? 87 + d) && (87 + d <=? 57)) with false by lia.
    replace ((97 <=? 87 + d) && (87 + d <=? 102)) with true by lia. f_equal; lia.
Qed.

Lemma read_u_uesc c T : c < 65536 -> read_u (uesc c ++ T) = Some (c, T).
Proof.
  intros H. unfold uesc, read_u. cbn [app]. cbn [N.eqb Pos.eqb andb].
  unfold unhex4.
  rewrite !unhex1_hex1 by (apply N.mod_upper_bound; lia).
  f_equal. f_equal. lia.
Qed.

Lemma read_step f c r :
  json_read_chars (S f) (c :: r) =
  let put c r := match json_read_chars f r with Some (t, r') => Some (c :: t, r') | None => None end in
  if c =? 34 then Some ([], r)
  else if c =? 92 then
    match r with
    | [] => None
    | e :: r1 =>
        if e =? 117 then
          match read_u (c :: r) with
          | None => None
          | Some (hi, r2) =>
              if is_hi hi then
                match read_u r2 with
                | Some (lo, r3) =>
                    if is_lo lo then put (65536 + (hi - 55296) * 1024 + (lo - 56320)) r3
                    else put hi r2
                | None => put hi r2
                end
              else put hi r2
          end
        else match simple_escape e with Some x => put x r1 | None => None end
    end
  else if c <? 32 then None
  else put c r.
Proof. reflexivity. Qed.

Definition put_res (c : N) (o : option (text * text)) : option (text * text) :=
  match o with Some (t, r') => Some (c :: t, r') | None => None end.

Lemma read_char f c T : valid_scalar c = true ->
  json_read_chars (S f) (json_char c ++ T) = put_res c (json_read_chars f T).
Proof.
  intros Hv. unfold valid_scalar in Hv. unfold json_char.
  destruct (c =? 34) eqn:E1. { assert (c = 34) by lia; subst. reflexivity. }
  destruct (c =? 92) eqn:E2. { assert (c = 92) by lia; subst. reflexivity. }
  destruct (c =? 10) eqn:E3. { assert (c = 10) by lia; subst. reflexivity. }
  destruct (c =? 13) eqn:E4. { assert (c = 13) by lia; subst. reflexivity. }
  destruct (c =? 9) eqn:E5. { assert (c = 9) by lia; subst. reflexivity. }
  destruct (c =? 8) eqn:E6. { assert (c = 8) by lia; subst. reflexivity. }
  destruct (c =? 12) eqn:E7. { assert (c = 12) by lia; subst. reflexivity. }
  destruct ((32 <=? c) && (c <=? 126)) eqn:E8.
  { cbn [app]. rewrite read_step. cbv zeta. rewrite E1, E2.
    replace (c <? 32) with false by lia. reflexivity. }
  destruct (c <? 65536) eqn:E9.
  { assert (Hc : c < 65536) by lia.
    unfold uesc at 1. cbn [app]. rewrite read_step. cbv zeta. cbn [N.eqb Pos.eqb].
    change (92 :: 117 :: hex1 ((c / 4096) mod 16) :: hex1 ((c / 256) mod 16) :: hex1 ((c / 16) mod 16) :: hex1 (c mod 16) :: T)
      with (uesc c ++ T).
    rewrite (read_u_uesc c T Hc).
    replace (is_hi c) with false by (unfold is_hi; lia). reflexivity. }
  set (n := c - 65536).
  assert (Hn : n < 1048576) by (unfold n; lia).
  set (hi := 55296 + (n / 1024) mod 1024). set (lo := 56320 + n mod 1024).
  assert (Hhi : hi < 65536) by (unfold hi; lia).
  assert (Hlo : lo < 65536) by (unfold lo; lia).
  rewrite <- app_assoc.
  unfold uesc at 1. cbn [app]. rewrite read_step. cbv zeta. cbn [N.eqb Pos.eqb].
  change (92 :: 117 :: hex1 ((hi / 4096) mod 16) :: hex1 ((hi / 256) mod 16) :: hex1 ((hi / 16) mod 16) :: hex1 (hi mod 16) :: uesc lo ++ T)
    with (uesc hi ++ uesc lo ++ T).
  rewrite (read_u_uesc hi _ Hhi).
  replace (is_hi hi) with true by (unfold is_hi, hi; lia).
  rewrite (read_u_uesc lo _ Hlo).
  replace (is_lo lo) with true by (unfold is_lo, lo; lia).
  replace (65536 + (hi - 55296) * 1024 + (lo - 56320)) with c by (unfold hi, lo, n; lia).
  reflexivity.
Qed.

Lemma read_chars_string s : forall f T, forallb valid_scalar s = true -> (length s < f)%nat ->
  json_read_chars f (flat_map json_char s ++ 34 :: T) = Some (s, T).
Proof.
  induction s as [|c r IH]; intros f T Hv Hf.
  - destruct f as [|f]; [inversion Hf|]. reflexivity.
  - destruct f as [|f]; [inversion Hf|]. cbn [forallb] in Hv. apply andb_true_iff in Hv as [Hc Hr].
    cbn [flat_map]. rewrite <- app_assoc. rewrite (read_char f c _ Hc).
    rewrite (IH f T Hr) by (simpl in Hf; lia). reflexivity.
Qed.

Lemma json_char_nonempty c : (1 <= length (json_char c))%nat.
Proof.
  unfold json_char.
  repeat match goal with |- context [if ?b then _ else _] => destruct b; [simpl; lia|] end.
  rewrite app_length. simpl. lia.
Qed.

Lemma json_chars_length s : (length s <= length (flat_map json_char s))%nat.
Proof.
  induction s as [|c r IH]; simpl; [lia|]. rewrite app_length. pose proof (json_char_nonempty c). lia.
Qed.

Lemma read_string s T : forallb valid_scalar s = true ->
  json_read_string (json_string s ++ T) = Some (s, T).
Proof.
  intros Hv. unfold json_string, json_read_string. cbn [app].
  rewrite <- app_assoc. cbn [app]. apply read_chars_string; [exact Hv|].
  rewrite app_length. simpl. pose proof (json_chars_length s). lia.
Qed.

Lemma skip_ws_quote r : skip_ws (34 :: r) = 34 :: r.
Proof. reflexivity. Qed.

Lemma read_member f k v T : forallb valid_scalar k = true -> forallb valid_scalar v = true ->
  json_read_members (S f) (json_member (k, v) ++ T) =
  match skip_ws T with
  | 44 :: r3 => match json_read_members f r3 with Some l => Some ((k, v) :: l) | None => None end
  | 125 :: r3 => if is_nil (skip_ws r3) then Some [(k, v)] else None
  | _ => None
  end.
Proof.
  intros Hk Hv. unfold json_member. cbn [fst snd json_read_members].
  assert (E1 : skip_ws ((json_string k ++ [58; 32] ++ json_string v) ++ T)
               = json_string k ++ ([58; 32] ++ json_string v ++ T)).
  { rewrite <- !app_assoc. reflexivity. }
  rewrite E1. rewrite (read_string k _ Hk). cbn [app skip_ws N.eqb Pos.eqb orb].
  change (skip_ws (json_string v ++ T)) with (json_string v ++ T).
  rewrite (read_string v T Hv). reflexivity.
Qed.

Lemma read_member_sp f k v T : forallb valid_scalar k = true -> forallb valid_scalar v = true ->
  json_read_members (S f) (32 :: json_member (k, v) ++ T) = json_read_members (S f) (json_member (k, v) ++ T).
Proof. reflexivity. Qed.

Lemma json_object3_norm k1 k2 k3 a b c :
  json_object [(k1, a); (k2, b); (k3, c)] =
  123 :: json_member (k1, a) ++ (44 :: 32 :: json_member (k2, b) ++ (44 :: 32 :: json_member (k3, c) ++ [125])).
Proof.
  unfold json_object, json_members. cbn [app].
  repeat (rewrite <- app_assoc || rewrite <- app_comm_cons). reflexivity.
Qed.

Lemma members3 f k1 k2 k3 a b c :
  forallb valid_scalar k1 = true -> forallb valid_scalar k2 = true -> forallb valid_scalar k3 = true ->
  forallb valid_scalar a = true -> forallb valid_scalar b = true -> forallb valid_scalar c = true ->
  json_read_members (S (S (S f)))
    (json_member (k1, a) ++ (44 :: 32 :: json_member (k2, b) ++ (44 :: 32 :: json_member (k3, c) ++ [125])))
  = Some [(k1, a); (k2, b); (k3, c)].
Proof.
  intros H1 H2 H3 Ha Hb Hc.
  rewrite (read_member _ k1 a _ H1 Ha). cbn [skip_ws N.eqb Pos.eqb orb].
  rewrite (read_member_sp _ k2 b _ H2 Hb), (read_member _ k2 b _ H2 Hb). cbn [skip_ws N.eqb Pos.eqb orb].
  rewrite (read_member_sp _ k3 c _ H3 Hc), (read_member _ k3 c _ H3 Hc). cbn [skip_ws N.eqb Pos.eqb orb is_nil].
  reflexivity.
Qed.

Lemma json_object3_roundtrip k1 k2 k3 a b c :
  forallb valid_scalar k1 = true -> forallb valid_scalar k2 = true -> forallb valid_scalar k3 = true ->
  forallb valid_scalar a = true -> forallb valid_scalar b = true -> forallb valid_scalar c = true ->
  json_read_object (json_object [(k1, a); (k2, b); (k3, c)]) = Some [(k1, a); (k2, b); (k3, c)].
Proof.
  intros H1 H2 H3 Ha Hb Hc.
  rewrite json_object3_norm. unfold json_read_object. cbn [skip_ws N.eqb Pos.eqb orb].
  match goal with |- json_read_members (S (length ?r)) _ = _ =>
    assert (Hl : (2 <= length r)%nat) by (rewrite !app_length; cbn [length]; rewrite !app_length; cbn [length]; lia);
    destruct (length r) as [|[|f]]; try lia
  end.
  apply members3; assumption.
Qed.

(* the JSON text is ASCII, hence its UTF-8 encoding is itself *)
Definition ascii (s : text) : Prop := Forall (fun x => x < 128) s.
Lemma ascii_app a b : ascii a -> ascii b -> ascii (a ++ b).
Proof. unfold ascii. intros; apply Forall_app; split; assumption. Qed.

Lemma hex1_ascii d : d < 16 -> hex1 d < 128.
Proof. unfold hex1. destruct (d <? 10) eqn:E; lia. Qed.

Lemma uesc_ascii c : ascii (uesc c).
Proof.
  unfold uesc, ascii. repeat constructor; try lia; apply hex1_ascii; apply N.mod_upper_bound; lia.
Qed.

Lemma json_char_ascii c : ascii (json_char c).
Proof.
  unfold json_char.
  repeat match goal with |- context [if ?b then _ else _] => destruct b eqn:?; [unfold ascii; repeat constructor; lia|] end.
  destruct (c <? 65536); [apply uesc_ascii|apply ascii_app; apply uesc_ascii].
Qed.

Lemma json_string_ascii s : ascii (json_string s).
Proof.
  unfold json_string. change (34 :: flat_map json_char s ++ [34]) with ([34] ++ flat_map json_char s ++ [34]).
  apply ascii_app; [repeat constructor; lia|]. apply ascii_app; [|repeat constructor; lia].
  induction s as [|c r IH]; simpl; [constructor|]. apply ascii_app; [apply json_char_ascii|exact IH].
Qed.

Lemma json_member_ascii kv : ascii (json_member kv).
Proof.
  unfold json_member. apply ascii_app; [apply json_string_ascii|].
  apply ascii_app; [repeat constructor; lia|apply json_string_ascii].
Qed.

Lemma json_object3_ascii k1 k2 k3 a b c : ascii (json_object [(k1, a); (k2, b); (k3, c)]).
Proof.
  rewrite json_object3_norm.
  change (123 :: json_member (k1, a) ++ 44 :: 32 :: json_member (k2, b) ++ 44 :: 32 :: json_member (k3, c) ++ [125])
    with ([123] ++ json_member (k1, a) ++ [44; 32] ++ json_member (k2, b) ++ [44; 32] ++ json_member (k3, c) ++ [125]).
  repeat (apply ascii_app; [first [apply json_member_ascii | repeat constructor; lia]|]).
  repeat constructor; lia.
Qed.

Lemma ascii_valid s : ascii s -> forallb valid_scalar s = true.
Proof.
  induction 1 as [|x r Hx _ IH]; [reflexivity|]. cbn [forallb]. rewrite IH, andb_true_r.
  unfold valid_scalar. lia.
Qed.

Lemma encode_ascii s : ascii s -> Utf8.encode s = s.
Proof.
  induction 1 as [|x r Hx _ IH]; [reflexivity|]. unfold Utf8.encode in *. cbn [flat_map]. rewrite IH.
  unfold encode1. replace (x <? 128) with true by lia. reflexivity.
Qed.

Lemma classes_text_ok :
  forallb (fun c => forallb valid_scalar (status_of c) && forallb valid_scalar (c_title c)) classes = true.
Proof. vm_compute. reflexivity. Qed.

Lemma valid_keys : forallb valid_scalar k_message = true /\ forallb valid_scalar k_code = true /\ forallb valid_scalar k_title = true.
Proof. repeat split; reflexivity. Qed.

(* In the JSON form the body (ASCII bytes) is a JSON object which the reference reader reads
   back to message / code / title, message being the rendered plain text, character for
   character (texts of Unicode scalar values, i.e. no lone surrogates). *)
Lemma json_verbatim i c body :
  find_cls (i_cls i) classes = Some c -> c_empty c = false -> chosen_type i = t_json ->
  substitute (tmpl_of c i) (build_args spec_policy bj c i (is_custom c i)) = Ok body ->
  forallb valid_scalar body = true ->
  exists bytes,
    spec i = Some (Ok (mkOutput (status_of c) t_json [] bytes)) /\ ascii bytes /\
    json_read_object bytes = Some [(k_message, body); (k_code, status_of c); (k_title, c_title c)].
Proof.
  intros Hf He Hc Hb Hv.
  exists (json_object [(k_message, body); (k_code, status_of c); (k_title, c_title c)]).
  pose proof (json_object3_ascii k_message k_code k_title body (status_of c) (c_title c)) as Ha.
  split; [|split; [exact Ha|]].
  - unfold spec, prepare. rewrite Hf, He, Hc.
    change (pick_branch t_json (p_branches spec_policy)) with (Some bj).
    cbv iota beta. rewrite page_text_unfold, Hb. cbn [rbind]. unfold bj at 1. rewrite json_page_eq. cbn [rbind].
    unfold utf8_bytes. rewrite (ascii_valid _ Ha), (encode_ascii _ Ha). reflexivity.
  - destruct (find_cls_In _ _ _ Hf) as [Hin _].
    pose proof classes_text_ok as Hok. rewrite forallb_forall in Hok. specialize (Hok c Hin).
    apply andb_true_iff in Hok as [Hs Ht]. destruct valid_keys as (K1 & K2 & K3).
    apply json_object3_roundtrip; assumption.
Qed.

(* ... and for the classes with the default body template the message is the explanation,
   three newlines, the detail verbatim, newline, the comment verbatim, newline *)
Lemma json_default_message c i :
  c_default_tmpl c = true -> c_tmpl c = default_body_template -> i_tmpl i = None ->
  substitute (tmpl_of c i) (build_args spec_policy bj c i (is_custom c i)) =
  Ok (expl_of c i ++ [10; 10; 10] ++ or_empty (i_detail i) ++ [10] ++ or_empty (i_comment i) ++ [10]).
Proof.
  intros Hd Ht Hn. unfold tmpl_of, is_custom. rewrite Hn, Hd, Ht. cbn [negb].
  rewrite build_args_spec, default_body_render. unfold default_body, html_comment_of. cbn [bj b_esc b_br b_cpre b_csuf b_comment_escaped esc_apply maybe_esc].
  destruct (or_empty (i_comment i)); [reflexivity|]. cbn [is_nil app]. rewrite app_nil_r. reflexivity.
Qed.

(* ------------------------------------------------------------------ non-vacuity *)
Definition ex_env : list (text * text) :=
  [([82; 69; 81; 85; 69; 83; 84; 95; 77; 69; 84; 72; 79; 68], [71; 69; 84])].
(* HTTPNotFound(detail='<a>${br}$$') under Accept: text/html *)
Definition ex_input (offers : list text) : input :=
  mkInput n_notfound (Some [60; 97; 62; 36; 123; 98; 114; 125; 36; 36]) None None [] [] ex_env None offers.

(* a class like HTTPNotFound, written out so that the examples do not depend on the class table *)
Definition ex_cls : cls := mkCls n_notfound [52; 48; 52] [78; 70] [69; 46] default_body_template true false false.

Example ex_html_renders :
  page_text spec_policy bh ex_cls (ex_input [t_html]) =
  Ok (H1 ++ [52; 48; 52; 32; 78; 70] ++ H2 ++ [52; 48; 52; 32; 78; 70] ++ H3 ++
      [69; 46] ++ s_br_html ++ s_br_html ++ [10] ++
      (* the detail appears as &lt;a&gt;${br}$$ *)
      [38; 108; 116; 59; 97; 38; 103; 116; 59; 36; 123; 98; 114; 125; 36; 36] ++ [10; 10] ++ H4).
Proof. vm_compute. reflexivity. Qed.

Example ex_json_reads_back :
  exists page, page_text spec_policy bj ex_cls (ex_input [t_json]) = Ok page /\
    json_read_object page =
    Some [(k_message, [69; 46; 10; 10; 10] ++ [60; 97; 62; 36; 123; 98; 114; 125; 36; 36] ++ [10; 10]);
          (k_code, [52; 48; 52; 32; 78; 70]); (k_title, [78; 70])].
Proof. eexists. split; [vm_compute; reflexivity|]. vm_compute. reflexivity. Qed.

Example ex_model_runs :
  exists o, spec (ex_input [t_html]) = Some (Ok o) /\ o_ctype o = t_html.
Proof. eexists. split; [vm_compute; reflexivity|]. vm_compute. reflexivity. Qed.

Example ex_same_shape_satisfiable :
  same_shape (ex_input [t_html]) (with_detail (ex_input [t_html]) (Some [60; 98; 62]))
  /\ exists p, page_text spec_policy bh ex_cls (ex_input [t_html]) = Ok p.
Proof. split; [repeat split|eexists; vm_compute; reflexivity]. Qed.

(* a custom template naming an environ key: substitution fails alike (KeyError) whatever the texts *)
Example ex_keyerror :
  substitute [36; 120] [] = KeyErr /\ substitute [36] [] = ValErr /\ substitute [36; 36; 120] [] = Ok [36; 120].
Proof. repeat split. Qed.


(* ------------------------------------------------------------------ markup characters survive UTF-8 encoding unchanged
   (so the statements about the page text carry over to the body bytes) *)
Lemma mk_encode1 c : mk (encode1 c) = mk [c].
Proof.
  unfold encode1.
  destruct (c <? 128) eqn:E1; [reflexivity|].
  assert (Hc : is_markup c = false) by (unfold is_markup; lia).
  unfold mk. cbn [filter]. rewrite Hc.
  destruct (c <? 2048) eqn:E2; [|destruct (c <? 65536) eqn:E3]; cbn [filter];
    repeat match goal with |- context [is_markup ?x] => replace (is_markup x) with false by (unfold is_markup; lia) end;
    reflexivity.
Qed.

Lemma mk_encode s : mk (Utf8.encode s) = mk s.
Proof.
  induction s as [|c r IH]; [reflexivity|].
  unfold Utf8.encode in *. cbn [flat_map]. rewrite mk_app, IH, mk_encode1. change (c :: r) with ([c] ++ r). rewrite mk_app. reflexivity.
Qed.

(* ------------------------------------------------------------------ the same frame statement for the explanation text *)
Lemma page_frame_generic b c tmpl E : exists R : res frame, forall v,
  rbind (substitute tmpl (inst v E)) (page_of b c) = rmap (fun q => fill q (plug b v)) R.
Proof.
  destruct (substitute_frame tmpl E) as [R0 HR0].
  destruct R0 as [ps| | |].
  - destruct (page_of_frame b c ps) as [R HR]. exists R. intros v. rewrite HR0. simpl. apply HR.
  - exists KeyErr. intros v. rewrite HR0. reflexivity.
  - exists ValErr. intros v. rewrite HR0. reflexivity.
  - exists EncErr. intros v. rewrite HR0. reflexivity.
Qed.

Definition with_expl (i : input) (x : text) : input :=
  mkInput (i_cls i) (i_detail i) (i_comment i) (Some x) (i_location i) (i_headers i) (i_environ i) (i_tmpl i) (i_offers i).

Definition base_penv_e (b : branch) (c : cls) (i : input) : penv :=
  [ (s_k_br, [Lit (b_br b)]);
    (s_k_expl, [Hole]);
    (s_k_detail, [Lit (esc_apply (b_esc b) (or_empty (i_detail i)))]);
    (s_k_comment, [Lit (esc_apply (b_esc b) (or_empty (i_comment i)))]);
    (s_k_html_comment, [Lit (html_comment_of b i)]) ].

Lemma base_args_inst_e b c i x :
  base_args b c (with_expl i x) = inst (esc_apply (b_esc b) x) (base_penv_e b c i).
Proof.
  unfold base_args, base_penv_e, inst. cbn [map fst snd].
  rewrite !fill_lit, fill_hole. reflexivity.
Qed.

Lemma no_placeholder_expansion_expl b c i : exists R : res frame, forall x,
  page_text spec_policy b c (with_expl i x) =
  rmap (fun q => fill q (plug b (esc_apply (b_esc b) x))) R.
Proof.
  assert (HE : exists E : penv, forall x,
             build_args spec_policy b c (with_expl i x) (is_custom c i) = inst (esc_apply (b_esc b) x) E).
  { destruct (is_custom c i).
    - exists (fold_left (phdr_step (b_esc b)) (headers_of c i) (fold_left (penv_step (b_esc b)) (i_environ i) (base_penv_e b c i))).
      intros x. rewrite build_args_spec, base_args_inst_e, fold_env_inst.
      change (headers_of c (with_expl i x)) with (headers_of c i).
      change (i_environ (with_expl i x)) with (i_environ i).
      rewrite fold_hdr_inst. reflexivity.
    - exists (base_penv_e b c i). intros x. rewrite build_args_spec. apply base_args_inst_e. }
  destruct HE as [E HE].
  destruct (page_frame_generic b c (tmpl_of c i) E) as [R HR]. exists R. intros x.
  rewrite page_text_unfold.
  change (is_custom c (with_expl i x)) with (is_custom c i).
  change (tmpl_of c (with_expl i x)) with (tmpl_of c i).
  rewrite HE. apply HR.
Qed.

(* ------------------------------------------------------------------ json round trip for any non-empty member list *)
Definition kv_valid (kv : text * text) : bool := forallb valid_scalar (fst kv) && forallb valid_scalar (snd kv).

Lemma read_members_sp f s : json_read_members (S f) (32 :: s) = json_read_members (S f) s.
Proof. reflexivity. Qed.

Lemma json_members_cons2 kv kv2 r :
  json_members (kv :: kv2 :: r) = json_member kv ++ [44; 32] ++ json_members (kv2 :: r).
Proof. reflexivity. Qed.

Lemma read_members_all kvs : forall f,
  kvs <> [] -> forallb kv_valid kvs = true -> (length kvs <= f)%nat ->
  json_read_members f (json_members kvs ++ [125]) = Some kvs.
Proof.
  induction kvs as [|[k v] r IH]; intros f Hne Hv Hf; [congruence|].
  cbn [forallb] in Hv. apply andb_true_iff in Hv as [Hkv Hr].
  unfold kv_valid in Hkv. cbn [fst snd] in Hkv. apply andb_true_iff in Hkv as [Hk Hvv].
  destruct f as [|f]; [simpl in Hf; lia|].
  destruct r as [|kv2 r'].
  - change (json_members [(k, v)]) with (json_member (k, v)).
    pose proof (read_member f k v [125] Hk Hvv) as X. etransitivity; [exact X|reflexivity].
  - rewrite json_members_cons2. rewrite <- !app_assoc.
    etransitivity; [apply (read_member f k v _ Hk Hvv)|]. cbn [app skip_ws N.eqb Pos.eqb orb].
    destruct f as [|f']; [simpl in Hf; lia|].
    rewrite read_members_sp. rewrite IH; [reflexivity|discriminate|exact Hr|simpl in Hf; simpl; lia].
Qed.

Lemma json_member_len kv : (1 <= length (json_member kv))%nat.
Proof. unfold json_member, json_string. rewrite app_length. simpl. lia. Qed.

Lemma json_members_len kvs : (length kvs <= length (json_members kvs))%nat.
Proof.
  induction kvs as [|kv r IH]; [simpl; lia|].
  destruct r as [|kv2 r'].
  - cbn [json_members length]. pose proof (json_member_len kv). lia.
  - rewrite json_members_cons2, !app_length. pose proof (json_member_len kv). cbn [length] in *. lia.
Qed.

Lemma json_object_roundtrip kvs :
  kvs <> [] -> forallb kv_valid kvs = true -> json_read_object (json_object kvs) = Some kvs.
Proof.
  intros Hne Hv. unfold json_object, json_read_object. cbn [app skip_ws N.eqb Pos.eqb orb].
  apply read_members_all; [exact Hne|exact Hv|].
  rewrite app_length. pose proof (json_members_len kvs). lia.
Qed.

(* ------------------------------------------------------------------ frame statements for the remaining supplied values *)
Definition with_comment (i : input) (x : option text) : input :=
  mkInput (i_cls i) (i_detail i) x (i_expl i) (i_location i) (i_headers i) (i_environ i) (i_tmpl i) (i_offers i).
Definition with_location (i : input) (x : text) : input :=
  mkInput (i_cls i) (i_detail i) (i_comment i) (i_expl i) x (i_headers i) (i_environ i) (i_tmpl i) (i_offers i).
Definition with_headers (i : input) (h : list (text * text)) : input :=
  mkInput (i_cls i) (i_detail i) (i_comment i) (i_expl i) (i_location i) h (i_environ i) (i_tmpl i) (i_offers i).
Definition with_environ (i : input) (e : list (text * text)) : input :=
  mkInput (i_cls i) (i_detail i) (i_comment i) (i_expl i) (i_location i) (i_headers i) e (i_tmpl i) (i_offers i).

(* all values fixed *)
Definition base_penv0 (b : branch) (c : cls) (i : input) : penv :=
  [ (s_k_br, [Lit (b_br b)]);
    (s_k_expl, [Lit (esc_apply (b_esc b) (expl_of c i))]);
    (s_k_detail, [Lit (esc_apply (b_esc b) (or_empty (i_detail i)))]);
    (s_k_comment, [Lit (esc_apply (b_esc b) (or_empty (i_comment i)))]);
    (s_k_html_comment, [Lit (html_comment_of b i)]) ].

Lemma base_args_inst0 b c i v : base_args b c i = inst v (base_penv0 b c i).
Proof. unfold base_args, base_penv0, inst. cbn [map fst snd]. rewrite !fill_lit. reflexivity. Qed.

Lemma aset_inst_hole k v E : aset k v (inst v E) = inst v (paset k [Hole] E).
Proof. rewrite <- aset_inst. rewrite fill_hole. reflexivity. Qed.

(* generic step: page_text from an args map that is a frame instance *)
Lemma page_text_frame b c i0 (upd : text -> input) (g : text -> text) (E : penv) :
  (forall x, tmpl_of c (upd x) = tmpl_of c i0) ->
  (forall x, is_custom c (upd x) = is_custom c i0) ->
  (forall x, build_args spec_policy b c (upd x) (is_custom c i0) = inst (g x) E) ->
  exists R : res frame, forall x,
    page_text spec_policy b c (upd x) = rmap (fun q => fill q (plug b (g x))) R.
Proof.
  intros Ht Hc HE.
  destruct (page_frame_generic b c (tmpl_of c i0) E) as [R HR]. exists R. intros x.
  rewrite page_text_unfold, Ht, Hc, HE. apply HR.
Qed.

(* ---- comment (non-empty): it occurs as ${comment} and inside the html_comment wrapper *)
Definition base_penv_c (b : branch) (c : cls) (i : input) : penv :=
  [ (s_k_br, [Lit (b_br b)]);
    (s_k_expl, [Lit (esc_apply (b_esc b) (expl_of c i))]);
    (s_k_detail, [Lit (esc_apply (b_esc b) (or_empty (i_detail i)))]);
    (s_k_comment, [Hole]);
    (s_k_html_comment, [Lit (b_cpre b); Hole; Lit (b_csuf b)]) ].

Lemma base_args_inst_c b c i x : x <> [] -> b_comment_escaped b = true ->
  base_args b c (with_comment i (Some x)) = inst (esc_apply (b_esc b) x) (base_penv_c b c i).
Proof.
  intros Hx Hb. unfold base_args, base_penv_c, inst. cbn [map fst snd].
  rewrite !fill_lit, fill_hole.
  unfold html_comment_of. cbn [with_comment i_comment or_empty]. rewrite Hb.
  destruct x as [|x0 xr]; [congruence|]. cbn [is_nil maybe_esc].
  unfold fill. cbn [flat_map]. rewrite app_nil_r. reflexivity.
Qed.

Lemma frame_comment b c i : b_comment_escaped b = true ->
  exists R : res frame, forall x, x <> [] ->
    page_text spec_policy b c (with_comment i (Some x)) =
    rmap (fun q => fill q (plug b (esc_apply (b_esc b) x))) R.
Proof.
  intros Hb.
  set (E := if is_custom c i
            then fold_left (phdr_step (b_esc b)) (headers_of c i)
                   (fold_left (penv_step (b_esc b)) (i_environ i) (base_penv_c b c i))
            else base_penv_c b c i).
  destruct (page_frame_generic b c (tmpl_of c i) E) as [R HR]. exists R. intros x Hx.
  rewrite page_text_unfold.
  change (tmpl_of c (with_comment i (Some x))) with (tmpl_of c i).
  change (is_custom c (with_comment i (Some x))) with (is_custom c i).
  rewrite build_args_spec, (base_args_inst_c b c i x Hx Hb).
  change (headers_of c (with_comment i (Some x))) with (headers_of c i).
  change (i_environ (with_comment i (Some x))) with (i_environ i).
  unfold E in HR. destruct (is_custom c i).
  - rewrite fold_env_inst, fold_hdr_inst. apply HR.
  - apply HR.
Qed.

(* ---- one header value (any position; other headers, the Location of redirects included, fixed) *)
Lemma fold_hdr_hole f x l1 k l2 E :
  fold_left (hdr_step f) (l1 ++ (k, x) :: l2) (inst (esc_apply f x) E) =
  inst (esc_apply f x)
    (fold_left (phdr_step f) l2 (paset (lower k) [Hole] (fold_left (phdr_step f) l1 E))).
Proof.
  rewrite fold_left_app. cbn [fold_left]. rewrite fold_hdr_inst.
  unfold hdr_step at 2. cbn [fst snd]. rewrite aset_inst_hole. apply fold_hdr_inst.
Qed.

Lemma frame_header b c i l1 k l2 :
  exists R : res frame, forall x,
    page_text spec_policy b c (with_headers i (l1 ++ (k, x) :: l2)) =
    rmap (fun q => fill q (plug b (esc_apply (b_esc b) x))) R.
Proof.
  set (pre := if c_move c then [([76; 111; 99; 97; 116; 105; 111; 110], i_location i)] else []).
  set (E := if is_custom c i
            then fold_left (phdr_step (b_esc b)) l2
                   (paset (lower k) [Hole]
                      (fold_left (phdr_step (b_esc b)) (pre ++ l1)
                         (fold_left (penv_step (b_esc b)) (i_environ i) (base_penv0 b c i))))
            else base_penv0 b c i).
  apply (page_text_frame b c i (fun x => with_headers i (l1 ++ (k, x) :: l2)) (fun x => esc_apply (b_esc b) x) E);
    try (intros; reflexivity).
  intros x. rewrite build_args_spec. unfold E. destruct (is_custom c i).
  - change (i_environ (with_headers i (l1 ++ (k, x) :: l2))) with (i_environ i).
    replace (headers_of c (with_headers i (l1 ++ (k, x) :: l2))) with ((pre ++ l1) ++ (k, x) :: l2)
      by (unfold headers_of, pre; cbn [with_headers i_headers i_location]; rewrite <- app_assoc; reflexivity).
    rewrite (base_args_inst0 b c _ (esc_apply (b_esc b) x)).
    change (base_penv0 b c (with_headers i (l1 ++ (k, x) :: l2))) with (base_penv0 b c i).
    rewrite fold_env_inst. apply fold_hdr_hole.
  - rewrite (base_args_inst0 b c _ (esc_apply (b_esc b) x)). reflexivity.
Qed.

(* ---- the location of a redirect class (it reaches the page through the Location header) *)
Lemma frame_location b c i :
  exists R : res frame, forall x,
    page_text spec_policy b c (with_location i x) =
    rmap (fun q => fill q (plug b (esc_apply (b_esc b) x))) R.
Proof.
  set (E := if is_custom c i
            then (if c_move c
                  then fold_left (phdr_step (b_esc b)) (i_headers i)
                         (paset (lower [76; 111; 99; 97; 116; 105; 111; 110]) [Hole]
                            (fold_left (penv_step (b_esc b)) (i_environ i) (base_penv0 b c i)))
                  else fold_left (phdr_step (b_esc b)) (i_headers i)
                         (fold_left (penv_step (b_esc b)) (i_environ i) (base_penv0 b c i)))
            else base_penv0 b c i).
  apply (page_text_frame b c i (fun x => with_location i x) (fun x => esc_apply (b_esc b) x) E);
    try (intros; reflexivity).
  intros x. rewrite build_args_spec. unfold E. destruct (is_custom c i).
  - change (i_environ (with_location i x)) with (i_environ i).
    rewrite (base_args_inst0 b c _ (esc_apply (b_esc b) x)).
    change (base_penv0 b c (with_location i x)) with (base_penv0 b c i).
    rewrite fold_env_inst. unfold headers_of. cbn [with_location i_headers i_location].
    destruct (c_move c).
    + apply (fold_hdr_hole (b_esc b) x [] _ (i_headers i)).
    + apply fold_hdr_inst.
  - rewrite (base_args_inst0 b c _ (esc_apply (b_esc b) x)). reflexivity.
Qed.

(* ---- one environ value (any position, skipped or not) *)
Lemma fold_env_hole f x l1 k l2 E :
  fold_left (env_step f) (l1 ++ (k, x) :: l2) (inst (esc_apply f x) E) =
  inst (esc_apply f x)
    (fold_left (penv_step f) l2
       (if env_skipped k then fold_left (penv_step f) l1 E
        else paset k [Hole] (fold_left (penv_step f) l1 E))).
Proof.
  rewrite fold_left_app. cbn [fold_left]. rewrite fold_env_inst.
  unfold env_step at 2. cbn [fst snd]. destruct (env_skipped k).
  - apply fold_env_inst.
  - rewrite aset_inst_hole. apply fold_env_inst.
Qed.

Lemma frame_environ b c i l1 k l2 :
  exists R : res frame, forall x,
    page_text spec_policy b c (with_environ i (l1 ++ (k, x) :: l2)) =
    rmap (fun q => fill q (plug b (esc_apply (b_esc b) x))) R.
Proof.
  set (E := if is_custom c i
            then fold_left (phdr_step (b_esc b)) (headers_of c i)
                   (fold_left (penv_step (b_esc b)) l2
                      (if env_skipped k then fold_left (penv_step (b_esc b)) l1 (base_penv0 b c i)
                       else paset k [Hole] (fold_left (penv_step (b_esc b)) l1 (base_penv0 b c i))))
            else base_penv0 b c i).
  apply (page_text_frame b c i (fun x => with_environ i (l1 ++ (k, x) :: l2)) (fun x => esc_apply (b_esc b) x) E);
    try (intros; reflexivity).
  intros x. rewrite build_args_spec. unfold E. destruct (is_custom c i).
  - change (headers_of c (with_environ i (l1 ++ (k, x) :: l2))) with (headers_of c i).
    change (i_environ (with_environ i (l1 ++ (k, x) :: l2))) with (l1 ++ (k, x) :: l2).
    rewrite (base_args_inst0 b c _ (esc_apply (b_esc b) x)).
    change (base_penv0 b c (with_environ i (l1 ++ (k, x) :: l2))) with (base_penv0 b c i).
    rewrite fold_env_hole. apply fold_hdr_inst.
  - rewrite (base_args_inst0 b c _ (esc_apply (b_esc b) x)). reflexivity.
Qed.

(* ------------------------------------------------------------------ explicit shapes: redirect classes and 405 *)
Lemma lookup_aset_same k v a : lookup k (aset k v a) = Some v.
Proof.
  induction a as [|[k' v'] r IH]; simpl; [rewrite text_eqb_refl; reflexivity|].
  destruct (text_eqb k k') eqn:E; simpl; rewrite E; [reflexivity|exact IH].
Qed.

Lemma lookup_aset_other k k' v a : k <> k' -> lookup k (aset k' v a) = lookup k a.
Proof.
  intros Hne. induction a as [|[k2 v2] r IH]; simpl.
  - destruct (text_eqb k k') eqn:E; [apply text_eqb_eq in E; contradiction|reflexivity].
  - destruct (text_eqb k' k2) eqn:E2; simpl.
    + apply text_eqb_eq in E2. subst k2.
      destruct (text_eqb k k') eqn:E; [apply text_eqb_eq in E; contradiction|reflexivity].
    + destruct (text_eqb k k2); [reflexivity|exact IH].
Qed.

Definition hdr_clear (ks : list text) (hs : list (text * text)) : Prop :=
  Forall (fun kv => ~ In (lower (fst kv)) ks) hs.
Definition env_clear (ks : list text) (es : list (text * text)) : Prop :=
  Forall (fun kv => env_skipped (fst kv) = true \/ ~ In (fst kv) ks) es.

Lemma lookup_fold_hdr f ks k l : In k ks -> hdr_clear ks l -> forall a,
  lookup k (fold_left (hdr_step f) l a) = lookup k a.
Proof.
  intros Hk. induction 1 as [|[k' v'] r Hh _ IH]; intros a; simpl; [reflexivity|].
  rewrite IH. unfold hdr_step. cbn [fst snd]. apply lookup_aset_other.
  intros ->. apply Hh. exact Hk.
Qed.

Lemma lookup_fold_env f ks k l : In k ks -> env_clear ks l -> forall a,
  lookup k (fold_left (env_step f) l a) = lookup k a.
Proof.
  intros Hk. induction 1 as [|[k' v'] r Hh _ IH]; intros a; simpl; [reflexivity|].
  rewrite IH. unfold env_step. cbn [fst snd] in *. destruct (env_skipped k') eqn:E; [reflexivity|].
  apply lookup_aset_other. intros ->. destruct Hh as [Hh|Hh]; [congruence|apply Hh; exact Hk].
Qed.

(* -- redirect classes *)
Definition k_location : text := [108; 111; 99; 97; 116; 105; 111; 110].
Definition move_keys : list text := [s_k_expl; k_location; s_k_detail; s_k_html_comment].
Definition M1 : text :=   (* "; you should be redirected automatically." newline *)
  [59; 32; 121; 111; 117; 32; 115; 104; 111; 117; 108; 100; 32; 98; 101; 32; 114; 101; 100; 105; 114; 101; 99; 116;
   101; 100; 32; 97; 117; 116; 111; 109; 97; 116; 105; 99; 97; 108; 108; 121; 46; 10].
Definition move_tokens : list tok :=
  [TRef s_k_expl; TChar 32; TRef k_location] ++ map TChar M1 ++ [TRef s_k_detail; TChar 10; TRef s_k_html_comment].

Definition tok_eqb (a b : tok) : bool :=
  match a, b with
  | TChar x, TChar y => x =? y
  | TDollar, TDollar => true
  | TRef x, TRef y => text_eqb x y
  | TInvalid, TInvalid => true
  | _, _ => false
  end.
Fixpoint toks_eqb (a b : list tok) : bool :=
  match a, b with
  | [], [] => true
  | x :: a', y :: b' => tok_eqb x y && toks_eqb a' b'
  | _, _ => false
  end.
Lemma tok_eqb_eq a b : tok_eqb a b = true -> a = b.
Proof.
  destruct a, b; simpl; try discriminate; try reflexivity.
  - intros H. apply N.eqb_eq in H. congruence.
  - intros H. apply text_eqb_eq in H. congruence.
Qed.
Lemma toks_eqb_eq a : forall b, toks_eqb a b = true -> a = b.
Proof.
  induction a as [|x a IH]; intros [|y b]; simpl; try discriminate; [reflexivity|].
  intros H. apply andb_true_iff in H as [H1 H2]. apply tok_eqb_eq in H1. apply IH in H2. congruence.
Qed.

(* every class whose constructor takes location= uses the redirect template (and not the default one) *)
Lemma classes_move_ok :
  forallb (fun c => implb (c_move c) (negb (c_default_tmpl c) && toks_eqb (tokenise (c_tmpl c)) move_tokens)) classes = true.
Proof. vm_compute. reflexivity. Qed.

Lemma move_class_facts n c : find_cls n classes = Some c -> c_move c = true ->
  c_default_tmpl c = false /\ tokenise (c_tmpl c) = move_tokens.
Proof.
  intros Hf Hm. apply find_cls_In in Hf as [Hin _].
  pose proof classes_move_ok as H. rewrite forallb_forall in H. specialize (H c Hin).
  rewrite Hm in H. simpl in H. apply andb_true_iff in H as [H1 H2].
  split; [destruct (c_default_tmpl c); [discriminate|reflexivity]|apply toks_eqb_eq; exact H2].
Qed.

Definition move_body (c : cls) (i : input) : text :=
  html_escape (expl_of c i) ++ [32] ++ html_escape (i_location i) ++ M1 ++
  html_escape (or_empty (i_detail i)) ++ [10] ++ html_comment_of bh i.

(* HTML page of a redirect class (no body_template=), provided no extra response header and
   no (unskipped) environ key is named explanation / location / detail / html_comment *)
Lemma html_move_shape c i :
  c_move c = true -> c_default_tmpl c = false -> tokenise (c_tmpl c) = move_tokens -> i_tmpl i = None ->
  hdr_clear move_keys (i_headers i) -> env_clear move_keys (i_environ i) ->
  page_text spec_policy bh c i =
  Ok (H1 ++ status_of c ++ H2 ++ status_of c ++ H3 ++ move_body c i ++ H4).
Proof.
  intros Hm Hd Ht Hn Hh He. rewrite page_text_unfold. unfold tmpl_of, is_custom. rewrite Hn, Hd. cbn [negb].
  rewrite build_args_spec. unfold substitute. rewrite Ht. unfold headers_of. rewrite Hm.
  cbn [app fold_left]. unfold hdr_step at 2. cbn [fst snd].
  set (A0 := fold_left (env_step (b_esc bh)) (i_environ i) (base_args bh c i)).
  set (A1 := aset (lower [76; 111; 99; 97; 116; 105; 111; 110]) (esc_apply (b_esc bh) (i_location i)) A0).
  set (A := fold_left (hdr_step (b_esc bh)) (i_headers i) A1).
  assert (L0 : forall k, In k move_keys -> lookup k A = lookup k A1).
  { intros k Hk. unfold A. apply (lookup_fold_hdr _ move_keys); assumption. }
  assert (L00 : forall k, In k move_keys -> lookup k A0 = lookup k (base_args bh c i)).
  { intros k Hk. unfold A0. apply (lookup_fold_env _ move_keys); assumption. }
  assert (Le : lookup s_k_expl A = Some (html_escape (expl_of c i))).
  { rewrite L0 by (simpl; auto). unfold A1. rewrite lookup_aset_other by (vm_compute; discriminate).
    rewrite L00 by (simpl; auto). reflexivity. }
  assert (Ll : lookup k_location A = Some (html_escape (i_location i))).
  { rewrite L0 by (simpl; auto). unfold A1. change (lower [76; 111; 99; 97; 116; 105; 111; 110]) with k_location.
    apply lookup_aset_same. }
  assert (Ld : lookup s_k_detail A = Some (html_escape (or_empty (i_detail i)))).
  { rewrite L0 by (simpl; auto). unfold A1. rewrite lookup_aset_other by (vm_compute; discriminate).
    rewrite L00 by (simpl; auto). reflexivity. }
  assert (Lc : lookup s_k_html_comment A = Some (html_comment_of bh i)).
  { rewrite L0 by (simpl; auto 6). unfold A1. rewrite lookup_aset_other by (vm_compute; discriminate).
    rewrite L00 by (simpl; auto 6). reflexivity. }
  unfold move_tokens. cbn [app render]. rewrite Le. cbn [render]. rewrite Ll.
  rewrite render_chars. cbn [render]. rewrite Ld, Lc. cbn [rmap rbind app].
  unfold page_of. cbn [bh b_page]. rewrite html_page_render. unfold move_body.
  cbn [app]. repeat (rewrite <- app_assoc || rewrite <- app_comm_cons). rewrite ?app_nil_r. reflexivity.
Qed.

(* -- 405 Method Not Allowed *)
Definition n_405 : text := [72; 84; 84; 80; 77; 101; 116; 104; 111; 100; 78; 111; 116; 65; 108; 108; 111; 119; 101; 100].
Definition k_request_method : text := [82; 69; 81; 85; 69; 83; 84; 95; 77; 69; 84; 72; 79; 68].
Definition MNA1 : text := [84; 104; 101; 32; 109; 101; 116; 104; 111; 100; 32].   (* "The method " *)
Definition MNA2 : text := [32; 105; 115; 32; 110; 111; 116; 32; 97; 108; 108; 111; 119; 101; 100; 32; 102; 111; 114; 32; 116; 104; 105; 115; 32; 114; 101; 115; 111; 117; 114; 99; 101; 46; 32].   (* " is not allowed for this resource. " *)
Definition mna_tokens : list tok :=
  map TChar MNA1 ++ [TRef k_request_method] ++ map TChar MNA2 ++ [TRef s_k_br; TRef s_k_br; TChar 10; TRef s_k_detail].
Definition mna_keys : list text := [k_request_method; s_k_br; s_k_detail].

Lemma mna_class_facts : exists c, find_cls n_405 classes = Some c /\ c_default_tmpl c = false /\ c_move c = false /\
  c_empty c = false /\ tokenise (c_tmpl c) = mna_tokens.
Proof.
  destruct (find_cls n_405 classes) as [c|] eqn:Hf; [|vm_compute in Hf; discriminate].
  exists c. split; [reflexivity|].
  vm_compute in Hf. injection Hf as <-. repeat split; vm_compute; reflexivity.
Qed.

Lemma lower_no_upper k c : In c (lower k) -> ~ ((65 <=? c) && (c <=? 90) = true).
Proof.
  unfold lower. rewrite in_map_iff. intros [x [Hx _]] H. unfold lower1 in Hx.
  destruct ((65 <=? x) && (x <=? 90)) eqn:E; lia.
Qed.

Lemma lower_ne_request_method k : lower k <> k_request_method.
Proof.
  intros H. apply (lower_no_upper k 82); [rewrite H; left; reflexivity|reflexivity].
Qed.

(* HTML page of HTTPMethodNotAllowed: the request method taken from the environ, escaped.
   environ = e1 ++ (REQUEST_METHOD, m) :: e2 with no later REQUEST_METHOD; no header or
   (unskipped) environ key named br / detail *)
Lemma html_405_shape c i e1 m e2 :
  c_move c = false -> c_default_tmpl c = false -> tokenise (c_tmpl c) = mna_tokens -> i_tmpl i = None ->
  i_environ i = e1 ++ (k_request_method, m) :: e2 ->
  env_clear [k_request_method] e2 ->
  hdr_clear [s_k_br; s_k_detail] (i_headers i) -> env_clear [s_k_br; s_k_detail] (i_environ i) ->
  page_text spec_policy bh c i =
  Ok (H1 ++ status_of c ++ H2 ++ status_of c ++ H3 ++
      (MNA1 ++ html_escape m ++ MNA2 ++ s_br_html ++ s_br_html ++ [10] ++ html_escape (or_empty (i_detail i))) ++ H4).
Proof.
  intros Hm Hd Ht Hn Henv He2 Hh He. rewrite page_text_unfold. unfold tmpl_of, is_custom. rewrite Hn, Hd. cbn [negb].
  rewrite build_args_spec. unfold substitute. rewrite Ht. unfold headers_of. rewrite Hm. cbn [app].
  set (A0 := fold_left (env_step (b_esc bh)) (i_environ i) (base_args bh c i)).
  set (A := fold_left (hdr_step (b_esc bh)) (i_headers i) A0).
  assert (Lm : lookup k_request_method A = Some (html_escape m)).
  { unfold A.
    assert (Hc : hdr_clear [k_request_method] (i_headers i)).
    { unfold hdr_clear. apply Forall_forall. intros kv _ [H|[]]. symmetry in H. exact (lower_ne_request_method _ H). }
    rewrite (lookup_fold_hdr _ [k_request_method]) by (simpl; auto).
    unfold A0. rewrite Henv, fold_left_app. cbn [fold_left].
    rewrite (lookup_fold_env _ [k_request_method]) by (simpl; auto).
    unfold env_step at 1. cbn [fst snd].
    replace (env_skipped k_request_method) with false by (vm_compute; reflexivity).
    apply lookup_aset_same. }
  assert (Lb : lookup s_k_br A = Some s_br_html).
  { unfold A. rewrite (lookup_fold_hdr _ [s_k_br; s_k_detail]) by (simpl; auto).
    unfold A0. rewrite (lookup_fold_env _ [s_k_br; s_k_detail]) by (simpl; auto). reflexivity. }
  assert (Ld : lookup s_k_detail A = Some (html_escape (or_empty (i_detail i)))).
  { unfold A. rewrite (lookup_fold_hdr _ [s_k_br; s_k_detail]) by (simpl; auto).
    unfold A0. rewrite (lookup_fold_env _ [s_k_br; s_k_detail]) by (simpl; auto). reflexivity. }
  unfold mna_tokens. rewrite render_chars. cbn [app render]. rewrite Lm. rewrite render_chars.
  cbn [render]. rewrite Lb, Ld. cbn [rmap rbind app].
  unfold page_of. cbn [bh b_page]. rewrite html_page_render.
  cbn [app]. repeat (rewrite <- app_assoc || rewrite <- app_comm_cons). rewrite ?app_nil_r. reflexivity.
Qed.

Lemma html_move_response i c :
  find_cls (i_cls i) classes = Some c -> c_empty c = false -> c_move c = true -> i_tmpl i = None ->
  chosen_type i = t_html -> hdr_clear move_keys (i_headers i) -> env_clear move_keys (i_environ i) ->
  spec i = Some (rmap (mkOutput (status_of c) t_html cs_utf8)
                   (utf8_bytes (H1 ++ status_of c ++ H2 ++ status_of c ++ H3 ++ move_body c i ++ H4))).
Proof.
  intros Hf He Hm Hn Hc Hh Hen. rewrite (spec_html_unfold i c Hf He Hc).
  destruct (move_class_facts _ c Hf Hm) as [Hd Ht].
  rewrite (html_move_shape c i Hm Hd Ht Hn Hh Hen). reflexivity.
Qed.

Lemma html_405_response i e1 m e2 :
  i_cls i = n_405 -> i_tmpl i = None -> chosen_type i = t_html ->
  i_environ i = e1 ++ (k_request_method, m) :: e2 -> env_clear [k_request_method] e2 ->
  hdr_clear [s_k_br; s_k_detail] (i_headers i) -> env_clear [s_k_br; s_k_detail] (i_environ i) ->
  exists st, spec i = Some (rmap (mkOutput st t_html cs_utf8)
    (utf8_bytes (H1 ++ st ++ H2 ++ st ++ H3 ++
       (MNA1 ++ html_escape m ++ MNA2 ++ s_br_html ++ s_br_html ++ [10] ++ html_escape (or_empty (i_detail i))) ++ H4))).
Proof.
  intros Hn Ht Hc Henv He2 Hh He.
  destruct mna_class_facts as (c & Hf & Hd & Hm & Hem & Htok).
  exists (status_of c). rewrite <- Hn in Hf. rewrite (spec_html_unfold i c Hf Hem Hc).
  rewrite (html_405_shape c i e1 m e2 Hm Hd Htok Ht Henv He2 Hh He). reflexivity.
Qed.

(* the hypotheses are satisfiable: a CGI-style environ and an ordinary extra header *)
Ltac not_in := let H := fresh in intro H; simpl in H; repeat (destruct H as [H|H]; [discriminate H|]); exact H.

Example ex_clear :
  env_clear move_keys ex_env /\ hdr_clear move_keys [([88; 45; 70; 111; 111], [60])] /\
  env_clear [s_k_br; s_k_detail] ex_env /\ env_clear [k_request_method] [].
Proof.
  split; [|split; [|split]].
  - constructor; [right; not_in|constructor].
  - constructor; [not_in|constructor].
  - constructor; [right; not_in|constructor].
  - constructor.
Qed.

Example ex_405 :
  let m := [60; 36; 98; 114] in
  html_escape m = [38; 108; 116; 59; 36; 98; 114] /\
  exists st, spec (mkInput n_405 (Some [60]) None None [] [] ([(k_request_method, m)]) None [t_html]) =
    Some (rmap (mkOutput st t_html cs_utf8)
      (utf8_bytes (H1 ++ st ++ H2 ++ st ++ H3 ++
         (MNA1 ++ html_escape m ++ MNA2 ++ s_br_html ++ s_br_html ++ [10] ++
          html_escape (or_empty (Some [60]))) ++ H4))).
Proof.
  intros m. split; [vm_compute; reflexivity|].
  refine (html_405_response (mkInput n_405 (Some [60]) None None [] [] ([(k_request_method, m)]) None [t_html])
            [] m [] eq_refl eq_refl eq_refl eq_refl _ _ _).
  - constructor.
  - constructor.
  - constructor; [right; not_in|constructor].
Qed.

(* ------------------------------------------------------------------ one object, several calls *)

Lemma out_eqb_refl o : out_eqb o o = true.
Proof. unfold out_eqb. rewrite !text_eqb_refl. reflexivity. Qed.

Lemma out_eqb_eq a b : out_eqb a b = true -> a = b.
Proof.
  unfold out_eqb. intros H. apply andb_true_iff in H as [H H4]. apply andb_true_iff in H as [H H3].
  apply andb_true_iff in H as [H1 H2].
  apply text_eqb_eq in H1, H2, H3, H4. destruct a, b; simpl in *; congruence.
Qed.

Lemma existsb_cons_r {A} (f : A -> bool) x l : existsb f l = true -> existsb f (x :: l) = true.
Proof. intros H. simpl. rewrite H. apply orb_true_r. Qed.

Lemma history_ok_calls P i l : forall done seen,
  (forall o, done = Some o -> existsb (fun x => is_ok_out x o) seen = true) ->
  history_ok_from seen (calls P i done l) (map (fun s => prepare P (with_call i s)) l) = true.
Proof.
  induction l as [|s r IH]; intros done seen Hinv; [reflexivity|].
  cbn [calls map]. destruct done as [o|].
  - cbn [history_ok_from]. rewrite (existsb_cons_r _ _ _ (Hinv o eq_refl)). cbn [andb].
    apply IH. intros o' Ho'. injection Ho' as <-. apply existsb_cons_r. apply Hinv. reflexivity.
  - cbv zeta. set (x := prepare P (with_call i s)). cbn [history_ok_from].
    assert (Hhead : match x with
                    | Some (Ok o) => existsb (fun y => is_ok_out y o) (x :: seen)
                    | _ => match x with Some (Ok _) => false | _ => true end
                    end = true).
    { destruct x as [[o| | |]|]; try reflexivity. cbn [existsb is_ok_out]. rewrite out_eqb_refl. reflexivity. }
    rewrite Hhead. cbn [andb]. apply IH. intros o Ho.
    unfold stored in Ho. destruct x as [[o'| | |]|]; try discriminate.
    destruct (is_nil (o_body o')); [discriminate|]. injection Ho as <-.
    cbn [existsb is_ok_out]. rewrite out_eqb_refl. reflexivity.
Qed.

(* the history the code produces passes the check, for every object and every sequence of calls *)
Lemma history_consistent_b i l : history_ok (ref_calls i l) (spec_singles i l) = true.
Proof.
  unfold ref_calls, history_ok, spec_singles. apply history_ok_calls. intros o H; discriminate.
Qed.

(* what the check means *)
Lemma history_ok_sound rs : forall seen singles,
  history_ok_from seen rs singles = true ->
  forall k o, nth_error rs k = Some (Some (Ok o)) ->
    In (Some (Ok o)) seen \/ exists j, (j <= k)%nat /\ nth_error singles j = Some (Some (Ok o)).
Proof.
  induction rs as [|r rs IH]; intros seen singles H k o Hk; [destruct k; discriminate|].
  destruct singles as [|s singles]; [discriminate|].
  cbn [history_ok_from] in H. apply andb_true_iff in H as [Hr Hrest].
  destruct k as [|k].
  - cbn [nth_error] in Hk. injection Hk as ->.
    apply existsb_exists in Hr as [x [Hin Hx]].
    assert (Ex : x = Some (Ok o)).
    { destruct x as [[o'| | |]|]; try discriminate. simpl in Hx. apply out_eqb_eq in Hx. subst. reflexivity. }
    subst x. destruct Hin as [<-|Hin]; [right; exists 0%nat; split; [lia|reflexivity]|left; exact Hin].
  - cbn [nth_error] in Hk. destruct (IH _ _ Hrest k o Hk) as [Hin|[j [Hj Hn]]].
    + destruct Hin as [<-|Hin]; [right; exists 0%nat; split; [lia|reflexivity]|left; exact Hin].
    + right. exists (S j). split; [lia|exact Hn].
Qed.

(* Every response an exception object gives, at any point of any sequence of calls with any
   environs and negotiation results, is -- status, content type, charset and body together --
   exactly the specified rendering of one of the calls made so far: the content type always
   belongs to the body it labels, and that body obeys the escaping rule of that form. *)
Lemma history_consistent i l k o :
  nth_error (ref_calls i l) k = Some (Some (Ok o)) ->
  exists j s, (j <= k)%nat /\ nth_error l j = Some s /\ spec (with_call i s) = Some (Ok o).
Proof.
  intros Hk.
  destruct (history_ok_sound _ [] _ (history_consistent_b i l) k o Hk) as [[]|[j [Hj Hn]]].
  unfold spec_singles in Hn. rewrite nth_error_map in Hn.
  destruct (nth_error l j) as [s|] eqn:Es; [|discriminate].
  exists j, s. split; [exact Hj|]. split; [exact Es|]. simpl in Hn. injection Hn as Hn. exact Hn.
Qed.

(* the first call is an ordinary rendering; after a rendering with a non-empty body every call repeats it *)
Lemma history_first i s r : ref_calls i (s :: r) = spec (with_call i s) :: calls spec_policy i (stored (spec (with_call i s))) r.
Proof. reflexivity. Qed.

Lemma calls_sticky P i o l : calls P i (Some o) l = map (fun _ => Some (Ok o)) l.
Proof. induction l as [|s r IH]; [reflexivity|]. simpl. rewrite IH. reflexivity. Qed.

Example ex_history :
  let l := [(ex_env, [t_plain]); (ex_env, [t_html])] in
  exists o, ref_calls (ex_input []) l = [Some (Ok o); Some (Ok o)] /\ o_ctype o = t_plain.
Proof. eexists. split; [vm_compute; reflexivity|]. vm_compute. reflexivity. Qed.
