(* C19 -- class names of the regenerated table are unique; consequence: the class exception_response picks is
   the class find_cls finds under its name (removes the hypothesis of factory_html_safe).  Proof-only round 3. *)
From Coq Require Import List NArith ZArith Bool Lia.
Import ListNotations.
Require Import Verif.Lib.Wire Verif.Lib.Utf8 Verif.Model.C19_base Verif.Gen.Facts_C19 Verif.Model.C19 Verif.Proofs.C19 Verif.Proofs.C19_gen Verif.Proofs.C19_e2e.
Open Scope N_scope.

Fixpoint names_unique_b (l : list cls) : bool :=
  match l with [] => true | x :: r => negb (mem_text (c_name x) (map c_name r)) && names_unique_b r end.

Lemma find_unique l : names_unique_b l = true -> forall c, In c l -> find_cls (c_name c) l = Some c.
Proof.
  induction l as [|x r IH]; intros Hu c Hin; [destruct Hin|].
  cbn [names_unique_b] in Hu. apply andb_true_iff in Hu as [Hx Hr]. cbn [find_cls].
  destruct Hin as [<-|Hin]; [rewrite text_eqb_refl; reflexivity|].
  destruct (text_eqb (c_name c) (c_name x)) eqn:E; [|exact (IH Hr c Hin)].
  apply text_eqb_eq in E. exfalso.
  assert (Hm : mem_text (c_name x) (map c_name r) = true).
  { apply mem_text_In. rewrite <- E. apply in_map. exact Hin. }
  rewrite Hm in Hx. discriminate.
Qed.

(* every class name of the table regenerated from the source occurs once (obligation re-checked on every run) *)
Theorem class_names_unique : names_unique_b classes = true.
Proof. vm_compute. reflexivity. Qed.

Theorem find_cls_of_member c : In c classes -> find_cls (c_name c) classes = Some c.
Proof. apply find_unique. exact class_names_unique. Qed.

Theorem status_class_found code c : status_class code = Some c -> find_cls (c_name c) classes = Some c.
Proof. intros H. apply find_cls_of_member. exact (proj1 (status_class_sound code c H)). Qed.

(* factory_html_safe without the find_cls hypothesis *)
Theorem factory_html_safe_full code c i :
  status_class code = Some c -> i_cls i = c_name c ->
  c_empty c = false -> c_default_tmpl c = true -> i_tmpl i = None -> i_comment i = None -> chosen_type i = t_html ->
  c_code c = code /\
  model i = Some (rmap (mkOutput (status_of c) t_html cs_utf8)
                       (utf8_bytes (page_pre c (expl_of c i) ++ html_escape (or_empty (i_detail i)) ++ page_post))) /\
  (forall ch, In ch (html_escape (or_empty (i_detail i))) -> is_markup ch = false /\ ch <? 128 = true).
Proof. intros Hs. exact (factory_html_safe code c i Hs (status_class_found code c Hs)). Qed.

(* the class the factory resolves a code to is the class the constructors and prepare() are run on *)
Theorem factory_model_class code c i :
  status_class code = Some c -> i_cls i = c_name c ->
  model i = Some (rmap fst (gen_call (fun _ _ => i_offers i) (gen_obj c i) (i_environ i))).
Proof.
  intros Hs Hi. unfold model, model_x. cbn [x_in core]. rewrite Hi, (status_class_found code c Hs). reflexivity.
Qed.

Example ex_factory_full : exists c i o,
  status_class [52; 48; 52] = Some c /\ i_cls i = c_name c /\ chosen_type i = t_html /\
  model i = Some (Ok o) /\ o_ctype o = t_html.
Proof.
  eexists. exists (mkInput n_HTTPNotFound (Some [60]) None None [] [] [] None [t_html]). eexists.
  split; [vm_compute; reflexivity|]. split; [reflexivity|]. split; [reflexivity|]. split; [vm_compute; reflexivity|reflexivity].
Qed.
