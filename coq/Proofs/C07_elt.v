(* C07 -- elements of any type (str, bytes, other objects that are printed) handed to resource_path /
   resource_path_tuple / request.resource_url / request.resource_path, and the memo of _join_path_tuple.
   The typed functions of Model/C07.v agree with the str-only ones on the texts the elements stand for; the
   shape theorems follow; a memo keyed on the RAW tuple is transparent for str / bytes elements and for
   elements that print alike, and is refuted by a witness (1 then True) otherwise. *)
From Coq Require Import List NArith ZArith Bool Lia Arith.
Import ListNotations.
Require Import Verif.Lib.Wire Verif.Lib.Text Verif.Lib.PathNorm Verif.Lib.Utf8 Verif.Lib.Percent
               Verif.Lib.C07Types Verif.Gen.Facts_C02 Verif.Gen.Facts_C07 Verif.Model.C02 Verif.Proofs.C02
               Verif.Model.C07 Verif.Proofs.C07_rt Verif.Proofs.C07.
Close Scope N_scope.

(* ------------------------------------------------------------ one segment *)
Lemma quote_seg_text s safe t : seg_text_of s = Some t -> quote_seg s safe = url_quote_r t safe.
Proof.
  destruct s as [x|b|k p]; unfold quote_seg; cbn [seg_plain seg_str seg_text_r seg_text_of].
  - intros H. injection H as <-. reflexivity.
  - intros H. rewrite H. reflexivity.
  - intros H. injection H as <-. reflexivity.
Qed.

Lemma quote_seg_undecodable b safe : Utf8.decode b = None ->
  quote_seg (SBytes b) safe = Err (EExn UnicodeDecodeError).
Proof. intros H. unfold quote_seg. cbn [seg_plain seg_text_r]. rewrite H. reflexivity. Qed.

(* normalising first (url._join_elements) changes nothing *)
Lemma quote_seg_norm s safe : quote_seg (if seg_plain s then s else seg_str s) safe = quote_seg s safe.
Proof. destruct s; reflexivity. Qed.

Lemma omap_ext_e {A B} (f g : A -> out B) l : (forall x, f x = g x) -> omap f l = omap g l.
Proof. intros H. induction l as [|x r IH]; [reflexivity|]. simpl. rewrite H, IH. reflexivity. Qed.

Lemma omap_lift_e {A B} (f : A -> result B) l : omap (fun x => lift (f x)) l = lift (rmap f l).
Proof.
  induction l as [|x r IH]; [reflexivity|]. simpl. destruct (f x); simpl; try reflexivity.
  rewrite IH. destruct (rmap f r); reflexivity.
Qed.

Lemma omap_map {A B C} (g : A -> B) (f : B -> out C) l : omap f (map g l) = omap (fun x => f (g x)) l.
Proof. induction l as [|x r IH]; [reflexivity|]. simpl. rewrite IH. reflexivity. Qed.

Lemma omap_quote_texts safe : forall l ts, seg_texts l = Some ts ->
  omap (fun s => quote_seg s safe) l = omap (fun t => url_quote_r t safe) ts.
Proof.
  induction l as [|s r IH]; intros ts H.
  - injection H as <-. reflexivity.
  - cbn [seg_texts] in H. destruct (seg_text_of s) as [t|] eqn:Et; [|discriminate].
    destruct (seg_texts r) as [tr|] eqn:Er; [|discriminate]. injection H as <-.
    cbn [omap]. rewrite (quote_seg_text s safe t Et), (IH tr eq_refl). reflexivity.
Qed.

Lemma seg_texts_app a b ta tb : seg_texts a = Some ta -> seg_texts b = Some tb -> seg_texts (a ++ b) = Some (ta ++ tb).
Proof.
  revert ta. induction a as [|s r IH]; intros ta Ha Hb.
  - injection Ha as <-. exact Hb.
  - cbn [seg_texts app] in *. destruct (seg_text_of s) as [t|]; [|discriminate].
    destruct (seg_texts r) as [tr|]; [|discriminate]. injection Ha as <-.
    rewrite (IH tr eq_refl Hb). reflexivity.
Qed.

Lemma seg_texts_str l : seg_texts (map SStr l) = Some l.
Proof. induction l as [|x r IH]; [reflexivity|]. cbn [map seg_texts seg_text_of]. rewrite IH. reflexivity. Qed.

Lemma seg_texts_nil l ts : seg_texts l = Some ts -> (l = [] <-> ts = []).
Proof.
  destruct l as [|s r]; intros H.
  - injection H as <-. tauto.
  - cbn [seg_texts] in H. destruct (seg_text_of s); [|discriminate]. destruct (seg_texts r); [|discriminate].
    injection H as <-. split; discriminate.
Qed.

(* ------------------------------------------------------------ _join_path_tuple / resource_path *)
Lemma join_path_segs_texts l ts : seg_texts l = Some ts -> join_path_segs l = lift (join_path_tuple ts).
Proof.
  intros H. pose proof (seg_texts_nil l ts H) as Hn. unfold join_path_segs, join_path_tuple.
  destruct l as [|s r].
  - destruct ts; [reflexivity|]. destruct Hn as [Hn _]. specialize (Hn eq_refl). discriminate.
  - destruct ts as [|t tr]; [destruct Hn as [_ Hn]; specialize (Hn eq_refl); discriminate|].
    rewrite (omap_quote_texts path_segment_safe _ _ H).
    rewrite (omap_ext_e _ (fun t => lift (quote_path_segment t))) by reflexivity.
    rewrite omap_lift_e. destruct (rmap quote_path_segment (t :: tr)); reflexivity.
Qed.

Theorem resource_path_e_texts root r els ts : seg_texts els = Some ts ->
  resource_path_e root r els = resource_path root r ts.
Proof.
  intros H. unfold resource_path_e, resource_path, resource_path_tuple_e, resource_path_tuple.
  destruct (names_of root r) as [names|e]; cbn [xbind]; [|reflexivity].
  unfold resource_path_list_e, resource_path_list.
  apply join_path_segs_texts. apply seg_texts_app; [apply seg_texts_str|exact H].
Qed.

Theorem resource_path_e_str root r els : resource_path_e root r (map SStr els) = resource_path root r els.
Proof. apply resource_path_e_texts, seg_texts_str. Qed.

Theorem resource_path_tuple_e_str root r els :
  resource_path_tuple_e root r (map SStr els) = xbind (resource_path_tuple root r els) (fun t => Val (map SStr t)).
Proof.
  unfold resource_path_tuple_e, resource_path_tuple. destruct (names_of root r); cbn [xbind]; [|reflexivity].
  unfold resource_path_list_e, resource_path_list. rewrite map_app. reflexivity.
Qed.

Lemma elts_texts_spec els ts : elts_texts els = Some ts ->
  seg_texts els = Some ts /\ forallb (forallb valid_scalar) ts = true.
Proof.
  unfold elts_texts. destruct (seg_texts els) as [t|]; [|discriminate].
  destruct (forallb (forallb valid_scalar) t) eqn:E; [|discriminate]. intros H. injection H as <-. auto.
Qed.

Lemma forallb_Forall_valid ts : forallb (forallb valid_scalar) ts = true ->
  Forall (fun s => forallb valid_scalar s = true) ts.
Proof. intros H. apply Forall_forall. intros x Hx. rewrite forallb_forall in H. auto. Qed.

(* the path string: "/" then the quoted names and the quoted texts of the elements, "/"-separated *)
Theorem resource_path_e_shape root r names els ts :
  good_resource root r = Some names -> elts_texts els = Some ts ->
  resource_path_e root r els = Val (spec_path_text names ts).
Proof.
  intros Hg He. destruct (elts_texts_spec _ _ He) as [Ht Hv].
  destruct (good_resource_spec _ _ _ Hg) as (Hn & Hp & _).
  rewrite (resource_path_e_texts root r els ts Ht).
  unfold resource_path, resource_path_tuple, names_of. rewrite Hn. cbn [xbind].
  rewrite path_list_eq. change (([] :: names) ++ ts) with ([] :: (names ++ ts)).
  rewrite jpt_abs; [reflexivity|]. apply Forall_app. split; [apply plain_valid; assumption|apply forallb_Forall_valid; assumption].
Qed.

Theorem resource_path_tuple_e_shape root r names els :
  good_resource root r = Some names ->
  resource_path_tuple_e root r els = Val (map SStr ([] :: names) ++ els).
Proof.
  intros Hg. destruct (good_resource_spec _ _ _ Hg) as (Hn & _).
  unfold resource_path_tuple_e, names_of. rewrite Hn. cbn [xbind]. unfold resource_path_list_e.
  pose proof (path_list_eq names []) as E. unfold resource_path_list in E. rewrite app_nil_r in E. rewrite E, app_nil_r.
  reflexivity.
Qed.

(* bytes that are not UTF-8: UnicodeDecodeError, once the names and the elements before them were quoted *)
Lemma omap_app {A B} (f : A -> out B) a b :
  omap f (a ++ b) = xbind (omap f a) (fun x => xbind (omap f b) (fun y => Val (x ++ y))).
Proof.
  induction a as [|x r IH]; cbn [app omap xbind].
  - destruct (omap f b); reflexivity.
  - destruct (f x); cbn [xbind]; [|reflexivity]. rewrite IH.
    destruct (omap f r); cbn [xbind]; [|reflexivity]. destruct (omap f b); reflexivity.
Qed.

Lemma omap_quote_valid ts : forallb (forallb valid_scalar) ts = true ->
  omap (fun t => url_quote_r t path_segment_safe) ts = Val (map q ts).
Proof.
  intros H. rewrite (omap_ext_e _ (fun t => lift (quote_path_segment t))) by reflexivity.
  rewrite omap_lift_e, rmap_quote by (apply forallb_Forall_valid; assumption). reflexivity.
Qed.

Lemma pl_eq names : name_or_default [] :: map name_or_default names = [] :: names.
Proof.
  pose proof (path_list_eq names []) as E. unfold resource_path_list in E. rewrite !app_nil_r in E. exact E.
Qed.

Lemma join_path_segs_nonempty l : l <> [] ->
  join_path_segs l = xbind (omap (fun s => quote_seg s path_segment_safe) l)
                       (fun qs => Val (match join slash_text qs with [] => slash_text | s => s end)).
Proof. destruct l; [congruence|reflexivity]. Qed.

Theorem resource_path_e_bad_bytes root r names pre ts b post :
  good_resource root r = Some names -> elts_texts pre = Some ts -> Utf8.decode b = None ->
  resource_path_e root r (pre ++ SBytes b :: post) = Err (EExn UnicodeDecodeError).
Proof.
  intros Hg He Hb. destruct (elts_texts_spec _ _ He) as [Ht Hv].
  destruct (good_resource_spec _ _ _ Hg) as (Hn & Hp & _).
  unfold resource_path_e, resource_path_tuple_e, names_of. rewrite Hn. cbn [xbind].
  unfold resource_path_list_e. rewrite (pl_eq names), app_assoc.
  rewrite join_path_segs_nonempty by (destruct (map SStr ([] :: names) ++ pre); discriminate).
  rewrite omap_app.
  assert (Hq : omap (fun s => quote_seg s path_segment_safe) (map SStr ([] :: names) ++ pre)
               = Val (map q (([] :: names) ++ ts))).
  { rewrite (omap_quote_texts path_segment_safe _ (([] :: names) ++ ts)) by (apply seg_texts_app; [apply seg_texts_str|exact Ht]).
    apply omap_quote_valid. rewrite forallb_app. apply andb_true_iff. split; [|exact Hv].
    apply forallb_forall. intros x Hx. pose proof (plain_valid _ Hp) as Hf.
    destruct Hx as [<-|Hx]; [reflexivity|]. rewrite Forall_forall in Hf. auto. }
  rewrite Hq. cbn [xbind omap]. rewrite (quote_seg_undecodable b _ Hb). reflexivity.
Qed.

(* ------------------------------------------------------------ url._join_elements / resource_url *)
Lemma join_elements_e_texts els ts : seg_texts els = Some ts -> join_elements_e els = join_elements ts.
Proof.
  intros H. unfold join_elements_e, join_quoted_elements, norm_elements, join_elements.
  rewrite omap_map. rewrite (omap_ext_e _ (fun s => quote_seg s c07_elements_safe)) by (intros; apply quote_seg_norm).
  rewrite (omap_quote_texts c07_elements_safe _ _ H).
  rewrite (omap_ext_e _ (fun t => lift (quote_path_segment_safe t c07_elements_safe))) by reflexivity.
  rewrite omap_lift_e. destruct (rmap _ ts); reflexivity.
Qed.

Lemma suffix_e_texts els ts : seg_texts els = Some ts ->
  match els with [] => Val [] | _ => join_elements_e els end = match ts with [] => Val [] | _ => join_elements ts end.
Proof.
  intros H. pose proof (seg_texts_nil _ _ H) as Hn. pose proof (join_elements_e_texts _ _ H) as Hj.
  destruct els as [|s r]; destruct ts as [|t tr]; try reflexivity; try exact Hj.
  all: try (destruct Hn as [Hn _]; specialize (Hn eq_refl); discriminate).
  all: destruct Hn as [_ Hn]; specialize (Hn eq_refl); discriminate.
Qed.

Theorem resource_url_e_texts m root r els ts vroot sn host : seg_texts els = Some ts ->
  resource_url_e m root r els vroot sn host = resource_url m root r ts vroot sn host /\
  request_resource_path_e m root r els vroot sn = request_resource_path m root r ts vroot sn.
Proof.
  intros H. unfold resource_url_e, resource_url, request_resource_path_e, request_resource_path.
  rewrite (suffix_e_texts els ts H). split; reflexivity.
Qed.

(* the URL: application URL, (virtual) path with its trailing slash, the quoted texts of the elements *)
Theorem resource_url_e_shape root r names els ts vroot vt sn d host :
  good_resource root r = Some names -> header_segments vroot = Some vt ->
  elts_texts els = Some ts -> decode_path_info sn = Ok d ->
  resource_url_e UrlTupleCompare root r els vroot sn (Some host)
    = Val ((host ++ Percent.quote c07_script_safe (Utf8.encode d)) ++ spec_virtual_path root r names vt
           ++ join [slash] (map q ts)) /\
  request_resource_path_e UrlTupleCompare root r els vroot sn
    = Val (Percent.quote c07_script_safe (Utf8.encode d) ++ spec_virtual_path root r names vt
           ++ join [slash] (map q ts)).
Proof.
  intros Hg Hh He Hd. destruct (elts_texts_spec _ _ He) as [Ht Hv].
  destruct (resource_url_e_texts UrlTupleCompare root r els ts vroot sn (Some host) Ht) as [E1 E2].
  destruct (resource_url_shape root r names ts vroot vt sn d host Hg Hh Hv Hd) as (_ & H1 & H2).
  rewrite E1, E2. auto.
Qed.

(* ------------------------------------------------------------ the memo of _join_path_tuple *)
(* keyed on the text that is quoted (or not memoised at all): the second call is the cache-free one *)
Theorem resource_path_second_free root r e1 e2 :
  resource_path_second false root r e1 e2 = resource_path_e root r e2.
Proof.
  unfold resource_path_second, resource_path_e, resource_path_tuple_e.
  destruct (names_of root r); reflexivity.
Qed.

Lemma seg_key_plain x y : seg_plain x = true -> seg_key_eqb x y = true -> x = y.
Proof.
  destruct x as [a|a|k p]; destruct y as [b|b|k' p']; cbn [seg_plain seg_key_eqb]; try discriminate;
    intros _ H; apply text_eqb_eq in H; subst; reflexivity.
Qed.

Lemma segs_key_plain : forall a b, forallb seg_plain a = true -> segs_key_eqb a b = true -> a = b.
Proof.
  induction a as [|x a IH]; destruct b as [|y b]; cbn [forallb segs_key_eqb]; try discriminate; [reflexivity|].
  intros Hp Hk. apply andb_true_iff in Hp as [Hx Ha]. apply andb_true_iff in Hk as [Hxy Hab].
  rewrite (seg_key_plain x y Hx Hxy), (IH b Ha Hab). reflexivity.
Qed.

Lemma self_or_err {A} (x : out A) : match x with Val s => Val s | Err _ => x end = x.
Proof. destruct x; reflexivity. Qed.

(* even keyed on the RAW tuple the memo is transparent when the second tuple holds only str / bytes ... *)
Theorem resource_path_second_plain raw root r e1 e2 : forallb seg_plain e2 = true ->
  resource_path_second raw root r e1 e2 = resource_path_e root r e2.
Proof.
  intros Hp. unfold resource_path_second, resource_path_e, resource_path_tuple_e.
  destruct (names_of root r) as [names|e]; cbn [xbind]; [|reflexivity].
  destruct (raw && segs_key_eqb _ _) eqn:E; [|reflexivity].
  apply andb_true_iff in E as [_ E].
  assert (Hall : forallb seg_plain (resource_path_list_e names e2) = true).
  { unfold resource_path_list_e. rewrite forallb_app. apply andb_true_iff. split; [|exact Hp].
    apply forallb_forall. intros x Hx. apply in_map_iff in Hx as (t & <- & _). reflexivity. }
  rewrite <- (segs_key_plain _ _ Hall E). apply self_or_err.
Qed.

(* ... and when the two element lists stand for the same texts *)
Theorem resource_path_second_same_print raw root r e1 e2 ts :
  seg_texts e1 = Some ts -> seg_texts e2 = Some ts ->
  resource_path_second raw root r e1 e2 = resource_path_e root r e2.
Proof.
  intros H1 H2. unfold resource_path_second, resource_path_e, resource_path_tuple_e.
  destruct (names_of root r) as [names|e]; cbn [xbind]; [|reflexivity].
  destruct (raw && segs_key_eqb _ _); [|reflexivity].
  unfold resource_path_list_e.
  rewrite (join_path_segs_texts _ _ (seg_texts_app _ _ _ _ (seg_texts_str _) H1)).
  rewrite (join_path_segs_texts _ _ (seg_texts_app _ _ _ _ (seg_texts_str _) H2)). apply self_or_err.
Qed.

(* REFUTED for a memo keyed on the raw tuple: resource_path(root, 1) then resource_path(root, True) -- 1 == True
   as keys -- answers "/1" where the cache-free function answers "/True" *)
Definition t_1 : text := [49]%N.
Definition t_True : text := [84; 114; 117; 101]%N.
Lemma resource_path_second_refuted :
  resource_path_second true (Node None) [] [SObj 0 t_1] [SObj 0 t_True] = Val (slash :: t_1) /\
  resource_path_e (Node None) [] [SObj 0 t_True] = Val (slash :: t_True).
Proof. vm_compute. split; reflexivity. Qed.

(* ------------------------------------------------------------ the executable spec of observations 16..22 *)
(* whatever [spec_ext] demands, the model of the code delivers -- for the second resource_path call provided the
   memo is not keyed on the raw tuple, or the second elements are str / bytes, or both lists print alike *)
Theorem spec_ext_sound raw c e1 e2 i sv :
  nth_error (spec_ext c e1 e2) i = Some sv -> sv <> none_val ->
  (i = 4 -> raw = false \/ forallb seg_plain e2 = true \/ seg_texts e1 = seg_texts e2) ->
  nth_error (model_ext UrlTupleCompare raw c e1 e2) i = Some sv.
Proof.
  intros Hs Hne Hraw. unfold spec_ext in Hs. unfold model_ext.
  set (root := c_tree c) in *. set (r := c_r c) in *.
  destruct (good_resource root r) as [names|] eqn:Hg.
  2:{ do 7 (destruct i as [|i]; [cbn in Hs; injection Hs as <-; congruence|]). destruct i; discriminate. }
  assert (Hurl : forall e v, match header_segments (c_vroot c) with Some vt => Some (spec_virtual_path root r names vt) | None => None end = Some v ->
            forall ts, elts_texts e = Some ts -> forall host d, c_app c = Some host -> decode_path_info (c_script c) = Ok d ->
            put_out put_text (resource_url_e UrlTupleCompare root r e (c_vroot c) (c_script c) (c_app c))
            = put_text (host ++ Percent.quote c07_script_safe (Utf8.encode d) ++ v ++ join [slash] (map q ts))).
  { intros e v Hv ts He host d Ha Hd. destruct (header_segments (c_vroot c)) as [vt|] eqn:Hh; [|discriminate].
    injection Hv as <-. rewrite Ha.
    destruct (resource_url_e_shape root r names e ts (c_vroot c) vt (c_script c) d host Hg Hh He Hd) as (H1 & _).
    rewrite H1. cbn [put_out]. rewrite <- app_assoc. reflexivity. }
  assert (Hrp : forall e v, match header_segments (c_vroot c) with Some vt => Some (spec_virtual_path root r names vt) | None => None end = Some v ->
            forall ts, elts_texts e = Some ts -> forall d, decode_path_info (c_script c) = Ok d ->
            put_out put_text (request_resource_path_e UrlTupleCompare root r e (c_vroot c) (c_script c))
            = put_text (Percent.quote c07_script_safe (Utf8.encode d) ++ v ++ join [slash] (map q ts))).
  { intros e v Hv ts He d Hd. destruct (header_segments (c_vroot c)) as [vt|] eqn:Hh; [|discriminate].
    injection Hv as <-.
    destruct (resource_url_e_shape root r names e ts (c_vroot c) vt (c_script c) d [] Hg Hh He Hd) as (_ & H2).
    rewrite H2. reflexivity. }
  assert (Hpath : forall e ts, elts_texts e = Some ts ->
            put_out put_text (resource_path_e root r e) = put_text (spec_path_text names ts)).
  { intros e ts He. rewrite (resource_path_e_shape root r names e ts Hg He). reflexivity. }
  destruct i as [|i]; cbn [nth_error] in *.
  { injection Hs as <-. rewrite (resource_path_tuple_e_shape root r names e1 Hg). reflexivity. }
  destruct i as [|i]; cbn [nth_error] in *.
  { destruct (elts_texts e1) as [ts|] eqn:He; [|congruence]. injection Hs as <-. f_equal. exact (Hpath e1 ts He). }
  destruct i as [|i]; cbn [nth_error] in *.
  { destruct (match header_segments (c_vroot c) with Some vt => _ | None => _ end) as [v|] eqn:Hv; [|congruence].
    destruct (elts_texts e1) as [ts|] eqn:He; [|congruence]. destruct (c_app c) as [host|] eqn:Ha; [|congruence].
    destruct (decode_path_info (c_script c)) as [d| |] eqn:Hd; try congruence.
    injection Hs as <-. f_equal. exact (Hurl e1 v eq_refl ts He host d eq_refl eq_refl). }
  destruct i as [|i]; cbn [nth_error] in *.
  { destruct (match header_segments (c_vroot c) with Some vt => _ | None => _ end) as [v|] eqn:Hv; [|congruence].
    destruct (elts_texts e1) as [ts|] eqn:He; [|congruence].
    destruct (decode_path_info (c_script c)) as [d| |] eqn:Hd; try congruence.
    injection Hs as <-. f_equal. exact (Hrp e1 v eq_refl ts He d eq_refl). }
  destruct i as [|i]; cbn [nth_error] in *.
  { destruct (elts_texts e2) as [ts|] eqn:He; [|congruence]. injection Hs as <-. f_equal.
    rewrite <- (Hpath e2 ts He). f_equal.
    destruct (Hraw eq_refl) as [->|[Hp|Hsame]].
    - apply resource_path_second_free.
    - apply resource_path_second_plain; assumption.
    - destruct (elts_texts_spec _ _ He) as [Ht _]. apply (resource_path_second_same_print raw root r e1 e2 ts); congruence. }
  destruct i as [|i]; cbn [nth_error] in *.
  { destruct (match header_segments (c_vroot c) with Some vt => _ | None => _ end) as [v|] eqn:Hv; [|congruence].
    destruct (elts_texts e2) as [ts|] eqn:He; [|congruence]. destruct (c_app c) as [host|] eqn:Ha; [|congruence].
    destruct (decode_path_info (c_script c)) as [d| |] eqn:Hd; try congruence.
    injection Hs as <-. f_equal. exact (Hurl e2 v eq_refl ts He host d eq_refl eq_refl). }
  destruct i as [|i]; cbn [nth_error] in *.
  { destruct (match header_segments (c_vroot c) with Some vt => _ | None => _ end) as [v|] eqn:Hv; [|congruence].
    destruct (elts_texts e2) as [ts|] eqn:He; [|congruence].
    destruct (decode_path_info (c_script c)) as [d| |] eqn:Hd; try congruence.
    injection Hs as <-. f_equal. exact (Hrp e2 v eq_refl ts He d eq_refl). }
  destruct i; discriminate.
Qed.

(* ------------------------------------------------------------ statements as they appear in Props/C07.v *)
Theorem typed_elements_are_their_texts m root r els ts vroot sn host :
  seg_texts els = Some ts ->
  resource_path_e root r els = resource_path root r ts /\
  resource_url_e m root r els vroot sn host = resource_url m root r ts vroot sn host /\
  request_resource_path_e m root r els vroot sn = request_resource_path m root r ts vroot sn.
Proof.
  intros H. split; [exact (resource_path_e_texts root r els ts H)|].
  exact (resource_url_e_texts m root r els ts vroot sn host H).
Qed.

Theorem resource_path_with_elements root r names els ts :
  good_resource root r = Some names -> elts_texts els = Some ts ->
  resource_path_tuple_e root r els = Val (map SStr ([] :: names) ++ els) /\
  resource_path_e root r els = Val (slash :: join [slash] (map q (names ++ ts))).
Proof.
  intros Hg He. split; [exact (resource_path_tuple_e_shape root r names els Hg)|].
  exact (resource_path_e_shape root r names els ts Hg He).
Qed.

Theorem join_memo_transparent raw root r e1 e2 :
  raw = false \/ forallb seg_plain e2 = true \/ (exists ts, seg_texts e1 = Some ts /\ seg_texts e2 = Some ts) ->
  resource_path_second raw root r e1 e2 = resource_path_e root r e2.
Proof.
  intros [->|[H|(ts & H1 & H2)]].
  - apply resource_path_second_free.
  - apply resource_path_second_plain; assumption.
  - exact (resource_path_second_same_print raw root r e1 e2 ts H1 H2).
Qed.

(* non-vacuity: a bytes element, an int and a str subclass instance on a two-level tree *)
Example typed_elements_nontrivial :
  good_resource wit7 [0] = Some [n_one] /\
  elts_texts [SBytes [195; 169]%N; SObj 0 t_1; SStr n_ab] = Some [[233]%N; t_1; n_ab].
Proof. vm_compute. split; reflexivity. Qed.
