(* C04 proofs, part 3: what one iteration of the conflict loop decides for a
   discriminator, against the declarative notion "its include chain is a strict
   prefix of the chains of all the others"; and the flat commit theorem. *)
From Coq Require Import List NArith ZArith Bool Lia Permutation.
Import ListNotations.
Require Import Verif.Lib.Wire Verif.Lib.C04Sort Verif.Gen.Facts_C04 Verif.Model.C04.
Require Import Verif.Proofs.C04 Verif.Proofs.C04_flat.

Lemma text_cmp_refl a : text_cmp a a = Eq.
Proof. induction a as [|x a IH]; simpl; [reflexivity|]. rewrite N.compare_refl. exact IH. Qed.

Lemma path_cmp_refl a : path_cmp a a = Eq.
Proof. induction a as [|x a IH]; simpl; [reflexivity|]. rewrite text_cmp_refl. exact IH. Qed.

Lemma path_cmp_prefix a r : r <> [] -> path_cmp a (a ++ r) = Lt /\ path_cmp (a ++ r) a = Gt.
Proof.
  intros Hr. induction a as [|x a IH]; simpl.
  - destruct r; [congruence|split; reflexivity].
  - rewrite text_cmp_refl. exact IH.
Qed.

Definition sp (a b : ainfo) : bool := strict_prefix (apath (snd a)) (apath (snd b)).

Lemma leb_bypath_strict a b : sp a b = true -> leb_by bypath_key a b = true /\ leb_by bypath_key b a = false.
Proof.
  unfold sp. intros H. apply strict_prefix_spec in H. destruct H as [r [Hr E]].
  destruct (path_cmp_prefix (apath (snd a)) r Hr) as [H1 H2].
  unfold leb_by. replace bypath_key with [3; 4; 5]%N by reflexivity. cbn [lex_cmp key_cmp].
  rewrite E, H1, H2. split; reflexivity.
Qed.

Lemma leb_bypath_refl a : leb_by bypath_key a a = true.
Proof.
  unfold leb_by. replace bypath_key with [3; 4; 5]%N by reflexivity. cbn [lex_cmp key_cmp].
  rewrite path_cmp_refl, N.compare_refl. reflexivity.
Qed.

Lemma sp_irrefl a : sp a a = false.
Proof. apply strict_prefix_irrefl. Qed.

(* an action whose chain is a strict prefix of all the others' is what the sort puts first *)
Lemma head_sort_dominating : forall l a,
  In a l -> (forall b, In b l -> b = a \/ sp a b = true) ->
  exists t, sort (leb_by bypath_key) l = a :: t.
Proof.
  induction l as [|x r IH]; intros a Hin Hdom; [destruct Hin|].
  cbn [sort]. destruct (Hdom x (or_introl eq_refl)) as [->|Hax].
  - destruct (sort (leb_by bypath_key) r) as [|y t] eqn:ES; [exists []; reflexivity|].
    assert (In y r) as Hy by (apply (sort_In (leb_by bypath_key)); rewrite ES; left; reflexivity).
    cbn [insert]. destruct (Hdom y (or_intror Hy)) as [->|Hay].
    + rewrite leb_bypath_refl. eexists; reflexivity.
    + destruct (leb_bypath_strict _ _ Hay) as [-> _]. eexists; reflexivity.
  - assert (In a r) as Har.
    { destruct Hin as [->|H]; [|exact H]. rewrite sp_irrefl in Hax. discriminate. }
    destruct (IH a Har (fun b Hb => Hdom b (or_intror Hb))) as [t Et]. rewrite Et. cbn [insert].
    destruct (leb_bypath_strict _ _ Hax) as [_ ->]. eexists; reflexivity.
Qed.

Lemma offenders_nil base rest :
  offenders base rest = [] <-> forall b, In b rest -> strict_prefix (apath base) (apath (snd b)) = true.
Proof.
  unfold offenders. split.
  - intros H b Hb. destruct (strict_prefix (apath base) (apath (snd b))) eqn:E; [reflexivity|].
    assert (In b (filter (fun x => conflicting (apath base) (apath (snd x))) rest)) as Hf.
    { apply filter_In. split; [exact Hb|]. rewrite conflicting_strict_prefix, E. reflexivity. }
    destruct (filter (fun x => conflicting (apath base) (apath (snd x))) rest); [destruct Hf|discriminate].
  - intros H. induction rest as [|x r IH]; [reflexivity|]. simpl.
    rewrite conflicting_strict_prefix, (H x (or_introl eq_refl)). simpl. apply IH. intros b Hb. apply H. right. exact Hb.
Qed.

(* ---- a discriminator met for the first time: the action whose chain is a strict
   prefix of all the others' is kept, silently; when there is none, a conflict *)
Theorem detect1_fresh_winner res d l a :
  NoDup l -> lookup d res = None -> In a l -> (forall b, In b l -> b = a \/ sp a b = true) ->
  detect1 cfg_fixed res d (sort (leb_by bypath_key) l) = ([a], []).
Proof.
  intros Hnd Hl Hin Hdom. destruct (head_sort_dominating l a Hin Hdom) as [t Et]. rewrite Et.
  unfold detect1. rewrite Hl.
  assert (offenders (snd a) t = []) as ->; [|reflexivity].
  apply offenders_nil. intros b Hb.
  assert (In b l) as Hbl by (apply (sort_In (leb_by bypath_key)); rewrite Et; right; exact Hb).
  destruct (Hdom b Hbl) as [->|H]; [|exact H].
  exfalso. assert (NoDup (a :: t)) as Hnd'.
  { rewrite <- Et. eapply Permutation_NoDup; [symmetry; apply sort_perm|exact Hnd]. }
  inversion Hnd'; contradiction.
Qed.

Theorem detect1_fresh_sound res d l firsts :
  lookup d res = None -> l <> [] ->
  detect1 cfg_fixed res d (sort (leb_by bypath_key) l) = (firsts, []) ->
  exists a, firsts = [a] /\ In a l /\ forall b, In b l -> b = a \/ sp a b = true.
Proof.
  intros Hl Hne H. destruct (sort (leb_by bypath_key) l) as [|a t] eqn:Et.
  - apply sort_nil in Et. contradiction.
  - unfold detect1 in H. rewrite Hl in H.
    destruct (offenders (snd a) t) eqn:Eo; [|discriminate]. inversion H; subst. exists a.
    split; [reflexivity|]. split.
    + apply (sort_In (leb_by bypath_key)). rewrite Et. left. reflexivity.
    + intros b Hb. apply (sort_In (leb_by bypath_key)) in Hb. rewrite Et in Hb. destruct Hb as [<-|Hb]; [left; reflexivity|].
      right. unfold sp. apply (proj1 (offenders_nil (snd a) t) Eo). exact Hb.
Qed.

(* the contested discriminator is named, with the infos of the candidate and of the offenders *)
Theorem detect1_fresh_conflict res d l :
  lookup d res = None -> l <> [] ->
  (forall a, In a l -> exists b, In b l /\ b <> a /\ sp a b = false) ->
  exists infos, snd (detect1 cfg_fixed res d (sort (leb_by bypath_key) l)) = [(d, infos)].
Proof.
  intros Hl Hne Hno. destruct (detect1 cfg_fixed res d (sort (leb_by bypath_key) l)) as [firsts K] eqn:E.
  destruct K as [|k K'].
  - destruct (detect1_fresh_sound res d l firsts Hl Hne E) as [a [_ [Hin Hdom]]].
    destruct (Hno a Hin) as [b [Hb [Hne' Hsp]]]. destruct (Hdom b Hb) as [->|H]; [contradiction|congruence].
  - unfold detect1 in E. destruct (sort (leb_by bypath_key) l) as [|a t]; [discriminate|]. rewrite Hl in E.
    destruct (offenders (snd a) t); inversion E; subst. eexists; reflexivity.
Qed.

(* ---- a discriminator already executed (in an earlier phase or earlier in the same
   re-entrant commit): nothing more runs for it; every new action must be strictly
   below the executed one, otherwise the discriminator is contested *)
Theorem detect1_executed res d l i w :
  lookup d res = Some (i, w) ->
  let r := detect1 cfg_fixed res d (sort (leb_by bypath_key) l) in
  fst r = [] /\
  (snd r = [] <-> forall b, In b l -> strict_prefix (apath w) (apath (snd b)) = true) /\
  (snd r = [] \/ exists infos, snd r = [(d, aid w :: infos)]).
Proof.
  intros Hl r. subst r. unfold detect1.
  destruct (sort (leb_by bypath_key) l) as [|a t] eqn:Et.
  - apply sort_nil in Et. subst l. simpl. split; [reflexivity|]. split; [|left; reflexivity].
    split; [intros _ b []|reflexivity].
  - rewrite Hl. cbn [prev_all cfg_fixed].
    destruct (offenders w (a :: t)) as [|o os] eqn:Eo.
    + simpl. split; [reflexivity|]. split; [|left; reflexivity]. split; [|reflexivity]. intros _ b Hb.
      apply (proj1 (offenders_nil w (a :: t)) Eo). rewrite <- Et. apply sort_In. exact Hb.
    + simpl. split; [reflexivity|]. split; [|right; eexists; reflexivity]. split; [discriminate|].
      intros H. exfalso. assert (offenders w (a :: t) = []) as E0.
      { apply offenders_nil. intros b Hb. apply H. apply (sort_In (leb_by bypath_key)). rewrite Et. exact Hb. }
      congruence.
Qed.


(* ---------- the whole commit when no action declares further actions *)
Definition groups_of (acts : list action) : list (Z * list ainfo) :=
  groupby group_key (sort (leb_by orderandpos_key) (enumerate 0 acts)).

Lemma enumerate_flat l : forall s, Forall (fun a => aadds a = []) l -> Forall flat_info (enumerate s l).
Proof.
  induction l as [|a r IH]; intros s H; simpl; [constructor|].
  inversion H; subst. constructor; [assumption|]. apply IH. assumption.
Qed.

Lemma flat_Forall acts : flat acts = true -> Forall (fun a => aadds a = []) acts.
Proof.
  unfold flat. rewrite forallb_forall, Forall_forall. intros H a Ha. specialize (H a Ha).
  destruct (aadds a); [reflexivity|discriminate].
Qed.

Lemma groups_of_flat acts : flat acts = true -> Forall flat_info (concat (map snd (groups_of acts))).
Proof.
  intros H. unfold groups_of. rewrite groupby_concat.
  pose proof (enumerate_flat acts 0%N (flat_Forall _ H)) as HE.
  rewrite Forall_forall in *. intros x Hx. apply HE. apply sort_In in Hx. exact Hx.
Qed.

(* execute_actions on a program whose callables declare nothing = the recursion over
   the order groups, started from an empty resolver state *)
Theorem commit_flat cfg acts :
  flat acts = true ->
  let r := commit_with cfg acts in
  fst r = Crash \/ fst r = OutOfFuel \/ r = run_groups cfg [] None (groups_of acts).
Proof.
  intros Hf r. subst r. unfold commit_with.
  destruct acts as [|a l].
  - pose proof (exec_flat cfg (S (forest_size [])) cstate0 [] [] [] (Forall_nil _)) as H.
    cbv zeta in H. destruct H as [H|[H|H]]; [left; exact H|right; left; exact H|].
    right. right. exact H.
  - pose proof (exec_flat cfg (S (forest_size (a :: l))) (fst (restart cstate0 (a :: l))) []
                  (groups_of (a :: l)) [] (groups_of_flat _ Hf)) as H.
    cbv zeta in H.
    assert (E : exec cfg (S (forest_size (a :: l))) cstate0 gen0 (a :: l) [] =
                exec cfg (S (forest_size (a :: l))) (fst (restart cstate0 (a :: l)))
                     {| g_out := []; g_groups := groups_of (a :: l) |} [] []) by reflexivity.
    rewrite E. destruct H as [H|[H|H]]; [left; exact H|right; left; exact H|].
    right. right. rewrite H. cbn [fst restart resolved min_order cstate0]. cbn [flush_res flush_mo fold_left runs map app].
    destruct (run_groups cfg [] None (groups_of (a :: l))). reflexivity.
Qed.

(* ---------- phase regressions *)
(* a group whose order lies before the order already reached is refused, whatever it contains *)
Theorem late_group_refused cfg st order grp gs evs m :
  min_order st = Some m -> (order < m)%Z ->
  next_group cfg st ((order, grp) :: gs) evs = SStop (Late order m) evs st.
Proof.
  intros Hm Hlt. cbn [next_group]. unfold late. rewrite Hm.
  replace min_order_cmp with 0%N by reflexivity. cbn [cmp_eval].
  apply Z.ltb_lt in Hlt. rewrite Hlt. reflexivity.
Qed.

(* ... and only such a group is: the refusal names an order strictly before the one reached *)
Theorem late_only cfg : forall gs st evs order m evs' st',
  next_group cfg st gs evs = SStop (Late order m) evs' st' ->
  min_order st = Some m /\ (order < m)%Z /\ In order (map fst gs).
Proof.
  induction gs as [|[o grp] gs IH]; intros st evs order m evs' st' H.
  - simpl in H. discriminate.
  - cbn [next_group] in H. destruct (late (min_order st) o) eqn:EL.
    + unfold late in EL. destruct (min_order st) as [m0|] eqn:Em; [|discriminate].
      replace min_order_cmp with 0%N in EL by reflexivity. cbn [cmp_eval] in EL. apply Z.ltb_lt in EL.
      injection H as H1 H2 H3 H4. subst o m0.
      split; [reflexivity|]. split; [exact EL|]. left. reflexivity.
    + destruct (detect cfg (resolved st) (sort_unique_lists (build_unique (forced_group grp)))) as [firsts K].
      destruct K; [|discriminate].
      match type of H with context [match ?X with Some _ => _ | None => _ end] => destruct X as [rem2|]; [|discriminate] end.
      destruct (sort (leb_by output_key) (none_output (forced_group grp) ++ firsts)) as [|x rest].
      * apply IH in H. cbn [min_order] in H. destruct H as [H1 [H2 H3]]. split; [exact H1|]. split; [exact H2|]. right. exact H3.
      * unfold yield_first in H. destruct (remove_aid (aid (snd x)) _); discriminate.
Qed.
