(* C14 -- part 3: the executable judge of the property accepts every trace of the model. *)
From Coq Require Import List NArith ZArith Bool Lia.
Import ListNotations.
Require Import Verif.Lib.Wire Verif.Gen.Facts_C03 Verif.Model.C03 Verif.Proofs.C03 Verif.Gen.Facts_C14 Verif.Model.C14
               Verif.Proofs.C14 Verif.Proofs.C14_b.

Lemma opt_N_eqb_refl a : opt_N_eqb a a = true.
Proof. destruct a; simpl; [apply N.eqb_refl|reflexivity]. Qed.
Lemma snap_eqb_refl s : snap_eqb s s = true.
Proof. induction s; simpl; [reflexivity|]. rewrite opt_N_eqb_refl. exact IHs. Qed.
Lemma outcome_eqb_refl o : outcome_eqb o o = true.
Proof. destruct o as [[t|e]|e]; simpl; apply N.eqb_refl. Qed.

Definition no_probe (l : list event) : Prop := forall o s, ~ In (EProbe o s) l.

Lemma split_probe_app l : forall acc o s r,
  no_probe l -> split_probe (l ++ EProbe o s :: r) acc = Some (rev acc ++ l, o, s, r).
Proof.
  induction l as [|ev l IH]; intros acc o s r Hn; simpl.
  - rewrite app_nil_r. reflexivity.
  - assert (Hn' : no_probe l) by (intros o' s' H; apply (Hn o' s'); right; exact H).
    destruct ev; try (rewrite IH by exact Hn'; simpl; rewrite <- app_assoc; reflexivity).
    exfalso. apply (Hn o0 s0). left. reflexivity.
Qed.

Section Judge.
Variables (b : bool) (regs : list reg) (W : world) (ri : rinfo).
Notation SP := (spec_params_b b).
(* a direct invoke_exception_view(secure=False) call is covered only when permissive calls check predicates *)
Hypothesis Hsec : b = true \/ sec_of (ri_under ri) = true.
(* every exception-view lookup in the registry of the world is allowed by the declarative order over [regs]
   (C03's lookup theorem; discharged below for registries built by register_all) *)
Hypothesis Hlook : forall e,
  spec_ok exc_classifier_id regs (exc_request SP W ri e)
          (call_view (w_reg W) exc_classifier_id (exc_request SP W ri e)) = true.
(* the resource is not an exception; what the framework makes inside invoke_exception_view is what it is *)
Hypothesis Hres : isa W cn_Exception ctx_resource = false.
Hypothesis Hfresh : forall site, In site [site_under; site_tween] ->
  isa W cn_HTTPNotFound (fresh_nf site) = true /\ isa W cn_HTTPNotFound (fresh_pme site) = true
  /\ isa W cn_Exception (fresh_pme site) = true
  /\ isa W cn_HTTPForbidden (fresh_forb site) = true /\ isa W cn_Exception (fresh_forb site) = true
  /\ isa W cn_HTTPNotFound (fresh_forb site) = false.

Lemma exc_not_resource e : isa W cn_Exception e = true -> N.eqb e ctx_resource = false.
Proof.
  intros H. destruct (N.eqb e ctx_resource) eqn:E; [|reflexivity].
  apply N.eqb_eq in E. subst. rewrite Hres in H. discriminate.
Qed.

(* shape of the log written by invoke_exception_view *)
Lemma iev_log site rr sec e st :
  exists evs, st_log (snd (iev SP W ri site rr sec e st)) = st_log st ++ evs
              /\ (evs = [] \/ exists t s, evs = [EBody t e s]).
Proof.
  rewrite iev_unfold.
  pose proof (hide_attrs_fst (p_hidden SP) (iev_body SP W ri site sec e) (st_attrs st)) as Hfst.
  destruct (hide_attrs (p_hidden SP) (iev_body SP W ri site sec e) (st_attrs st)) as [[res evs] attrs'].
  simpl fst in Hfst. exists evs. split.
  - destruct res as [[r|e2]|]; reflexivity.
  - unfold iev_body in Hfst.
    destruct (call_view_sec SP (w_reg W) sec exc_classifier_id (exc_request SP W ri e)) as [t| |].
    + unfold run_body in Hfst.
      destruct (sec && b_perm (body_of (w_bodies W) t) && ri_deny ri).
      * simpl in Hfst. inversion Hfst. left. reflexivity.
      * right. destruct (b_act (body_of (w_bodies W) t));
          try match type of Hfst with context [if ?c then _ else _] => destruct c end;
          simpl in Hfst; inversion Hfst; eauto.
    + simpl in Hfst. inversion Hfst. left. reflexivity.
    + simpl in Hfst. inversion Hfst. left. reflexivity.
Qed.

Lemma lookup_ok e :
  spec_ok exc_classifier_id regs (exc_request SP W ri e)
          (call_view (w_reg W) exc_classifier_id (exc_request SP W ri e)) = true.
Proof. apply Hlook. Qed.

Lemma winner_in (ws : list reg) w t (f : N -> bool) :
  In w ws -> r_tag w = t -> f t = true -> existsb (fun w => f (r_tag w)) ws = true.
Proof. intros Hin Ht Hf. apply existsb_exists. exists w. split; [exact Hin|]. rewrite Ht. exact Hf. Qed.

(* the judge accepts a direct invoke_exception_view call of the model *)
Lemma iev_judge site rr sec e st evs :
  In site [site_under; site_tween] -> sec = true \/ b = true ->
  isa W cn_Exception e = true ->
  let r := iev SP W ri site rr sec e st in
  st_log (snd r) = st_log st ++ evs ->
  judge_render regs W ri (Some rr) sec e (snap (st_attrs st)) evs (fst r) (snap (st_attrs (snd r))) = true.
Proof.
  intros Hsite Hs Hisa r Hlog. subst r. unfold judge_render.
  pose proof (lookup_ok e) as Hok.
  assert (Hcv : call_view_sec SP (w_reg W) sec exc_classifier_id (exc_request SP W ri e)
                = call_view (w_reg W) exc_classifier_id (exc_request SP W ri e)).
  { apply call_view_sec_eq. destruct Hs as [Hs|Hs]; [left; exact Hs|right; rewrite Hs; reflexivity]. }
  change (exc_request spec_params W ri e) with (exc_request SP W ri e).
  destruct (Hfresh site Hsite) as [F1 [F2 [F3 [F4 [F5 F6]]]]].
  destruct (spec_winners exc_classifier_id regs (exc_request SP W ri e)) as [|w0 ws0] eqn:Hw.
  - pose proof (spec_ok_not_found _ _ _ _ Hok Hw) as Hnf. rewrite <- Hcv in Hnf.
    pose proof (iev_not_found SP W ri site rr sec e st (spec_hidden_nodup b) Hnf) as [Hl [Ha Ho]].
    rewrite Hl in Hlog. rewrite <- (app_nil_r (st_log st)) in Hlog at 1. apply app_inv_head in Hlog. subst evs.
    rewrite (snap_restored b _ _ Ha), snap_eqb_refl.
    assert (Hfc : fresh_of_class (p_none_raises SP) site = fresh_nf site) by reflexivity.
    assert (Hic : p_iev_catches SP = cn_Exception) by reflexivity.
    assert (L1 : N.leb 1000 (fresh_nf site) = true) by (unfold fresh_nf; apply N.leb_le; lia).
    assert (L2 : N.leb 1000 (fresh_pme site) = true) by (unfold fresh_pme; apply N.leb_le; lia).
    rewrite Hfc, Hic, F3 in Ho.
    destruct Ho as [-> | ->]; destruct rr; cbn [andb]; cbv beta iota; rewrite ?andb_true_l.
    + apply outcome_eqb_refl.
    + rewrite L1, F1. reflexivity.
    + apply outcome_eqb_refl.
    + rewrite L2, F2. reflexivity.
  - assert (Hne : spec_winners exc_classifier_id regs (exc_request SP W ri e) <> []) by (rewrite Hw; discriminate).
    destruct (spec_ok_found _ _ _ _ Hok Hne) as [t Ht]. rewrite Ht in Hok.
    destruct (spec_ok_ran _ _ _ _ Hok) as [w [Hin Htag]]. rewrite Hw in Hin.
    rewrite <- Hcv in Ht.
    apply (winner_in _ w t (judge_winner W ri (Some rr) sec e (snap (st_attrs st)) evs
                              (fst (iev SP W ri site rr sec e st)) (snap (st_attrs (snd (iev SP W ri site rr sec e st))))) Hin Htag).
    unfold judge_winner.
    destruct (sec && b_perm (body_of (w_bodies W) t) && ri_deny ri) eqn:Hperm.
    + assert (Hsm : N.eqb site site_main = false) by (destruct Hsite as [<-|[<-|[]]]; reflexivity).
      pose proof (iev_refused b W ri site rr sec e st t Hsm Ht Hperm) as [Hl [Ha Ho]].
      rewrite Hl in Hlog. rewrite <- (app_nil_r (st_log st)) in Hlog at 1. apply app_inv_head in Hlog. subst evs.
      rewrite Ha, snap_eqb_refl, Ho, F5. cbn [andb].
      assert (L3 : N.leb 1000 (fresh_forb site) = true) by (unfold fresh_forb; apply N.leb_le; lia).
      destruct rr; cbn [andb]; cbv beta iota.
      * apply outcome_eqb_refl.
      * rewrite L3, F4. reflexivity.
    + pose proof (iev_view_runs b W ri site rr sec e st t Hisa Ht Hperm) as [Hl Hr].
      rewrite Hl in Hlog. apply app_inv_head in Hlog. subst evs.
      rewrite !N.eqb_refl, snap_eqb_refl. cbn [andb].
      unfold rendered in Hr.
      destruct (b_act (body_of (w_bodies W) t)) as [| |v].
      * destruct Hr as [-> ->]. rewrite outcome_eqb_refl, snap_eqb_refl. reflexivity.
      * destruct (N.eqb (status_of W e) 0); [reflexivity|].
        destruct Hr as [-> ->]. rewrite outcome_eqb_refl, snap_eqb_refl. reflexivity.
      * destruct Hr as [-> Hr]. destruct (isa W cn_HTTPNotFound v); [reflexivity|].
        rewrite snap_eqb_refl. simpl. destruct rr; rewrite Hr; apply outcome_eqb_refl.
Qed.

(* ... and what the excview tween makes of an exception *)
Lemma excview_log e st :
  exists evs, st_log (snd (excview_tween SP W ri (Raise e) st)) = st_log st ++ evs
              /\ (evs = [] \/ exists t s, evs = [EBody t e s]).
Proof.
  unfold excview_tween. destruct (isa W (p_tween_catches SP) e).
  - destruct (iev_log site_tween false true e st) as [evs [Hl Hs]].
    destruct (iev SP W ri site_tween false true e st) as [[r|e2] st']; simpl snd in Hl.
    + exists evs. split; [exact Hl|exact Hs].
    + destruct (isa W (p_handler_catches SP) e2); exists evs; (split; [exact Hl|exact Hs]).
  - exists []. simpl. rewrite app_nil_r. auto.
Qed.

Lemma excview_judge e st evs :
  isa W cn_Exception e = true ->
  let r := excview_tween SP W ri (Raise e) st in
  st_log (snd r) = st_log st ++ evs ->
  judge_render regs W ri None true e (snap (st_attrs st)) evs (fst r) (snap (st_attrs (snd r))) = true.
Proof.
  intros Hisa r Hlog. subst r. unfold judge_render.
  pose proof (lookup_ok e) as Hok.
  change (exc_request spec_params W ri e) with (exc_request SP W ri e).
  destruct (Hfresh site_tween (or_intror (or_introl eq_refl))) as [F1 [F2 [F3 [F4 [F5 F6]]]]].
  destruct (spec_winners exc_classifier_id regs (exc_request SP W ri e)) as [|w0 ws0] eqn:Hw.
  - pose proof (spec_ok_not_found _ _ _ _ Hok Hw) as Hnf.
    assert (Hf : fresh_ok SP W site_tween) by (split; [exact F2|exact F1]).
    pose proof (no_view_propagates SP W ri e st (spec_hidden_nodup b) eq_refl Hf Hnf) as [Ho [Hl Ha]].
    rewrite Hl in Hlog. rewrite <- (app_nil_r (st_log st)) in Hlog at 1. apply app_inv_head in Hlog. subst evs.
    rewrite (snap_restored b _ _ Ha), snap_eqb_refl, Ho. simpl. apply N.eqb_refl.
  - assert (Hne : spec_winners exc_classifier_id regs (exc_request SP W ri e) <> []) by (rewrite Hw; discriminate).
    destruct (spec_ok_found _ _ _ _ Hok Hne) as [t Ht]. rewrite Ht in Hok.
    destruct (spec_ok_ran _ _ _ _ Hok) as [w [Hin Htag]]. rewrite Hw in Hin.
    apply (winner_in _ w t (judge_winner W ri None true e (snap (st_attrs st)) evs
                              (fst (excview_tween SP W ri (Raise e) st))
                              (snap (st_attrs (snd (excview_tween SP W ri (Raise e) st))))) Hin Htag).
    unfold judge_winner. cbn [andb].
    destruct (b_perm (body_of (w_bodies W) t) && ri_deny ri) eqn:Hperm.
    + pose proof (excview_refused b W ri e st t Hisa F6 Ht Hperm) as [Ho [Hl Ha]].
      rewrite Hl in Hlog. rewrite <- (app_nil_r (st_log st)) in Hlog at 1. apply app_inv_head in Hlog. subst evs.
      rewrite Ha, snap_eqb_refl, Ho, F4. cbn [andb].
      assert (L3 : N.leb 1000 (fresh_forb site_tween) = true) by reflexivity. rewrite L3. reflexivity.
    + pose proof (excview_view_runs b W ri e st t Hisa Ht Hperm) as [Hl Hr].
      rewrite Hl in Hlog. apply app_inv_head in Hlog. subst evs.
      rewrite !N.eqb_refl, snap_eqb_refl. cbn [andb].
      unfold rendered in Hr.
      destruct (b_act (body_of (w_bodies W) t)) as [| |v].
      * destruct Hr as [-> ->]. rewrite outcome_eqb_refl, snap_eqb_refl. reflexivity.
      * destruct (N.eqb (status_of W e) 0); [reflexivity|].
        destruct Hr as [-> ->]. rewrite outcome_eqb_refl, snap_eqb_refl. reflexivity.
      * destruct Hr as [-> Hr]. destruct (isa W cn_HTTPNotFound v); [reflexivity|].
        rewrite snap_eqb_refl, (Hr eq_refl). simpl. apply N.eqb_refl.
Qed.

(* the ordinary part of the request writes at most one ordinary-body event *)
Lemma main_log second st :
  exists evs, st_log (snd (main_handler SP W ri second st)) = st_log st ++ evs
              /\ (evs = [] \/ exists t s, evs = [EBody t ctx_resource s]).
Proof.
  unfold main_handler. destruct (ri_root_raise ri); [exists []; simpl; rewrite app_nil_r; auto|].
  destruct (call_view (w_reg W) view_classifier (req_of ri second)) as [t| |];
    try solve [exists []; simpl; rewrite app_nil_r; auto].
  unfold run_body. destruct (true && b_perm (body_of (w_bodies W) t) && ri_deny ri).
  - exists []. simpl. rewrite app_nil_r. auto.
  - destruct (b_act (body_of (w_bodies W) t));
      try match goal with |- context [if ?c then _ else _] => destruct c end;
      simpl; eexists; split; try reflexivity; right; eauto.
Qed.

Lemma normal_evs_ok evs0 :
  (evs0 = [] \/ exists t s, evs0 = [EBody t ctx_resource s]) ->
  no_probe evs0 /\ forall rr sec l, judge_under regs W ri rr sec [] (evs0 ++ l) = judge_under regs W ri rr sec [] l.
Proof.
  intros [->|[t [s ->]]].
  - split; [intros o s H; destruct H|reflexivity].
  - split; [intros o s' [H|[]]; discriminate H|]. intros rr sec l. simpl. reflexivity.
Qed.

Lemma under_judge a0 :
  let r := under_tween SP W ri (mkSt a0 []) in
  no_probe (st_log (snd r)) /\ judge_under regs W ri (rr_of (ri_under ri)) (sec_of (ri_under ri)) [] (st_log (snd r)) = true.
Proof.
  intros r. subst r. unfold under_tween.
  destruct (main_log false (mkSt a0 [])) as [evs0 [Hl0 Hs0]]. simpl in Hl0.
  destruct (normal_evs_ok evs0 Hs0) as [Hn0 Hj0].
  destruct (ri_under ri) as [|e| |rr sec via thn] eqn:Hu.
  - rewrite Hl0. split; [exact Hn0|]. rewrite <- (app_nil_r evs0). rewrite Hj0. reflexivity.
  - simpl. split; [intros o s H; destruct H|reflexivity].
  - destruct (main_handler SP W ri false (mkSt a0 [])) as [o st1] eqn:Hm. simpl in Hl0.
    destruct (main_log true st1) as [evs1 [Hl1 Hs1]]. destruct (normal_evs_ok evs1 Hs1) as [Hn1 Hj1].
    rewrite Hl1, Hl0. split.
    + intros o' s H. apply in_app_or in H. destruct H as [H|H]; [exact (Hn0 o' s H)|exact (Hn1 o' s H)].
    + rewrite Hj0. rewrite <- (app_nil_r evs1). rewrite Hj1. reflexivity.
  - destruct (main_handler SP W ri false (mkSt a0 [])) as [o st1] eqn:Hm. simpl in Hl0.
    assert (Hbase : no_probe (st_log st1) /\ judge_under regs W ri rr sec [] (st_log st1) = true).
    { rewrite Hl0. split; [exact Hn0|]. rewrite <- (app_nil_r evs0). rewrite Hj0. reflexivity. }
    destruct o as [r|e].
    + destruct thn; simpl; exact Hbase.
    + destruct (isa W cn_Exception e) eqn:Hisa.
      * destruct (iev_log site_under rr sec e st1) as [evs [Hl Hs]].
        assert (Hs' : sec = true \/ b = true) by (destruct Hsec as [Hb|Hb]; [right; exact Hb|left; exact Hb]).
        pose proof (iev_judge site_under rr sec e st1 evs (or_introl eq_refl) Hs' Hisa Hl) as Hj.
        destruct (iev SP W ri site_under rr sec e st1) as [o2 st2]. simpl in Hl, Hj.
        assert (Hgoal : no_probe (st_log st2 ++ [EIev e (snap (st_attrs st1)) o2 (snap (st_attrs st2))])
                        /\ judge_under regs W ri rr sec [] (st_log st2 ++ [EIev e (snap (st_attrs st1)) o2 (snap (st_attrs st2))]) = true).
        { rewrite Hl, Hl0. rewrite <- app_assoc. split.
          - intros o s H. apply in_app_or in H. destruct H as [H|H]; [exact (Hn0 o s H)|].
            apply in_app_or in H. destruct H as [H|[H|[]]]; [|discriminate H].
            destruct Hs as [->|[t [s' ->]]]; [destruct H|destruct H as [H|[]]; discriminate H].
          - rewrite Hj0. destruct Hs as [->|[t [s' ->]]]; simpl.
            + rewrite Hj. reflexivity.
            + rewrite (exc_not_resource e Hisa). simpl. rewrite Hj. reflexivity. }
        destruct o2 as [r2|e2]; [destruct thn|]; simpl; exact Hgoal.
      * simpl. exact Hbase.
Qed.

(* the judge accepts every trace of the model *)
Theorem judge_accepts_model : judge regs W ri (run_request SP W ri) = true.
Proof.
  unfold run_request.
  pose proof (under_judge (init_attrs ri)) as [Hnp Hju].
  destruct (under_tween SP W ri (mkSt (init_attrs ri) [])) as [o1 st1]. simpl in Hnp, Hju.
  unfold add_log. simpl st_attrs. simpl st_log.
  set (st1' := mkSt (st_attrs st1) (st_log st1 ++ [EProbe o1 (snap (st_attrs st1))])).
  assert (Hshape : exists evs,
            st_log (snd (excview_tween SP W ri o1 st1')) = st_log st1' ++ evs
            /\ match o1 with
               | Resp _ => evs = [] /\ excview_tween SP W ri o1 st1' = (o1, st1')
               | Raise e =>
                   if isa W cn_Exception e
                   then judge_render regs W ri None true e (snap (st_attrs st1')) evs
                          (fst (excview_tween SP W ri o1 st1')) (snap (st_attrs (snd (excview_tween SP W ri o1 st1')))) = true
                   else evs = [] /\ excview_tween SP W ri o1 st1' = (o1, st1')
               end).
  { destruct o1 as [r|e].
    - exists []. simpl. rewrite app_nil_r. auto.
    - destruct (isa W cn_Exception e) eqn:Hisa.
      + destruct (excview_log e st1') as [evs [Hl _]]. exists evs. split; [exact Hl|].
        apply excview_judge; assumption.
      + exists []. rewrite (not_caught_passes SP W ri e st1' Hisa). simpl. rewrite app_nil_r. auto. }
  destruct Hshape as [evs [Hl Hcase]].
  destruct (excview_tween SP W ri o1 st1') as [o2 st2] eqn:Hex. simpl in Hl.
  unfold judge, judge_gen. rewrite Hl. subst st1'. simpl st_log. rewrite <- !app_assoc. simpl app.
  rewrite (split_probe_app (st_log st1) [] o1 (snap (st_attrs st1)) _ Hnp).
  rewrite rev_unit. cbv beta iota. rewrite rev_involutive.
  change (rev [] ++ st_log st1) with (st_log st1).
  rewrite Hju. cbn [andb orb].
  assert (Hfin : opt_N_eqb (aget hn_exception (st_attrs st2)) (nth 2 (snap (st_attrs st2)) None) = true)
    by (rewrite snap_eq; simpl; apply opt_N_eqb_refl).
  rewrite Hfin. cbn [andb].
  destruct o1 as [r|e].
  - destruct Hcase as [-> Hex']. inversion Hex'; subst. cbn [st_attrs rev andb].
    rewrite outcome_eqb_refl, snap_eqb_refl. reflexivity.
  - destruct (isa W cn_Exception e).
    + simpl in Hcase. exact Hcase.
    + destruct Hcase as [-> Hex']. inversion Hex'; subst. cbn [st_attrs rev andb].
      rewrite outcome_eqb_refl, snap_eqb_refl. reflexivity.
Qed.

End Judge.

(* ------------------------------------------------------------------ *)
(* discharging the lookup hypothesis; the registrations the directives produce *)

Lemma lookup_ok_register_all b ao regs W ri :
  w_reg W = register_all ao regs ->
  Forall reg_wf regs -> NoDup (map key regs) -> no_accept regs -> order_respects regs ->
  (forall e, NoDup (q_req_sro (exc_request (spec_params_b b) W ri e))) ->
  (forall e, NoDup (x_sro (find_exc (w_excs W) e))) ->
  forall e, spec_ok exc_classifier_id regs (exc_request (spec_params_b b) W ri e)
              (call_view (w_reg W) exc_classifier_id (exc_request (spec_params_b b) W ri e)) = true.
Proof.
  intros HR Hwf Hk Hna Hor Hrs Hcs e. rewrite HR. apply excview_nearest_class; auto.
Qed.

(* every registration produced from the declarations is made by PredicateList.make from the keyword arguments *)
Lemma regs_of_decl_made P names nm d : Forall (made_by names) (regs_of_decl P names nm d).
Proof.
  unfold regs_of_decl. destruct (effective_ctx P nm d) as [[c xonly] isexc].
  destruct (xonly && negb isexc); [constructor|].
  apply Forall_app. split.
  - destruct xonly; [constructor|]. unfold opt_list.
    destruct (reg_of_args names view_classifier (with_ctx (forwarded_args P (d_dir d) (d_args d)) c)) eqn:E; [|constructor].
    constructor; [|constructor]. exists view_classifier, (with_ctx (forwarded_args P (d_dir d) (d_args d)) c). exact E.
  - destruct isexc; [|constructor]. unfold opt_list.
    destruct (reg_of_args names exc_classifier_id (with_ctx (forwarded_args P (d_dir d) (d_args d)) c)) eqn:E; [|constructor].
    constructor; [|constructor]. exists exc_classifier_id, (with_ctx (forwarded_args P (d_dir d) (d_args d)) c). exact E.
Qed.

Lemma regs_upto_made P names nm user ph : Forall (made_by names) (regs_upto P names nm user ph).
Proof.
  unfold regs_upto. apply Forall_forall. intros v Hv. apply in_flat_map in Hv.
  destruct Hv as [d [_ Hv]]. pose proof (regs_of_decl_made P names nm d) as H.
  rewrite Forall_forall in H. exact (H v Hv).
Qed.

Lemma reg_of_args_accept names cls a v : reg_of_args names cls a = Some v -> r_accept v = a_accept a.
Proof.
  unfold reg_of_args. destruct (make names (args_kw a)); simpl; [|discriminate].
  intros H. inversion H. reflexivity.
Qed.

Lemma default_decls_no_accept nm ctxs i d : In d (default_decls nm ctxs i) -> a_accept (d_args d) = None.
Proof.
  revert i. induction ctxs as [|c r IH]; intros i H; [destruct H|].
  destruct H as [<-|H]; [reflexivity|exact (IH _ H)].
Qed.

(* C03's hypotheses on the registration list, for the registrations the directives produce: well-formed
   phashes, orders that respect the number of predicates, no accept= (when no declaration has one) *)
Theorem regs_upto_hyps P names nm user ph :
  (length names <= 20)%nat ->
  Forall (fun d => a_accept (d_args d) = None) user ->
  Forall (fun v => (n_preds v <= 400)%nat) (regs_upto P names nm user ph) ->
  Forall reg_wf (regs_upto P names nm user ph)
  /\ no_accept (regs_upto P names nm user ph)
  /\ order_respects (regs_upto P names nm user ph).
Proof.
  intros Hn Hacc Hk. pose proof (regs_upto_made P names nm user ph) as Hm.
  split; [eapply Forall_impl; [|exact Hm]; intros v; apply made_by_wf|].
  split; [|apply (order_respects_made names); assumption].
  intros v Hv. unfold regs_upto in Hv. apply in_flat_map in Hv. destruct Hv as [d [Hd Hv]].
  assert (Hda : a_accept (d_args d) = None).
  { unfold decls_upto in Hd. apply filter_In in Hd. destruct Hd as [Hd _]. unfold all_decls in Hd.
    apply in_app_or in Hd. destruct Hd as [Hd|Hd]; [exact (default_decls_no_accept _ _ _ _ Hd)|].
    rewrite Forall_forall in Hacc. exact (Hacc d Hd). }
  unfold regs_of_decl in Hv. destruct (effective_ctx P nm d) as [[c xonly] isexc].
  destruct (xonly && negb isexc); [destruct Hv|].
  assert (G : forall cls, In v (opt_list (reg_of_args names cls (with_ctx (forwarded_args P (d_dir d) (d_args d)) c))) -> r_accept v = None).
  { intros cls H. unfold opt_list in H.
    destruct (reg_of_args names cls (with_ctx (forwarded_args P (d_dir d) (d_args d)) c)) eqn:E; [|destruct H].
    destruct H as [<-|[]]. rewrite (reg_of_args_accept _ _ _ _ E). exact Hda. }
  apply in_app_or in Hv. destruct Hv as [Hv|Hv].
  - destruct xonly; [destruct Hv|exact (G _ Hv)].
  - destruct isexc; [exact (G _ Hv)|destruct Hv].
Qed.

(* ------------------------------------------------------------------ *)
(* non-vacuity: a world satisfying every hypothesis of judge_accepts_model in which an ordinary view touches
   request.response and raises, two exception views compete (the one for the nearer class wins, the one for
   Exception has a failing predicate), and the winner's response leaves exception / exc_info set *)
Ltac nodup_tac :=
  repeat (constructor;
          [simpl; let HH := fresh in intros HH; repeat (destruct HH as [HH|HH]; [discriminate HH|]); exact HH|]);
  constructor.

Lemma find_exc_in tbl e : In (find_exc tbl e) tbl \/ find_exc tbl e = mkExc e [] [] 0%N.
Proof.
  induction tbl as [|x r IH]; simpl; [right; reflexivity|].
  destruct (N.eqb (x_id x) e); [left; left; reflexivity|].
  destruct IH as [H|H]; [left; right; exact H|right; exact H].
Qed.

Definition ex_nm : named :=
  [(cn_Interface, 0%N); (cn_IRequest, 1%N); (cn_Exception, 6%N); (cn_HTTPNotFound, 8%N); (cn_HTTPForbidden, 9%N);
   (cn_IExceptionResponse, 10%N); (cn_WebobWSGIHTTPException, 11%N)].
Definition ex_decls : list vdecl :=
  [mkDecl DExcView (Some 7%N) false true (mkArgs 1%N 0%N [] [] None false 3%N) 0%N (mkBody true ARet false) None false;
   mkDecl DExcView None false false (mkArgs 1%N 0%N [] [(nm_xhr, [(false, VBool true)])] None false 4%N) 0%N
          (mkBody false ARet false) None false;
   mkDecl DView None false false (mkArgs 1%N 0%N [] [] None false 5%N) 0%N (mkBody true (ARaise 0%N) false) None false].
Definition ex_regs14 : list reg := Eval vm_compute in regs_upto spec_params pred_names ex_nm ex_decls 0%N.
Definition ex_nf (i : N) : exc := mkExc i [8; 10; 6; 0]%N [cn_Exception; cn_HTTPNotFound] 404%N.
Definition ex_fb (i : N) : exc := mkExc i [9; 10; 6; 0]%N [cn_Exception; cn_HTTPForbidden] 403%N.
Definition ex_excs : list exc :=
  [mkExc 0%N [7; 6; 0]%N [cn_Exception] 0%N; ex_nf 1000%N; ex_nf 1001%N; ex_nf 1010%N; ex_nf 1011%N; ex_nf 1020%N;
   ex_nf 1021%N; ex_fb 1013%N; ex_fb 1023%N].
Definition ex_W : world :=
  mkWorld (register_all accept_order_default ex_regs14) (bodies_of spec_params ex_nm ex_decls) ex_excs true false.
Definition ex_ri : rinfo :=
  mkRI (mkReq rm_get [] [] false None false [47%N] [([], [])] true [] [] [] [1; 0]%N [12; 0]%N [])
       None [1; 0]%N [1; 0]%N false None UPass None.

Example judge_accepts_model_nonvacuous :
  Forall reg_wf ex_regs14 /\ NoDup (map key ex_regs14) /\ no_accept ex_regs14 /\ order_respects ex_regs14
  /\ (forall e, NoDup (q_req_sro (exc_request spec_params ex_W ex_ri e)))
  /\ (forall e, NoDup (x_sro (find_exc (w_excs ex_W) e)))
  /\ isa ex_W cn_Exception ctx_resource = false
  /\ (forall site, In site [site_under; site_tween] ->
        isa ex_W cn_HTTPNotFound (fresh_nf site) = true /\ isa ex_W cn_HTTPNotFound (fresh_pme site) = true
        /\ isa ex_W cn_Exception (fresh_pme site) = true
        /\ isa ex_W cn_HTTPForbidden (fresh_forb site) = true /\ isa ex_W cn_Exception (fresh_forb site) = true
        /\ isa ex_W cn_HTTPNotFound (fresh_forb site) = false)
  /\ run_request spec_params ex_W ex_ri =
       [EBody 5 ctx_resource [None; None; None];
        EProbe (Raise 0) [Some 2005%N; None; None];
        EBody 3 0 [None; Some 0%N; Some 0%N];
        EFinal (Resp (RView 3)) [Some 2005%N; Some 0%N; Some 0%N] (Some 0%N)]
  /\ map r_tag (spec_winners exc_classifier_id ex_regs14 (exc_request spec_params ex_W ex_ri 0%N)) = [3%N].
Proof.
  split. { unfold ex_regs14. repeat (constructor; [vm_compute; reflexivity|]). constructor. }
  split. { unfold ex_regs14. nodup_tac. }
  split. { intros v Hv. unfold ex_regs14 in Hv. simpl in Hv.
           repeat (destruct Hv as [<-|Hv]; [reflexivity|]). contradiction. }
  split. { intros a b Ha Hb Hs Hn. unfold ex_regs14 in Ha, Hb. simpl in Ha, Hb.
           repeat (destruct Ha as [<-|Ha]); try contradiction;
             repeat (destruct Hb as [<-|Hb]); try contradiction;
             try discriminate Hs; vm_compute in Hn; lia. }
  split. { intros e. simpl. nodup_tac. }
  split. { intros e. change (w_excs ex_W) with ex_excs.
           destruct (find_exc_in ex_excs e) as [H|H]; [|rewrite H; constructor].
           remember (find_exc ex_excs e) as x eqn:Hx. clear Hx. unfold ex_excs, ex_nf, ex_fb in H. simpl in H.
           repeat (destruct H as [H|H]; [subst x; simpl; nodup_tac|]). contradiction. }
  split. { vm_compute. reflexivity. }
  split. { intros site Hs. destruct Hs as [Hs|[Hs|Hs]]; [subst site|subst site|destruct Hs];
           vm_compute; repeat split; reflexivity. }
  split; vm_compute; reflexivity.
Qed.

(* The statement without the premise on secure=False is false of the code as it is (b = false: a permissive call
   does not check the predicates of a single secured view): the exception view for class 7 carries a permission
   and the predicate xhr=True; on a request without that header a tween calls
   request.invoke_exception_view(secure=False) and the view renders the exception although its predicate fails
   (finding C14-permissive-skips-predicates). *)
Definition rf_decls : list vdecl :=
  [mkDecl DView (Some 7%N) true true (mkArgs 1%N 0%N [] [(nm_xhr, [(false, VBool true)])] None true 3%N) 0%N
          (mkBody false ARet true) None false;
   mkDecl DView None false false (mkArgs 1%N 0%N [] [] None false 5%N) 0%N (mkBody false (ARaise 0%N) false) None false].
Definition rf_regs : list reg := Eval vm_compute in regs_upto spec_params pred_names ex_nm rf_decls 0%N.
Definition rf_W : world :=
  mkWorld (register_all accept_order_default rf_regs) (bodies_of spec_params ex_nm rf_decls) ex_excs true false.
Definition rf_ri : rinfo :=
  mkRI (mkReq rm_get [] [] false None false [47%N] [([], [])] true [] [] [] [1; 0]%N [12; 0]%N [])
       None [1; 0]%N [1; 0]%N false None (UCatch false false false None) None.

Theorem judge_accepts_model_refuted :
  sec_of (ri_under rf_ri) = false
  /\ judge rf_regs rf_W rf_ri (run_request (spec_params_b false) rf_W rf_ri) = false
  /\ judge rf_regs rf_W rf_ri (run_request (spec_params_b true) rf_W rf_ri) = true
  /\ spec_winners exc_classifier_id rf_regs (exc_request spec_params rf_W rf_ri 0%N) = [].
Proof. vm_compute. repeat split; reflexivity. Qed.

(* ------------------------------------------------------------------ *)
(* overriding declarations: C03's override-tolerant lookup theorem (Proofs/C03_ov.v) instead of distinct keys *)
Require Import Verif.Proofs.C03_ov.

Lemma same_key_iff a b : same_key a b = true <-> key a = key b.
Proof.
  unfold same_key, key. rewrite andb_true_iff, slot_eqb_eq, text_eqb_eq. split.
  - intros [-> ->]. reflexivity.
  - intros H. inversion H. auto.
Qed.

(* the executable premise is sound for C03's key_order and key_faithful *)
Lemma key_ok_sound regs : key_ok_b regs = true -> key_order regs /\ key_faithful regs.
Proof.
  unfold key_ok_b. intros H. rewrite forallb_forall in H.
  assert (G : forall a b, In a regs -> In b regs -> key a = key b ->
                          r_order a = r_order b /\ map pred_phash (r_preds a) = map pred_phash (r_preds b)).
  { intros a b Ha Hb Hk. specialize (H a Ha). rewrite forallb_forall in H. specialize (H b Hb).
    unfold key_pair_ok in H. apply same_key_iff in Hk. rewrite Hk in H. simpl in H.
    apply andb_true_iff in H. destruct H as [H1 H2]. apply Z.eqb_eq in H1. apply texts_eqb_eq in H2. auto. }
  split; intros a b Ha Hb Hk; apply (G a b Ha Hb Hk).
Qed.

Lemma order_respects_live regs : order_respects regs -> order_respects (live_regs regs).
Proof. intros H a b Ha Hb. apply H; apply live_regs_in; assumption. Qed.

(* the lookup premise of the judge theorem without distinct keys: a later declaration with the same slot and
   predicates overrides the earlier one, in the registry and in the declarative order alike *)
Lemma lookup_ok_overrides b ao regs W ri :
  w_reg W = register_all ao regs ->
  Forall reg_wf regs -> key_ok_b regs = true -> no_accept regs -> order_respects regs ->
  (forall e, NoDup (q_req_sro (exc_request (spec_params_b b) W ri e))) ->
  (forall e, NoDup (x_sro (find_exc (w_excs W) e))) ->
  forall e, spec_ok exc_classifier_id regs (exc_request (spec_params_b b) W ri e)
              (call_view (w_reg W) exc_classifier_id (exc_request (spec_params_b b) W ri e)) = true.
Proof.
  intros HR Hwf Hk Hna Hor Hrs Hcs e. rewrite HR. destruct (key_ok_sound regs Hk) as [Hko Hkf].
  apply lookup_winner_overrides; auto; [apply Hcs|apply order_respects_live; exact Hor].
Qed.

(* ... for the registrations the directives produce: everything but the (computable) key check and the oracle
   orders is discharged *)
Theorem lookup_ok_regs_upto b ao P names nm user ph W ri :
  w_reg W = register_all ao (regs_upto P names nm user ph) ->
  (length names <= 20)%nat ->
  Forall (fun d => a_accept (d_args d) = None) user ->
  Forall (fun v => (n_preds v <= 400)%nat) (regs_upto P names nm user ph) ->
  key_ok_b (regs_upto P names nm user ph) = true ->
  (forall e, NoDup (q_req_sro (exc_request (spec_params_b b) W ri e))) ->
  (forall e, NoDup (x_sro (find_exc (w_excs W) e))) ->
  forall e, spec_ok exc_classifier_id (regs_upto P names nm user ph) (exc_request (spec_params_b b) W ri e)
              (call_view (w_reg W) exc_classifier_id (exc_request (spec_params_b b) W ri e)) = true.
Proof.
  intros HR Hn Hacc Hk Hkey Hrs Hcs.
  destruct (regs_upto_hyps P names nm user ph Hn Hacc Hk) as [Hwf [Hna Hor]].
  apply (lookup_ok_overrides b ao); assumption.
Qed.

(* non-vacuity of the override case: the second declaration has the slot and predicates of the first; the key
   check passes, keys are NOT distinct, and the later view renders *)
Definition ov_decls : list vdecl :=
  [mkDecl DExcView (Some 7%N) false true (mkArgs 1%N 0%N [] [] None false 3%N) 0%N (mkBody false ARet false) None false;
   mkDecl DExcView (Some 7%N) false true (mkArgs 1%N 0%N [] [] None false 4%N) 0%N (mkBody false ARet false) None false;
   mkDecl DView None false false (mkArgs 1%N 0%N [] [] None false 5%N) 0%N (mkBody false (ARaise 0%N) false) None false].
Definition ov_regs : list reg := Eval vm_compute in regs_upto spec_params pred_names ex_nm ov_decls 0%N.
Definition ov_W : world :=
  mkWorld (register_all accept_order_default ov_regs) (bodies_of spec_params ex_nm ov_decls) ex_excs true false.

Example lookup_ok_overrides_nonvacuous :
  key_ok_b ov_regs = true /\ ~ NoDup (map key ov_regs)
  /\ premises_b ov_regs ov_W ex_ri = true
  /\ call_view (w_reg ov_W) exc_classifier_id (exc_request spec_params ov_W ex_ri 0%N) = Ran 4%N
  /\ map r_tag (spec_winners exc_classifier_id ov_regs (exc_request spec_params ov_W ex_ri 0%N)) = [4%N].
Proof.
  split; [vm_compute; reflexivity|]. split.
  - intros H. unfold ov_regs in H. simpl in H.
    repeat match type of H with NoDup (?x :: ?l) =>
      let Hn := fresh in let Hr := fresh in
      inversion H as [|? ? Hn Hr]; subst; clear H;
      try (exfalso; apply Hn; simpl; auto 10; fail); rename Hr into H end.
  - vm_compute. repeat split; reflexivity.
Qed.
