(* C14 -- part 3: the executable judge of the property accepts every trace of the model. *)
From Coq Require Import List NArith ZArith Bool Lia.
Import ListNotations.
Require Import Verif.Lib.Wire Verif.Gen.Facts_C03 Verif.Model.C03 Verif.Proofs.C03 Verif.Gen.Facts_C14 Verif.Model.C14
               Verif.Proofs.C14 Verif.Proofs.C14_b.

Lemma opt_N_eqb_refl a : opt_N_eqb a a = true.
Proof. destruct a; simpl; [apply N.eqb_refl|reflexivity]. Qed.
Lemma snap_eqb_refl s : snap_eqb s s = true.
Proof. induction s; simpl; [reflexivity|]. rewrite opt_N_eqb_refl. exact IHs. Qed.
Lemma outcome_eqb_refl o : outcome_eqb o o = true.
Proof. destruct o as [[t|e]|e]; simpl; apply N.eqb_refl. Qed.

Definition no_probe (l : list event) : Prop := forall o s, ~ In (EProbe o s) l.

Lemma split_probe_app l : forall acc o s r,
  no_probe l -> split_probe (l ++ EProbe o s :: r) acc = Some (rev acc ++ l, o, s, r).
Proof.
  induction l as [|ev l IH]; intros acc o s r Hn; simpl.
  - rewrite app_nil_r. reflexivity.
  - assert (Hn' : no_probe l) by (intros o' s' H; apply (Hn o' s'); right; exact H).
    destruct ev; try (rewrite IH by exact Hn'; simpl; rewrite <- app_assoc; reflexivity).
    exfalso. apply (Hn o0 s0). left. reflexivity.
Qed.

Section Judge.
Variables (ao : list text) (regs : list reg) (W : world) (ri : rinfo).
Hypothesis HR : w_reg W = register_all ao regs.
Hypothesis Hwf : Forall reg_wf regs.
Hypothesis Hk : NoDup (map key regs).
Hypothesis Hna : no_accept regs.
Hypothesis Hor : order_respects regs.
Hypothesis Hrs : forall e, NoDup (q_req_sro (exc_request spec_params W ri e)).
Hypothesis Hcs : forall e, NoDup (x_sro (find_exc (w_excs W) e)).
(* the resource is not an exception; what the framework makes inside invoke_exception_view is what it is *)
Hypothesis Hres : isa W cn_Exception ctx_resource = false.
Hypothesis Hfresh : forall site, In site [site_under; site_tween] ->
  isa W cn_HTTPNotFound (fresh_nf site) = true /\ isa W cn_HTTPNotFound (fresh_pme site) = true
  /\ isa W cn_Exception (fresh_pme site) = true.

Lemma exc_not_resource e : isa W cn_Exception e = true -> N.eqb e ctx_resource = false.
Proof.
  intros H. destruct (N.eqb e ctx_resource) eqn:E; [|reflexivity].
  apply N.eqb_eq in E. subst. rewrite Hres in H. discriminate.
Qed.

(* shape of the log written by invoke_exception_view *)
Lemma iev_log site rr e st :
  exists evs, st_log (snd (iev spec_params W ri site rr e st)) = st_log st ++ evs
              /\ (evs = [] \/ exists t s, evs = [EBody t e s]).
Proof.
  rewrite iev_unfold.
  pose proof (hide_attrs_fst (p_hidden spec_params) (iev_body spec_params W ri site e) (st_attrs st)) as Hfst.
  destruct (hide_attrs (p_hidden spec_params) (iev_body spec_params W ri site e) (st_attrs st)) as [[res evs] attrs'].
  simpl fst in Hfst. exists evs. split.
  - destruct res as [[r|e2]|]; reflexivity.
  - unfold iev_body in Hfst.
    destruct (call_view (w_reg W) exc_classifier_id (exc_request spec_params W ri e)) as [t| |].
    + unfold run_body in Hfst.
      destruct (b_perm (body_of (w_bodies W) t) && ri_deny ri).
      * simpl in Hfst. inversion Hfst. left. reflexivity.
      * right. destruct (b_act (body_of (w_bodies W) t));
          try destruct (p_default_view_ctx spec_params && negb (N.eqb (status_of W e) 0));
          simpl in Hfst; inversion Hfst; eauto.
    + simpl in Hfst. inversion Hfst. left. reflexivity.
    + simpl in Hfst. inversion Hfst. left. reflexivity.
Qed.

Lemma lookup_ok e :
  spec_ok exc_classifier_id regs (exc_request spec_params W ri e)
          (call_view (w_reg W) exc_classifier_id (exc_request spec_params W ri e)) = true.
Proof. rewrite HR. apply excview_nearest_class; auto. Qed.

Lemma perm_of_winner ws t w :
  existsb (fun w => b_perm (body_of (w_bodies W) (r_tag w))) ws && ri_deny ri = false ->
  In w ws -> r_tag w = t -> b_perm (body_of (w_bodies W) t) && ri_deny ri = false.
Proof.
  intros H Hin Ht. destruct (ri_deny ri); [|apply andb_false_r].
  rewrite andb_true_r in *. destruct (b_perm (body_of (w_bodies W) t)) eqn:E; [|reflexivity].
  rewrite <- H. symmetry. apply existsb_exists. exists w. split; [exact Hin|]. rewrite Ht. exact E.
Qed.

Lemma tag_in_winners (ws : list reg) w t : In w ws -> r_tag w = t -> existsb (fun w => N.eqb (r_tag w) t) ws = true.
Proof. intros Hin Ht. apply existsb_exists. exists w. split; [exact Hin|]. apply N.eqb_eq. exact Ht. Qed.

(* the judge accepts a direct invoke_exception_view call of the model *)
Lemma iev_judge site rr e st evs :
  In site [site_under; site_tween] ->
  let r := iev spec_params W ri site rr e st in
  st_log (snd r) = st_log st ++ evs ->
  judge_render regs W ri (Some rr) e (snap (st_attrs st)) evs (fst r) (snap (st_attrs (snd r))) = true.
Proof.
  intros Hsite r Hlog. subst r. unfold judge_render.
  pose proof (lookup_ok e) as Hok.
  destruct (spec_winners exc_classifier_id regs (exc_request spec_params W ri e)) as [|w0 ws0] eqn:Hw.
  - pose proof (spec_ok_not_found _ _ _ _ Hok Hw) as Hnf.
    pose proof (iev_not_found spec_params W ri site rr e st spec_hidden_nodup Hnf) as [Hl [Ha Ho]].
    rewrite Hl in Hlog. rewrite <- (app_nil_r (st_log st)) in Hlog at 1. apply app_inv_head in Hlog. subst evs.
    rewrite (snap_restored _ _ Ha), snap_eqb_refl.
    destruct (Hfresh site Hsite) as [F1 [F2 F3]].
    assert (Hfc : fresh_of_class (p_none_raises spec_params) site = fresh_nf site) by reflexivity.
    assert (Hic : p_iev_catches spec_params = cn_Exception) by reflexivity.
    assert (L1 : N.leb 1000 (fresh_nf site) = true) by (unfold fresh_nf; apply N.leb_le; lia).
    assert (L2 : N.leb 1000 (fresh_pme site) = true) by (unfold fresh_pme; apply N.leb_le; lia).
    rewrite Hfc, Hic, F3 in Ho.
    destruct Ho as [-> | ->]; destruct rr; cbn [andb]; cbv beta iota; rewrite ?andb_true_l.
    + apply outcome_eqb_refl.
    + rewrite L1, F1. reflexivity.
    + apply outcome_eqb_refl.
    + rewrite L2, F2. reflexivity.
  - assert (Hne : spec_winners exc_classifier_id regs (exc_request spec_params W ri e) <> []) by (rewrite Hw; discriminate).
    destruct (existsb (fun w => b_perm (body_of (w_bodies W) (r_tag w))) (w0 :: ws0) && ri_deny ri) eqn:Hsc; [reflexivity|].
    destruct (spec_ok_found _ _ _ _ Hok Hne) as [t Ht]. rewrite Ht in Hok.
    destruct (spec_ok_ran _ _ _ _ Hok) as [w [Hin Htag]]. rewrite Hw in Hin.
    pose proof (perm_of_winner _ _ _ Hsc Hin Htag) as Hperm.
    pose proof (iev_view_runs W ri site rr e st t Ht Hperm) as [Hl Hr].
    rewrite Hl in Hlog. apply app_inv_head in Hlog. subst evs.
    rewrite (tag_in_winners _ _ _ Hin Htag), N.eqb_refl, snap_eqb_refl. cbn [andb].
    unfold rendered in Hr.
    destruct (b_act (body_of (w_bodies W) t)) as [| |v].
    + destruct Hr as [-> ->]. rewrite outcome_eqb_refl, snap_eqb_refl. reflexivity.
    + destruct (N.eqb (status_of W e) 0); [reflexivity|].
      destruct Hr as [-> ->]. rewrite outcome_eqb_refl, snap_eqb_refl. reflexivity.
    + destruct Hr as [-> Hr]. destruct (isa W cn_HTTPNotFound v); [reflexivity|].
      rewrite snap_eqb_refl. simpl. destruct rr; rewrite Hr; apply outcome_eqb_refl.
Qed.

(* ... and what the excview tween makes of an exception *)
Lemma excview_log e st :
  exists evs, st_log (snd (excview_tween spec_params W ri (Raise e) st)) = st_log st ++ evs
              /\ (evs = [] \/ exists t s, evs = [EBody t e s]).
Proof.
  unfold excview_tween. destruct (isa W (p_tween_catches spec_params) e).
  - destruct (iev_log site_tween false e st) as [evs [Hl Hs]].
    destruct (iev spec_params W ri site_tween false e st) as [[r|e2] st']; simpl snd in Hl.
    + exists evs. split; [exact Hl|exact Hs].
    + destruct (isa W (p_handler_catches spec_params) e2); exists evs; (split; [exact Hl|exact Hs]).
  - exists []. simpl. rewrite app_nil_r. auto.
Qed.

Lemma excview_judge e st evs :
  isa W cn_Exception e = true ->
  let r := excview_tween spec_params W ri (Raise e) st in
  st_log (snd r) = st_log st ++ evs ->
  judge_render regs W ri None e (snap (st_attrs st)) evs (fst r) (snap (st_attrs (snd r))) = true.
Proof.
  intros Hisa r Hlog. subst r. unfold judge_render.
  pose proof (lookup_ok e) as Hok.
  destruct (spec_winners exc_classifier_id regs (exc_request spec_params W ri e)) as [|w0 ws0] eqn:Hw.
  - pose proof (spec_ok_not_found _ _ _ _ Hok Hw) as Hnf.
    assert (Hf : fresh_ok spec_params W site_tween).
    { destruct (Hfresh site_tween (or_intror (or_introl eq_refl))) as [F1 [F2 F3]]. split; [exact F2|exact F1]. }
    pose proof (no_view_propagates spec_params W ri e st spec_hidden_nodup eq_refl Hf Hnf) as [Ho [Hl Ha]].
    rewrite Hl in Hlog. rewrite <- (app_nil_r (st_log st)) in Hlog at 1. apply app_inv_head in Hlog. subst evs.
    rewrite (snap_restored _ _ Ha), snap_eqb_refl, Ho. simpl. apply N.eqb_refl.
  - assert (Hne : spec_winners exc_classifier_id regs (exc_request spec_params W ri e) <> []) by (rewrite Hw; discriminate).
    destruct (existsb (fun w => b_perm (body_of (w_bodies W) (r_tag w))) (w0 :: ws0) && ri_deny ri) eqn:Hsc; [reflexivity|].
    destruct (spec_ok_found _ _ _ _ Hok Hne) as [t Ht]. rewrite Ht in Hok.
    destruct (spec_ok_ran _ _ _ _ Hok) as [w [Hin Htag]]. rewrite Hw in Hin.
    pose proof (perm_of_winner _ _ _ Hsc Hin Htag) as Hperm.
    pose proof (excview_view_runs W ri e st t Hisa Ht Hperm) as [Hl Hr].
    rewrite Hl in Hlog. apply app_inv_head in Hlog. subst evs.
    rewrite (tag_in_winners _ _ _ Hin Htag), N.eqb_refl, snap_eqb_refl. cbn [andb].
    unfold rendered in Hr.
    destruct (b_act (body_of (w_bodies W) t)) as [| |v].
    + destruct Hr as [-> ->]. rewrite outcome_eqb_refl, snap_eqb_refl. reflexivity.
    + destruct (N.eqb (status_of W e) 0); [reflexivity|].
      destruct Hr as [-> ->]. rewrite outcome_eqb_refl, snap_eqb_refl. reflexivity.
    + destruct Hr as [-> Hr]. destruct (isa W cn_HTTPNotFound v); [reflexivity|].
      rewrite snap_eqb_refl, (Hr eq_refl). simpl. apply N.eqb_refl.
Qed.

(* the ordinary part of the request writes at most one ordinary-body event *)
Lemma main_log st :
  exists evs, st_log (snd (main_handler spec_params W ri st)) = st_log st ++ evs
              /\ (evs = [] \/ exists t s, evs = [EBody t ctx_resource s]).
Proof.
  unfold main_handler. destruct (ri_root_raise ri); [exists []; simpl; rewrite app_nil_r; auto|].
  destruct (call_view (w_reg W) view_classifier (ri_req ri)) as [t| |];
    try solve [exists []; simpl; rewrite app_nil_r; auto].
  unfold run_body. destruct (b_perm (body_of (w_bodies W) t) && ri_deny ri).
  - exists []. simpl. rewrite app_nil_r. auto.
  - destruct (b_act (body_of (w_bodies W) t));
      try destruct (p_default_view_ctx spec_params && negb (N.eqb (status_of W ctx_resource) 0));
      simpl; eexists; split; try reflexivity; right; eauto.
Qed.

Definition rr_of (u : under_prog) : bool := match u with UCatch rr _ => rr | _ => false end.

Lemma under_judge a0 :
  let r := under_tween spec_params W ri (mkSt a0 []) in
  no_probe (st_log (snd r)) /\ judge_under regs W ri (rr_of (ri_under ri)) [] (st_log (snd r)) = true.
Proof.
  intros r. subst r. unfold under_tween.
  destruct (main_log (mkSt a0 [])) as [evs0 [Hl0 Hs0]]. simpl in Hl0.
  assert (Hn0 : no_probe evs0 /\ forall rr l, judge_under regs W ri rr [] (evs0 ++ l) = judge_under regs W ri rr [] l).
  { destruct Hs0 as [->|[t [s ->]]].
    - split; [intros o s H; destruct H|reflexivity].
    - split; [intros o s' [H|[]]; discriminate H|]. intros rr l. simpl. reflexivity. }
  destruct Hn0 as [Hn0 Hj0].
  destruct (ri_under ri) as [|e|rr thn] eqn:Hu.
  - rewrite Hl0. split; [exact Hn0|]. rewrite <- (app_nil_r evs0). rewrite Hj0. reflexivity.
  - simpl. split; [intros o s H; destruct H|reflexivity].
  - destruct (main_handler spec_params W ri (mkSt a0 [])) as [o st1] eqn:Hm. simpl in Hl0.
    assert (Hbase : no_probe (st_log st1) /\ judge_under regs W ri rr [] (st_log st1) = true).
    { rewrite Hl0. split; [exact Hn0|]. rewrite <- (app_nil_r evs0). rewrite Hj0. reflexivity. }
    destruct o as [r|e].
    + destruct thn; simpl; exact Hbase.
    + destruct (isa W cn_Exception e) eqn:Hisa.
      * destruct (iev_log site_under rr e st1) as [evs [Hl Hs]].
        pose proof (iev_judge site_under rr e st1 evs (or_introl eq_refl) Hl) as Hj.
        destruct (iev spec_params W ri site_under rr e st1) as [o2 st2]. simpl in Hl, Hj.
        assert (Hgoal : no_probe (st_log st2 ++ [EIev e (snap (st_attrs st1)) o2 (snap (st_attrs st2))])
                        /\ judge_under regs W ri rr [] (st_log st2 ++ [EIev e (snap (st_attrs st1)) o2 (snap (st_attrs st2))]) = true).
        { rewrite Hl, Hl0. rewrite <- app_assoc. split.
          - intros o s H. apply in_app_or in H. destruct H as [H|H]; [exact (Hn0 o s H)|].
            apply in_app_or in H. destruct H as [H|[H|[]]]; [|discriminate H].
            destruct Hs as [->|[t [s' ->]]]; [destruct H|destruct H as [H|[]]; discriminate H].
          - rewrite Hj0. destruct Hs as [->|[t [s' ->]]]; simpl.
            + rewrite Hj. reflexivity.
            + rewrite (exc_not_resource e Hisa). simpl. rewrite Hj. reflexivity. }
        destruct o2 as [r2|e2]; [destruct thn|]; simpl; exact Hgoal.
      * simpl. exact Hbase.
Qed.

(* the judge accepts every trace of the model *)
Theorem judge_accepts_model : judge regs W ri (run_request spec_params W ri) = true.
Proof.
  unfold run_request.
  pose proof (under_judge (init_attrs ri)) as [Hnp Hju].
  destruct (under_tween spec_params W ri (mkSt (init_attrs ri) [])) as [o1 st1]. simpl in Hnp, Hju.
  unfold add_log. simpl st_attrs. simpl st_log.
  set (st1' := mkSt (st_attrs st1) (st_log st1 ++ [EProbe o1 (snap (st_attrs st1))])).
  assert (Hshape : exists evs,
            st_log (snd (excview_tween spec_params W ri o1 st1')) = st_log st1' ++ evs
            /\ match o1 with
               | Resp _ => evs = [] /\ excview_tween spec_params W ri o1 st1' = (o1, st1')
               | Raise e =>
                   if isa W cn_Exception e
                   then judge_render regs W ri None e (snap (st_attrs st1')) evs
                          (fst (excview_tween spec_params W ri o1 st1')) (snap (st_attrs (snd (excview_tween spec_params W ri o1 st1')))) = true
                   else evs = [] /\ excview_tween spec_params W ri o1 st1' = (o1, st1')
               end).
  { destruct o1 as [r|e].
    - exists []. simpl. rewrite app_nil_r. auto.
    - destruct (isa W cn_Exception e) eqn:Hisa.
      + destruct (excview_log e st1') as [evs [Hl _]]. exists evs. split; [exact Hl|].
        apply excview_judge; assumption.
      + exists []. rewrite (not_caught_passes spec_params W ri e st1' Hisa). simpl. rewrite app_nil_r. auto. }
  destruct Hshape as [evs [Hl Hcase]].
  destruct (excview_tween spec_params W ri o1 st1') as [o2 st2] eqn:Hex. simpl in Hl.
  unfold judge. rewrite Hl. subst st1'. simpl st_log. rewrite <- !app_assoc. simpl app.
  rewrite (split_probe_app (st_log st1) [] o1 (snap (st_attrs st1)) _ Hnp).
  rewrite rev_unit. cbv beta iota. rewrite rev_involutive.
  change (rev [] ++ st_log st1) with (st_log st1).
  unfold rr_of in Hju. rewrite Hju. cbn [andb].
  assert (Hfin : opt_N_eqb (aget hn_exception (st_attrs st2)) (nth 2 (snap (st_attrs st2)) None) = true)
    by (rewrite snap_eq; simpl; apply opt_N_eqb_refl).
  rewrite Hfin. cbn [andb].
  destruct o1 as [r|e].
  - destruct Hcase as [-> Hex']. inversion Hex'; subst. cbn [st_attrs rev andb].
    rewrite outcome_eqb_refl, snap_eqb_refl. reflexivity.
  - destruct (isa W cn_Exception e).
    + simpl in Hcase. exact Hcase.
    + destruct Hcase as [-> Hex']. inversion Hex'; subst. cbn [st_attrs rev andb].
      rewrite outcome_eqb_refl, snap_eqb_refl. reflexivity.
Qed.

End Judge.

(* ------------------------------------------------------------------ *)
(* non-vacuity: a world satisfying every hypothesis of judge_accepts_model in which an ordinary view touches
   request.response and raises, two exception views compete (the one for the nearer class wins, the one for
   Exception has a failing predicate), and the winner's response leaves exception / exc_info set *)
Ltac nodup_tac :=
  repeat (constructor;
          [simpl; let HH := fresh in intros HH; repeat (destruct HH as [HH|HH]; [discriminate HH|]); exact HH|]);
  constructor.

Lemma find_exc_in tbl e : In (find_exc tbl e) tbl \/ find_exc tbl e = mkExc e [] [] 0%N.
Proof.
  induction tbl as [|x r IH]; simpl; [right; reflexivity|].
  destruct (N.eqb (x_id x) e); [left; left; reflexivity|].
  destruct IH as [H|H]; [left; right; exact H|right; exact H].
Qed.

Definition ex_nm : named :=
  [(cn_Interface, 0%N); (cn_IRequest, 1%N); (cn_Exception, 6%N); (cn_HTTPNotFound, 8%N); (cn_HTTPForbidden, 9%N);
   (cn_IExceptionResponse, 10%N); (cn_WebobWSGIHTTPException, 11%N)].
Definition ex_decls : list vdecl :=
  [mkDecl DExcView (Some 7%N) false true (mkArgs 1%N 0%N [] [] None false 3%N) 0%N (mkBody true ARet false);
   mkDecl DExcView None false false (mkArgs 1%N 0%N [] [(nm_xhr, [(false, VBool true)])] None false 4%N) 0%N
          (mkBody false ARet false);
   mkDecl DView None false false (mkArgs 1%N 0%N [] [] None false 5%N) 0%N (mkBody true (ARaise 0%N) false)].
Definition ex_regs14 : list reg := Eval vm_compute in regs_upto spec_params pred_names ex_nm ex_decls 0%N.
Definition ex_nf (i : N) : exc := mkExc i [8; 10; 6; 0]%N [cn_Exception; cn_HTTPNotFound] 404%N.
Definition ex_excs : list exc :=
  [mkExc 0%N [7; 6; 0]%N [cn_Exception] 0%N; ex_nf 1000%N; ex_nf 1001%N; ex_nf 1010%N; ex_nf 1011%N; ex_nf 1020%N;
   ex_nf 1021%N].
Definition ex_W : world :=
  mkWorld (register_all accept_order_default ex_regs14) (bodies_of spec_params ex_nm ex_decls) ex_excs.
Definition ex_ri : rinfo :=
  mkRI (mkReq rm_get [] [] false None false [47%N] [([], [])] true [] [] [] [1; 0]%N [12; 0]%N [])
       [1; 0]%N [1; 0]%N false None UPass None.

Example judge_accepts_model_nonvacuous :
  Forall reg_wf ex_regs14 /\ NoDup (map key ex_regs14) /\ no_accept ex_regs14 /\ order_respects ex_regs14
  /\ (forall e, NoDup (q_req_sro (exc_request spec_params ex_W ex_ri e)))
  /\ (forall e, NoDup (x_sro (find_exc (w_excs ex_W) e)))
  /\ isa ex_W cn_Exception ctx_resource = false
  /\ (forall site, In site [site_under; site_tween] ->
        isa ex_W cn_HTTPNotFound (fresh_nf site) = true /\ isa ex_W cn_HTTPNotFound (fresh_pme site) = true
        /\ isa ex_W cn_Exception (fresh_pme site) = true)
  /\ run_request spec_params ex_W ex_ri =
       [EBody 5 ctx_resource [None; None; None];
        EProbe (Raise 0) [Some 2005%N; None; None];
        EBody 3 0 [None; Some 0%N; Some 0%N];
        EFinal (Resp (RView 3)) [Some 2005%N; Some 0%N; Some 0%N] (Some 0%N)]
  /\ map r_tag (spec_winners exc_classifier_id ex_regs14 (exc_request spec_params ex_W ex_ri 0%N)) = [3%N].
Proof.
  split. { unfold ex_regs14. repeat (constructor; [vm_compute; reflexivity|]). constructor. }
  split. { unfold ex_regs14. nodup_tac. }
  split. { intros v Hv. unfold ex_regs14 in Hv. simpl in Hv.
           repeat (destruct Hv as [<-|Hv]; [reflexivity|]). contradiction. }
  split. { intros a b Ha Hb Hs Hn. unfold ex_regs14 in Ha, Hb. simpl in Ha, Hb.
           repeat (destruct Ha as [<-|Ha]); try contradiction;
             repeat (destruct Hb as [<-|Hb]); try contradiction;
             try discriminate Hs; vm_compute in Hn; lia. }
  split. { intros e. simpl. nodup_tac. }
  split. { intros e. change (w_excs ex_W) with ex_excs.
           destruct (find_exc_in ex_excs e) as [H|H]; [|rewrite H; constructor].
           remember (find_exc ex_excs e) as x eqn:Hx. clear Hx. unfold ex_excs, ex_nf in H. simpl in H.
           repeat (destruct H as [H|H]; [subst x; simpl; nodup_tac|]). contradiction. }
  split. { vm_compute. reflexivity. }
  split. { intros site Hs. destruct Hs as [Hs|[Hs|Hs]]; [subst site|subst site|destruct Hs];
           vm_compute; repeat split; reflexivity. }
  split; vm_compute; reflexivity.
Qed.
