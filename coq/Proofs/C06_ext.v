(* C06, second part: parsed patterns start with '/', explicit value forms, %HH well-formedness,
   extra positional elements, the URL form through url_split. *)
From Coq Require Import List NArith ZArith Bool Lia ZifyBool ZifyN.
Import ListNotations.
Require Import Verif.Lib.Wire Verif.Lib.Text Verif.Lib.PathNorm Verif.Lib.Utf8 Verif.Lib.Percent Verif.Lib.C06Utf8.
Require Verif.Gen.Facts_C01 Verif.Model.C01 Verif.Proofs.C01.
Require Import Verif.Gen.Facts_C17 Verif.Model.C17 Verif.Proofs.C17.
Require Import Verif.Gen.Facts_C06 Verif.Model.C06 Verif.Proofs.C06 Verif.Proofs.C06_total.
Ltac Zify.zify_post_hook ::= Z.div_mod_to_equations.
Open Scope N_scope.

(* ------------------------------------------------------------ (1) every parsed pattern starts with '/' *)
Lemma split_route_head s : forall k acc, exists x rest, C01.split_route s k acc = C01.PLit (rev acc ++ x) :: rest.
Proof.
  induction s as [|c r IH]; intros k acc.
  - exists [], []. cbn. rewrite app_nil_r. reflexivity.
  - cbn [C01.split_route]. destruct k as [|k]; [|apply IH].
    assert (G : exists x rest, C01.split_route r 0 (c :: acc) = C01.PLit (rev acc ++ x) :: rest).
    { destruct (IH 0%nat (c :: acc)) as (x & rest & ->). exists (c :: x), rest. cbn [rev]. rewrite <- app_assoc. reflexivity. }
    destruct (c =? C01.c_lbrace); [|exact G].
    destruct (C01.brace_body r) as [[body t]|]; [|exact G].
    eexists [], _. rewrite app_nil_r. reflexivity.
Qed.

Lemma rsplit_star_head r a b : C01.rsplit_star (47 :: r) = Some (a, b) -> exists a', a = 47 :: a'.
Proof.
  cbn [C01.rsplit_star]. destruct (C01.rsplit_star r) as [[a0 b0]|].
  - intros H; inversion H; eauto.
  - change (47 =? C01.c_star) with false. discriminate.
Qed.

Lemma startswith_slash_head r : startswith [47] r = true -> exists t, r = 47 :: t.
Proof.
  destruct r as [|c t]; [discriminate|]. cbn [startswith]. intros E. apply andb_true_iff in E. destruct E as [E _].
  apply N.eqb_eq in E. subst c. eauto.
Qed.

Theorem parse_core_leading_slash O dflt src p :
  C01.parse_core O dflt src = C01.Ok p -> exists l r, C01.items p = C01.Lit (47 :: l) :: r.
Proof.
  unfold C01.parse_core. cbv zeta.
  set (r1 := if C01.has_old src && negb (C01.has_brace src) then C01.old_sub O src false else src).
  set (r2 := if startswith [47] r1 then r1 else 47 :: r1).
  assert (E2 : exists t, r2 = 47 :: t).
  { unfold r2. destruct (startswith [47] r1) eqn:E.
    - apply startswith_slash_head. exact E.
    - exists r1. reflexivity. }
  destruct E2 as (t2 & E2).
  match goal with |- context [let '(a, b) := ?X in _] => destruct X as [r3 rem] eqn:E3 end.
  assert (H3 : exists t, r3 = 47 :: t).
  { rewrite E2 in E3. destruct (C01.rsplit_star (47 :: t2)) as [[a b]|] eqn:Er.
    - destruct (C01.word_then_end O b); inversion E3; subst; [eapply rsplit_star_head; eassumption|eauto].
    - inversion E3; subst. eauto. }
  destruct H3 as (t3 & ->).
  assert (Hs : exists x rest, C01.split_route (47 :: t3) 0 [] = C01.PLit (47 :: x) :: rest).
  { cbn [C01.split_route]. change (47 =? C01.c_lbrace) with false. cbv iota.
    destruct (split_route_head t3 0%nat [47]) as (x & rest & ->). exists x, rest. reflexivity. }
  destruct Hs as (x & rest & ->). cbn [map C01.piece_item C01.seq_items].
  destruct (C01.seq_items (map (C01.piece_item dflt) rest)) as [its| | |] eqn:Es; intros H.
  - match type of H with context [match ?S with C01.Ok _ => _ | _ => _ end] => destruct S as [st| | |] end; try discriminate.
    cbv zeta in H. destruct (C01.has_dup _); [discriminate|]. inversion H; subst p. cbn [C01.items]. eauto.
  - destruct rem; [discriminate|]. destruct (C01.name_check _); discriminate.
  - discriminate.
  - discriminate.
Qed.

Lemma parse_pattern_core_ok O src p : C01.parse_pattern O src = C01.Ok p ->
  exists dflt, C01.parse_core O dflt src = C01.Ok p.
Proof.
  unfold C01.parse_pattern, C01.parse_pattern_with. destruct (negb C01.regex_sources_ok); [discriminate|]. eauto.
Qed.

Lemma leading_slash_render p caps : (exists l r, C01.items p = C01.Lit (47 :: l) :: r) ->
  exists t, C01.render (C01.items p) caps = 47 :: t.
Proof. intros (l & r & ->). cbn [C01.render app]. eauto. Qed.

(* the quoted form starts with a raw '/' when the bytes do *)
Lemma sform_head_slash u b : sform u b -> forall b', b = 47 :: b' -> exists u', u = 47 :: u'.
Proof.
  induction 1 as [|safe bs u b Hg Hs Hb _ IH]; intros b' E; [discriminate|].
  destruct bs as [|x bs]; [cbn [quote flat_map app] in *; eauto|].
  cbn [app] in E. inversion E; subst x. unfold quote. cbn [flat_map]. unfold quote1 at 1.
  unfold gsafe in Hs. apply andb_true_iff in Hs. destruct Hs as [_ H47].
  unfold is_safe. rewrite H47, orb_true_r. cbn [app]. eauto.
Qed.

Theorem generated_starts_with_slash O dflt src p kw u :
  C01.parse_core O dflt src = C01.Ok p -> generate (to_pattern p) kw = Ok u -> exists u', u = 47 :: u'.
Proof.
  intros Hp Hg. apply generate_q in Hg. destruct Hg as (t & Hg & _ & Hq). rewrite gtext_to_pattern in Hg.
  destruct (kw_caps p kw) as [caps|]; [|discriminate]. cbn [obind] in Hg. inversion Hg; subst t.
  destruct (leading_slash_render p caps (parse_core_leading_slash _ _ _ _ Hp)) as (t & Et).
  rewrite Et in Hq. eapply sform_head_slash; [exact Hq|reflexivity].
Qed.

(* central theorem without the side condition, for patterns that come out of the parser *)
Theorem route_roundtrip_parsed O dflt src p kw u caps :
  C01.parse_core O dflt src = C01.Ok p ->
  generate (to_pattern p) kw = Ok u -> kw_caps p kw = Some caps ->
  C01.caps_ok O (C01.star p) (C01.items p) caps = true ->
  sep_val O (C01.star p) (C01.items p) caps = true ->
  exists d, spec_dict p kw = Some d /\ roundtrip O p kw = Some d.
Proof.
  intros Hp Hg Hk Hc Hs. eapply route_roundtrip; eauto.
  destruct (generated_starts_with_slash _ _ _ _ _ _ Hp Hg) as (u' & ->). discriminate.
Qed.

(* ------------------------------------------------------------ (5) the value forms, explicitly *)
Theorem val_text_forms :
  (forall b t, val_text b (KScalar (PStr t)) = if forallb valid_scalar t then Some t else None)          (* str: itself *)
  /\ (forall b bs, val_text b (KScalar (PBytes bs)) = Utf8.decode bs)                                    (* bytes: UTF-8, as a whole *)
  /\ (forall b z, val_text b (KScalar (PInt z)) = Some (show_Z z))                                       (* int: str(int) *)
  /\ (forall b k s, val_text b (KScalar (PNum k s)) = if forallb valid_scalar s then Some s else None)   (* bool / float: str() *)
  /\ (forall l shown, val_text true (KSeq l shown) = olet ts := map_opt spec_text l in Some (join [47] ts))  (* remainder sequence *)
  /\ (forall l shown, val_text false (KSeq l shown) = if forallb valid_scalar shown then Some shown else None). (* str(list) *)
Proof. repeat split. Qed.

Lemma mk_dict_holes O st its : forall caps n,
  C01.caps_ok O st its caps = true -> In n (C01.hole_names its) ->
  exists t, In (n, C01.MText t) (C01.mk_dict its st caps).
Proof.
  induction its as [|[l|m h] r IH]; intros caps n Hc Hin.
  - contradiction.
  - cbn [C01.caps_ok C01.mk_dict] in *. rewrite names_lit in Hin. eauto.
  - cbn [C01.caps_ok C01.mk_dict] in *. destruct caps as [|v c]; [discriminate|]. apply andb_true_iff in Hc. destruct Hc as [_ Hc].
    rewrite names_hole in Hin. destruct Hin as [<-|Hin]; [exists v; left; reflexivity|].
    destruct (IH c n Hc Hin) as (t & Ht). exists t. right. exact Ht.
Qed.

Lemma spec_dict_star p kw d r v :
  spec_dict p kw = Some d -> C01.star p = Some r -> r <> [] -> assoc r kw = Some v ->
  exists s, star_segs v = Some s /\ In (r, C01.MSegs s) d.
Proof.
  unfold spec_dict. intros H Hs Hr Ha. rewrite Hs in H.
  destruct (spec_hole_dict (cap_of (Some r) kw) (C01.items p)) as [hd|]; [|discriminate]. cbn [obind] in H.
  destruct r as [|c r]; [contradiction|]. rewrite Ha in H. cbn [obind] in H.
  destruct (star_segs v) as [s|]; [|discriminate]. cbn [obind] in H. inversion H; subst d.
  exists s. split; [reflexivity|]. apply in_or_app. right. left. reflexivity.
Qed.

(* a whole remainder given as str / bytes / int comes back as split_path_info of the text it stands
   for -- bytes are decoded as ONE UTF-8 string, never iterated -- and a sequence element-wise *)
Theorem route_roundtrip_remainder_forms O p kw u caps r :
  generate (to_pattern p) kw = Ok u -> u <> [] -> kw_caps p kw = Some caps ->
  C01.caps_ok O (C01.star p) (C01.items p) caps = true ->
  sep_val O (C01.star p) (C01.items p) caps = true ->
  C01.star p = Some r -> r <> [] ->
  exists d, roundtrip O p kw = Some d
    /\ (forall t, assoc r kw = Some (KScalar (PStr t)) -> In (r, C01.MSegs (split_path_info t)) d)
    /\ (forall bs, assoc r kw = Some (KScalar (PBytes bs)) ->
          exists t, Utf8.decode bs = Some t /\ In (r, C01.MSegs (split_path_info t)) d)
    /\ (forall z, assoc r kw = Some (KScalar (PInt z)) -> In (r, C01.MSegs (split_path_info (show_Z z))) d)
    /\ (forall l shown, assoc r kw = Some (KSeq l shown) ->
          exists ts, map_opt spec_text l = Some ts
            /\ In (r, C01.MSegs (if forallb normal_segb ts then ts else split_path_info (join [47] ts))) d).
Proof.
  intros Hg Hne Hk Hc Hs Hst Hr. destruct (route_roundtrip _ _ _ _ _ Hg Hne Hk Hc Hs) as (d & Hd & Hrt).
  exists d. split; [exact Hrt|].
  assert (G : forall v, assoc r kw = Some v -> exists s, star_segs v = Some s /\ In (r, C01.MSegs s) d)
    by (intros v Hv; eapply spec_dict_star; eauto).
  repeat split.
  - intros t Ha. destruct (G _ Ha) as (s & Hs' & Hin). cbn [star_segs spec_text] in Hs'.
    destruct (forallb valid_scalar t); [|discriminate]. cbn [obind] in Hs'. inversion Hs'; subst s. exact Hin.
  - intros bs Ha. destruct (G _ Ha) as (s & Hs' & Hin). cbn [star_segs spec_text] in Hs'.
    destruct (Utf8.decode bs) as [t|]; [|discriminate]. cbn [obind] in Hs'. inversion Hs'; subst s. eauto.
  - intros z Ha. destruct (G _ Ha) as (s & Hs' & Hin). cbn [star_segs spec_text obind] in Hs'. inversion Hs'; subst s. exact Hin.
  - intros l shown Ha. destruct (G _ Ha) as (s & Hs' & Hin). cbn [star_segs] in Hs'.
    destruct (map_opt spec_text l) as [ts|]; [|discriminate]. cbn [obind] in Hs'. inversion Hs'; subst s. eauto.
Qed.

(* {name} values: str / bytes / int come back as the text they stand for *)
Theorem route_roundtrip_hole_forms O p kw u caps n :
  generate (to_pattern p) kw = Ok u -> u <> [] -> kw_caps p kw = Some caps ->
  C01.caps_ok O (C01.star p) (C01.items p) caps = true ->
  sep_val O (C01.star p) (C01.items p) caps = true ->
  In n (C01.hole_names (C01.items p)) -> C01.star p <> Some n -> NoDup (C01.hole_names (C01.items p)) ->
  exists d t, roundtrip O p kw = Some d /\ cap_of (C01.star p) kw n = Some t /\ In (n, C01.MText t) d
    /\ (forall x, assoc n kw = Some (KScalar (PStr x)) -> t = x)
    /\ (forall bs, assoc n kw = Some (KScalar (PBytes bs)) -> Utf8.decode bs = Some t)
    /\ (forall z, assoc n kw = Some (KScalar (PInt z)) -> t = show_Z z).
Proof.
  intros Hg Hne Hk Hc Hs Hin Hns Hnd. destruct (route_roundtrip _ _ _ _ _ Hg Hne Hk Hc Hs) as (d & Hd & Hrt).
  unfold spec_dict in Hd.
  destruct (spec_hole_dict (cap_of (C01.star p) kw) (C01.items p)) as [hd|] eqn:Eh; [|discriminate]. cbn [obind] in Hd.
  assert (G : forall its hd, spec_hole_dict (cap_of (C01.star p) kw) its = Some hd -> In n (C01.hole_names its) ->
              exists t, cap_of (C01.star p) kw n = Some t /\ In (n, C01.MText t) hd).
  { clear. induction its as [|[l|m h] r IH]; intros hd H Hin; [contradiction| |].
    - rewrite names_lit in Hin. cbn [spec_hole_dict] in H. eauto.
    - rewrite names_hole in Hin. cbn [spec_hole_dict] in H.
      destruct (cap_of (C01.star p) kw m) as [t|] eqn:Ec; [|discriminate]. cbn [obind] in H.
      destruct (spec_hole_dict (cap_of (C01.star p) kw) r) as [d'|] eqn:Ed; [|discriminate]. cbn [obind] in H. inversion H; subst hd.
      destruct Hin as [<-|Hin]; [exists t; split; [exact Ec|left; reflexivity]|].
      destruct (IH d' eq_refl Hin) as (t' & H1 & H2). exists t'. split; [exact H1|right; exact H2]. }
  destruct (G _ _ Eh Hin) as (t & Ht & Hint).
  assert (Hd' : exists sd, d = hd ++ sd).
  { match type of Hd with (obind ?X _) = _ => destruct X as [sd|] end; [|discriminate]. cbn [obind] in Hd. inversion Hd. eauto. }
  destruct Hd' as (sd & ->). exists (hd ++ sd), t. split; [exact Hrt|]. split; [exact Ht|]. split; [apply in_or_app; left; exact Hint|].
  assert (Hf : (match C01.star p with Some r => text_eqb n r | None => false end) = false).
  { destruct (C01.star p) as [r|]; [|reflexivity]. apply text_eqb_neq. intros ->. apply Hns. reflexivity. }
  unfold cap_of in Ht. rewrite Hf in Ht.
  repeat split.
  - intros x Ha. rewrite Ha in Ht. cbn [val_text spec_text] in Ht. destruct (forallb valid_scalar x); inversion Ht; reflexivity.
  - intros bs Ha. rewrite Ha in Ht. exact Ht.
  - intros z Ha. rewrite Ha in Ht. cbn [val_text spec_text] in Ht. inversion Ht; reflexivity.
Qed.

(* ------------------------------------------------------------ (4) every '%' starts a %HH escape (reusing C17's pct_ok) *)
Theorem generate_pct_ok p kw u : generate (to_pattern p) kw = Ok u -> pct_ok u = true.
Proof. apply generate_pct. Qed.

Theorem route_path_pct c e rs n els o kw P :
  Verif.Proofs.C17.wf_query (o_query o) -> Verif.Proofs.C17.wf_anchor (o_anchor o) ->
  join_elements_c c els = join_elements els ->
  route_path c e rs n els o kw = Ok P -> pct_ok P = true.
Proof.
  intros Hwq Hwa Hc H. unfold route_path, path_app_url in H. rewrite Facts_ok_route_path in H.
  apply rbind_ok in H. destruct H as (qs & Hqs & H).
  apply route_url_pct in H; auto. destruct H as (app & rest & Ha & -> & Hr).
  unfold parse_app in Ha. cbn [set_app_url o_app_url] in Ha. inversion Ha; subst app.
  destruct (quoted_script_form _ _ Hqs) as [Hv ->].
  pose proof Facts_ok_script_name_safe as HF. apply path_safe_ok_parts in HF. destruct HF as (Hg & _).
  apply good_safe_spec in Hg. destruct Hg as [_ H37].
  apply pct_ok_app; [|exact Hr]. apply pct_ok_quote; [exact H37|apply encode_bytes; exact Hv].
Qed.

(* ------------------------------------------------------------ (2) extra positional elements *)
Lemma endswith_app c a r : r <> [] -> endswith_char c (a ++ r) = endswith_char c r.
Proof.
  intros Hr. induction a as [|x a IH]; [reflexivity|]. cbn [app].
  destruct (a ++ r) as [|y l] eqn:E.
  - apply app_eq_nil in E. destruct E; contradiction.
  - simpl. exact IH.
Qed.

Lemma endswith_last c a x : endswith_char c (a ++ [x]) = (x =? c).
Proof. rewrite endswith_app by discriminate. reflexivity. Qed.

Lemma hexdigit_not_slash n : hexdigit n <> 47.
Proof. unfold hexdigit. destruct (n <? 10); lia. Qed.

Lemma endswith_quote safe bs : memN 47 safe = true -> endswith_char 47 (quote safe bs) = endswith_char 47 bs.
Proof.
  intros H47. induction bs as [|x bs _] using rev_ind; [reflexivity|].
  rewrite quote_app, endswith_last. unfold quote at 2. cbn [flat_map]. rewrite app_nil_r. unfold quote1.
  destruct (is_safe safe x) eqn:E.
  - apply endswith_last.
  - rewrite endswith_app by discriminate. cbn [endswith_char].
    assert (Hx : x <> 47) by (intros ->; unfold is_safe in E; rewrite H47, orb_true_r in E; discriminate).
    pose proof (hexdigit_not_slash (x mod 16)). lia.
Qed.

Lemma quote_nil_inv safe bs : quote safe bs = [] -> bs = [].
Proof.
  destruct bs as [|x r]; [reflexivity|]. unfold quote. cbn [flat_map]. unfold quote1. destruct (is_safe safe x); discriminate.
Qed.

Lemma qformP_nil_iff P u b : qformP P u b -> (u = [] <-> b = []).
Proof.
  induction 1 as [|safe bs u b _ _ _ _ IH]; [tauto|]. split; intros E; apply app_eq_nil in E; destruct E as [E1 E2].
  - apply quote_nil_inv in E1. subst bs. apply IH in E2. subst b. reflexivity.
  - subst bs. apply IH in E2. subst u. reflexivity.
Qed.

(* the generated path ends with '/' exactly when the decoded bytes do *)
Lemma sform_last_slash u b : sform u b -> endswith_char 47 u = endswith_char 47 b.
Proof.
  induction 1 as [|safe bs u b _ Hs _ Hq IH]; [reflexivity|].
  unfold gsafe in Hs. apply andb_true_iff in Hs. destruct Hs as [_ H47].
  destruct u as [|c u'].
  - assert (b = []) by (apply (qformP_nil_iff _ _ _ Hq); reflexivity). subst b. rewrite !app_nil_r. apply endswith_quote. exact H47.
  - assert (Hb : b <> []) by (intros E; apply (qformP_nil_iff _ _ _ Hq) in E; discriminate).
    rewrite !endswith_app by (assumption || discriminate). exact IH.
Qed.

Lemma endswith_encode t : endswith_char 47 (encode t) = endswith_char 47 t.
Proof.
  induction t as [|c t _] using rev_ind; [reflexivity|].
  rewrite encode_app, endswith_last. unfold encode at 2. cbn [flat_map]. rewrite app_nil_r. unfold encode1.
  destruct (c <? 128) eqn:E1; [apply endswith_last|].
  rewrite endswith_app by (destruct (c <? 2048); [|destruct (c <? 65536)]; discriminate).
  destruct (c <? 2048); [|destruct (c <? 65536)]; cbn [endswith_char]; lia.
Qed.

Lemma qformP_join P qs ts : qformP P [47] [47] ->
  Forall2 (fun q t => qformP P q (encode t)) qs ts -> qformP P (join [47] qs) (join [47] (map encode ts)).
Proof.
  intros Hsl. induction 1 as [|q t qs' ts' Hq Hr IH]; [constructor|].
  inversion Hr as [|q2 t2 qs2 ts2 Hq2 Hr2]; subst.
  - exact Hq.
  - change (join [47] (q :: q2 :: qs2)) with (q ++ [47] ++ join [47] (q2 :: qs2)).
    change (join [47] (map encode (t :: t2 :: ts2))) with (encode t ++ [47] ++ join [47] (map encode (t2 :: ts2))).
    apply qform_app; [exact Hq|]. apply qform_app; [exact Hsl|exact IH].
Qed.

Lemma elements_safe_facts : good_safe join_elements_safe && safe_sub join_elements_safe = true.
Proof. vm_compute. reflexivity. Qed.

(* every extra element is quoted on its own; together they decode to the elements' texts joined by '/' *)
Lemma join_elements_qform els s : join_elements els = Ok s ->
  exists ets, spec_elements els = Some ets /\ length ets = length els
              /\ forallb valid_scalar (join [47] ets) = true /\ qform s (encode (join [47] ets)).
Proof.
  pose proof elements_safe_facts as HF. apply andb_true_iff in HF. destruct HF as [Hg Hsub].
  unfold join_elements. intros H. apply rbind_ok in H. destruct H as (qs & Hqs & H). inversion H; subst s. clear H.
  apply mapM_ok in Hqs.
  assert (HH : exists ets, map_opt spec_text els = Some ets /\ length ets = length els
                           /\ forallb (forallb valid_scalar) ets = true
                           /\ Forall2 (fun q t => qform q (encode t)) qs ets).
  { induction Hqs as [|v q els' qs' Hq _ IH].
    - exists []. repeat split; constructor.
    - destruct IH as (ets & I1 & I2 & I3 & I4). apply qps_ok in Hq. destruct Hq as (t & Ht & Hv & ->).
      exists (t :: ets). cbn [map_opt]. rewrite (text_of_spec _ _ Ht Hv), I1. split; [reflexivity|].
      split; [simpl; congruence|]. split; [cbn [forallb]; rewrite Hv, I3; reflexivity|].
      constructor; [|exact I4]. apply qform_one; auto. apply encode_bytes; exact Hv. }
  destruct HH as (ets & H1 & H2 & H3 & H4). exists ets. unfold spec_elements. split; [exact H1|]. split; [exact H2|].
  split; [apply valid_join; exact H3|]. replace elements_sep with [47] by reflexivity.
  rewrite encode_join. apply qformP_join; [apply sform_qform, qform_slash|exact H4].
Qed.

Lemma join_elements_c_nil els : join_elements_c [] els = join_elements els.
Proof. unfold join_elements_c. destruct join_elements_key_stringified; reflexivity. Qed.

(* what route_path is made of *)
Lemma route_path_structure p e rs n els o kw P :
  Verif.Proofs.C17.wf_query (o_query o) -> Verif.Proofs.C17.wf_anchor (o_anchor o) ->
  assoc n rs = Some (to_pattern p) -> route_path [] e rs n els o kw = Ok P ->
  exists qs g sfx q0 fr0 qt f,
    quoted_script_name e = Ok qs /\ generate (to_pattern p) kw = Ok g
    /\ match els with
       | [] => sfx = []
       | _ => exists s, join_elements els = Ok s /\ sfx = if endswith_char 47 g then s else 47 :: s
       end
    /\ P = qs ++ g ++ sfx ++ q0 ++ fr0
    /\ ((q0 = [] /\ qt = []) \/ q0 = 63 :: qt) /\ ~ In 35 qt /\ Forall qc qt
    /\ ((fr0 = [] /\ f = []) \/ fr0 = 35 :: f) /\ Forall qc f.
Proof.
  intros Hwq Hwa Ha H.
  unfold route_path, path_app_url in H. rewrite Facts_ok_route_path in H.
  apply rbind_ok in H. destruct H as (qs & Hqs & H).
  unfold route_url in H. rewrite Ha in H. rewrite parse_url_overrides_eq in H.
  apply rbind_ok in H. destruct H as ([[app q0] fr0] & H0 & H).
  apply rbind_ok in H0. destruct H0 as (app' & Happ & H0). apply rbind_ok in H0. destruct H0 as ([q1 fr1] & Ht & H0).
  inversion H0; subst. clear H0. cbn [fst snd] in H.
  unfold parse_app in Happ. cbn [set_app_url o_app_url] in Happ. inversion Happ; subst app. clear Happ.
  unfold tail_parts in Ht. cbn [set_app_url o_query o_anchor] in Ht.
  apply rbind_ok in Ht. destruct Ht as (q2 & Hq2 & Ht). apply rbind_ok in Ht. destruct Ht as (fr2 & Hfr & Ht).
  inversion Ht; subst. clear Ht.
  apply rbind_ok in H. destruct H as (g & Hg & H). apply rbind_ok in H. destruct H as (sfx & Hs & H). inversion H; subst P. clear H.
  destruct (query_string_spec _ _ Hwq Hq2) as (qt & Q1 & Q2 & Q3 & _).
  destruct (fragment_spec _ _ Hwa Hfr) as (f & F1 & F2 & _).
  exists qs, g, sfx, q0, fr0, qt, f. repeat split; auto.
  destruct els as [|x els']; [inversion Hs; reflexivity|].
  rewrite join_elements_c_nil in Hs. apply rbind_ok in Hs. destruct Hs as (s & Hj & Hs). inversion Hs. eauto.
Qed.

Lemma gen_chars_no_delims u : Forall gen_char u -> Forall ascii u /\ ~ In 63 u /\ ~ In 35 u.
Proof.
  intros H. rewrite Forall_forall in H. split; [|split].
  - apply Forall_forall. intros c Hc. apply gen_char_ascii. auto.
  - intros Hc. destruct (gen_char_not_delim _ (H _ Hc)). congruence.
  - intros Hc. destruct (gen_char_not_delim _ (H _ Hc)). congruence.
Qed.

(* route_path with extra elements: the server sees the pattern text with the values in place followed
   by the elements as further segments, each element quoted on its own *)
Theorem route_path_elements_decode p e rs n els o kw P caps :
  Verif.Proofs.C17.wf_query (o_query o) -> Verif.Proofs.C17.wf_anchor (o_anchor o) ->
  assoc n rs = Some (to_pattern p) -> route_path [] e rs n els o kw = Ok P -> kw_caps p kw = Some caps ->
  exists ets base qt f pi,
    spec_elements els = Some ets
    /\ (els <> [] -> exists s, join_elements els = Ok s /\ decode_segments s = Some ets
                               /\ exists pre, base = pre ++ s /\ (endswith_char 47 pre = true \/ pre = []))
    /\ cut_ref P = (base, qt, f)
    /\ wsgi_path_info (e_script e) base = Some pi
    /\ Utf8.decode pi = Some (C01.render (C01.items p) caps ++ elements_suffix (C01.render (C01.items p) caps) ets).
Proof.
  intros Hwq Hwa Ha H Hk.
  destruct (route_path_structure _ _ _ _ _ _ _ _ Hwq Hwa Ha H) as (qs & g & sfx & q0 & fr0 & qt & f & Hqs & Hg & Hsfx & -> & Q1 & Q2 & _ & F1 & _).
  pose proof Hg as Hg'. apply generate_q in Hg'. destruct Hg' as (t & Hgt & Hv & Hq). rewrite gtext_to_pattern, Hk in Hgt.
  cbn [obind] in Hgt. inversion Hgt; subst t. clear Hgt.
  set (body := C01.render (C01.items p) caps) in *.
  assert (Hlast : endswith_char 47 g = endswith_char 47 body) by (rewrite (sform_last_slash _ _ Hq); apply endswith_encode).
  assert (HS : exists ets, spec_elements els = Some ets
                 /\ forallb valid_scalar (elements_suffix body ets) = true
                 /\ qform sfx (encode (elements_suffix body ets))
                 /\ (els <> [] -> exists s, join_elements els = Ok s /\ decode_segments s = Some ets
                                            /\ (sfx = s /\ endswith_char 47 g = true \/ sfx = 47 :: s))).
  { destruct els as [|x els'].
    - subst sfx. exists []. repeat split; [constructor|]. intros Hne; contradiction.
    - destruct Hsfx as (s & Hj & Hsfx). destruct (join_elements_qform _ _ Hj) as (ets & E1 & E2 & E3 & E4).
      exists ets. split; [exact E1|].
      assert (Hne : x :: els' <> []) by discriminate.
      destruct (elements_roundtrip _ _ Hne Hj) as (ts & T1 & T2). rewrite E1 in T1. inversion T1; subst ts.
      destruct ets as [|e0 ets']; [discriminate|]. cbn [elements_suffix]. rewrite <- Hlast.
      destruct (endswith_char 47 g) eqn:El; subst sfx.
      + cbn [app]. repeat split; auto. intros _. exists s. auto.
      + split; [rewrite valid_app, E3; reflexivity|]. split.
        * rewrite encode_app. change (47 :: s) with ([47] ++ s). change (encode [47]) with [47].
          apply qform_app; [apply sform_qform, qform_slash|exact E4].
        * intros _. exists s. auto. }
  destruct HS as (ets & E1 & E2 & E3 & E4).
  pose proof (qform_app _ _ _ _ _ (sform_qform _ _ Hq) E3) as Hall.
  destruct (gen_chars_no_delims _ (qform_chars _ _ Hall)) as (Aa & A63 & A35).
  destruct (pc_no_delims _ (quoted_script_chars _ _ Hqs)) as [S63 S35].
  exists ets, (qs ++ g ++ sfx), qt, f, (unquote (g ++ sfx)). split; [exact E1|]. split; [|split; [|split]].
  - intros Hne. destruct (E4 Hne) as (s & J1 & J2 & J3). exists s. split; [exact J1|]. split; [exact J2|].
    destruct J3 as [[-> El]| ->].
    + exists (qs ++ g). split; [rewrite app_assoc; reflexivity|]. left.
      destruct g as [|c g']; [discriminate|]. rewrite endswith_app by discriminate. exact El.
    + exists (qs ++ g ++ [47]). split; [rewrite <- !app_assoc; reflexivity|]. left.
      rewrite app_assoc. apply endswith_last.
  - replace (qs ++ g ++ sfx ++ q0 ++ fr0) with ((qs ++ g ++ sfx) ++ q0 ++ fr0) by (rewrite <- !app_assoc; reflexivity).
    apply cut_ref_generated; auto; rewrite in_app_iff; tauto.
  - apply script_name_cut; assumption.
  - rewrite (qform_unquote _ _ _ Hall), <- encode_app. apply decode_encode. rewrite valid_app, Hv, E2. reflexivity.
Qed.

(* C01's matcher on a rendering with a unique decomposition *)
Lemma match_pat_render O p caps :
  C01.caps_ok O (C01.star p) (C01.items p) caps = true -> sep_val O (C01.star p) (C01.items p) caps = true ->
  C01.match_pat O p (C01.render (C01.items p) caps) = Some (C01.mk_dict (C01.items p) (C01.star p) caps).
Proof.
  intros Hc Hs. rewrite C01.match_spec. unfold C01.spec_match.
  destruct (C01.all_decs O (C01.star p) (C01.items p) (C01.render (C01.items p) caps)) as [|caps1 rest] eqn:Ea.
  - exfalso. assert (Hin : In caps []) by (rewrite <- Ea; apply C01.all_decs_char; split; [reflexivity|assumption]).
    contradiction.
  - assert (Hin : In caps1 (caps1 :: rest)) by (left; reflexivity). rewrite <- Ea in Hin.
    apply C01.all_decs_char in Hin. destruct Hin as [E C1]. f_equal. f_equal. symmetry.
    eapply sep_val_unique; eauto.
Qed.

Lemma kw_caps_star_split p kw caps r : kw_caps p kw = Some caps -> C01.star p = Some r ->
  exists hc st, caps = hc ++ [st] /\ length hc = length (C01.hole_names (C01.items p)).
Proof.
  unfold kw_caps. intros H Hs. rewrite Hs in H.
  destruct (map_opt (cap_of (Some r) kw) (C01.hole_names (C01.items p))) as [hc|] eqn:Em; [|discriminate].
  cbn [obind] in H. apply map_opt_length in Em. destruct r as [|c r].
  - cbn [obind] in H. inversion H. eauto.
  - match type of H with context [cap_of ?a kw ?b] => destruct (cap_of a kw b) as [t|] end; [|discriminate].
    cbn [obind] in H. inversion H. eauto.
Qed.

Lemma render_star_ext its hc st x : length hc = length (C01.hole_names its) ->
  C01.render its (hc ++ [st ++ x]) = C01.render its (hc ++ [st]) ++ x.
Proof. intros Hl. rewrite !render_app by exact Hl. cbn [C01.render]. rewrite !app_assoc. reflexivity. Qed.

(* with a remainder: the elements extend the remainder.  [caps'] are the captures with the elements
   appended to the remainder's text; the route matches its own URL to the dictionary built from them
   (remainder = split_path_info (remainder text ++ '/' ++ elements joined)) *)
Theorem route_path_elements_remainder O dflt src p e rs n els o kw P hc st r ets :
  C01.parse_core O dflt src = C01.Ok p ->
  Verif.Proofs.C17.wf_query (o_query o) -> Verif.Proofs.C17.wf_anchor (o_anchor o) ->
  assoc n rs = Some (to_pattern p) -> route_path [] e rs n els o kw = Ok P ->
  C01.star p = Some r -> kw_caps p kw = Some (hc ++ [st]) -> length hc = length (C01.hole_names (C01.items p)) ->
  spec_elements els = Some ets ->
  let caps' := hc ++ [st ++ elements_suffix (C01.render (C01.items p) (hc ++ [st])) ets] in
  C01.caps_ok O (C01.star p) (C01.items p) caps' = true -> sep_val O (C01.star p) (C01.items p) caps' = true ->
  exists base qt f pi,
    cut_ref P = (base, qt, f) /\ wsgi_path_info (e_script e) base = Some pi
    /\ match_back O p pi = Some (C01.mk_dict (C01.items p) (C01.star p) caps').
Proof.
  intros Hp Hwq Hwa Ha H Hst Hk Hl He caps' Hc Hs.
  destruct (route_path_elements_decode _ _ _ _ _ _ _ _ _ Hwq Hwa Ha H Hk) as (ets' & base & qt & f & pi & E1 & _ & E3 & E4 & E5).
  rewrite He in E1. inversion E1; subst ets'. exists base, qt, f, pi. split; [exact E3|]. split; [exact E4|].
  match type of E5 with _ = Some ?X => remember X as path eqn:Epath end.
  assert (Ec : C01.render (C01.items p) caps' = path).
  { unfold caps'. rewrite render_star_ext by exact Hl. symmetry. exact Epath. }
  assert (Hh : exists l, path = 47 :: l).
  { destruct (parse_core_leading_slash _ _ _ _ Hp) as (l0 & r0 & Ei). rewrite Epath, Ei. cbn [C01.render app]. eauto. }
  destruct Hh as (l & El). unfold match_back, C01.request_path. rewrite E5, El, <- El, <- Ec.
  apply match_pat_render; assumption.
Qed.

(* ------------------------------------------------------------ (3) the URL form: scheme://netloc through url_split *)
Definition scheme_ok (sch : text) : bool :=
  match sch with a :: pre => is_alpha a && forallb scheme_char (a :: pre) | [] => false end.
Definition netloc_char (c : N) : bool :=
  (32 <? c) && negb (c =? 47) && negb (c =? 63) && negb (c =? 35) && negb (c =? 91) && negb (c =? 93).
Definition clean (c : N) : bool := negb ((c =? 9) || (c =? 10) || (c =? 13)).

Lemma filter_id {A} (f : A -> bool) l : forallb f l = true -> filter f l = l.
Proof.
  induction l as [|x l IH]; [reflexivity|]. cbn [forallb filter]. intros H. apply andb_true_iff in H. destruct H as [Hx Hl].
  rewrite Hx, (IH Hl). reflexivity.
Qed.

Lemma scheme_char_facts c : scheme_char c = true -> clean c = true /\ c <> 58 /\ 32 < c.
Proof. unfold scheme_char, clean, is_alpha, is_digit. lia. Qed.

Lemma split_netloc_app netloc rest :
  forallb netloc_char netloc = true -> (rest = [] \/ exists r, rest = 47 :: r) ->
  split_netloc (netloc ++ rest) = (netloc, rest).
Proof.
  intros Hn Hr. induction netloc as [|x l IH].
  - destruct Hr as [->|(r & ->)]; reflexivity.
  - cbn [forallb] in Hn. apply andb_true_iff in Hn. destruct Hn as [Hx Hl]. cbn [app split_netloc].
    assert (E : (x =? 47) || (x =? 63) || (x =? 35) = false) by (unfold netloc_char in Hx; lia).
    rewrite E, (IH Hl). reflexivity.
Qed.

Lemma netloc_no_bracket netloc : forallb netloc_char netloc = true -> memN 91 netloc = false /\ memN 93 netloc = false.
Proof.
  induction netloc as [|x l IH]; [auto|]. cbn [forallb memN]. intros H. apply andb_true_iff in H. destruct H as [Hx Hl].
  destruct (IH Hl) as [-> ->]. unfold netloc_char in Hx. split; lia.
Qed.

(* urlsplit of  scheme://netloc<rest>  where rest is empty or starts with '/' *)
Theorem url_split_authority sch netloc rest :
  scheme_ok sch = true -> forallb netloc_char netloc = true ->
  (rest = [] \/ exists r, rest = 47 :: r) -> forallb clean rest = true ->
  url_split (sch ++ [58; 47; 47] ++ netloc ++ rest) =
  Ok (mkSplit (map lower sch) netloc (fst (fst (cut_ref rest))) (snd (fst (cut_ref rest))) (snd (cut_ref rest))).
Proof.
  intros Hs Hn Hr Hc. destruct sch as [|a pre]; [discriminate|]. cbn [scheme_ok] in Hs.
  pose proof Hs as Hs'. apply andb_true_iff in Hs'. destruct Hs' as [Ha Hall].
  assert (Hsc : forall c, In c (a :: pre) -> clean c = true /\ c <> 58 /\ 32 < c).
  { intros c Hc'. apply scheme_char_facts. rewrite forallb_forall in Hall. auto. }
  match goal with |- url_split ?X = _ => set (U := X) end.
  assert (E1 : drop_unsafe (lstrip_c0 U) = U).
  { assert (E0 : lstrip_c0 U = U).
    { unfold U. cbn [app lstrip_c0]. destruct (Hsc a (or_introl eq_refl)) as (_ & _ & H32).
      assert (E : (a <=? 32) = false) by lia. rewrite E. reflexivity. }
    rewrite E0. unfold drop_unsafe. apply filter_id. unfold U. rewrite !forallb_app.
    assert (F1 : forallb (fun c => negb ((c =? 9) || (c =? 10) || (c =? 13))) (a :: pre) = true).
    { apply forallb_forall. intros c Hc'. destruct (Hsc c Hc') as (Hcl & _). exact Hcl. }
    assert (F2 : forallb (fun c => negb ((c =? 9) || (c =? 10) || (c =? 13))) netloc = true).
    { apply forallb_forall. intros c Hc'. rewrite forallb_forall in Hn. specialize (Hn c Hc'). unfold netloc_char in Hn. lia. }
    rewrite F1, F2. exact Hc. }
  assert (E2 : cut 58 U = (a :: pre, Some ([47; 47] ++ netloc ++ rest))).
  { unfold U. apply cut_app. intros Hin. destruct (Hsc 58 Hin) as (_ & Hne & _). congruence. }
  unfold url_split, url_split_with. cbv zeta. rewrite E1, E2. cbv beta iota. rewrite Hs.
  cbn [app]. rewrite (split_netloc_app _ _ Hn Hr).
  destruct (netloc_no_bracket _ Hn) as [-> ->]. cbn [xorb].
  destruct (cut_ref rest) as [[pp qq] ff]. reflexivity.
Qed.

Lemma qc_clean c : query_char c = true -> clean c = true.
Proof. unfold query_char, pchar, unreserved, sub_delim, is_alpha, is_digit, clean. cbn [memN]. lia. Qed.
Lemma pc_clean c : path_char c = true -> clean c = true.
Proof. unfold path_char, pchar, unreserved, sub_delim, is_alpha, is_digit, clean. cbn [memN]. lia. Qed.

Lemma forallb_of_Forall (P : N -> Prop) f l : (forall c, P c -> f c = true) -> Forall P l -> forallb f l = true.
Proof. intros H HF. apply forallb_forall. rewrite Forall_forall in HF. auto. Qed.

Lemma script_slash_fact : memN 47 script_name_safe = true.
Proof. vm_compute. reflexivity. Qed.

(* route_url end to end: scheme://netloc is found by urlsplit, the path component leads the server to
   PATH_INFO, the route matches it to the supplied values *)
Theorem route_url_way_back O dflt src p e rs n o kw U caps sch netloc :
  C01.parse_core O dflt src = C01.Ok p ->
  Verif.Proofs.C17.wf_query (o_query o) -> Verif.Proofs.C17.wf_anchor (o_anchor o) ->
  o_app_url o = None ->
  host_part e o = sch ++ [58; 47; 47] ++ netloc -> scheme_ok sch = true -> forallb netloc_char netloc = true ->
  (e_script e = [] \/ exists s, e_script e = 47 :: s) ->
  assoc n rs = Some (to_pattern p) -> route_url [] e rs n [] o kw = Ok U ->
  kw_caps p kw = Some caps ->
  C01.caps_ok O (C01.star p) (C01.items p) caps = true ->
  sep_val O (C01.star p) (C01.items p) caps = true ->
  exists s pi, url_split U = Ok s /\ u_scheme s = map lower sch /\ u_netloc s = netloc
    /\ wsgi_path_info (e_script e) (u_path s) = Some pi
    /\ match_back O p pi = Some (C01.mk_dict (C01.items p) (C01.star p) caps).
Proof.
  intros Hp Hwq Hwa Ho Hh Hsch Hnet Hscr Ha HU Hk Hc Hs.
  destruct (route_path_is_url_minus_authority _ _ _ _ _ _ _ _ Ho HU) as (P & HP & ->).
  destruct (leading_slash_render p caps (parse_core_leading_slash _ _ _ _ Hp)) as (t & Et).
  assert (Hne : C01.render (C01.items p) caps <> []) by (rewrite Et; discriminate).
  destruct (route_path_way_back _ _ _ _ _ _ _ _ _ Hwq Hwa Ha HP Hk Hne Hc Hs) as (base & qt & f & pi & B1 & B2 & B3).
  destruct (route_path_structure _ _ _ _ _ _ _ _ Hwq Hwa Ha HP) as (qs & g & sfx & q0 & fr0 & qt' & f' & Hqs & Hg & -> & EP & Q1 & _ & Q3 & F1 & F3).
  cbn [app] in EP.
  (* P starts with '/' *)
  assert (Hslash : exists r, P = 47 :: r).
  { destruct (generated_starts_with_slash _ _ _ _ _ _ Hp Hg) as (g' & ->).
    destruct (quoted_script_form _ _ Hqs) as [_ ->]. rewrite EP.
    destruct Hscr as [->|(s & ->)]; [cbn; eauto|].
    unfold encode. cbn [flat_map]. change (encode1 47) with [47]. cbn [app]. unfold quote. cbn [flat_map].
    unfold quote1 at 1. unfold is_safe. rewrite script_slash_fact, orb_true_r. cbn [app]. eauto. }
  (* no TAB / CR / LF anywhere in P *)
  assert (Hclean : forallb clean P = true).
  { rewrite EP, !forallb_app.
    rewrite (forallb_of_Forall pc clean qs pc_clean (quoted_script_chars _ _ Hqs)).
    rewrite (forallb_of_Forall pc clean g pc_clean (generate_chars _ _ _ Hg)).
    assert (C1 : forallb clean q0 = true).
    { destruct Q1 as [[-> _]| ->]; [reflexivity|]. cbn [forallb]. rewrite (forallb_of_Forall qc clean qt' qc_clean Q3). reflexivity. }
    assert (C2 : forallb clean fr0 = true).
    { destruct F1 as [[-> _]| ->]; [reflexivity|]. cbn [forallb]. rewrite (forallb_of_Forall qc clean f' qc_clean F3). reflexivity. }
    rewrite C1, C2. reflexivity. }
  rewrite Hh. rewrite <- !app_assoc.
  rewrite (url_split_authority sch netloc P Hsch Hnet (or_intror Hslash) Hclean). rewrite B1. cbn [fst snd].
  eexists _, pi. split; [reflexivity|]. cbn [u_scheme u_netloc u_path]. auto.
Qed.

(* ------------------------------------------------------------ non-vacuity of the URL form and of elements + remainder *)
Definition ex_env : env := mkEnv [104; 116; 116; 112] None [108] [56; 48] [47; 109; 121; 32; 97; 112; 112].   (* http, l:80, /my app *)
Definition ex_ov : overrides := mkOv None None None None None None.

Example route_url_way_back_example :
  match C01.parse_pattern C01.no_oracle ex_src with
  | C01.Ok p =>
      let rs := [([114], to_pattern p)] in
      host_part ex_env ex_ov = [104; 116; 116; 112] ++ [58; 47; 47] ++ [108]
      /\ scheme_ok [104; 116; 116; 112] = true /\ forallb netloc_char [108] = true
      /\ match route_url [] ex_env rs [114] [] ex_ov ex_kw with
         | Ok U =>
             match url_split U with
             | Ok s => u_netloc s = [108]
                       /\ match wsgi_path_info (e_script ex_env) (u_path s) with
                          | Some pi => match_back C01.no_oracle p pi
                                       = Some [([120], C01.MText [233; 32; 37]); ([114; 101; 115; 116], C01.MSegs [[112; 32; 113]; [55]])]
                          | None => False
                          end
             | Err _ => False
             end
         | Err _ => False
         end
      (* with the extra elements ('x y', 3) the remainder comes back extended *)
      /\ match route_path [] ex_env rs [114] [PStr [120; 32; 121]; PInt 3] ex_ov ex_kw with
         | Ok P => match wsgi_path_info (e_script ex_env) (fst (fst (cut_ref P))) with
                   | Some pi => match_back C01.no_oracle p pi
                                = Some [([120], C01.MText [233; 32; 37]);
                                        ([114; 101; 115; 116], C01.MSegs [[112; 32; 113]; [55]; [120; 32; 121]; [51]])]
                   | None => False
                   end
         | Err _ => False
         end
  | _ => False
  end.
Proof. vm_compute. repeat split; reflexivity. Qed.
