(* C14 -- lemmas and proofs (part 1: attribute maps, hide_attrs, the registration split, invoke_exception_view). *)
From Coq Require Import List NArith ZArith Bool Lia.
Import ListNotations.
Require Import Verif.Lib.Wire Verif.Gen.Facts_C03 Verif.Model.C03 Verif.Proofs.C03 Verif.Gen.Facts_C14 Verif.Model.C14.

(* the regenerated constants of the anchored code are the ones the property speaks about *)
Lemma facts_ok : code_params = spec_params_b permissive_checks_predicates.
Proof. vm_compute. reflexivity. Qed.

(* ------------------------------------------------------------------ *)
(* attribute maps *)

Lemma aget_aset_same k v m : aget k (aset k v m) = Some v.
Proof.
  unfold aget. induction m as [|[k' v'] r IH]; simpl.
  - rewrite text_eqb_refl. reflexivity.
  - destruct (text_eqb k k') eqn:E; simpl.
    + rewrite text_eqb_refl. reflexivity.
    + rewrite E. exact IH.
Qed.

Lemma aget_aset_other k k' v m : k <> k' -> aget k' (aset k v m) = aget k' m.
Proof.
  intros Hne. unfold aget. induction m as [|[k2 v2] r IH]; simpl.
  - destruct (text_eqb k' k) eqn:E; [apply text_eqb_eq in E; congruence|reflexivity].
  - destruct (text_eqb k k2) eqn:E; simpl.
    + apply text_eqb_eq in E. subst k2.
      destruct (text_eqb k' k) eqn:E2; [apply text_eqb_eq in E2; congruence|reflexivity].
    + destruct (text_eqb k' k2); [reflexivity|exact IH].
Qed.

Lemma aget_adel_same k m : aget k (adel k m) = None.
Proof.
  unfold aget. induction m as [|[k' v'] r IH]; simpl; [reflexivity|].
  destruct (text_eqb k k') eqn:E; simpl; [exact IH|]. rewrite E. exact IH.
Qed.

Lemma aget_adel_other k k' m : k <> k' -> aget k' (adel k m) = aget k' m.
Proof.
  intros Hne. unfold aget. induction m as [|[k2 v2] r IH]; simpl; [reflexivity|].
  destruct (text_eqb k k2) eqn:E; simpl.
  - apply text_eqb_eq in E. subst k2.
    destruct (text_eqb k' k) eqn:E2; [apply text_eqb_eq in E2; congruence|exact IH].
  - destruct (text_eqb k' k2); [reflexivity|exact IH].
Qed.

Lemma sassoc_sset_same k (v : option N) s : assoc k (sset k v s) = Some v.
Proof.
  induction s as [|[k' v'] r IH]; simpl.
  - rewrite text_eqb_refl. reflexivity.
  - destruct (text_eqb k k') eqn:E; simpl.
    + rewrite text_eqb_refl. reflexivity.
    + rewrite E. exact IH.
Qed.

Lemma sassoc_sset_other k k' (v : option N) s : k <> k' -> assoc k' (sset k v s) = assoc k' s.
Proof.
  intros Hne. induction s as [|[k2 v2] r IH]; simpl.
  - destruct (text_eqb k' k) eqn:E; [apply text_eqb_eq in E; congruence|reflexivity].
  - destruct (text_eqb k k2) eqn:E; simpl.
    + apply text_eqb_eq in E. subst k2.
      destruct (text_eqb k' k) eqn:E2; [apply text_eqb_eq in E2; congruence|reflexivity].
    + destruct (text_eqb k' k2); [reflexivity|exact IH].
Qed.

(* ------------------------------------------------------------------ *)
(* hide_attrs *)

Lemma hide_pop_saved_notin names : forall m s k,
  ~ In k names -> assoc k (snd (hide_pop names m s)) = assoc k s.
Proof.
  induction names as [|n r IH]; intros m s k Hk; simpl; [reflexivity|].
  rewrite IH by (intro; apply Hk; right; assumption).
  apply sassoc_sset_other. intro; subst; apply Hk; left; reflexivity.
Qed.

Lemma hide_pop_saved names : forall m s k,
  NoDup names -> In k names -> assoc k (snd (hide_pop names m s)) = Some (aget k m).
Proof.
  induction names as [|n r IH]; intros m s k Hnd Hin; [destruct Hin|].
  inversion Hnd as [|? ? Hn Hr]; subst. simpl.
  destruct (text_eq_dec n k) as [->|Hne].
  - rewrite hide_pop_saved_notin by assumption. apply sassoc_sset_same.
  - destruct Hin as [->|Hin]; [congruence|].
    rewrite IH by assumption. rewrite aget_adel_other by assumption. reflexivity.
Qed.

Lemma hide_pop_attrs_in names : forall m s k,
  In k names -> aget k (fst (hide_pop names m s)) = None.
Proof.
  induction names as [|n r IH]; intros m s k Hin; [destruct Hin|]. simpl.
  destruct (in_dec text_eq_dec k r) as [Hr|Hr]; [apply IH; assumption|].
  destruct Hin as [->|Hin]; [|contradiction].
  clear IH. revert m s. induction r as [|n2 r IH2]; intros m s; simpl.
  - apply aget_adel_same.
  - assert (Hn2 : n2 <> k) by (intro; subst; apply Hr; left; reflexivity).
    assert (Hr2 : ~ In k r) by (intro; apply Hr; right; assumption).
    specialize (IH2 Hr2 (adel n2 m) (sset n2 (aget n2 (adel k m)) s)).
    (* adel commutes up to aget; go through a generalisation instead *)
    clear IH2.
    assert (G : forall names m s, ~ In k names -> aget k m = None -> aget k (fst (hide_pop names m s)) = None).
    { clear. induction names as [|a r IH]; intros m s Hk Hm; simpl; [exact Hm|].
      apply IH; [intro; apply Hk; right; assumption|].
      rewrite aget_adel_other; [exact Hm|intro; subst; apply Hk; left; reflexivity]. }
    apply G; [assumption|].
    rewrite aget_adel_other by assumption. apply aget_adel_same.
Qed.

Lemma hide_pop_attrs_notin names : forall m s k,
  ~ In k names -> aget k (fst (hide_pop names m s)) = aget k m.
Proof.
  induction names as [|n r IH]; intros m s k Hk; simpl; [reflexivity|].
  rewrite IH by (intro; apply Hk; right; assumption).
  apply aget_adel_other. intro; subst; apply Hk; left; reflexivity.
Qed.

Lemma hide_restore_notin names : forall s m k,
  ~ In k names -> aget k (hide_restore names s m) = aget k m.
Proof.
  induction names as [|n r IH]; intros s m k Hk; simpl; [reflexivity|].
  rewrite IH by (intro; apply Hk; right; assumption).
  assert (Hne : n <> k) by (intro; subst; apply Hk; left; reflexivity).
  destruct (assoc n s) as [[v|]|]; [apply aget_aset_other|apply aget_adel_other|apply aget_adel_other]; assumption.
Qed.

Lemma hide_restore_in names : forall s m k,
  NoDup names -> In k names ->
  aget k (hide_restore names s m) = match assoc k s with Some (Some v) => Some v | _ => None end.
Proof.
  induction names as [|n r IH]; intros s m k Hnd Hin; [destruct Hin|].
  inversion Hnd as [|? ? Hn Hr]; subst. simpl.
  destruct (text_eq_dec n k) as [->|Hne].
  - rewrite hide_restore_notin by assumption.
    destruct (assoc k s) as [[v|]|]; [apply aget_aset_same|apply aget_adel_same|apply aget_adel_same].
  - destruct Hin as [->|Hin]; [congruence|]. apply IH; assumption.
Qed.

(* every named attribute has, after the with-block, the value it had before -- for every attribute map,
   every list of names without repetitions and every body, whether it returns or raises *)
Theorem hide_attrs_restores {A} (names : list text) (body : amap -> A * amap) (m : amap) k :
  NoDup names -> In k names -> aget k (snd (hide_attrs names body m)) = aget k m.
Proof.
  intros Hnd Hin. unfold hide_attrs.
  pose proof (hide_pop_saved names m [] k Hnd Hin) as Hs.
  destruct (hide_pop names m []) as [m1 s]. destruct (body m1) as [a m2]. simpl in *.
  rewrite hide_restore_in by assumption. rewrite Hs. destruct (aget k m); reflexivity.
Qed.

(* an attribute that is not named is whatever the body left *)
Theorem hide_attrs_frame {A} (names : list text) (body : amap -> A * amap) (m : amap) k :
  ~ In k names ->
  aget k (snd (hide_attrs names body m)) = aget k (snd (body (fst (hide_pop names m [])))).
Proof.
  intros Hk. unfold hide_attrs.
  destruct (hide_pop names m []) as [m1 s]. simpl. destruct (body m1) as [a m2]. simpl.
  apply hide_restore_notin. assumption.
Qed.

(* inside the block the named attributes are absent *)
Lemma hide_attrs_hidden names m k : In k names -> aget k (fst (hide_pop names m [])) = None.
Proof. apply hide_pop_attrs_in. Qed.

(* the full-strength statement (any list of names) is false of the code: a name listed twice is lost *)
Theorem hide_attrs_restores_dup_refuted :
  exists (names : list text) (m : amap) k,
    In k names /\ ~ NoDup names /\
    aget k (snd (hide_attrs names (fun a => (tt, a)) m)) <> aget k m.
Proof.
  exists [hn_exception; hn_exception], [(hn_exception, 7%N)], hn_exception.
  split; [left; reflexivity|]. split.
  - intro H. inversion H as [|? ? Hn _]. apply Hn. left. reflexivity.
  - vm_compute. discriminate.
Qed.

Example hide_attrs_restores_nonvacuous :
  NoDup (p_hidden spec_params) /\
  aget hn_exception (snd (hide_attrs (p_hidden spec_params)
                            (fun a => (tt, aset hn_exception 9%N (aset hn_response 5%N a)))
                            [(hn_exception, 7%N)])) = Some 7%N /\
  aget hn_response (snd (hide_attrs (p_hidden spec_params)
                            (fun a => (tt, aset hn_exception 9%N (aset hn_response 5%N a)))
                            [(hn_exception, 7%N)])) = None.
Proof.
  split; [|split; vm_compute; reflexivity].
  repeat constructor; simpl; intuition discriminate.
Qed.

(* ------------------------------------------------------------------ *)
(* exception_only: which classifiers a declaration registers under *)

Definition under_cls (cls : N) (l : list reg) : bool := existsb (fun v => N.eqb (s_cls (r_slot v)) cls) l.

Lemma reg_of_args_cls names cls a v : reg_of_args names cls a = Some v -> s_cls (r_slot v) = cls.
Proof.
  unfold reg_of_args. destruct (make names (args_kw a)); simpl; [|discriminate].
  intros H. inversion H. reflexivity.
Qed.

Lemma under_cls_opt names cls cls' a :
  under_cls cls' (opt_list (reg_of_args names cls a)) =
  match reg_of_args names cls a with Some _ => N.eqb cls cls' | None => false end.
Proof.
  unfold under_cls. destruct (reg_of_args names cls a) eqn:E; simpl; [|reflexivity].
  rewrite (reg_of_args_cls _ _ _ _ E). rewrite orb_false_r. reflexivity.
Qed.

Lemma under_cls_app cls a b : under_cls cls (a ++ b) = under_cls cls a || under_cls cls b.
Proof. unfold under_cls. apply existsb_app. Qed.

(* a view whose predicates are accepted (make succeeds) is registered under the ordinary classifier iff it is
   not exception_only, and under the exception classifier iff its context is an exception type; an
   exception_only view on a non-exception context registers nothing (ConfigurationError) *)
Theorem exception_only_split P names nm d c xonly isexc :
  effective_ctx P nm d = (c, xonly, isexc) ->
  make names (args_kw (with_ctx (forwarded_args P (d_dir d) (d_args d)) c)) <> None ->
  let regs := regs_of_decl P names nm d in
  under_cls view_classifier regs = negb xonly
  /\ under_cls exc_classifier_id regs = isexc && negb (xonly && negb isexc)
  /\ (xonly = true -> isexc = false -> regs = []).
Proof.
  intros He Hm regs. subst regs. unfold regs_of_decl. rewrite He.
  assert (H0 : forall cls, reg_of_args names cls (with_ctx (forwarded_args P (d_dir d) (d_args d)) c) <> None).
  { intros cls. unfold reg_of_args. destruct (make names (args_kw (with_ctx (forwarded_args P (d_dir d) (d_args d)) c))); [discriminate|congruence]. }
  destruct xonly, isexc; simpl; rewrite ?app_nil_r, ?under_cls_app, ?under_cls_opt;
    repeat match goal with
    | |- context [reg_of_args names ?cls ?a] =>
        let E := fresh in destruct (reg_of_args names cls a) eqn:E; [|exfalso; exact (H0 cls E)]
    end; simpl; repeat split; try reflexivity; try discriminate; intros; try discriminate.
Qed.

Example exception_only_split_nonvacuous :
  let nm := [(cn_Interface, 0%N); (cn_Exception, 5%N)] in
  let a := mkArgs 1%N 0%N [] [] None false 3%N in
  map (fun v => s_cls (r_slot v)) (regs_of_decl spec_params pred_names nm (mkDecl DView (Some 7%N) false true a 0%N no_body None false))
    = [0%N; 1%N]
  /\ map (fun v => s_cls (r_slot v)) (regs_of_decl spec_params pred_names nm (mkDecl DView (Some 7%N) true true a 0%N no_body None false))
    = [1%N]
  /\ map (fun v => s_cls (r_slot v)) (regs_of_decl spec_params pred_names nm (mkDecl DExcView None false false a 0%N no_body None false))
    = [1%N]
  /\ regs_of_decl spec_params pred_names nm (mkDecl DView (Some 7%N) true false a 0%N no_body None false) = [].
Proof. vm_compute. repeat split; reflexivity. Qed.

(* which object the built-in predicates consult (regenerated): containment looks at request.context, physical_path at
   its context argument -- the property's reading *)
Lemma predicate_receivers_ok :
  (containment_reads_request_context, physical_path_reads_request_context) = (true, false).
Proof. vm_compute. reflexivity. Qed.
