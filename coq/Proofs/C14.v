(* C14 -- lemmas and proofs. *)
From Coq Require Import List NArith ZArith Bool Lia.
Import ListNotations.
Require Import Verif.Lib.Wire Verif.Gen.Facts_C03 Verif.Model.C03 Verif.Proofs.C03 Verif.Gen.Facts_C14 Verif.Model.C14.

Lemma facts_ok : code_params = spec_params.
Proof. vm_compute. reflexivity. Qed.
