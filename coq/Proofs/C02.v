(* C02 -- proofs about Model/C02.v *)
From Coq Require Import List NArith ZArith Bool Lia ZifyBool ZifyN Arith.
Import ListNotations.
Require Import Verif.Lib.Wire Verif.Lib.Text Verif.Lib.PathNorm Verif.Lib.C02PathNorm Verif.Lib.Utf8
               Verif.Lib.Percent Verif.Lib.C02Expr Verif.Gen.Facts_C02 Verif.Model.C02.
Close Scope N_scope.

(* ------------------------------------------------------------------ facts *)
(* the regenerated facts are the ones the proofs below were written against *)
Definition slice_from_next : texp := TSliceFrom TVpath (IAdd IVarI (IConst 1)).
Definition slice_traversed : texp := TSliceTo TVpath (IAdd (IAdd IVrootIdx IVarI) (IConst 1)).

Lemma facts_ok :
  view_selector = spec_selector /\ selector_len = 2%Z /\
  ret_selector = mkRet ROb (SSegFrom 2) slice_from_next slice_traversed RVroot TVrootTuple RRoot /\
  ret_noitem = mkRet ROb SSegment slice_from_next slice_traversed RVroot TVrootTuple RRoot /\
  ret_keyerror = mkRet ROb SSegment slice_from_next slice_traversed RVroot TVrootTuple RRoot /\
  ret_final = mkRet ROb (SConst []) TSubpath TVpath RVroot TVrootTuple RRoot /\
  vpath_tuple_mode = VSeparate /\ vroot_idx_off = (-1)%Z /\ vroot_idx_absent = (-1)%Z.
Proof. vm_compute. repeat split; reflexivity. Qed.

Lemma f_selector : view_selector = spec_selector. Proof. apply facts_ok. Qed.
Lemma f_selector_len : selector_len = 2%Z. Proof. apply facts_ok. Qed.
Lemma f_ret_selector : ret_selector = mkRet ROb (SSegFrom 2) slice_from_next slice_traversed RVroot TVrootTuple RRoot.
Proof. apply facts_ok. Qed.
Lemma f_ret_noitem : ret_noitem = mkRet ROb SSegment slice_from_next slice_traversed RVroot TVrootTuple RRoot.
Proof. apply facts_ok. Qed.
Lemma f_ret_keyerror : ret_keyerror = mkRet ROb SSegment slice_from_next slice_traversed RVroot TVrootTuple RRoot.
Proof. apply facts_ok. Qed.
Lemma f_ret_final : ret_final = mkRet ROb (SConst []) TSubpath TVpath RVroot TVrootTuple RRoot.
Proof. apply facts_ok. Qed.
Lemma f_mode : vpath_tuple_mode = VSeparate. Proof. apply facts_ok. Qed.
Lemma f_off : vroot_idx_off = (-1)%Z. Proof. apply facts_ok. Qed.
Lemma f_absent : vroot_idx_absent = (-1)%Z. Proof. apply facts_ok. Qed.

(* the selector test of the code is the property's "starts with '@@'" *)
Lemma is_selector_spec s : is_selector s = spec_is_selector s.
Proof.
  unfold is_selector, spec_is_selector. rewrite f_selector, f_selector_len.
  change (py_to 2%Z s) with (firstn 2 s). unfold spec_selector.
  destruct s as [|a [|b s]]; simpl.
  - reflexivity.
  - rewrite !andb_false_r. reflexivity.
  - rewrite (N.eqb_sym a), (N.eqb_sym b). reflexivity.
Qed.

(* ------------------------------------------------ closed forms of the dictionaries *)
Definition stop_dict (vp sub vt : list text) (root ob vroot : rnode) (i : nat) (vn : text) : tdict :=
  mkT (fst ob) vn (skipn (S i) vp) (firstn (length vt + i) vp) (fst vroot) vt (fst root).
Definition final_dict (vp sub vt : list text) (root ob vroot : rnode) : tdict :=
  mkT (fst ob) [] sub vp (fst vroot) vt (fst root).

Definition vidx_of (vt : list text) : Z := (Z.of_nat (length vt) + -1)%Z.

Lemma traversed_index vt i : (vidx_of vt + Z.of_nat i + 1)%Z = Z.of_nat (length vt + i).
Proof. unfold vidx_of. lia. Qed.
Lemma next_index i : (Z.of_nat i + 1)%Z = Z.of_nat (S i).
Proof. lia. Qed.

Lemma render_selector vp sub vt root i seg ob vroot :
  render (mk_env vp sub vt (vidx_of vt) root i seg ob vroot) ret_selector
  = stop_dict vp sub vt root ob vroot i (skipn 2 seg).
Proof.
  rewrite f_ret_selector. unfold render, stop_dict, slice_from_next, slice_traversed, mk_env.
  cbn [reval seval teval ieval r_context r_view_name r_subpath r_traversed r_virtual_root
       r_virtual_root_path r_root e_vpath e_subpath e_vroot_tuple e_i e_vroot_idx e_segment e_ob e_vroot e_root].
  rewrite traversed_index, next_index, py_from_nat, py_to_nat. reflexivity.
Qed.

Lemma render_noitem vp sub vt root i seg ob vroot :
  render (mk_env vp sub vt (vidx_of vt) root i seg ob vroot) ret_noitem
  = stop_dict vp sub vt root ob vroot i seg.
Proof.
  rewrite f_ret_noitem. unfold render, stop_dict, slice_from_next, slice_traversed, mk_env.
  cbn [reval seval teval ieval r_context r_view_name r_subpath r_traversed r_virtual_root
       r_virtual_root_path r_root e_vpath e_subpath e_vroot_tuple e_i e_vroot_idx e_segment e_ob e_vroot e_root].
  rewrite traversed_index, next_index, py_from_nat, py_to_nat. reflexivity.
Qed.

Lemma render_keyerror vp sub vt root i seg ob vroot :
  render (mk_env vp sub vt (vidx_of vt) root i seg ob vroot) ret_keyerror
  = stop_dict vp sub vt root ob vroot i seg.
Proof.
  rewrite f_ret_keyerror. unfold render, stop_dict, slice_from_next, slice_traversed, mk_env.
  cbn [reval seval teval ieval r_context r_view_name r_subpath r_traversed r_virtual_root
       r_virtual_root_path r_root e_vpath e_subpath e_vroot_tuple e_i e_vroot_idx e_segment e_ob e_vroot e_root].
  rewrite traversed_index, next_index, py_from_nat, py_to_nat. reflexivity.
Qed.

Lemma render_final vp sub vt root i seg ob vroot vidx :
  render (mkEnv vp sub vt i vidx seg ob vroot root) ret_final = final_dict vp sub vt root ob vroot.
Proof. rewrite f_ret_final. reflexivity. Qed.

(* ------------------------------------------------------------ descend / walk *)
Lemma descend_app ob a b :
  descend ob (a ++ b) = match descend ob a with Some n => descend n b | None => None end.
Proof.
  revert ob. induction a as [|s a IH]; intros ob; simpl; [reflexivity|].
  destruct (child ob s); [apply IH|reflexivity].
Qed.

Lemma child_pos ob s n : child ob s = Some n -> exists k, fst n = fst ob ++ [k].
Proof.
  unfold child. destruct (getitem (snd ob) s) as [| |i c]; try discriminate.
  intros H. injection H as <-. exists i. reflexivity.
Qed.

(* the position of a resource reached by item lookup extends the start's position *)
Lemma descend_pos ob p n :
  descend ob p = Some n -> exists suffix, fst n = fst ob ++ suffix /\ length suffix = length p.
Proof.
  revert ob. induction p as [|s p IH]; intros ob; simpl.
  - intros H. injection H as <-. exists []. rewrite app_nil_r. auto.
  - destruct (child ob s) as [m|] eqn:E; [|discriminate]. intros H.
    destruct (child_pos _ _ _ E) as [k Hk]. destruct (IH _ H) as (suf & H1 & H2).
    exists (k :: suf). rewrite H1, Hk, <- app_assoc. simpl. auto.
Qed.

Definition no_selector (p : list text) : bool := forallb (fun s => negb (spec_is_selector s)) p.

(* what it means for (ctx, consumed, rest) to be the outcome of walking segs from ob:
   the declarative reading of the property *)
Definition walk_outcome (ob : rnode) (segs : list text) (ctx : rnode) (consumed rest : list text) : Prop :=
  segs = consumed ++ rest /\
  descend ob consumed = Some ctx /\
  no_selector consumed = true /\
  match rest with
  | [] => True
  | s :: _ => spec_is_selector s = true \/ child ctx s = None
  end.

Lemma walk_sound : forall segs ob ctx c r,
  walk ob segs = (ctx, c, r) -> walk_outcome ob segs ctx c r.
Proof.
  induction segs as [|s segs IH]; intros ob ctx c r; simpl.
  - intros H. injection H as <- <- <-. repeat split; reflexivity.
  - rewrite is_selector_spec. destruct (spec_is_selector s) eqn:Hs.
    + intros H. injection H as <- <- <-. repeat split; auto.
    + destruct (child ob s) as [n|] eqn:Hc.
      * destruct (walk n segs) as [[o c'] r'] eqn:Hw. intros H. injection H as <- <- <-.
        destruct (IH _ _ _ _ Hw) as (H1 & H2 & H3 & H4).
        unfold walk_outcome. simpl. rewrite Hc, Hs. simpl. repeat split; auto. congruence.
      * intros H. injection H as <- <- <-. repeat split; auto.
Qed.

(* the characterisation determines the outcome *)
Lemma walk_unique : forall segs ob ctx c r,
  walk_outcome ob segs ctx c r -> walk ob segs = (ctx, c, r).
Proof.
  induction segs as [|s segs IH]; intros ob ctx c r (H1 & H2 & H3 & H4).
  - destruct c; [|discriminate]. destruct r; [|discriminate]. simpl in H2. injection H2 as <-. reflexivity.
  - simpl. rewrite is_selector_spec. destruct c as [|s' c].
    + simpl in H1. subst r. simpl in H2. injection H2 as <-.
      destruct H4 as [H4|H4]; [rewrite H4; reflexivity|].
      destruct (spec_is_selector s); [reflexivity|]. rewrite H4. reflexivity.
    + simpl in H1. injection H1 as <- H1. simpl in H3. apply andb_true_iff in H3 as [H3 H3'].
      apply negb_true_iff in H3. rewrite H3. simpl in H2.
      destruct (child ob s) as [n|]; [|discriminate].
      rewrite (IH n ctx c r); [reflexivity|]. repeat split; assumption.
Qed.

Lemma walkable_cons ob s p :
  walkable ob (s :: p) = negb (spec_is_selector s) && match child ob s with Some n => walkable n p | None => false end.
Proof.
  unfold walkable. simpl. destruct (child ob s); destruct (negb (spec_is_selector s)); simpl; try reflexivity.
  rewrite andb_false_r. reflexivity.
Qed.

Lemma walkable_nil ob : walkable ob [] = true.
Proof. reflexivity. Qed.

Lemma walkable_firstn : forall segs ob ctx c r,
  walk ob segs = (ctx, c, r) ->
  forall k, k <= length segs -> (walkable ob (firstn k segs) = true <-> k <= length c).
Proof.
  induction segs as [|s segs IH]; intros ob ctx c r Hw k Hk.
  - simpl in Hk. assert (k = 0) by lia. subst k. simpl. split; [lia|reflexivity].
  - destruct k as [|k]; [simpl; split; [lia|reflexivity]|].
    simpl firstn. rewrite walkable_cons. simpl in Hw. rewrite is_selector_spec in Hw. simpl in Hk.
    destruct (spec_is_selector s).
    + injection Hw as <- <- <-. simpl. split; [discriminate|lia].
    + destruct (child ob s) as [n|].
      * destruct (walk n segs) as [[o c'] r'] eqn:Hw'. injection Hw as <- <- <-.
        simpl. rewrite (IH n o c' r' Hw' k) by lia. lia.
      * injection Hw as <- <- <-. simpl. split; [discriminate|lia].
Qed.

Lemma longest_eq ob segs ctx c r :
  walk ob segs = (ctx, c, r) ->
  forall n, n <= length segs -> longest_walkable ob segs n = firstn (Nat.min n (length c)) segs.
Proof.
  intros Hw. induction n as [|n IH]; intros Hn; [reflexivity|].
  change (longest_walkable ob segs (S n))
    with (if walkable ob (firstn (S n) segs) then firstn (S n) segs else longest_walkable ob segs n).
  destruct (walkable ob (firstn (S n) segs)) eqn:E.
  - apply (walkable_firstn _ _ _ _ _ Hw (S n) Hn) in E. rewrite Nat.min_l by lia. reflexivity.
  - assert (~ S n <= length c) as Hlt.
    { intros H. apply (walkable_firstn _ _ _ _ _ Hw (S n) Hn) in H. congruence. }
    rewrite IH by lia. f_equal. lia.
Qed.

(* the consumed segments of the walk are the longest walkable prefix *)
Lemma walk_longest ob segs ctx c r :
  walk ob segs = (ctx, c, r) -> spec_consumed ob segs = c.
Proof.
  intros Hw. unfold spec_consumed. rewrite (longest_eq _ _ _ _ _ Hw) by lia.
  destruct (walk_sound _ _ _ _ _ Hw) as (H1 & _). subst segs.
  rewrite app_length, Nat.min_r by lia.
  rewrite firstn_app, Nat.sub_diag, firstn_all. simpl. apply app_nil_r.
Qed.

(* ------------------------------------------------- the loop in terms of the walk *)
Fixpoint vroot_track (vidx : Z) (ob vroot : rnode) (i : nat) (segs : list text) : rnode :=
  match segs with
  | [] => vroot
  | s :: r =>
      if is_selector s then vroot
      else match child ob s with
           | Some n => vroot_track vidx n (if Z.eqb (Z.of_nat i) vidx then n else vroot) (S i) r
           | None => vroot
           end
  end.

Lemma loop_walk sub vt root : forall segs pre ob vroot i,
  i = length pre ->
  loop (pre ++ segs) sub vt (vidx_of vt) root ob vroot i segs =
  let '(ctx, consumed, rest) := walk ob segs in
  let vr := vroot_track (vidx_of vt) ob vroot i segs in
  match rest with
  | [] => final_dict (pre ++ segs) sub vt root ctx vr
  | s :: _ => stop_dict (pre ++ segs) sub vt root ctx vr (i + length consumed)
                        (if is_selector s then skipn 2 s else s)
  end.
Proof.
  induction segs as [|s segs IH]; intros pre ob vroot i Hi.
  - simpl. apply render_final.
  - simpl loop. simpl walk. simpl vroot_track. unfold child.
    destruct (is_selector s) eqn:Hs.
    + rewrite render_selector. simpl. rewrite Hs, Nat.add_0_r. reflexivity.
    + destruct (getitem (snd ob) s) as [| |k c] eqn:Hg.
      * rewrite render_noitem. simpl. rewrite Hs, Nat.add_0_r. reflexivity.
      * rewrite render_keyerror. simpl. rewrite Hs, Nat.add_0_r. reflexivity.
      * specialize (IH (pre ++ [s]) (fst ob ++ [k], c)
                       (if Z.eqb (Z.of_nat i) (vidx_of vt) then (fst ob ++ [k], c) else vroot) (S i)).
        rewrite <- app_assoc in IH. simpl app in IH. rewrite IH by (rewrite app_length; simpl; lia).
        destruct (walk (fst ob ++ [k], c) segs) as [[o c'] r'].
        destruct r' as [|s' r'']; [reflexivity|].
        simpl length. rewrite Nat.add_succ_r. reflexivity.
Qed.

Lemma vroot_track_spec vt : forall segs ob vroot i,
  vroot_track (vidx_of vt) ob vroot i segs =
  let '(ctx, consumed, rest) := walk ob segs in
  if Nat.ltb i (length vt) && Nat.leb (length vt) (i + length consumed)
  then match descend ob (firstn (length vt - i) segs) with Some x => x | None => vroot end
  else vroot.
Proof.
  induction segs as [|s segs IH]; intros ob vroot i.
  - simpl. destruct (Nat.ltb_spec i (length vt)); simpl; [|reflexivity].
    destruct (Nat.leb_spec (length vt) (i + 0)); [lia|reflexivity].
  - simpl vroot_track. simpl walk. destruct (is_selector s) eqn:Hs.
    + simpl. destruct (Nat.ltb_spec i (length vt)); simpl; [|reflexivity].
      destruct (Nat.leb_spec (length vt) (i + 0)); [lia|reflexivity].
    + destruct (child ob s) as [n|] eqn:Hc.
      * rewrite IH. destruct (walk n segs) as [[o c'] r'].
        simpl length.
        destruct (Z.eqb_spec (Z.of_nat i) (vidx_of vt)) as [He|He]; unfold vidx_of in He.
        -- (* S i = length vt: the virtual root is the resource just reached *)
           assert (Hlt : Nat.ltb (S i) (length vt) = false) by (apply Nat.ltb_ge; lia).
           rewrite Hlt. simpl andb.
           assert (H1 : Nat.ltb i (length vt) = true) by (apply Nat.ltb_lt; lia).
           assert (H2 : Nat.leb (length vt) (i + S (length c')) = true) by (apply Nat.leb_le; lia).
           rewrite H1, H2. simpl andb.
           replace (length vt - i) with 1 by lia. simpl. rewrite Hc. destruct segs; reflexivity.
        -- destruct (Nat.ltb_spec (S i) (length vt)) as [Hl|Hl].
           ++ assert (H1 : Nat.ltb i (length vt) = true) by (apply Nat.ltb_lt; lia).
              rewrite H1. simpl andb. rewrite Nat.add_succ_r. simpl plus.
              destruct (Nat.leb (length vt) (S (i + length c'))); [|reflexivity].
              replace (length vt - i) with (S (length vt - S i)) by lia.
              simpl. rewrite Hc. reflexivity.
           ++ simpl andb. destruct (Nat.ltb_spec i (length vt)); [lia|]. reflexivity.
      * simpl. destruct (Nat.ltb_spec i (length vt)); simpl; [|reflexivity].
        destruct (Nat.leb_spec (length vt) (i + 0)); [lia|reflexivity].
Qed.

(* ------------------------------------------------- model outcome = spec outcome (+ traversed) *)
(* what the code computes: the specified dictionary, with [traversed] cut
   length(vroot_tuple) segments further than the consumed ones *)
Definition model_outcome (root : rnode) (vt ps sub : list text) : tdict :=
  let s := spec_outcome root vt ps sub in
  with_traversed s (firstn (length vt + length (t_traversed s)) (vt ++ ps)).

Lemma loop_outcome root vt ps sub :
  loop (vt ++ ps) sub vt (vidx_of vt) root root root 0 (vt ++ ps) = model_outcome root vt ps sub.
Proof.
  pose proof (loop_walk sub vt root (vt ++ ps) [] root root 0 eq_refl) as H. simpl app in H.
  rewrite H. clear H. rewrite vroot_track_spec.
  unfold model_outcome, spec_outcome.
  destruct (walk root (vt ++ ps)) as [[ctx c] r] eqn:Hw.
  rewrite (walk_longest _ _ _ _ _ Hw).
  destruct (walk_sound _ _ _ _ _ Hw) as (H1 & H2 & H3 & H4).
  rewrite H2. rewrite H1. rewrite skipn_app, Nat.sub_diag, skipn_all. simpl app.
  assert (Hvt : firstn (length vt - 0) (c ++ r) = vt).
  { rewrite <- H1, Nat.sub_0_r, firstn_app, Nat.sub_diag, firstn_all. simpl. apply app_nil_r. }
  rewrite Hvt. unfold with_traversed, pos_or_root. cbn [t_context t_view_name t_subpath t_traversed
    t_virtual_root t_virtual_root_path t_root]. simpl plus.
  assert (Hvr : fst (if Nat.ltb 0 (length vt) && Nat.leb (length vt) (length c)
                     then match descend root vt with Some x => x | None => root end else root)
                = if Nat.leb (length vt) (length c)
                  then match descend root vt with Some n => fst n | None => fst root end else fst root).
  { destruct (Nat.ltb_spec 0 (length vt)) as [Hp|Hp]; simpl andb.
    - destruct (Nat.leb (length vt) (length c)); [destruct (descend root vt)|]; reflexivity.
    - destruct vt; [|simpl in Hp; lia]. simpl. reflexivity. }
  destruct r as [|s r'].
  - unfold final_dict. rewrite app_nil_r.
    rewrite firstn_all2 by lia. f_equal. exact Hvr.
  - unfold stop_dict. rewrite is_selector_spec.
    replace (S (length c)) with (length c + 1) by lia.
    rewrite skipn_app. rewrite (skipn_all2 c) by lia. replace (length c + 1 - length c) with 1 by lia.
    simpl skipn. simpl app. f_equal. exact Hvr.
Qed.

(* the traverser with the outcome function abstracted *)
Definition traverser_gen (out : rnode -> list text -> list text -> list text -> tdict)
           (root : rnode) (q : request) : result tdict :=
  rlet ps := path_and_subpath q in
  let '(path, subpath) := ps in
  rlet vt := match q_vroot q with
             | Some raw => rlet d := decode_path_info raw in Ok (split_path_info d)
             | None => Ok []
             end in
  Ok (out root vt (split_path_info path) subpath).

Lemma spec_traverser_gen root q : spec_traverser root q = traverser_gen spec_outcome root q.
Proof. reflexivity. Qed.

Lemma spi_slash : split_path_info [slash] = [].
Proof. reflexivity. Qed.

Lemma app_is_slash (a b : text) : a ++ b = [slash] -> (a = [] /\ b = [slash]) \/ (a = [slash] /\ b = []).
Proof.
  destruct a as [|x a]; simpl; [auto|].
  intros H. injection H as -> H. apply app_eq_nil in H as [-> ->]. auto.
Qed.

Lemma outcome_nil root vt sub :
  vt = [] -> model_outcome root vt [] sub = final_dict [] sub vt root root root.
Proof. intros ->. reflexivity. Qed.

(* central theorem: the code (in the repaired form, vpath_tuple = vroot_tuple +
   split_path_info(path)) computes the specified dictionary up to [traversed] *)
Theorem traverser_call_outcome root q :
  traverser_call root q = traverser_gen model_outcome root q.
Proof.
  unfold traverser_call, traverser_call_mode, traverser_gen. rewrite f_mode.
  destruct (path_and_subpath q) as [[path sub]| |]; simpl; try reflexivity.
  unfold vroot_part. rewrite f_off, f_absent.
  destruct (q_vroot q) as [raw|].
  - destruct (decode_path_info raw) as [vp| |]; simpl; try reflexivity.
    fold (vidx_of (split_path_info vp)).
    destruct (text_eqb_spec (vp ++ path) slash_text) as [E|E].
    + rewrite render_final. unfold slash_text in E.
      destruct (app_is_slash _ _ E) as [[-> ->]|[-> ->]]; reflexivity.
    + rewrite loop_outcome. reflexivity.
  - simpl. change (-1)%Z with (vidx_of []).
    destruct (text_eqb_spec path slash_text) as [E|E].
    + rewrite render_final. subst path. reflexivity.
    + exact (f_equal Ok (loop_outcome root [] (split_path_info path) sub)).
Qed.

(* ------------------------------------------------------------ derived theorems *)
Lemma walk_outcome_unique ob segs c1 p1 r1 c2 p2 r2 :
  walk_outcome ob segs c1 p1 r1 -> walk_outcome ob segs c2 p2 r2 -> (c1, p1, r1) = (c2, p2, r2).
Proof. intros H1 H2. apply walk_unique in H1. apply walk_unique in H2. congruence. Qed.

Definition view_name_of (rest : list text) : text :=
  match rest with [] => [] | x :: _ => if spec_is_selector x then skipn 2 x else x end.
Definition subpath_of (sub rest : list text) : list text :=
  match rest with [] => sub | _ :: t => t end.

(* the specified dictionary, read declaratively *)
Lemma spec_outcome_walk root vt ps sub :
  exists ctx consumed rest,
    walk_outcome root (vt ++ ps) ctx consumed rest /\
    let s := spec_outcome root vt ps sub in
    t_context s = fst ctx /\ t_traversed s = consumed /\
    t_view_name s = view_name_of rest /\ t_subpath s = subpath_of sub rest /\
    t_virtual_root_path s = vt /\ t_root s = fst root.
Proof.
  destruct (walk root (vt ++ ps)) as [[ctx c] r] eqn:Hw.
  exists ctx, c, r. pose proof (walk_sound _ _ _ _ _ Hw) as Ho. split; [exact Ho|].
  destruct Ho as (H1 & H2 & H3 & H4).
  unfold spec_outcome. rewrite (walk_longest _ _ _ _ _ Hw), H2.
  cbn [t_context t_view_name t_subpath t_traversed t_virtual_root t_virtual_root_path t_root pos_or_root].
  rewrite H1, skipn_app, Nat.sub_diag, skipn_all. simpl app.
  repeat split; reflexivity.
Qed.

Lemma model_outcome_fields root vt ps sub :
  let s := spec_outcome root vt ps sub in let d := model_outcome root vt ps sub in
  t_context d = t_context s /\ t_view_name d = t_view_name s /\ t_subpath d = t_subpath s /\
  t_virtual_root d = t_virtual_root s /\ t_virtual_root_path d = t_virtual_root_path s /\ t_root d = t_root s.
Proof. repeat split; reflexivity. Qed.

(* [traversed] as the code computes it: the consumed segments followed by the
   next length(vroot_tuple) segments of the unconsumed rest *)
Lemma model_traversed_exact root vt ps sub ctx c r :
  walk_outcome root (vt ++ ps) ctx c r ->
  t_traversed (model_outcome root vt ps sub) = c ++ firstn (length vt) r.
Proof.
  intros Ho. pose proof (walk_unique _ _ _ _ _ Ho) as Hw. destruct Ho as (H1 & _).
  unfold model_outcome, with_traversed, spec_outcome. cbn [t_traversed].
  rewrite (walk_longest _ _ _ _ _ Hw), H1.
  rewrite firstn_app. replace (length vt + length c - length c) with (length vt) by lia.
  rewrite firstn_all2 by lia. reflexivity.
Qed.

(* partial: without a virtual root, or when the path is exhausted, [traversed] is
   exactly the consumed segments and the code meets the specification entirely *)
Lemma model_outcome_partial root vt ps sub :
  vt = [] \/ spec_consumed root (vt ++ ps) = vt ++ ps ->
  model_outcome root vt ps sub = spec_outcome root vt ps sub.
Proof.
  intros H. destruct (spec_outcome_walk root vt ps sub) as (ctx & c & r & Ho & Hs).
  pose proof (model_traversed_exact root vt ps sub ctx c r Ho) as Ht.
  cbv zeta in Hs. destruct Hs as (_ & Htr & _).
  assert (Hc : t_traversed (model_outcome root vt ps sub) = t_traversed (spec_outcome root vt ps sub)).
  { rewrite Ht, Htr. destruct H as [->|H].
    - simpl. apply app_nil_r.
    - pose proof (walk_unique _ _ _ _ _ Ho) as Hw. rewrite (walk_longest _ _ _ _ _ Hw) in H.
      destruct Ho as (H1 & _). rewrite H1 in H.
      assert (r = []) as ->.
      { apply (f_equal (@length text)) in H. rewrite app_length in H. destruct r; [reflexivity|simpl in H; lia]. }
      rewrite firstn_nil. apply app_nil_r. }
  unfold model_outcome, with_traversed in *. cbn [t_traversed] in Hc. rewrite Hc.
  destruct (spec_outcome root vt ps sub). reflexivity.
Qed.

Theorem traverser_no_vroot_meets_spec root q :
  q_vroot q = None -> traverser_call root q = spec_traverser root q.
Proof.
  intros Hv. rewrite traverser_call_outcome, spec_traverser_gen. unfold traverser_gen. rewrite Hv.
  destruct (path_and_subpath q) as [[path sub]| |]; simpl; try reflexivity.
  rewrite model_outcome_partial by (left; reflexivity). reflexivity.
Qed.

(* the full-strength statement "traverser_call = spec_traverser" is false of the code *)
Definition ta : text := [97%N].  Definition tb : text := [98%N].
Definition tx : text := [120%N]. Definition ty : text := [121%N].
Definition wit_tree : res := Node (Some [(ta, Node (Some [(tb, Node None)])); (tb, Node (Some [(tx, Node None)]))]).
(* HTTP_X_VHM_ROOT=/a  PATH_INFO=/x/y *)
Definition wit_traversed : request := mkReq (Some [47; 120; 47; 121]%N) None (Some [47; 97]%N).
(* HTTP_X_VHM_ROOT=/a  PATH_INFO=/../b/x *)
Definition wit_escape : request := mkReq (Some [47; 46; 46; 47; 98; 47; 120]%N) None (Some [47; 97]%N).

Lemma traversed_refuted :
  exists d s, traverser_call ([], wit_tree) wit_traversed = Ok d /\
              spec_traverser ([], wit_tree) wit_traversed = Ok s /\
              t_traversed s = [ta] /\ t_traversed d = [ta; tx] /\ d <> s.
Proof.
  eexists. eexists. split; [vm_compute; reflexivity|]. split; [vm_compute; reflexivity|].
  split; [reflexivity|]. split; [reflexivity|]. discriminate.
Qed.

(* ---- the virtual root *)
Lemma app_prefix_split {A} (a b c d : list A) :
  a ++ b = c ++ d -> length a <= length c -> exists c', c = a ++ c' /\ b = c' ++ d.
Proof.
  revert c. induction a as [|x a IH]; intros c H Hl; simpl in *.
  - exists c. auto.
  - destruct c as [|y c]; [simpl in Hl; lia|]. simpl in H. injection H as -> H.
    destruct (IH c H ltac:(simpl in Hl; lia)) as (c' & -> & ->). exists c'. auto.
Qed.

Lemma app_prefix_split' {A} (a b c d : list A) :
  a ++ b = c ++ d -> length c < length a -> exists a', a = c ++ a' /\ a' <> [] /\ d = a' ++ b.
Proof.
  intros H Hl. symmetry in H. destruct (app_prefix_split c d a b H ltac:(lia)) as (a' & -> & ->).
  exists a'. repeat split; auto. intros ->. rewrite app_nil_r in Hl. lia.
Qed.

(* the virtual root is the resource at the virtual-root segments when the walk
   gets that far (and then the context lies inside its subtree and the consumed
   path starts with the virtual-root segments); otherwise it is the root and
   the walk stopped inside the virtual-root path *)
Lemma spec_outcome_vroot root vt ps sub ctx c r :
  walk_outcome root (vt ++ ps) ctx c r ->
  let s := spec_outcome root vt ps sub in
  (length vt <= length c /\
     exists v c', descend root vt = Some v /\ t_virtual_root s = fst v /\ c = vt ++ c' /\
                  descend v c' = Some ctx /\ exists suffix, t_context s = fst v ++ suffix)
  \/ (length c < length vt /\ t_virtual_root s = fst root /\ exists more, more <> [] /\ vt = c ++ more).
Proof.
  intros Ho. pose proof (walk_unique _ _ _ _ _ Ho) as Hw. destruct Ho as (H1 & H2 & H3 & H4).
  cbv zeta. unfold spec_outcome. rewrite (walk_longest _ _ _ _ _ Hw), H2.
  cbn [t_context t_virtual_root pos_or_root].
  destruct (Nat.leb_spec (length vt) (length c)) as [Hl|Hl].
  - left. split; [assumption|].
    destruct (app_prefix_split vt ps c r H1 Hl) as (c' & -> & _).
    rewrite descend_app in H2. destruct (descend root vt) as [v|] eqn:Hv; [|discriminate].
    exists v, c'. repeat split; auto.
    destruct (descend_pos _ _ _ H2) as (suf & Hs & _). exists suf. exact Hs.
  - right. split; [assumption|]. split; [reflexivity|].
    destruct (app_prefix_split' vt ps c r H1 Hl) as (a' & -> & Hne & _). exists a'. auto.
Qed.

(* the defect repaired in the source (DESIGN section 5 item 14): when the code
   normalises vroot text ++ path text together, '..' in the request path
   consumes virtual-root segments and the walk leaves the virtual root *)
Lemma vroot_refuted_joined :
  exists d s v, traverser_call_mode VJoined ([], wit_tree) wit_escape = Ok d /\
                spec_traverser ([], wit_tree) wit_escape = Ok s /\
                descend ([], wit_tree) [ta] = Some v /\
                t_virtual_root_path d = [ta] /\ t_virtual_root s = fst v /\
                t_virtual_root d <> fst v /\ t_context d = [1; 0] /\ t_context s = [0; 0] /\ d <> s.
Proof.
  eexists. eexists. eexists. split; [vm_compute; reflexivity|]. split; [vm_compute; reflexivity|].
  split; [vm_compute; reflexivity|]. repeat split; try reflexivity; discriminate.
Qed.

Lemma escape_repaired :
  exists d s, traverser_call_mode VSeparate ([], wit_tree) wit_escape = Ok d /\
              spec_traverser ([], wit_tree) wit_escape = Ok s /\
              t_context d = t_context s /\ t_virtual_root d = t_virtual_root s /\ t_context d = [0; 0].
Proof.
  eexists. eexists. split; [vm_compute; reflexivity|]. split; [vm_compute; reflexivity|].
  repeat split; reflexivity.
Qed.

(* ---- normalisation *)
(* the answer depends on the request path only through its normal form *)
Lemma traverser_path_normal_form root q1 q2 p1 p2 sub :
  path_and_subpath q1 = Ok (p1, sub) -> path_and_subpath q2 = Ok (p2, sub) ->
  q_vroot q1 = q_vroot q2 -> split_path_info p1 = split_path_info p2 ->
  traverser_call root q1 = traverser_call root q2.
Proof.
  intros H1 H2 Hv Hs. rewrite !traverser_call_outcome. unfold traverser_gen.
  rewrite H1, H2, Hv. cbn [rbind]. rewrite Hs. reflexivity.
Qed.

Lemma decode_ascii_cons a t :
  (a < 128)%N -> decode_path_info (a :: t) = rbind (decode_path_info t) (fun d => Ok (a :: d)).
Proof.
  intros Ha. unfold decode_path_info. simpl forallb.
  assert (H1 : (a <? 256)%N = true) by lia. rewrite H1. simpl andb.
  destruct (forallb (fun c => (c <? 256)%N) t); [|reflexivity].
  simpl Utf8.decode. assert (H2 : (a <? 128)%N = true) by lia. rewrite H2.
  destruct (Utf8.decode t); reflexivity.
Qed.

(* every segment the walk sees is non-empty, not '.', not '..', slash-free *)
Lemma traverser_segments_normal vp p :
  Forall normal_seg (split_path_info vp ++ split_path_info p).
Proof. apply Forall_app. split; apply spi_normal. Qed.

(* PATH_INFO "/.." ++ p and p (p starting with '/') resolve identically:
   '..' never climbs above the root, nor -- in the repaired code -- above the virtual root *)
Theorem traverser_dotdot_at_root root p md vr :
  traverser_call root (mkReq (Some (slash :: dot :: dot :: slash :: p)) md vr)
  = traverser_call root (mkReq (Some (slash :: p)) md vr).
Proof.
  rewrite !traverser_call_outcome. unfold traverser_gen, path_and_subpath. simpl q_matchdict. simpl q_path_info. simpl q_vroot.
  destruct md as [m|]; [reflexivity|].
  unfold slash, dot.
  rewrite (decode_ascii_cons 47) by lia. rewrite (decode_ascii_cons 46) by lia.
  rewrite (decode_ascii_cons 46) by lia. rewrite !(decode_ascii_cons 47) by lia.
  destruct (decode_path_info p) as [d| |]; cbn [rbind as_url_decode_error].
  - change (47 :: 46 :: 46 :: 47 :: d)%N with (slash :: dot :: dot :: slash :: d).
    change (47 :: d)%N with (slash :: d).
    rewrite spi_never_above_root. reflexivity.
  - reflexivity.
  - reflexivity.
Qed.

(* ---- the statement of the property, for the code *)
Definition vroot_tuple_of (q : request) : result (list text) :=
  match q_vroot q with
  | Some raw => rlet d := decode_path_info raw in Ok (split_path_info d)
  | None => Ok []
  end.

Theorem traverser_resolves root q d :
  traverser_call root q = Ok d ->
  exists path sub vt ctx consumed rest,
    path_and_subpath q = Ok (path, sub) /\ vroot_tuple_of q = Ok vt /\
    walk_outcome root (vt ++ split_path_info path) ctx consumed rest /\
    t_context d = fst ctx /\
    t_view_name d = view_name_of rest /\
    t_subpath d = subpath_of sub rest /\
    t_traversed d = consumed ++ firstn (length vt) rest /\
    t_virtual_root_path d = vt /\ t_root d = fst root /\
    ((length vt <= length consumed /\
        exists v c', descend root vt = Some v /\ t_virtual_root d = fst v /\ consumed = vt ++ c' /\
                     descend v c' = Some ctx /\ exists suffix, t_context d = fst v ++ suffix)
     \/ (length consumed < length vt /\ t_virtual_root d = fst root /\
         exists more, more <> [] /\ vt = consumed ++ more)).
Proof.
  rewrite traverser_call_outcome. unfold traverser_gen. fold (vroot_tuple_of q).
  destruct (path_and_subpath q) as [[path sub]| |]; cbn [rbind]; try discriminate.
  destruct (vroot_tuple_of q) as [vt| |]; cbn [rbind]; try discriminate.
  intros H. injection H as <-.
  destruct (spec_outcome_walk root vt (split_path_info path) sub) as (ctx & c & r & Ho & Hs).
  cbv zeta in Hs. destruct Hs as (S1 & S2 & S3 & S4 & S5 & S6).
  exists path, sub, vt, ctx, c, r.
  pose proof (model_traversed_exact root vt (split_path_info path) sub ctx c r Ho) as Ht.
  pose proof (spec_outcome_vroot root vt (split_path_info path) sub ctx c r Ho) as Hv. cbv zeta in Hv.
  repeat (split; [first [reflexivity | assumption]|]).
  exact Hv.
Qed.

(* "the context is the deepest resource reached": the consumed segments are the
   longest prefix that can be walked by item lookup without meeting '@@' *)
Theorem consumed_is_longest ob segs ctx c r :
  walk_outcome ob segs ctx c r ->
  spec_consumed ob segs = c /\
  forall k, k <= length segs -> (walkable ob (firstn k segs) = true <-> k <= length c).
Proof.
  intros Ho. apply walk_unique in Ho. split; [eapply walk_longest; eassumption|].
  eapply walkable_firstn; eassumption.
Qed.

(* ---- non-vacuity *)
(* PATH_INFO=/a/b/zz/t, no virtual root: two segments consumed, early stop *)
Example resolves_nontrivial :
  traverser_call ([], wit_tree) (mkReq (Some [47; 97; 47; 98; 47; 122; 122; 47; 116]%N) None None)
  = Ok (mkT [0; 0] [122; 122]%N [[116%N]] [ta; tb] [] [] []).
Proof. vm_compute. reflexivity. Qed.

(* vroot /a, PATH_INFO=/b: virtual root reached, path exhausted: hypotheses of the partial theorem hold *)
Example partial_hypothesis_satisfiable :
  spec_consumed ([], wit_tree) ([ta] ++ [tb]) = [ta] ++ [tb] /\
  traverser_call ([], wit_tree) (mkReq (Some [47; 98]%N) None (Some [47; 97]%N))
  = Ok (mkT [0; 0] [] [] [ta; tb] [0] [ta] []).
Proof. split; vm_compute; reflexivity. Qed.

Example walk_outcome_inhabited :
  walk_outcome ([], wit_tree) [ta; tx; ty] ([0], Node (Some [(tb, Node None)])) [ta] [tx; ty].
Proof. apply walk_sound. vm_compute. reflexivity. Qed.

(* a view selector stops the walk even when a child of that name exists *)
Example selector_stops :
  traverser_call ([], Node (Some [([64; 64; 97]%N, Node None); (ta, Node None)]))
                 (mkReq (Some [47; 64; 64; 97; 47; 98]%N) None None)
  = Ok (mkT [] ta [tb] [] [] [] []).
Proof. vm_compute. reflexivity. Qed.

(* traversal_path_info / traversal_path only ever return normal segments *)
Lemma tpi_normal p l : traversal_path_info p = Ok l -> Forall normal_seg l.
Proof.
  unfold traversal_path_info. destruct (as_url_decode_error (decode_path_info p)); simpl; try discriminate.
  intros H. injection H as <-. apply spi_normal.
Qed.

Lemma tp_normal p l : traversal_path p = Ok l -> Forall normal_seg l.
Proof. unfold traversal_path. destruct (is_ascii p); [apply tpi_normal|discriminate]. Qed.

(* ------------------------------------------------------------ Router *)
Lemma facts_router_ok :
  ret_keys = [k_context; k_view_name; k_subpath; k_traversed; k_virtual_root; k_virtual_root_path; k_root] /\
  router_root_key = k_root /\ router_updates_attrs = true.
Proof. vm_compute. repeat split; reflexivity. Qed.

(* request.__dict__ restricted to what the traversal part of handle_request writes *)
Definition dict_attrs (d : tdict) : attrs :=
  [(k_root, ARes (t_root d)); (k_context, ARes (t_context d)); (k_view_name, AStr (t_view_name d));
   (k_subpath, ASeq (t_subpath d)); (k_traversed, ASeq (t_traversed d));
   (k_virtual_root, ARes (t_virtual_root d)); (k_virtual_root_path, ASeq (t_virtual_root_path d))].

Lemma router_traversal_with_eq T root q :
  router_traversal_with T root q = rbind (T root q) (fun d => Ok (dict_attrs d)).
Proof.
  unfold router_traversal_with, tdict_items.
  destruct facts_router_ok as (-> & -> & ->).
  destruct (T root q) as [d| |]; reflexivity.
Qed.

(* the attributes a subscriber of ContextFound (or a view) reads are exactly the
   fields of the traverser's dictionary; nothing else is written, and a failing
   traversal fails the request the same way *)
Theorem router_copies_dict root q :
  router_traversal root q = rbind (traverser_call root q) (fun d => Ok (dict_attrs d)) /\
  forall d, traverser_call root q = Ok d ->
    exists a, router_traversal root q = Ok a /\
      attrs_get k_context a = Some (ARes (t_context d)) /\
      attrs_get k_view_name a = Some (AStr (t_view_name d)) /\
      attrs_get k_subpath a = Some (ASeq (t_subpath d)) /\
      attrs_get k_traversed a = Some (ASeq (t_traversed d)) /\
      attrs_get k_virtual_root a = Some (ARes (t_virtual_root d)) /\
      attrs_get k_virtual_root_path a = Some (ASeq (t_virtual_root_path d)) /\
      attrs_get k_root a = Some (ARes (fst root)).
Proof.
  split; [apply router_traversal_with_eq|].
  intros d Hd. exists (dict_attrs d). unfold router_traversal. rewrite router_traversal_with_eq, Hd.
  split; [reflexivity|].
  assert (Hr : t_root d = fst root).
  { destruct (traverser_resolves root q d Hd) as (? & ? & ? & ? & ? & ? & _ & _ & _ & _ & _ & _ & _ & _ & H & _).
    exact H. }
  rewrite <- Hr. repeat split; reflexivity.
Qed.
