(* C02 -- the history clause: memoisation never changes an answer.
   (1) a generic bounded LRU memo table (functools.lru_cache / a dict cache) is
       transparent: from any state in which every entry is a true (key, f key)
       pair, a call answers f key and leaves such a state;
   (2) the traverser written in state-passing style over ANY memoised
       split_path_info answers like the cache-free traverser, for every history. *)
From Coq Require Import List NArith ZArith Bool Lia.
Import ListNotations.
Require Import Verif.Lib.Wire Verif.Lib.Text Verif.Lib.PathNorm Verif.Lib.C02Expr
               Verif.Gen.Facts_C02 Verif.Model.C02 Verif.Proofs.C02.
Close Scope N_scope.

Section Memo.
Context {K V : Type}.
Variable eqb : K -> K -> bool.
Variable f : K -> V.
Variable maxsize : nat.

Definition cache := list (K * V).
Definition cache_ok (c : cache) : Prop := Forall (fun kv => snd kv = f (fst kv)) c.

Fixpoint lookup (k : K) (c : cache) : option V :=
  match c with
  | [] => None
  | (k', v) :: r => if eqb k k' then Some v else lookup k r
  end.
Definition remove (k : K) (c : cache) : cache := filter (fun kv => negb (eqb k (fst kv))) c.

(* hit: answer from the table and move the entry to the front;
   miss: compute, insert at the front, evict beyond maxsize *)
Definition memo_call (c : cache) (k : K) : V * cache :=
  match lookup k c with
  | Some v => (v, (k, v) :: remove k c)
  | None => let v := f k in (v, firstn maxsize ((k, v) :: c))
  end.

Hypothesis eqb_sound : forall a b, eqb a b = true -> a = b.

Lemma lookup_ok c k v : cache_ok c -> lookup k c = Some v -> v = f k.
Proof.
  induction c as [|[k' v'] c IH]; simpl; intros Hc H; [discriminate|].
  unfold cache_ok in Hc. pose proof (Forall_inv Hc) as Hhd. pose proof (Forall_inv_tail Hc) as Htl.
  simpl in Hhd.
  destruct (eqb k k') eqn:E.
  - injection H as <-. apply eqb_sound in E. subst k'. exact Hhd.
  - apply IH; assumption.
Qed.

Lemma cache_ok_filter p c : cache_ok c -> cache_ok (filter p c).
Proof.
  unfold cache_ok. rewrite !Forall_forall. intros H x Hx. apply filter_In in Hx. apply H, Hx.
Qed.

Lemma cache_ok_firstn n c : cache_ok c -> cache_ok (firstn n c).
Proof.
  unfold cache_ok. revert c. induction n as [|n IH]; intros c H; [constructor|].
  destruct c as [|x c]; [constructor|]. inversion H; subst. simpl. constructor; auto.
Qed.

Lemma memo_call_correct c k :
  cache_ok c -> fst (memo_call c k) = f k /\ cache_ok (snd (memo_call c k)).
Proof.
  intros Hc. unfold memo_call. destruct (lookup k c) as [v|] eqn:E; simpl.
  - pose proof (lookup_ok _ _ _ Hc E) as ->. split; [reflexivity|].
    constructor; [reflexivity|]. apply cache_ok_filter, Hc.
  - split; [reflexivity|]. apply (cache_ok_firstn maxsize ((k, f k) :: c)).
    constructor; [reflexivity|exact Hc].
Qed.
End Memo.

(* ---------------------------------------------------------------- traverser *)
Section StatePassing.
Variable S : Type.
Variable spi : S -> text -> list text * S.
Variable Inv : S -> Prop.
Hypothesis spi_ok : forall s p, Inv s -> fst (spi s p) = split_path_info p /\ Inv (snd (spi s p)).

Definition md_path (md : matchdict) : text :=
  let p0 := match md_traverse md with
            | None => MStr slash_text
            | Some v => if mval_falsy v then MStr slash_text else v
            end in
  match p0 with
  | MStr s => s
  | MTuple l => slash :: join slash_text l
  end.

(* the calls of split_path_info, in program order: {subpath}, vroot header, request path *)
Definition path_and_subpath_st (s : S) (q : request) : result (text * list text) * S :=
  match q_matchdict q with
  | Some md =>
      match md_subpath md with
      | None => (Ok (md_path md, []), s)
      | Some (MTuple l) => (Ok (md_path md, l), s)
      | Some (MStr t) => let '(l, s') := spi s t in (Ok (md_path md, l), s')
      end
  | None => (path_and_subpath q, s)
  end.

Definition traverser_call_st (s : S) (root : rnode) (q : request) : result tdict * S :=
  let '(ps, s1) := path_and_subpath_st s q in
  match ps with
  | Ok (path, subpath) =>
      match q_vroot q with
      | Some raw =>
          match decode_path_info raw with
          | Ok vroot_path =>
              let '(vroot_tuple, s2) := spi s1 vroot_path in
              let vroot_idx := (Z.of_nat (length vroot_tuple) + vroot_idx_off)%Z in
              if text_eqb (vroot_path ++ path) slash_text then
                (Ok (render (mkEnv [] subpath vroot_tuple 0%Z vroot_idx [] root root root) ret_final), s2)
              else
                let '(pt, s3) := spi s2 path in
                let vpath_tuple := vroot_tuple ++ pt in
                (Ok (loop vpath_tuple subpath vroot_tuple vroot_idx root root root 0 vpath_tuple), s3)
          | Exc e => (Exc e, s1)
          | Unsupported => (Unsupported, s1)
          end
      | None =>
          if text_eqb path slash_text then
            (Ok (render (mkEnv [] subpath [] 0%Z vroot_idx_absent [] root root root) ret_final), s1)
          else
            let '(pt, s3) := spi s1 path in
            (Ok (loop pt subpath [] vroot_idx_absent root root root 0 pt), s3)
      end
  | Exc e => (Exc e, s1)
  | Unsupported => (Unsupported, s1)
  end.

Ltac use_spi s p Hinv l s' :=
  let E := fresh "E" in let H1 := fresh "H" in let H2 := fresh "H" in
  destruct (spi s p) as [l s'] eqn:E;
  destruct (spi_ok s p Hinv) as [H1 H2]; rewrite E in H1, H2; simpl in H1, H2; subst l.

Lemma path_and_subpath_st_ok s q :
  Inv s -> fst (path_and_subpath_st s q) = path_and_subpath q /\ Inv (snd (path_and_subpath_st s q)).
Proof.
  intros Hinv. unfold path_and_subpath_st, path_and_subpath, md_path.
  destruct (q_matchdict q) as [md|]; [|split; [reflexivity|exact Hinv]].
  destruct (md_subpath md) as [[t|l]|]; try (split; [reflexivity|exact Hinv]).
  use_spi s t Hinv l s'. split; [reflexivity|assumption].
Qed.

Lemma traverser_call_st_ok s root q :
  Inv s ->
  fst (traverser_call_st s root q) = traverser_call_mode VSeparate root q /\
  Inv (snd (traverser_call_st s root q)).
Proof.
  intros Hinv. unfold traverser_call_st, traverser_call_mode.
  destruct (path_and_subpath_st s q) as [ps s1] eqn:E.
  destruct (path_and_subpath_st_ok s q Hinv) as [H1 H2]. rewrite E in H1, H2. simpl in H1, H2.
  rewrite <- H1. destruct ps as [[path sub]| |]; cbn [rbind]; try (split; [reflexivity|assumption]).
  unfold vroot_part. destruct (q_vroot q) as [raw|].
  - destruct (decode_path_info raw) as [vp| |]; cbn [rbind]; try (split; [reflexivity|assumption]).
    use_spi s1 vp H2 vt s2.
    destruct (text_eqb (vp ++ path) slash_text); [split; [reflexivity|assumption]|].
    use_spi s2 path H0 pt s3. split; [reflexivity|assumption].
  - cbn [rbind]. destruct (text_eqb path slash_text); [split; [reflexivity|assumption]|].
    use_spi s1 path H2 pt s3. split; [reflexivity|assumption].
Qed.

(* a history of traversals (any trees, any requests) threaded through the state *)
Fixpoint run_history_st (s : S) (qs : list (rnode * request)) : list (result tdict * S) :=
  match qs with
  | [] => []
  | (root, q) :: r => let '(a, s') := traverser_call_st s root q in (a, s') :: run_history_st s' r
  end.

Lemma run_history_st_ok : forall qs s,
  Inv s ->
  map fst (run_history_st s qs) = map (fun rq => traverser_call_mode VSeparate (fst rq) (snd rq)) qs.
Proof.
  induction qs as [|[root q] qs IH]; intros s Hinv; [reflexivity|].
  simpl. destruct (traverser_call_st s root q) as [a s'] eqn:E.
  destruct (traverser_call_st_ok s root q Hinv) as [H1 H2]. rewrite E in H1, H2. simpl in H1, H2.
  simpl. rewrite H1, (IH s' H2). reflexivity.
Qed.
End StatePassing.

(* ------------------------------------------- instance: lru_cache(maxsize) on split_path_info *)
Definition spi_cache := @cache text (list text).
Definition spi_memo (maxsize : nat) (c : spi_cache) (p : text) : list text * spi_cache :=
  memo_call text_eqb split_path_info maxsize c p.

Definition run_history (maxsize : nat) (c0 : spi_cache) (qs : list (rnode * request))
  : list (result tdict * spi_cache) :=
  run_history_st spi_cache (spi_memo maxsize) c0 qs.

Theorem history_free maxsize c0 qs :
  cache_ok split_path_info c0 ->
  map fst (run_history maxsize c0 qs) = map (fun rq => traverser_call (fst rq) (snd rq)) qs.
Proof.
  intros H. unfold run_history, traverser_call. rewrite f_mode.
  apply (run_history_st_ok spi_cache (spi_memo maxsize) (cache_ok split_path_info)); [|exact H].
  intros s p Hs. apply memo_call_correct; [|exact Hs].
  intros a b E. apply text_eqb_eq. exact E.
Qed.

(* non-vacuity: a warm cache really is consulted (the second call is a hit) and answers agree *)
Example history_example :
  let q := mkReq (Some [47; 97; 47; 98]%N) None (Some [47; 97]%N) in
  let h := run_history 2 [] [(([], wit_tree), q); (([], wit_tree), q)] in
  map fst h = [traverser_call ([], wit_tree) q; traverser_call ([], wit_tree) q] /\
  map (fun x => length (snd x)) h = [2; 2].
Proof. vm_compute. split; reflexivity. Qed.

(* ====================================================================== *)
(* The remaining caches: traversal_path_info (lru, calls the memoised
   split_path_info), _join_path_tuple (lru, calls quote_path_segment whose
   results live in the _segment_cache dictionary keyed by (segment, safe)).
   A miss now runs a computation that itself touches another cache, so the
   memo table is generalised to a state-passing miss function; results that
   are exceptions are not cached (as in Python). *)
Section MemoSt.
Context {K V S : Type}.
Variable eqb : K -> K -> bool.
Variable f : K -> V.
Variable bound : option nat.          (* None = a dictionary that never evicts *)
Variable cacheable : V -> bool.
Variable g : S -> K -> V * S.
Variable InvS : S -> Prop.
Hypothesis eqb_sound : forall a b, eqb a b = true -> a = b.
Hypothesis g_ok : forall s k, InvS s -> fst (g s k) = f k /\ InvS (snd (g s k)).

Definition trim (c : @cache K V) : @cache K V :=
  match bound with Some n => firstn n c | None => c end.

Definition memo_call_st (c : @cache K V) (s : S) (k : K) : V * (@cache K V * S) :=
  match lookup eqb k c with
  | Some v => (v, ((k, v) :: remove eqb k c, s))
  | None => let '(v, s') := g s k in
            (v, (if cacheable v then trim ((k, v) :: c) else c, s'))
  end.

Lemma memo_call_st_correct c s k :
  cache_ok f c -> InvS s ->
  fst (memo_call_st c s k) = f k /\
  cache_ok f (fst (snd (memo_call_st c s k))) /\ InvS (snd (snd (memo_call_st c s k))).
Proof.
  intros Hc Hs. unfold memo_call_st. destruct (lookup eqb k c) as [v|] eqn:E; simpl.
  - pose proof (lookup_ok eqb f eqb_sound _ _ _ Hc E) as ->. repeat split; auto.
    constructor; [reflexivity|]. apply cache_ok_filter, Hc.
  - destruct (g s k) as [v s'] eqn:Eg. destruct (g_ok s k Hs) as [H1 H2]. rewrite Eg in H1, H2.
    simpl in *. subst v. repeat split; auto.
    destruct (cacheable (f k)); [|exact Hc]. unfold trim.
    assert (Hn : cache_ok f ((k, f k) :: c)) by (constructor; [reflexivity|exact Hc]).
    destruct bound; [apply cache_ok_firstn|]; exact Hn.
Qed.
End MemoSt.

(* ---- key equalities *)
Fixpoint texts_eqb (a b : list text) : bool :=
  match a, b with
  | [], [] => true
  | x :: a', y :: b' => text_eqb x y && texts_eqb a' b'
  | _, _ => false
  end.
Lemma texts_eqb_sound a b : texts_eqb a b = true -> a = b.
Proof.
  revert b. induction a as [|x a IH]; destruct b as [|y b]; simpl; try discriminate; [reflexivity|].
  intros H. apply andb_true_iff in H as [H1 H2]. apply text_eqb_eq in H1. f_equal; auto.
Qed.
Definition segkey_eqb (a b : text * text) : bool := text_eqb (fst a) (fst b) && text_eqb (snd a) (snd b).
Lemma segkey_eqb_sound a b : segkey_eqb a b = true -> a = b.
Proof.
  destruct a, b. unfold segkey_eqb. simpl. intros H. apply andb_true_iff in H as [H1 H2].
  apply text_eqb_eq in H1. apply text_eqb_eq in H2. congruence.
Qed.
Lemma text_eqb_sound a b : text_eqb a b = true -> a = b.
Proof. apply text_eqb_eq. Qed.

Definition is_ok {A} (r : result A) : bool := match r with Ok _ => true | _ => false end.

(* ---- the process-wide caches *)
Record caches := mkCaches {
  c_spi : @cache text (list text);                 (* split_path_info *)
  c_tpi : @cache text (result (list text));        (* traversal_path_info *)
  c_join : @cache (list text) (result text);       (* _join_path_tuple *)
  c_seg : @cache (text * text) (result text) }.    (* _segment_cache[(segment, safe)] *)

Definition f_seg (k : text * text) : result text := quote_path_segment_safe (fst k) (snd k).

Definition caches_ok (C : caches) : Prop :=
  cache_ok split_path_info (c_spi C) /\ cache_ok traversal_path_info (c_tpi C) /\
  cache_ok join_path_tuple (c_join C) /\ cache_ok f_seg (c_seg C).

(* quote_path_segment(segment, safe) through the dictionary *)
Definition seg_st (sc : @cache (text * text) (result text)) (k : text * text)
  : result text * @cache (text * text) (result text) :=
  let '(v, (sc', _)) := memo_call_st segkey_eqb None is_ok (fun (u : unit) k => (f_seg k, u)) sc tt k in
  (v, sc').

Lemma seg_st_ok sc k :
  cache_ok f_seg sc -> fst (seg_st sc k) = f_seg k /\ cache_ok f_seg (snd (seg_st sc k)).
Proof.
  intros H. unfold seg_st.
  pose proof (memo_call_st_correct segkey_eqb f_seg None is_ok (fun (u : unit) k => (f_seg k, u))
                (fun _ => True) segkey_eqb_sound (fun s k _ => conj eq_refl I) sc tt k H I) as (H1 & H2 & _).
  destruct (memo_call_st segkey_eqb None is_ok (fun (u : unit) k0 => (f_seg k0, u)) sc tt k) as [v [sc' u]].
  simpl in *. auto.
Qed.

Lemma quote_default seg : quote_path_segment seg = f_seg (seg, path_segment_safe).
Proof. reflexivity. Qed.

(* [quote_path_segment(x) for x in tuple] through the dictionary *)
Fixpoint rmap_seg_st (sc : @cache (text * text) (result text)) (l : list text)
  : result (list text) * @cache (text * text) (result text) :=
  match l with
  | [] => (Ok [], sc)
  | x :: r =>
      let '(y, sc1) := seg_st sc (x, path_segment_safe) in
      match y with
      | Ok y' => let '(ys, sc2) := rmap_seg_st sc1 r in
                 (match ys with Ok ys' => Ok (y' :: ys') | Exc e => Exc e | Unsupported => Unsupported end, sc2)
      | Exc e => (Exc e, sc1)
      | Unsupported => (Unsupported, sc1)
      end
  end.

Lemma rmap_seg_st_ok : forall l sc,
  cache_ok f_seg sc ->
  fst (rmap_seg_st sc l) = rmap quote_path_segment l /\ cache_ok f_seg (snd (rmap_seg_st sc l)).
Proof.
  induction l as [|x l IH]; intros sc H; [split; [reflexivity|exact H]|].
  simpl. destruct (seg_st sc (x, path_segment_safe)) as [y sc1] eqn:E.
  destruct (seg_st_ok sc (x, path_segment_safe) H) as [H1 H2]. rewrite E in H1, H2. simpl in H1, H2.
  rewrite quote_default, <- H1.
  destruct y as [y'|e|]; simpl; try (split; [reflexivity|exact H2]).
  destruct (rmap_seg_st sc1 l) as [ys sc2] eqn:E2.
  destruct (IH sc1 H2) as [H3 H4]. rewrite E2 in H3, H4. simpl in H3, H4. rewrite <- H3.
  destruct ys; simpl; split; auto.
Qed.

(* the body of _join_path_tuple *)
Definition join_raw_st (sc : @cache (text * text) (result text)) (l : list text)
  : result text * @cache (text * text) (result text) :=
  match l with
  | [] => (Ok slash_text, sc)
  | _ => let '(qs, sc') := rmap_seg_st sc l in
         (match qs with
          | Ok qs' => Ok (match join slash_text qs' with [] => slash_text | s => s end)
          | Exc e => Exc e
          | Unsupported => Unsupported
          end, sc')
  end.

Lemma join_raw_st_ok sc l :
  cache_ok f_seg sc ->
  fst (join_raw_st sc l) = join_path_tuple l /\ cache_ok f_seg (snd (join_raw_st sc l)).
Proof.
  intros H. unfold join_raw_st, join_path_tuple. destruct l as [|x l]; [split; [reflexivity|exact H]|].
  destruct (rmap_seg_st sc (x :: l)) as [qs sc'] eqn:E.
  destruct (rmap_seg_st_ok (x :: l) sc H) as [H1 H2]. rewrite E in H1, H2. simpl fst in H1. simpl snd in H2.
  rewrite <- H1. destruct qs; simpl; split; auto.
Qed.

Definition join_st (C : caches) (l : list text) : result text * caches :=
  let '(v, (jc, sc)) := memo_call_st texts_eqb (Some lru_join_path_tuple) is_ok join_raw_st (c_join C) (c_seg C) l in
  (v, mkCaches (c_spi C) (c_tpi C) jc sc).

Lemma join_st_ok C l :
  caches_ok C -> fst (join_st C l) = join_path_tuple l /\ caches_ok (snd (join_st C l)).
Proof.
  intros (H1 & H2 & H3 & H4). unfold join_st.
  pose proof (memo_call_st_correct texts_eqb join_path_tuple (Some lru_join_path_tuple) is_ok join_raw_st
                (cache_ok f_seg) texts_eqb_sound (fun s k Hs => join_raw_st_ok s k Hs)
                (c_join C) (c_seg C) l H3 H4) as (A & B & D).
  destruct (memo_call_st texts_eqb (Some lru_join_path_tuple) is_ok join_raw_st (c_join C) (c_seg C) l)
    as [v [jc sc]]. simpl in *. split; [exact A|]. repeat split; assumption.
Qed.

(* the body of traversal_path_info: decode, then the memoised split_path_info *)
Definition tpi_raw_st (spc : @cache text (list text)) (p : text)
  : result (list text) * @cache text (list text) :=
  match as_url_decode_error (decode_path_info p) with
  | Ok d => let '(l, spc') := spi_memo lru_split_path_info spc d in (Ok l, spc')
  | Exc e => (Exc e, spc)
  | Unsupported => (Unsupported, spc)
  end.

Lemma spi_memo_ok n spc p :
  cache_ok split_path_info spc ->
  fst (spi_memo n spc p) = split_path_info p /\ cache_ok split_path_info (snd (spi_memo n spc p)).
Proof. intros H. apply memo_call_correct; [exact text_eqb_sound|exact H]. Qed.

Lemma tpi_raw_st_ok spc p :
  cache_ok split_path_info spc ->
  fst (tpi_raw_st spc p) = traversal_path_info p /\ cache_ok split_path_info (snd (tpi_raw_st spc p)).
Proof.
  intros H. unfold tpi_raw_st, traversal_path_info.
  destruct (as_url_decode_error (decode_path_info p)) as [d|e|]; simpl; try (split; [reflexivity|exact H]).
  destruct (spi_memo lru_split_path_info spc d) as [l spc'] eqn:E.
  destruct (spi_memo_ok lru_split_path_info spc d H) as [H1 H2]. rewrite E in H1, H2. simpl in *.
  subst l. split; [reflexivity|exact H2].
Qed.

Definition tpi_st (C : caches) (p : text) : result (list text) * caches :=
  let '(v, (tc, spc)) := memo_call_st text_eqb (Some lru_traversal_path_info) is_ok tpi_raw_st (c_tpi C) (c_spi C) p in
  (v, mkCaches spc tc (c_join C) (c_seg C)).

Lemma tpi_st_ok C p :
  caches_ok C -> fst (tpi_st C p) = traversal_path_info p /\ caches_ok (snd (tpi_st C p)).
Proof.
  intros (H1 & H2 & H3 & H4). unfold tpi_st.
  pose proof (memo_call_st_correct text_eqb traversal_path_info (Some lru_traversal_path_info) is_ok tpi_raw_st
                (cache_ok split_path_info) text_eqb_sound (fun s k Hs => tpi_raw_st_ok s k Hs)
                (c_tpi C) (c_spi C) p H2 H1) as (A & B & D).
  destruct (memo_call_st text_eqb (Some lru_traversal_path_info) is_ok tpi_raw_st (c_tpi C) (c_spi C) p)
    as [v [tc spc]]. simpl in *. split; [exact A|]. repeat split; assumption.
Qed.

Definition tp_st (C : caches) (p : text) : result (list text) * caches :=
  if is_ascii p then tpi_st C (Percent.unquote p) else (Exc UnicodeEncodeError, C).

Lemma tp_st_ok C p :
  caches_ok C -> fst (tp_st C p) = traversal_path p /\ caches_ok (snd (tp_st C p)).
Proof.
  intros H. unfold tp_st, traversal_path. destruct (is_ascii p); [apply tpi_st_ok, H|split; [reflexivity|exact H]].
Qed.

Definition quote_st (C : caches) (seg safe : text) : result text * caches :=
  let '(v, sc) := seg_st (c_seg C) (seg, safe) in (v, mkCaches (c_spi C) (c_tpi C) (c_join C) sc).

Lemma quote_st_ok C seg safe :
  caches_ok C -> fst (quote_st C seg safe) = quote_path_segment_safe seg safe /\ caches_ok (snd (quote_st C seg safe)).
Proof.
  intros (H1 & H2 & H3 & H4). unfold quote_st.
  destruct (seg_st (c_seg C) (seg, safe)) as [v sc] eqn:E.
  destruct (seg_st_ok (c_seg C) (seg, safe) H4) as [A B]. rewrite E in A, B. simpl in *.
  split; [exact A|]. repeat split; assumption.
Qed.

(* the traverser over the caches record *)
Definition traverser_st (C : caches) (root : rnode) (q : request) : result tdict * caches :=
  let '(v, spc) := traverser_call_st (@cache text (list text)) (spi_memo lru_split_path_info) (c_spi C) root q in
  (v, mkCaches spc (c_tpi C) (c_join C) (c_seg C)).

Lemma traverser_st_ok C root q :
  caches_ok C -> fst (traverser_st C root q) = traverser_call root q /\ caches_ok (snd (traverser_st C root q)).
Proof.
  intros (H1 & H2 & H3 & H4). unfold traverser_st, traverser_call. rewrite f_mode.
  destruct (traverser_call_st_ok (@cache text (list text)) (spi_memo lru_split_path_info)
              (cache_ok split_path_info) (fun s p Hs => spi_memo_ok _ s p Hs) (c_spi C) root q H1) as [A B].
  destruct (traverser_call_st (@cache text (list text)) (spi_memo lru_split_path_info) (c_spi C) root q) as [v spc].
  simpl in *. split; [exact A|]. repeat split; assumption.
Qed.

(* pyramid.traversal.traverse over the caches, mirroring Model.traverse_with *)
Definition traverse_api_st (C : caches) (root : res) (start : pos) (p : api_path) : result tdict * caches :=
  let '(pathr, C1) := match p with
                      | PStr s => (Ok s, C)
                      | PTuple [] => (Ok [], C)
                      | PTuple l => join_st C l
                      end in
  match pathr with
  | Ok path =>
      if negb (is_ascii path) then (Exc UnicodeEncodeError, C1)
      else
        let resource := match path with
                        | c :: _ => if N.eqb c slash then Ok ([], root)
                                    else match node_at root start with Some n => Ok (start, n) | None => Unsupported end
                        | [] => match node_at root start with Some n => Ok (start, n) | None => Unsupported end
                        end in
        match resource with
        | Ok rn =>
            if has_scheme path then (Unsupported, C1)
            else traverser_st C1 rn (mkReq (Some (webob_unquote (hd [] (split_on question path)))) None None)
        | Exc e => (Exc e, C1)
        | Unsupported => (Unsupported, C1)
        end
  | Exc e => (Exc e, C1)
  | Unsupported => (Unsupported, C1)
  end.

Lemma traverse_api_st_ok C root start p :
  caches_ok C ->
  fst (traverse_api_st C root start p) = traverse_api root start p /\ caches_ok (snd (traverse_api_st C root start p)).
Proof.
  intros H. unfold traverse_api_st, traverse_api, traverse_with.
  assert (Hj : exists pathr C1,
             (match p with PStr s => (Ok s, C) | PTuple [] => (Ok [], C) | PTuple l => join_st C l end) = (pathr, C1)
             /\ pathr = (match p with PStr s => Ok s | PTuple [] => Ok [] | PTuple l => join_path_tuple l end)
             /\ caches_ok C1).
  { destruct p as [s|l]; [eauto|]. destruct l as [|x l]; [eauto|].
    destruct (join_st C (x :: l)) as [v C1] eqn:E. destruct (join_st_ok C (x :: l) H) as [A B].
    rewrite E in A, B. simpl in A, B. eauto. }
  destruct Hj as (pathr & C1 & -> & <- & H1).
  destruct pathr as [path|e|]; cbn [rbind]; try (split; [reflexivity|exact H1]).
  destruct (negb (is_ascii path)); [split; [reflexivity|exact H1]|].
  set (resource := match path with
                   | c :: _ => if N.eqb c slash then Ok ([], root)
                               else match node_at root start with Some n => Ok (start, n) | None => Unsupported end
                   | [] => match node_at root start with Some n => Ok (start, n) | None => Unsupported end
                   end).
  destruct resource as [rn|e|]; cbn [rbind]; try (split; [reflexivity|exact H1]).
  destruct (has_scheme path); [split; [reflexivity|exact H1]|].
  apply traverser_st_ok, H1.
Qed.

Definition find_resource_st (C : caches) (root : res) (start : pos) (p : api_path) : result found * caches :=
  let '(d, C1) := traverse_api_st C root start p in
  (rbind d (fun d => Ok (match t_view_name d with [] => FoundAt (t_context d) | _ => KeyErr end)), C1).

Lemma find_resource_st_ok C root start p :
  caches_ok C ->
  fst (find_resource_st C root start p) = find_resource root start p /\ caches_ok (snd (find_resource_st C root start p)).
Proof.
  intros H. unfold find_resource_st, find_resource, find_resource_with.
  destruct (traverse_api_st C root start p) as [d C1] eqn:E.
  destruct (traverse_api_st_ok C root start p H) as [A B]. rewrite E in A, B. simpl in A, B.
  fold (traverse_api root start p). rewrite <- A. split; [reflexivity|exact B].
Qed.

Definition router_st (C : caches) (root : rnode) (q : request) : result attrs * caches :=
  let '(d, C1) := traverser_st C root q in
  (router_traversal_with (fun _ _ => d) root q, C1).

Lemma router_st_ok C root q :
  caches_ok C -> fst (router_st C root q) = router_traversal root q /\ caches_ok (snd (router_st C root q)).
Proof.
  intros H. unfold router_st. destruct (traverser_st C root q) as [d C1] eqn:E.
  destruct (traverser_st_ok C root q H) as [A B]. rewrite E in A, B. simpl in A, B.
  split; [|exact B]. simpl. unfold router_traversal, router_traversal_with. rewrite A. reflexivity.
Qed.

(* ---- histories over every memoised entry point *)
Inductive hop :=
| HReq (root : rnode) (q : request)                     (* ResourceTreeTraverser(root)(request) *)
| HRouter (root : rnode) (q : request)                  (* the same through Router.handle_request *)
| HApi (tree : res) (start : pos) (p : api_path)        (* traverse(resource, path) *)
| HFind (tree : res) (start : pos) (p : api_path)       (* find_resource(resource, path) *)
| HTpi (p : text) | HTp (p : text)                      (* traversal_path_info / traversal_path *)
| HQuote (seg safe : text).                             (* quote_path_segment(segment, safe) *)

Inductive hans :=
| ADict (r : result tdict) | AAttrs (r : result attrs) | AFound (r : result found)
| ASegs (r : result (list text)) | AQuoted (r : result text).

(* the cache-free answers *)
Definition pure_op (o : hop) : hans :=
  match o with
  | HReq root q => ADict (traverser_call root q)
  | HRouter root q => AAttrs (router_traversal root q)
  | HApi t st p => ADict (traverse_api t st p)
  | HFind t st p => AFound (find_resource t st p)
  | HTpi p => ASegs (traversal_path_info p)
  | HTp p => ASegs (traversal_path p)
  | HQuote seg safe => AQuoted (quote_path_segment_safe seg safe)
  end.

Definition op_st (C : caches) (o : hop) : hans * caches :=
  match o with
  | HReq root q => let '(v, C') := traverser_st C root q in (ADict v, C')
  | HRouter root q => let '(v, C') := router_st C root q in (AAttrs v, C')
  | HApi t st p => let '(v, C') := traverse_api_st C t st p in (ADict v, C')
  | HFind t st p => let '(v, C') := find_resource_st C t st p in (AFound v, C')
  | HTpi p => let '(v, C') := tpi_st C p in (ASegs v, C')
  | HTp p => let '(v, C') := tp_st C p in (ASegs v, C')
  | HQuote seg safe => let '(v, C') := quote_st C seg safe in (AQuoted v, C')
  end.

Lemma op_st_ok C o : caches_ok C -> fst (op_st C o) = pure_op o /\ caches_ok (snd (op_st C o)).
Proof.
  intros H. destruct o as [root q|root q|t st p|t st p|p|p|seg safe]; simpl.
  - destruct (traverser_st C root q) as [v C'] eqn:E. destruct (traverser_st_ok C root q H) as [A B].
    rewrite E in A, B. simpl in *. subst. auto.
  - destruct (router_st C root q) as [v C'] eqn:E. destruct (router_st_ok C root q H) as [A B].
    rewrite E in A, B. simpl in *. subst. auto.
  - destruct (traverse_api_st C t st p) as [v C'] eqn:E. destruct (traverse_api_st_ok C t st p H) as [A B].
    rewrite E in A, B. simpl in *. subst. auto.
  - destruct (find_resource_st C t st p) as [v C'] eqn:E. destruct (find_resource_st_ok C t st p H) as [A B].
    rewrite E in A, B. simpl in *. subst. auto.
  - destruct (tpi_st C p) as [v C'] eqn:E. destruct (tpi_st_ok C p H) as [A B].
    rewrite E in A, B. simpl in *. subst. auto.
  - destruct (tp_st C p) as [v C'] eqn:E. destruct (tp_st_ok C p H) as [A B].
    rewrite E in A, B. simpl in *. subst. auto.
  - destruct (quote_st C seg safe) as [v C'] eqn:E. destruct (quote_st_ok C seg safe H) as [A B].
    rewrite E in A, B. simpl in *. subst. auto.
Qed.

Fixpoint run_ops_st (C : caches) (os : list hop) : list hans :=
  match os with
  | [] => []
  | o :: r => let '(a, C') := op_st C o in a :: run_ops_st C' r
  end.

(* from ANY state of the four caches in which every entry is a true pair (in
   particular: whatever earlier histories left behind), every later history of
   traversals, traverse()/find_resource() calls, path splits and segment quotings
   under any safe sets answers exactly like the cache-free functions *)
Theorem ops_history_free : forall os C, caches_ok C -> run_ops_st C os = map pure_op os.
Proof.
  induction os as [|o os IH]; intros C H; [reflexivity|].
  simpl. destruct (op_st C o) as [a C'] eqn:E. destruct (op_st_ok C o H) as [A B].
  rewrite E in A, B. simpl in A, B. rewrite A, (IH C' B). reflexivity.
Qed.

Definition cold : caches := mkCaches [] [] [] [].
Lemma cold_ok : caches_ok cold.
Proof. repeat split; constructor. Qed.

(* non-vacuity: the segment cache is really hit under two safe sets and the tuple
   path is still resolved as if nothing had been cached *)
Example ops_history_example :
  let t := Node (Some [([37; 52; 49]%N, Node None); ([65]%N, Node None)]) in
  run_ops_st cold [HQuote [37; 52; 49]%N [37]%N; HQuote [37; 52; 49]%N path_segment_safe;
                   HFind t [] (PTuple [[]; [37; 52; 49]%N]); HFind t [] (PTuple [[]; [37; 52; 49]%N])]
  = [AQuoted (Ok [37; 52; 49]%N); AQuoted (Ok [37; 50; 53; 52; 49]%N);
     AFound (Ok (FoundAt [0])); AFound (Ok (FoundAt [0]))].
Proof. vm_compute. reflexivity. Qed.

(* ---- one long-lived traverser object serving a history of requests.
   The object's state is its [root] (set by __init__); the regenerated facts say that
   __call__ never writes to self and that the class has no other attribute
   (c02facts.check_environment), so a call returns the object unchanged: any history
   on ONE traverser answers like fresh traversers. *)
Record tobj := mkObj { o_root : rnode }.
Definition obj_call (o : tobj) (q : request) : result tdict * tobj := (traverser_call (o_root o) q, o).
Fixpoint obj_history (o : tobj) (qs : list request) : list (result tdict) * tobj :=
  match qs with
  | [] => ([], o)
  | q :: r => let '(a, o1) := obj_call o q in let '(rest, o2) := obj_history o1 r in (a :: rest, o2)
  end.

Theorem obj_history_free o qs :
  obj_history o qs = (map (fun q => fst (obj_call (mkObj (o_root o)) q)) qs, o).
Proof.
  induction qs as [|q r IH]; [reflexivity|]. simpl. rewrite IH. reflexivity.
Qed.

(* ---- re-entrancy: traversals INSIDE a traversal (an item lookup that itself resolves paths, a subscriber that
   calls back in).  Every memoised call of __call__ (split_path_info on the subpath, the virtual-root text and the
   path) precedes the walk loop, and the loop itself touches no cache; so what a re-entrant request does to the four
   caches is: the request's own accesses, then -- in the order of the item lookups -- whatever operations the
   resources' __getitem__ perform.  [run_ops_st2] is [run_ops_st] that also returns the final state. *)
Fixpoint run_ops_st2 (C : caches) (os : list hop) : list hans * caches :=
  match os with
  | [] => ([], C)
  | o :: r => let '(a, C') := op_st C o in let '(rest, C'') := run_ops_st2 C' r in (a :: rest, C'')
  end.

Lemma run_ops_st2_ok : forall os C,
  caches_ok C -> fst (run_ops_st2 C os) = map pure_op os /\ caches_ok (snd (run_ops_st2 C os)).
Proof.
  induction os as [|o os IH]; intros C H; [split; [reflexivity|exact H]|].
  cbn [run_ops_st2 map]. destruct (op_st C o) as [a C'] eqn:E. destruct (op_st_ok C o H) as [A B].
  rewrite E in A, B. cbn [fst snd] in A, B.
  destruct (run_ops_st2 C' os) as [rest C''] eqn:E2. destruct (IH C' B) as [A2 B2]. rewrite E2 in A2, B2.
  cbn [fst snd] in *. split; [rewrite A, A2; reflexivity|exact B2].
Qed.

(* the operations the item lookups along the consumed path perform, in walk order; [inner ob seg] = what the
   __getitem__ of [ob] does when asked for [seg] (it is asked whether or not the key exists) *)
Fixpoint inner_ops (inner : rnode -> text -> list hop) (ob : rnode) (segs : list text) : list hop :=
  match segs with
  | [] => []
  | s :: r => if is_selector s then []
              else if has_getitem ob
                   then inner ob s ++ match child ob s with Some n => inner_ops inner n r | None => [] end
                   else []
  end.

Definition reentrant_req_st (inner : rnode -> text -> list hop) (C : caches) (root : rnode) (q : request)
  : result tdict * list hans * caches :=
  let '(v, C1) := traverser_st C root q in
  let segs := match call_preamble q with Ok (_, path, _, vt, _) => vt ++ split_path_info path | _ => [] end in
  let '(ans, C2) := run_ops_st2 C1 (inner_ops inner root segs) in
  (v, ans, C2).

(* a re-entrant request answers like the cache-free traverser, every nested operation answers like its cache-free
   function, and the caches are left valid -- so (ops_history_free) everything that follows is unaffected too *)
Theorem reentrant_request_history_free inner C root q :
  caches_ok C ->
  let '(v, ans, C2) := reentrant_req_st inner C root q in
  v = traverser_call root q /\
  ans = map pure_op (inner_ops inner root
          (match call_preamble q with Ok (_, path, _, vt, _) => vt ++ split_path_info path | _ => [] end)) /\
  caches_ok C2 /\ forall later, run_ops_st C2 later = map pure_op later.
Proof.
  intros H. unfold reentrant_req_st.
  destruct (traverser_st C root q) as [v C1] eqn:E. destruct (traverser_st_ok C root q H) as [A B].
  rewrite E in A, B. cbn [fst snd] in A, B.
  set (segs := match call_preamble q with Ok (_, path, _, vt, _) => vt ++ split_path_info path | _ => [] end).
  destruct (run_ops_st2 C1 (inner_ops inner root segs)) as [ans C2] eqn:E2.
  destruct (run_ops_st2_ok (inner_ops inner root segs) C1 B) as [A2 B2]. rewrite E2 in A2, B2. cbn [fst snd] in A2, B2.
  split; [exact A|]. split; [exact A2|]. split; [exact B2|].
  intros later. apply ops_history_free. exact B2.
Qed.
