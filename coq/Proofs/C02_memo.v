(* C02 -- the history clause: memoisation never changes an answer.
   (1) a generic bounded LRU memo table (functools.lru_cache / a dict cache) is
       transparent: from any state in which every entry is a true (key, f key)
       pair, a call answers f key and leaves such a state;
   (2) the traverser written in state-passing style over ANY memoised
       split_path_info answers like the cache-free traverser, for every history. *)
From Coq Require Import List NArith ZArith Bool Lia.
Import ListNotations.
Require Import Verif.Lib.Wire Verif.Lib.Text Verif.Lib.PathNorm Verif.Lib.C02Expr
               Verif.Gen.Facts_C02 Verif.Model.C02 Verif.Proofs.C02.
Close Scope N_scope.

Section Memo.
Context {K V : Type}.
Variable eqb : K -> K -> bool.
Variable f : K -> V.
Variable maxsize : nat.

Definition cache := list (K * V).
Definition cache_ok (c : cache) : Prop := Forall (fun kv => snd kv = f (fst kv)) c.

Fixpoint lookup (k : K) (c : cache) : option V :=
  match c with
  | [] => None
  | (k', v) :: r => if eqb k k' then Some v else lookup k r
  end.
Definition remove (k : K) (c : cache) : cache := filter (fun kv => negb (eqb k (fst kv))) c.

(* hit: answer from the table and move the entry to the front;
   miss: compute, insert at the front, evict beyond maxsize *)
Definition memo_call (c : cache) (k : K) : V * cache :=
  match lookup k c with
  | Some v => (v, (k, v) :: remove k c)
  | None => let v := f k in (v, firstn maxsize ((k, v) :: c))
  end.

Hypothesis eqb_sound : forall a b, eqb a b = true -> a = b.

Lemma lookup_ok c k v : cache_ok c -> lookup k c = Some v -> v = f k.
Proof.
  induction c as [|[k' v'] c IH]; simpl; intros Hc H; [discriminate|].
  unfold cache_ok in Hc. pose proof (Forall_inv Hc) as Hhd. pose proof (Forall_inv_tail Hc) as Htl.
  simpl in Hhd.
  destruct (eqb k k') eqn:E.
  - injection H as <-. apply eqb_sound in E. subst k'. exact Hhd.
  - apply IH; assumption.
Qed.

Lemma cache_ok_filter p c : cache_ok c -> cache_ok (filter p c).
Proof.
  unfold cache_ok. rewrite !Forall_forall. intros H x Hx. apply filter_In in Hx. apply H, Hx.
Qed.

Lemma cache_ok_firstn n c : cache_ok c -> cache_ok (firstn n c).
Proof.
  unfold cache_ok. revert c. induction n as [|n IH]; intros c H; [constructor|].
  destruct c as [|x c]; [constructor|]. inversion H; subst. simpl. constructor; auto.
Qed.

Lemma memo_call_correct c k :
  cache_ok c -> fst (memo_call c k) = f k /\ cache_ok (snd (memo_call c k)).
Proof.
  intros Hc. unfold memo_call. destruct (lookup k c) as [v|] eqn:E; simpl.
  - pose proof (lookup_ok _ _ _ Hc E) as ->. split; [reflexivity|].
    constructor; [reflexivity|]. apply cache_ok_filter, Hc.
  - split; [reflexivity|]. apply (cache_ok_firstn maxsize ((k, f k) :: c)).
    constructor; [reflexivity|exact Hc].
Qed.
End Memo.

(* ---------------------------------------------------------------- traverser *)
Section StatePassing.
Variable S : Type.
Variable spi : S -> text -> list text * S.
Variable Inv : S -> Prop.
Hypothesis spi_ok : forall s p, Inv s -> fst (spi s p) = split_path_info p /\ Inv (snd (spi s p)).

Definition md_path (md : matchdict) : text :=
  let p0 := match md_traverse md with
            | None => MStr slash_text
            | Some v => if mval_falsy v then MStr slash_text else v
            end in
  match p0 with
  | MStr s => s
  | MTuple l => slash :: join slash_text l
  end.

(* the calls of split_path_info, in program order: {subpath}, vroot header, request path *)
Definition path_and_subpath_st (s : S) (q : request) : result (text * list text) * S :=
  match q_matchdict q with
  | Some md =>
      match md_subpath md with
      | None => (Ok (md_path md, []), s)
      | Some (MTuple l) => (Ok (md_path md, l), s)
      | Some (MStr t) => let '(l, s') := spi s t in (Ok (md_path md, l), s')
      end
  | None => (path_and_subpath q, s)
  end.

Definition traverser_call_st (s : S) (root : rnode) (q : request) : result tdict * S :=
  let '(ps, s1) := path_and_subpath_st s q in
  match ps with
  | Ok (path, subpath) =>
      match q_vroot q with
      | Some raw =>
          match decode_path_info raw with
          | Ok vroot_path =>
              let '(vroot_tuple, s2) := spi s1 vroot_path in
              let vroot_idx := (Z.of_nat (length vroot_tuple) + vroot_idx_off)%Z in
              if text_eqb (vroot_path ++ path) slash_text then
                (Ok (render (mkEnv [] subpath vroot_tuple 0%Z vroot_idx [] root root root) ret_final), s2)
              else
                let '(pt, s3) := spi s2 path in
                let vpath_tuple := vroot_tuple ++ pt in
                (Ok (loop vpath_tuple subpath vroot_tuple vroot_idx root root root 0 vpath_tuple), s3)
          | Exc e => (Exc e, s1)
          | Unsupported => (Unsupported, s1)
          end
      | None =>
          if text_eqb path slash_text then
            (Ok (render (mkEnv [] subpath [] 0%Z vroot_idx_absent [] root root root) ret_final), s1)
          else
            let '(pt, s3) := spi s1 path in
            (Ok (loop pt subpath [] vroot_idx_absent root root root 0 pt), s3)
      end
  | Exc e => (Exc e, s1)
  | Unsupported => (Unsupported, s1)
  end.

Ltac use_spi s p Hinv l s' :=
  let E := fresh "E" in let H1 := fresh "H" in let H2 := fresh "H" in
  destruct (spi s p) as [l s'] eqn:E;
  destruct (spi_ok s p Hinv) as [H1 H2]; rewrite E in H1, H2; simpl in H1, H2; subst l.

Lemma path_and_subpath_st_ok s q :
  Inv s -> fst (path_and_subpath_st s q) = path_and_subpath q /\ Inv (snd (path_and_subpath_st s q)).
Proof.
  intros Hinv. unfold path_and_subpath_st, path_and_subpath, md_path.
  destruct (q_matchdict q) as [md|]; [|split; [reflexivity|exact Hinv]].
  destruct (md_subpath md) as [[t|l]|]; try (split; [reflexivity|exact Hinv]).
  use_spi s t Hinv l s'. split; [reflexivity|assumption].
Qed.

Lemma traverser_call_st_ok s root q :
  Inv s ->
  fst (traverser_call_st s root q) = traverser_call_mode VSeparate root q /\
  Inv (snd (traverser_call_st s root q)).
Proof.
  intros Hinv. unfold traverser_call_st, traverser_call_mode.
  destruct (path_and_subpath_st s q) as [ps s1] eqn:E.
  destruct (path_and_subpath_st_ok s q Hinv) as [H1 H2]. rewrite E in H1, H2. simpl in H1, H2.
  rewrite <- H1. destruct ps as [[path sub]| |]; cbn [rbind]; try (split; [reflexivity|assumption]).
  unfold vroot_part. destruct (q_vroot q) as [raw|].
  - destruct (decode_path_info raw) as [vp| |]; cbn [rbind]; try (split; [reflexivity|assumption]).
    use_spi s1 vp H2 vt s2.
    destruct (text_eqb (vp ++ path) slash_text); [split; [reflexivity|assumption]|].
    use_spi s2 path H0 pt s3. split; [reflexivity|assumption].
  - cbn [rbind]. destruct (text_eqb path slash_text); [split; [reflexivity|assumption]|].
    use_spi s1 path H2 pt s3. split; [reflexivity|assumption].
Qed.

(* a history of traversals (any trees, any requests) threaded through the state *)
Fixpoint run_history_st (s : S) (qs : list (rnode * request)) : list (result tdict * S) :=
  match qs with
  | [] => []
  | (root, q) :: r => let '(a, s') := traverser_call_st s root q in (a, s') :: run_history_st s' r
  end.

Lemma run_history_st_ok : forall qs s,
  Inv s ->
  map fst (run_history_st s qs) = map (fun rq => traverser_call_mode VSeparate (fst rq) (snd rq)) qs.
Proof.
  induction qs as [|[root q] qs IH]; intros s Hinv; [reflexivity|].
  simpl. destruct (traverser_call_st s root q) as [a s'] eqn:E.
  destruct (traverser_call_st_ok s root q Hinv) as [H1 H2]. rewrite E in H1, H2. simpl in H1, H2.
  simpl. rewrite H1, (IH s' H2). reflexivity.
Qed.
End StatePassing.

(* ------------------------------------------- instance: lru_cache(maxsize) on split_path_info *)
Definition spi_cache := @cache text (list text).
Definition spi_memo (maxsize : nat) (c : spi_cache) (p : text) : list text * spi_cache :=
  memo_call text_eqb split_path_info maxsize c p.

Definition run_history (maxsize : nat) (c0 : spi_cache) (qs : list (rnode * request))
  : list (result tdict * spi_cache) :=
  run_history_st spi_cache (spi_memo maxsize) c0 qs.

Theorem history_free maxsize c0 qs :
  cache_ok split_path_info c0 ->
  map fst (run_history maxsize c0 qs) = map (fun rq => traverser_call (fst rq) (snd rq)) qs.
Proof.
  intros H. unfold run_history, traverser_call. rewrite f_mode.
  apply (run_history_st_ok spi_cache (spi_memo maxsize) (cache_ok split_path_info)); [|exact H].
  intros s p Hs. apply memo_call_correct; [|exact Hs].
  intros a b E. apply text_eqb_eq. exact E.
Qed.

(* non-vacuity: a warm cache really is consulted (the second call is a hit) and answers agree *)
Example history_example :
  let q := mkReq (Some [47; 97; 47; 98]%N) None (Some [47; 97]%N) in
  let h := run_history 2 [] [(([], wit_tree), q); (([], wit_tree), q)] in
  map fst h = [traverser_call ([], wit_tree) q; traverser_call ([], wit_tree) q] /\
  map (fun x => length (snd x)) h = [2; 2].
Proof. vm_compute. split; reflexivity. Qed.
