(* C10 -- the premises rt_b64 / rt_ser / mac_len of the theorems are jointly satisfiable:
   a concrete [oracles] record with a verified encoder/decoder pair for the JSON data model. *)
From Coq Require Import List NArith ZArith Bool Lia Arith.
Import ListNotations.
Require Import Verif.Lib.Wire Verif.Gen.Facts_C10 Verif.Model.C10.

Section jv_induction.
  Variable P : jv -> Prop.
  Hypothesis Hn : P JNull.
  Hypothesis Hb : forall b, P (JBool b).
  Hypothesis Hi : forall z, P (JInt z).
  Hypothesis Hf : forall z, P (JFlt z).
  Hypothesis Hs : forall s, P (JStr s).
  Hypothesis Hl : forall l, Forall P l -> P (JList l).
  Hypothesis Ho : forall m, Forall (fun kv => P (snd kv)) m -> P (JObj m).
  Fixpoint jv_ind2 (v : jv) : P v :=
    match v with
    | JNull => Hn | JBool b => Hb b | JInt z => Hi z | JFlt z => Hf z | JStr s => Hs s
    | JList l => Hl l ((fix go (l : list jv) : Forall P l :=
                         match l with [] => Forall_nil _ | x :: r => Forall_cons x (jv_ind2 x) (go r) end) l)
    | JObj m => Ho m ((fix go (m : list (text * jv)) : Forall (fun kv => P (snd kv)) m :=
                         match m with [] => Forall_nil _ | kv :: r => Forall_cons kv (jv_ind2 (snd kv)) (go r) end) m)
    end.
End jv_induction.

Definition zcode (z : Z) : N :=
  match z with Z0 => 0%N | Zpos p => Npos (xO p) | Zneg p => Npos (xI p) end.
Definition zdecode (n : N) : Z :=
  match n with N0 => 0%Z | Npos (xO p) => Zpos p | Npos (xI p) => Zneg p | Npos xH => 0%Z end.
Lemma zdecode_zcode z : zdecode (zcode z) = z.
Proof. destruct z; reflexivity. Qed.

Definition enc_pair (e : jv -> list N) (kv : text * jv) : list N :=
  N.of_nat (length (fst kv)) :: fst kv ++ e (snd kv).

Fixpoint enc (v : jv) : list N :=
  match v with
  | JNull => [0%N]
  | JBool b => [1%N; if b then 1%N else 0%N]
  | JInt z => [2%N; zcode z]
  | JFlt z => [3%N; zcode z]
  | JStr s => 4%N :: N.of_nat (length s) :: s
  | JList l => 5%N :: N.of_nat (length l) :: flat_map enc l
  | JObj m => 6%N :: N.of_nat (length m) :: flat_map (enc_pair enc) m
  end.

Definition decoder := list N -> option (jv * list N).

Fixpoint items (d : decoder) (k : nat) (r : list N) : option (list jv * list N) :=
  match k with
  | O => Some ([], r)
  | S k' => match d r with
            | Some (v, r1) => match items d k' r1 with Some (vs, r2) => Some (v :: vs, r2) | None => None end
            | None => None
            end
  end.

Fixpoint pairs (d : decoder) (k : nat) (r : list N) : option (list (text * jv) * list N) :=
  match k with
  | O => Some ([], r)
  | S k' =>
      match r with
      | n :: r0 =>
          match d (skipn (N.to_nat n) r0) with
          | Some (v, r1) =>
              match pairs d k' r1 with
              | Some (vs, r2) => Some ((firstn (N.to_nat n) r0, v) :: vs, r2)
              | None => None
              end
          | None => None
          end
      | [] => None
      end
  end.

Fixpoint dec (f : nat) (ts : list N) : option (jv * list N) :=
  match f with
  | O => None
  | S f' =>
      match ts with
      | t :: r =>
          if (t =? 0)%N then Some (JNull, r)
          else match r with
               | x :: r' =>
                   if (t =? 1)%N then Some (JBool (negb (x =? 0)%N), r')
                   else if (t =? 2)%N then Some (JInt (zdecode x), r')
                   else if (t =? 3)%N then Some (JFlt (zdecode x), r')
                   else if (t =? 4)%N then Some (JStr (firstn (N.to_nat x) r'), skipn (N.to_nat x) r')
                   else if (t =? 5)%N then
                     match items (dec f') (N.to_nat x) r' with Some (vs, r2) => Some (JList vs, r2) | None => None end
                   else if (t =? 6)%N then
                     match pairs (dec f') (N.to_nat x) r' with Some (vs, r2) => Some (JObj vs, r2) | None => None end
                   else None
               | [] => None
               end
      | [] => None
      end
  end.

Lemma firstn_app_len {A} (a b : list A) : firstn (length a) (a ++ b) = a.
Proof. induction a; simpl; congruence. Qed.
Lemma skipn_app_len {A} (a b : list A) : skipn (length a) (a ++ b) = b.
Proof. induction a; simpl; congruence. Qed.

Lemma items_ok (d : decoder) l : forall rest,
  Forall (fun x => forall rest, d (enc x ++ rest) = Some (x, rest)) l ->
  items d (length l) (flat_map enc l ++ rest) = Some (l, rest).
Proof.
  induction l as [|x l IH]; intros rest H; [reflexivity|].
  inversion H as [|? ? Hx Hl]; subst. cbn [length items flat_map]. rewrite <- app_assoc, Hx, (IH _ Hl). reflexivity.
Qed.

Lemma pairs_ok (d : decoder) m : forall rest,
  Forall (fun kv => forall rest, d (enc (snd kv) ++ rest) = Some (snd kv, rest)) m ->
  pairs d (length m) (flat_map (enc_pair enc) m ++ rest) = Some (m, rest).
Proof.
  induction m as [|[k v] m IH]; intros rest H; [reflexivity|].
  inversion H as [|? ? Hx Hl]; subst. cbn [snd] in Hx.
  replace (flat_map (enc_pair enc) ((k, v) :: m) ++ rest)
    with (N.of_nat (length k) :: k ++ (enc v ++ (flat_map (enc_pair enc) m ++ rest)))
    by (cbn [flat_map enc_pair fst snd app]; rewrite <- !app_assoc; reflexivity).
  cbn [length pairs]. rewrite Nat2N.id.
  rewrite skipn_app_len, firstn_app_len, Hx, (IH _ Hl). reflexivity.
Qed.

Lemma enc_le_flat x l : In x l -> length (enc x) <= length (flat_map enc l).
Proof.
  induction l as [|y l IH]; [intros []|]. cbn [flat_map]. rewrite app_length. intros [->|H]; [lia|].
  specialize (IH H). lia.
Qed.
Lemma enc_le_flat_pair kv m : In kv m -> length (enc (snd kv)) <= length (flat_map (enc_pair enc) m).
Proof.
  induction m as [|y m IH]; [intros []|]. cbn [flat_map]. rewrite app_length. intros [->|H].
  - unfold enc_pair. cbn [length]. rewrite app_length. lia.
  - specialize (IH H). lia.
Qed.

Lemma dec_enc : forall v f rest, length (enc v) <= f -> dec f (enc v ++ rest) = Some (v, rest).
Proof.
  induction v using jv_ind2; intros f rest L; (destruct f as [|f]; [cbn in L; lia|]).
  - reflexivity.
  - destruct b; reflexivity.
  - cbn. rewrite zdecode_zcode. reflexivity.
  - cbn. rewrite zdecode_zcode. reflexivity.
  - cbn [enc app dec N.eqb]. cbn. rewrite Nat2N.id, firstn_app_len, skipn_app_len. reflexivity.
  - cbn [enc] in *. rewrite <- !app_comm_cons. cbn [dec]. cbn [N.eqb Pos.eqb]. rewrite Nat2N.id.
    rewrite items_ok; [reflexivity|].
    rewrite Forall_forall in *. intros x Hx rest'. apply H; [exact Hx|].
    pose proof (enc_le_flat x l Hx). cbn [length] in L. lia.
  - cbn [enc] in *. rewrite <- !app_comm_cons. cbn [dec]. cbn [N.eqb Pos.eqb]. rewrite Nat2N.id.
    rewrite pairs_ok; [reflexivity|].
    rewrite Forall_forall in *. intros kv Hx rest'. apply H; [exact Hx|].
    pose proof (enc_le_flat_pair kv m Hx). cbn [length] in L. lia.
Qed.

Definition sat_O : oracles :=
  {| mac := fun k m => [N.of_nat (length k + length m)];
     ser := enc;
     deser := fun b => match dec (length b) b with Some (v, []) => Some v | _ => None end;
     b64 := fun x => x;
     unb64 := fun c => Some c;
     ds := 1 |}.

Lemma premises_satisfiable : exists O, rt_b64 O /\ rt_ser O /\ mac_len O.
Proof.
  exists sat_O. repeat split.
  - intros p. cbn [deser ser sat_O].
    pose proof (dec_enc p (length (enc p)) [] (le_n _)) as E. rewrite app_nil_r in E. rewrite E. reflexivity.
Qed.

Require Import Verif.Proofs.C10.

(* hence the chain theorem has instances without any premise left *)
Lemma chain_refines_spec_instance : forall o l, chain_ok sat_O o l ->
  Forall2 ok_at (run_chain sat_O o None l) (spec_chain sat_O o None true l).
Proof.
  intros o l Hok. apply chain_refines_spec; try exact Logic.I; try exact Hok.
  - intros x. reflexivity.
  - intros p. cbn [deser ser sat_O].
    pose proof (dec_enc p (length (enc p)) [] (le_n _)) as E. rewrite app_nil_r in E. rewrite E. reflexivity.
  - intros k m. reflexivity.
Qed.
