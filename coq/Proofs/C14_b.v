(* C14 -- part 2: invoke_exception_view and the excview tween. *)
From Coq Require Import List NArith ZArith Bool Lia.
Import ListNotations.
Require Import Verif.Lib.Wire Verif.Gen.Facts_C03 Verif.Model.C03 Verif.Proofs.C03 Verif.Gen.Facts_C14 Verif.Model.C14
               Verif.Proofs.C14.

(* the body of the with-block of invoke_exception_view *)
Definition iev_body (P : params) (W : world) (ri : rinfo) (site : N) (sec : bool) (e : N) (a : amap)
    : (option outcome * list event) * amap :=
  let a := set_all (p_set_in P) e a in
  match call_view_sec P (w_reg W) sec exc_classifier_id (exc_request P W ri e) with
  | Ran tag =>
      let '(o, evs, a2) := run_body P W sec (ri_deny ri) site tag e a in
      ((Some o, evs), a2)
  | NotFoundPme => ((Some (Raise (fresh_pme site)), []), a)
  | NotFoundNone => ((None, []), a)
  end.

Lemma iev_unfold P W ri site rr sec e st :
  iev P W ri site rr sec e st =
  let '((res, evs), attrs') := hide_attrs (p_hidden P) (iev_body P W ri site sec e) (st_attrs st) in
  let log := st_log st ++ evs in
  match res with
  | Some (Raise e2) => (Raise (if rr && isa W (p_iev_catches P) e2 then e else e2), mkSt attrs' log)
  | None => (Raise (if rr then e else fresh_of_class (p_none_raises P) site), mkSt attrs' log)
  | Some (Resp r) => (Resp r, mkSt (set_all (p_set_after P) e attrs') log)
  end.
Proof. reflexivity. Qed.

Lemma hide_attrs_fst {A} names (body : amap -> A * amap) m :
  fst (hide_attrs names body m) = fst (body (fst (hide_pop names m []))).
Proof.
  unfold hide_attrs. destruct (hide_pop names m []) as [m1 s]. simpl. destruct (body m1); reflexivity.
Qed.

(* ------------------------------------------------------------------ *)
(* no view applies *)

(* invoke_exception_view when the lookup ends in Not Found (nothing registered, or every predicate
   mismatched): no body ran, every hidden attribute is as before, an exception is raised *)
Lemma iev_not_found P W ri site rr sec e st :
  NoDup (p_hidden P) ->
  not_found (call_view_sec P (w_reg W) sec exc_classifier_id (exc_request P W ri e)) ->
  let r := iev P W ri site rr sec e st in
  st_log (snd r) = st_log st
  /\ (forall k, In k (p_hidden P) -> aget k (st_attrs (snd r)) = aget k (st_attrs st))
  /\ (fst r = Raise (if rr then e else fresh_of_class (p_none_raises P) site)
      \/ fst r = Raise (if rr && isa W (p_iev_catches P) (fresh_pme site) then e else fresh_pme site)).
Proof.
  intros Hnd Hnf r. subst r. rewrite iev_unfold.
  pose proof (hide_attrs_restores (p_hidden P) (iev_body P W ri site sec e) (st_attrs st)) as Hres.
  pose proof (hide_attrs_fst (p_hidden P) (iev_body P W ri site sec e) (st_attrs st)) as Hfst.
  destruct (hide_attrs (p_hidden P) (iev_body P W ri site sec e) (st_attrs st)) as [[res evs] attrs'].
  simpl in Hres, Hfst. unfold iev_body in Hfst.
  destruct Hnf as [Hnf|Hnf]; rewrite Hnf in Hfst; simpl in Hfst; inversion Hfst; subst; simpl;
    rewrite app_nil_r; (split; [reflexivity|]); (split; [intros k Hk; apply Hres; assumption|]).
  - right. reflexivity.
  - left. reflexivity.
Qed.

(* what the framework itself raises is what it is: the PredicateMismatch and the HTTPNotFound made inside
   invoke_exception_view are instances of the class _error_handler catches *)
Definition fresh_ok (P : params) (W : world) (site : N) : Prop :=
  isa W (p_handler_catches P) (fresh_pme site) = true
  /\ isa W (p_handler_catches P) (fresh_of_class (p_none_raises P) site) = true.

(* no_view_propagates_same_object: no qualifying exception view => the excview tween lets the SAME exception
   object propagate, no view body runs, and response / exc_info / exception are what they were *)
Theorem no_view_propagates P W ri e st :
  NoDup (p_hidden P) -> p_handler_reraises P = true -> fresh_ok P W site_tween ->
  not_found (call_view (w_reg W) exc_classifier_id (exc_request P W ri e)) ->
  let r := excview_tween P W ri (Raise e) st in
  fst r = Raise e
  /\ st_log (snd r) = st_log st
  /\ forall k, In k (p_hidden P) -> aget k (st_attrs (snd r)) = aget k (st_attrs st).
Proof.
  intros Hnd Hrr [Hpme Hnf] Hcall r. subst r. unfold excview_tween.
  destruct (isa W (p_tween_catches P) e); [|simpl; auto].
  pose proof (iev_not_found P W ri site_tween false true e st Hnd Hcall) as [Hlog [Hattrs Hout]].
  destruct (iev P W ri site_tween false true e st) as [o st']. simpl in *.
  destruct Hout as [-> | ->]; simpl.
  - rewrite Hnf, Hrr. simpl. auto.
  - rewrite Hpme, Hrr. simpl. auto.
Qed.

(* an exception the tween does not catch (not an Exception instance) passes through untouched *)
Theorem not_caught_passes P W ri e st :
  isa W (p_tween_catches P) e = false -> excview_tween P W ri (Raise e) st = (Raise e, st).
Proof. intros H. unfold excview_tween. rewrite H. reflexivity. Qed.

Theorem response_passes P W ri r st : excview_tween P W ri (Resp r) st = (Resp r, st).
Proof. reflexivity. Qed.

(* ------------------------------------------------------------------ *)
(* secure=True, or a permissive call that checks predicates: the lookup is C03's *)

Lemma call_loop_p_eq P rq l pme :
  p_perm_checks P = true -> call_loop_p P rq l pme = call_loop rq l pme.
Proof.
  intros H. revert pme. induction l as [|c r IH]; intros pme; simpl; [reflexivity|].
  assert (E : call_component_p P rq c = call_component rq c).
  { destruct c; simpl; [|reflexivity]. rewrite H. simpl. rewrite andb_false_r. reflexivity. }
  rewrite E. destruct (call_component rq c); [reflexivity|apply IH].
Qed.

Lemma call_view_sec_eq P R sec cls rq :
  sec = true \/ p_perm_checks P = true -> call_view_sec P R sec cls rq = call_view R cls rq.
Proof.
  intros [->|H]; [reflexivity|]. unfold call_view_sec, call_view. destruct sec; [reflexivity|].
  apply call_loop_p_eq. exact H.
Qed.

(* ------------------------------------------------------------------ *)
(* a view applies *)

Lemma names_distinct :
  hn_response <> hn_exc_info /\ hn_response <> hn_exception /\ hn_exc_info <> hn_exception.
Proof. repeat split; intro H; discriminate H. Qed.

Lemma snap_eq m : snap m = [aget hn_response m; aget hn_exc_info m; aget hn_exception m].
Proof. reflexivity. Qed.

Section B.
Variable b : bool.
Notation SP := (spec_params_b b).

(* the attribute map the exception view sees (the property's names) *)
Lemma seen_attrs e m :
  snap (set_all (p_set_in SP) e (fst (hide_pop (p_hidden SP) m []))) = seen_snapshot e.
Proof.
  destruct names_distinct as [H1 [H2 H3]].
  assert (Hr : aget hn_response (fst (hide_pop (p_hidden SP) m [])) = None)
    by (apply hide_pop_attrs_in; simpl; auto).
  revert Hr. generalize (fst (hide_pop (p_hidden SP) m [])). intros m1 Hr.
  rewrite snap_eq. unfold seen_snapshot. change (p_set_in SP) with [hn_exception; hn_exc_info].
  unfold set_all. simpl fold_left.
  rewrite aget_aset_same.
  rewrite (aget_aset_other hn_exc_info hn_response) by congruence.
  rewrite (aget_aset_other hn_exception hn_response) by congruence.
  rewrite (aget_aset_other hn_exc_info hn_exception) by congruence.
  rewrite aget_aset_same. rewrite Hr. reflexivity.
Qed.

(* after a response was produced: response restored, exc_info / exception = the rendered exception *)
Lemma after_attrs e attrs' m :
  (forall k, In k (p_hidden SP) -> aget k attrs' = aget k m) ->
  snap (set_all (p_set_after SP) e attrs') = after_snapshot (snap m) e.
Proof.
  intros H. destruct names_distinct as [H1 [H2 H3]].
  rewrite !snap_eq. unfold after_snapshot. change (p_set_after SP) with [hn_exception; hn_exc_info].
  unfold set_all. simpl fold_left.
  rewrite aget_aset_same.
  rewrite (aget_aset_other hn_exc_info hn_response) by congruence.
  rewrite (aget_aset_other hn_exception hn_response) by congruence.
  rewrite (aget_aset_other hn_exc_info hn_exception) by congruence.
  rewrite aget_aset_same. rewrite H by (simpl; auto). reflexivity.
Qed.

Lemma snap_restored attrs' m :
  (forall k, In k (p_hidden SP) -> aget k attrs' = aget k m) -> snap attrs' = snap m.
Proof. intros H. rewrite !snap_eq. rewrite !H by (simpl; auto). reflexivity. Qed.

Lemma spec_hidden_nodup : NoDup (p_hidden SP).
Proof. repeat constructor; simpl; intuition discriminate. Qed.

(* what a rendering must look like when the lookup selects the view [t] and its body runs *)
Definition rendered (W : world) (rr : option bool) (t e : N) (before : snapshot) (o : outcome) (after : snapshot) : Prop :=
  match b_act (body_of (w_bodies W) t) with
  | ARet => o = Resp (RView t) /\ after = after_snapshot before e
  | ARetCtx =>
      if N.eqb (status_of W e) 0 then True
      else o = Resp (RExc e) /\ after = after_snapshot before e
  | ARaise v =>
      after = before /\
      match rr with
      | Some true => o = Raise (if isa W cn_Exception v then e else v)
      | Some false => o = Raise v
      | None => isa W cn_HTTPNotFound v = false -> o = Raise v
      end
  end.

Definition body_outcome (P : params) (W : world) (site tag ctx : N) (a : amap) : outcome :=
  match b_act (body_of (w_bodies W) tag) with
  | ARet => Resp (RView tag)
  | ARetCtx => if p_default_view_ctx P && negb (N.eqb (status_of W (ctx_returned W ctx a)) 0)
               then Resp (RExc (ctx_returned W ctx a)) else Raise (fresh_ve site)
  | ARaise e => Raise e
  end.

Lemma run_body_eq P W sec deny site tag ctx a :
  sec && b_perm (body_of (w_bodies W) tag) && deny = false ->
  run_body P W sec deny site tag ctx a =
  (body_outcome P W site tag ctx a, [EBody tag ctx (snap a)],
   if b_touch (body_of (w_bodies W) tag) then aset hn_response (resp_obj tag) a else a).
Proof.
  intros H. unfold run_body, body_outcome. rewrite H.
  destruct (b_act (body_of (w_bodies W) tag)); try reflexivity.
  destruct (p_default_view_ctx P && negb (N.eqb (status_of W (ctx_returned W ctx a)) 0)); reflexivity.
Qed.

(* excview_sees_exception (direct call): the selected view runs once, with the exception as context, as
   request.exception and in request.exc_info, and request.response hidden; a response leaves exception and
   exc_info set to the rendered exception and restores request.response; a failing view restores all three *)
Lemma iev_view_runs W ri site rr sec e st t :
  isa W cn_Exception e = true ->
  call_view_sec SP (w_reg W) sec exc_classifier_id (exc_request SP W ri e) = Ran t ->
  sec && b_perm (body_of (w_bodies W) t) && ri_deny ri = false ->
  let r := iev SP W ri site rr sec e st in
  st_log (snd r) = st_log st ++ [EBody t e (seen_snapshot e)]
  /\ rendered W (Some rr) t e (snap (st_attrs st)) (fst r) (snap (st_attrs (snd r))).
Proof.
  intros Hisa Hcall Hperm r. subst r. rewrite iev_unfold.
  pose proof (hide_attrs_restores (p_hidden SP) (iev_body SP W ri site sec e) (st_attrs st)) as Hres.
  pose proof (hide_attrs_fst (p_hidden SP) (iev_body SP W ri site sec e) (st_attrs st)) as Hfst.
  assert (Hb : exists a0, fst (iev_body SP W ri site sec e (fst (hide_pop (p_hidden SP) (st_attrs st) [])))
               = (Some (body_outcome SP W site t e a0), [EBody t e (seen_snapshot e)])).
  { unfold iev_body. rewrite Hcall. rewrite run_body_eq by exact Hperm. rewrite seen_attrs. eexists. reflexivity. }
  destruct Hb as [a0 Hb]. rewrite Hb in Hfst. clear Hb.
  destruct (hide_attrs (p_hidden SP) (iev_body SP W ri site sec e) (st_attrs st)) as [[res evs] attrs'].
  simpl fst in Hfst. simpl snd in Hres. inversion Hfst; subst res evs. clear Hfst.
  assert (Hres' : forall k, In k (p_hidden SP) -> aget k attrs' = aget k (st_attrs st))
    by (intros k Hk; apply Hres; [exact spec_hidden_nodup|exact Hk]).
  clear Hres. unfold rendered, body_outcome, ctx_returned. rewrite Hisa.
  destruct (b_act (body_of (w_bodies W) t)) as [| |v] eqn:Hact.
  - simpl. split; [reflexivity|]. split; [reflexivity|]. apply after_attrs. exact Hres'.
  - change (p_default_view_ctx SP) with true. simpl andb.
    destruct (N.eqb (status_of W e) 0) eqn:Hst; simpl.
    + split; [reflexivity|exact I].
    + split; [reflexivity|]. split; [reflexivity|]. apply after_attrs. exact Hres'.
  - simpl. split; [reflexivity|]. split; [apply snap_restored; exact Hres'|].
    destruct rr; simpl; reflexivity.
Qed.

(* the policy refuses the secured exception view: no body, attributes restored, the refusal propagates *)
Lemma iev_refused W ri site rr sec e st t :
  N.eqb site site_main = false ->
  call_view_sec SP (w_reg W) sec exc_classifier_id (exc_request SP W ri e) = Ran t ->
  sec && b_perm (body_of (w_bodies W) t) && ri_deny ri = true ->
  let r := iev SP W ri site rr sec e st in
  st_log (snd r) = st_log st
  /\ snap (st_attrs (snd r)) = snap (st_attrs st)
  /\ fst r = Raise (if rr && isa W cn_Exception (fresh_forb site) then e else fresh_forb site).
Proof.
  intros Hsite Hcall Hperm r. subst r. rewrite iev_unfold.
  pose proof (hide_attrs_restores (p_hidden SP) (iev_body SP W ri site sec e) (st_attrs st)) as Hres.
  pose proof (hide_attrs_fst (p_hidden SP) (iev_body SP W ri site sec e) (st_attrs st)) as Hfst.
  assert (Hb : fst (iev_body SP W ri site sec e (fst (hide_pop (p_hidden SP) (st_attrs st) [])))
               = (Some (Raise (fresh_forb site)), [])).
  { unfold iev_body. rewrite Hcall. unfold run_body. rewrite Hperm, Hsite. reflexivity. }
  rewrite Hb in Hfst. clear Hb.
  destruct (hide_attrs (p_hidden SP) (iev_body SP W ri site sec e) (st_attrs st)) as [[res evs] attrs'].
  simpl fst in Hfst. simpl snd in Hres. inversion Hfst; subst res evs. clear Hfst.
  simpl. rewrite app_nil_r. split; [reflexivity|]. split; [|reflexivity].
  apply snap_restored. intros k Hk. apply Hres; [exact spec_hidden_nodup|exact Hk].
Qed.

(* the same through the excview tween *)
Theorem excview_view_runs W ri e st t :
  isa W cn_Exception e = true ->
  call_view (w_reg W) exc_classifier_id (exc_request SP W ri e) = Ran t ->
  b_perm (body_of (w_bodies W) t) && ri_deny ri = false ->
  let r := excview_tween SP W ri (Raise e) st in
  st_log (snd r) = st_log st ++ [EBody t e (seen_snapshot e)]
  /\ rendered W None t e (snap (st_attrs st)) (fst r) (snap (st_attrs (snd r))).
Proof.
  intros Hisa Hcall Hperm r. subst r. unfold excview_tween. change (p_tween_catches SP) with cn_Exception. rewrite Hisa.
  pose proof (iev_view_runs W ri site_tween false true e st t Hisa Hcall Hperm) as [Hlog Hr].
  destruct (iev SP W ri site_tween false true e st) as [o st']. simpl in Hlog, Hr.
  unfold rendered in *. destruct o as [r|e2].
  - simpl. split; [exact Hlog|]. destruct (b_act (body_of (w_bodies W) t)); [exact Hr|exact Hr|].
    destruct Hr as [_ Hr]. discriminate Hr.
  - change (p_handler_catches SP) with cn_HTTPNotFound. change (p_handler_reraises SP) with true.
    destruct (b_act (body_of (w_bodies W) t)) as [| |v].
    + destruct Hr as [Hr _]. discriminate Hr.
    + destruct (N.eqb (status_of W e) 0); [destruct (isa W cn_HTTPNotFound e2); simpl; auto|].
      destruct Hr as [Hr _]. discriminate Hr.
    + destruct Hr as [Ha Hr]. inversion Hr; subst e2.
      destruct (isa W cn_HTTPNotFound v) eqn:Hnf; simpl; (split; [exact Hlog|]); (split; [exact Ha|]).
      * intros Hc. discriminate Hc.
      * intros _. reflexivity.
Qed.

(* a refusal while rendering in the excview tween: the framework's HTTPForbidden propagates (it does not enter
   403 handling), nothing ran, the attributes are as before *)
Theorem excview_refused W ri e st t :
  isa W cn_Exception e = true ->
  isa W cn_HTTPNotFound (fresh_forb site_tween) = false ->
  call_view (w_reg W) exc_classifier_id (exc_request SP W ri e) = Ran t ->
  b_perm (body_of (w_bodies W) t) && ri_deny ri = true ->
  let r := excview_tween SP W ri (Raise e) st in
  fst r = Raise (fresh_forb site_tween) /\ st_log (snd r) = st_log st
  /\ snap (st_attrs (snd r)) = snap (st_attrs st).
Proof.
  intros Hisa Hnf Hcall Hperm r. subst r. unfold excview_tween. change (p_tween_catches SP) with cn_Exception. rewrite Hisa.
  pose proof (iev_refused W ri site_tween false true e st t eq_refl Hcall Hperm) as [Hl [Ha Ho]].
  destruct (iev SP W ri site_tween false true e st) as [o st']. simpl in Hl, Ha, Ho. subst o.
  simpl. change (p_handler_catches SP) with cn_HTTPNotFound. rewrite Hnf. simpl. auto.
Qed.

End B.

(* ------------------------------------------------------------------ *)
(* which view: C03's lookup theorem with the exception classifier *)

(* excview_nearest_class: under C03's hypotheses on the registrations, the outcome of the exception-view
   lookup is allowed by the declarative order: a qualifying registration of the exception classifier whose
   context is earliest in the resolution order of the raised OBJECT and whose request interface is earliest
   in the combined request interface (route-bound before global), more predicates first; Not Found iff none *)
Theorem excview_nearest_class ao regs P W ri e :
  Forall reg_wf regs -> NoDup (map key regs) -> no_accept regs -> order_respects regs ->
  NoDup (q_req_sro (exc_request P W ri e)) -> NoDup (x_sro (find_exc (w_excs W) e)) ->
  spec_ok exc_classifier_id regs (exc_request P W ri e)
          (call_view (register_all ao regs) exc_classifier_id (exc_request P W ri e)) = true.
Proof.
  intros Hwf Hk Hna Hor Hr Hc. apply lookup_winner; assumption.
Qed.

Lemma spec_ok_ran cls regs rq t :
  spec_ok cls regs rq (Ran t) = true -> exists w, In w (spec_winners cls regs rq) /\ r_tag w = t.
Proof.
  unfold spec_ok, ok_by, spec_winners. intros H. apply existsb_exists in H. destruct H as [w [Hin Ht]].
  exists w. split; [exact Hin|]. apply N.eqb_eq. exact Ht.
Qed.

Lemma spec_ok_not_found cls regs rq res :
  spec_ok cls regs rq res = true -> spec_winners cls regs rq = [] -> not_found res.
Proof.
  unfold spec_ok, ok_by, spec_winners. intros H Hw. rewrite Hw in H.
  destruct res; [simpl in H; discriminate|left; reflexivity|right; reflexivity].
Qed.

Lemma spec_ok_found cls regs rq res :
  spec_ok cls regs rq res = true -> spec_winners cls regs rq <> [] -> exists t, res = Ran t.
Proof.
  unfold spec_ok, ok_by, spec_winners. intros H Hw.
  destruct res as [t| |]; [exists t; reflexivity| |];
    destruct (winners_by (more_specific rq) cls (effective regs) rq); [congruence|discriminate|congruence|discriminate].
Qed.

(* ------------------------------------------------------------------ *)
(* HTTP exceptions without a custom view *)

(* http_exception_is_response: when the only registrations the declarative order allows for an HTTP exception
   (an object that is a response) are default exception-response views, the exception object itself is the
   response, and it is request.exception afterwards *)
Theorem http_exception_is_response b ao regs W ri e st :
  w_reg W = register_all ao regs ->
  spec_ok exc_classifier_id regs (exc_request (spec_params_b b) W ri e)
          (call_view (register_all ao regs) exc_classifier_id (exc_request (spec_params_b b) W ri e)) = true ->
  isa W cn_Exception e = true -> status_of W e <> 0%N ->
  spec_winners exc_classifier_id regs (exc_request (spec_params_b b) W ri e) <> [] ->
  (forall w, In w (spec_winners exc_classifier_id regs (exc_request (spec_params_b b) W ri e)) ->
             body_of (w_bodies W) (r_tag w) = mkBody false ARetCtx false) ->
  let r := excview_tween (spec_params_b b) W ri (Raise e) st in
  fst r = Resp (RExc e)
  /\ aget hn_exception (st_attrs (snd r)) = Some e /\ aget hn_exc_info (st_attrs (snd r)) = Some e
  /\ aget hn_response (st_attrs (snd r)) = aget hn_response (st_attrs st).
Proof.
  intros HR Hok Hisa Hst Hne Hdef r. subst r.
  rewrite <- HR in Hok.
  destruct (spec_ok_found _ _ _ _ Hok Hne) as [t Ht]. rewrite Ht in Hok.
  destruct (spec_ok_ran _ _ _ _ Hok) as [w [Hw Htag]].
  pose proof (Hdef w Hw) as Hb. rewrite Htag in Hb.
  assert (Hperm : b_perm (body_of (w_bodies W) t) && ri_deny ri = false) by (rewrite Hb; reflexivity).
  pose proof (excview_view_runs b W ri e st t Hisa Ht Hperm) as [_ Hr].
  unfold rendered in Hr. rewrite Hb in Hr. simpl b_act in Hr.
  destruct (N.eqb (status_of W e) 0) eqn:E; [apply N.eqb_eq in E; contradiction|].
  destruct Hr as [Ho Ha]. split; [exact Ho|].
  rewrite snap_eq in Ha. unfold after_snapshot in Ha. rewrite snap_eq in Ha. simpl in Ha.
  inversion Ha. auto.
Qed.

(* unmatched URL: the ordinary lookup finds nothing, the router raises HTTPNotFound (the PredicateMismatch when
   views existed but every predicate failed) *)
Theorem unmatched_url_raises_notfound P W ri st :
  ri_root_raise ri = None ->
  not_found (call_view (w_reg W) view_classifier (ri_req ri)) ->
  main_handler P W ri false st = (Raise id_h_nf, st) \/ main_handler P W ri false st = (Raise id_h_pme, st).
Proof.
  intros Hroot [H|H]; unfold main_handler, req_of; rewrite Hroot, H; auto.
Qed.

(* refused permission: the secured view raises HTTPForbidden before its body *)
Theorem refused_permission_raises_forbidden P W ri st t :
  ri_root_raise ri = None ->
  call_view (w_reg W) view_classifier (ri_req ri) = Ran t ->
  b_perm (body_of (w_bodies W) t) = true -> ri_deny ri = true ->
  main_handler P W ri false st = (Raise id_h_forb, st).
Proof.
  intros Hroot Hc Hp Hd. unfold main_handler, req_of. rewrite Hroot, Hc. unfold run_body. rewrite Hp, Hd. simpl.
  rewrite app_nil_r. destruct st; reflexivity.
Qed.
