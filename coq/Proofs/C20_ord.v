(* C20 -- get_category: exactly the entries of the category, in ascending registration order (for EVERY state). *)
From Coq Require Import List NArith Bool Permutation Sorted.
Import ListNotations.
Require Import Verif.Lib.Wire Verif.Lib.C20Types Verif.Model.C20.

Definition order_le (x y : intr * N) : Prop := (snd x <= snd y)%N.

Lemma insert_perm e l : Permutation (e :: l) (insert_by_order e l).
Proof.
  induction l as [|x r IH]; simpl; [apply Permutation_refl|].
  destruct (N.leb (snd e) (snd x)); [apply Permutation_refl|].
  eapply Permutation_trans; [apply perm_swap|]. apply perm_skip. exact IH.
Qed.

Lemma sort_perm l : Permutation l (sort_by_order l).
Proof.
  unfold sort_by_order. induction l as [|x r IH]; simpl; [constructor|].
  eapply Permutation_trans; [apply perm_skip; exact IH|]. apply insert_perm.
Qed.

Lemma insert_sorted e l : Sorted order_le l -> Sorted order_le (insert_by_order e l).
Proof.
  induction l as [|a r IH]; simpl; intros H.
  - constructor; constructor.
  - destruct (N.leb (snd e) (snd a)) eqn:E.
    + constructor; [exact H|]. constructor. apply N.leb_le. exact E.
    + apply N.leb_gt in E. inversion H as [|? ? Hs Hh]; subst. constructor; [apply IH; exact Hs|].
      destruct r as [|p r']; simpl.
      * constructor. unfold order_le. apply N.lt_le_incl. exact E.
      * destruct (N.leb (snd e) (snd p)); constructor.
        -- unfold order_le. apply N.lt_le_incl. exact E.
        -- inversion Hh; subst. assumption.
Qed.

Lemma sort_sorted l : Sorted order_le (sort_by_order l).
Proof.
  unfold sort_by_order. induction l as [|x r IH]; simpl; [constructor|]. apply insert_sorted. exact IH.
Qed.

(* get_category lists exactly the entries stored in the category (as a multiset: none lost, none invented, none twice)
   in ascending order of their registration counter *)
Theorem get_category_exact_and_sorted s c l :
  get_category s c = Some l ->
  Permutation (map snd (cat_of s c)) l /\ Sorted order_le l.
Proof.
  unfold get_category, cat_of. destruct (assoc c (cats s)) as [l0|]; [|discriminate].
  intros H. inversion H; subst. split; [apply sort_perm|apply sort_sorted].
Qed.

(* and it answers None exactly for a category that was never created *)
Theorem get_category_none s c : get_category s c = None <-> assoc c (cats s) = None.
Proof. unfold get_category. destruct (assoc c (cats s)); split; intros H; congruence. Qed.

Example get_category_sorted_example :
  let a := mkIntr [97]%N [49]%N [120]%N 0 in
  let b := mkIntr [97]%N [50]%N [121]%N 1 in
  get_category (add (add (add init a) b) a) [97]%N = Some [(b, 1%N); (a, 2%N)].
Proof. vm_compute. reflexivity. Qed.
