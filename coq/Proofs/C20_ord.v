(* C20 -- get_category: exactly the entries of the category, in ascending registration order (for EVERY state). *)
From Coq Require Import List NArith Bool Permutation Sorted.
Import ListNotations.
Require Import Verif.Lib.Wire Verif.Lib.C20Types Verif.Model.C20.

Definition order_le (x y : intr * N) : Prop := (snd x <= snd y)%N.

Lemma insert_perm e l : Permutation (e :: l) (insert_by_order e l).
Proof.
  induction l as [|x r IH]; simpl; [apply Permutation_refl|].
  destruct (N.leb (snd e) (snd x)); [apply Permutation_refl|].
  eapply Permutation_trans; [apply perm_swap|]. apply perm_skip. exact IH.
Qed.

Lemma sort_perm l : Permutation l (sort_by_order l).
Proof.
  unfold sort_by_order. induction l as [|x r IH]; simpl; [constructor|].
  eapply Permutation_trans; [apply perm_skip; exact IH|]. apply insert_perm.
Qed.

Lemma insert_sorted e l : Sorted order_le l -> Sorted order_le (insert_by_order e l).
Proof.
  induction l as [|a r IH]; simpl; intros H.
  - constructor; constructor.
  - destruct (N.leb (snd e) (snd a)) eqn:E.
    + constructor; [exact H|]. constructor. apply N.leb_le. exact E.
    + apply N.leb_gt in E. inversion H as [|? ? Hs Hh]; subst. constructor; [apply IH; exact Hs|].
      destruct r as [|p r']; simpl.
      * constructor. unfold order_le. apply N.lt_le_incl. exact E.
      * destruct (N.leb (snd e) (snd p)); constructor.
        -- unfold order_le. apply N.lt_le_incl. exact E.
        -- inversion Hh; subst. assumption.
Qed.

Lemma sort_sorted l : Sorted order_le (sort_by_order l).
Proof.
  unfold sort_by_order. induction l as [|x r IH]; simpl; [constructor|]. apply insert_sorted. exact IH.
Qed.

(* get_category lists exactly the entries stored in the category (as a multiset: none lost, none invented, none twice)
   in ascending order of their registration counter *)
Theorem get_category_exact_and_sorted s c l :
  get_category s c = Some l ->
  Permutation (map snd (cat_of s c)) l /\ Sorted order_le l.
Proof.
  unfold get_category, cat_of. destruct (assoc c (cats s)) as [l0|]; [|discriminate].
  intros H. inversion H; subst. split; [apply sort_perm|apply sort_sorted].
Qed.

(* and it answers None exactly for a category that was never created *)
Theorem get_category_none s c : get_category s c = None <-> assoc c (cats s) = None.
Proof. unfold get_category. destruct (assoc c (cats s)); split; intros H; congruence. Qed.

Example get_category_sorted_example :
  let a := mkIntr [97]%N [49]%N [120]%N 0 in
  let b := mkIntr [97]%N [50]%N [121]%N 1 in
  get_category (add (add (add init a) b) a) [97]%N = Some [(b, 1%N); (a, 2%N)].
Proof. vm_compute. reflexivity. Qed.

(* ---------------------------------------------------------------- the order invariant of reachable states:
   inside every category the stored registration counters are pairwise distinct and all below the introspector's counter *)
Require Import Verif.Proofs.C20 Verif.Proofs.C20_wf.

Definition ord {A B} (e : A * (B * N)) : N := snd (snd e).
Definition catP {A B} (n : N) (l : list (A * (B * N))) : Prop :=
  NoDup (map ord l) /\ Forall (fun e => (ord e < n)%N) l.
Definition Ord (s : st) : Prop := Forall (fun p => catP (counter s) (snd p)) (cats s).

Lemma catP_mono {A B} n n' (l : list (A * (B * N))) : (n <= n')%N -> catP n l -> catP n' l.
Proof.
  intros H [H1 H2]. split; [exact H1|]. eapply Forall_impl; [|exact H2].
  intros a Ha. simpl in *. eapply N.lt_le_trans; eassumption.
Qed.

Lemma ords_assoc_set {B} k (v : B * N) l x :
  In x (map ord (assoc_set k v l)) -> x = snd v \/ In x (map ord l).
Proof.
  induction l as [|[k' v'] r IH]; simpl.
  - intros [H|[]]; auto.
  - destruct (text_eqb k k'); simpl; intros [H|H]; auto. destruct (IH H); auto.
Qed.

Lemma lt_not_in {A B} n (l : list (A * (B * N))) : Forall (fun e => (ord e < n)%N) l -> ~ In n (map ord l).
Proof.
  intros H Hin. apply in_map_iff in Hin. destruct Hin as (e & E & He).
  rewrite Forall_forall in H. specialize (H e He). rewrite E in H. exact (N.lt_irrefl _ H).
Qed.

Lemma lt_succ_one n : (n < n + 1)%N.
Proof. apply N.lt_add_pos_r. reflexivity. Qed.

Lemma catP_assoc_set {B} n d (i : B) l : catP n l -> catP (n + 1) (assoc_set d (i, n) l).
Proof.
  intros [H1 H2]. induction l as [|[k' v'] r IH]; simpl.
  - split; [constructor; [intros []|constructor]|constructor; [apply lt_succ_one|constructor]].
  - simpl in H1. inversion H1 as [|? ? Hn Hr]; subst. inversion H2 as [|? ? Hx Hf]; subst.
    destruct (text_eqb d k').
    + split; simpl.
      * constructor; [apply lt_not_in; exact Hf|exact Hr].
      * constructor; [apply lt_succ_one|]. eapply Forall_impl; [|exact Hf].
        intros a Ha. simpl in *. eapply N.lt_trans; [exact Ha|apply lt_succ_one].
    + destruct (IH Hr Hf) as [I1 I2]. split; simpl.
      * constructor; [|exact I1]. intros Hin. apply ords_assoc_set in Hin. destruct Hin as [E|Hin]; [|contradiction].
        simpl in E. rewrite E in Hx. exact (N.lt_irrefl _ Hx).
      * constructor; [eapply N.lt_trans; [exact Hx|apply lt_succ_one]|exact I2].
Qed.

Lemma ords_assoc_del {B} k (l : list (text * (B * N))) x : In x (map ord (assoc_del k l)) -> In x (map ord l).
Proof.
  induction l as [|[k' v'] r IH]; simpl; [auto|]. destruct (text_eqb k k'); simpl; [auto|]. intros [H|H]; auto.
Qed.

Lemma catP_assoc_del {B} n k (l : list (text * (B * N))) : catP n l -> catP n (assoc_del k l).
Proof.
  intros [H1 H2]. induction l as [|[k' v'] r IH]; simpl; [split; assumption|].
  simpl in H1. inversion H1 as [|? ? Hn Hr]; subst. inversion H2 as [|? ? Hx Hf]; subst.
  destruct (text_eqb k k'); [split; assumption|]. destruct (IH Hr Hf) as [I1 I2]. split; simpl.
  - constructor; [intros Hin; apply Hn; eapply ords_assoc_del; exact Hin|exact I1].
  - constructor; assumption.
Qed.

Lemma Ord_cat_of s c : Ord s -> catP (counter s) (cat_of s c).
Proof.
  intros H. unfold cat_of. destruct (assoc c (cats s)) as [l|] eqn:E; [|split; constructor].
  apply assoc_In in E. unfold Ord in H. rewrite Forall_forall in H. exact (H (c, l) E).
Qed.

Lemma Ord_set_cat s c l r n :
  Ord s -> (counter s <= n)%N -> catP n l -> Ord (mkSt (assoc_set c l (cats s)) r n).
Proof.
  intros H Hn Hl. unfold Ord. simpl.
  apply (Forall_assoc_set (fun p => catP n (snd p))); [exact Hl|].
  eapply Forall_impl; [|exact H]. intros a Ha. eapply catP_mono; eassumption.
Qed.

Lemma Ord_add s i : Ord s -> Ord (add s i).
Proof.
  intros H. unfold add. apply Ord_set_cat; [exact H|apply N.le_add_r|].
  apply catP_assoc_set. apply Ord_cat_of. exact H.
Qed.

Lemma Ord_same s s' : cats s' = cats s -> counter s' = counter s -> Ord s -> Ord s'.
Proof. unfold Ord. intros -> ->. auto. Qed.

Lemma Ord_get s c d : Ord s -> Ord (fst (get s c d)).
Proof.
  intros H. unfold get. destruct (assoc c (cats s)); simpl; [exact H|].
  apply Ord_set_cat; [exact H|apply N.le_refl|split; constructor].
Qed.

Lemma relate_counter s ps s' : relate s ps = Ok s' -> counter s' = counter s.
Proof. unfold relate. destruct (intrs_by_pairs s ps); intros H; inversion H; reflexivity. Qed.
Lemma unrelate_counter s ps s' : unrelate s ps = Ok s' -> counter s' = counter s.
Proof. unfold unrelate. destruct (intrs_by_pairs s ps); intros H; inversion H; reflexivity. Qed.
Lemma replay_counter rs : forall s i s' e, replay s i rs = (s', e) -> counter s' = counter s.
Proof.
  induction rs as [|[c d|c d] r IH]; intros s i s' e H; simpl in H.
  - inversion H; reflexivity.
  - destruct (relate s _) as [s1|] eqn:E; [|inversion H; reflexivity].
    rewrite (IH _ _ _ _ H). eapply relate_counter; eassumption.
  - destruct (unrelate s _) as [s1|] eqn:E; [|inversion H; reflexivity].
    rewrite (IH _ _ _ _ H). eapply unrelate_counter; eassumption.
Qed.

Lemma Ord_remove s c d s' e : Ord s -> remove s c d = (s', e) -> Ord s'.
Proof.
  intros H. unfold remove. destruct (get s c d) as [s1 o] eqn:G.
  assert (H1 : Ord s1) by (change s1 with (fst (s1, o)); rewrite <- G; apply Ord_get; assumption).
  destruct o as [i|]; [|intros E; inversion E; subst; assumption].
  destruct (remove_backrefs i _ _) as [rf [e'|]]; intros E; inversion E; subst.
  - eapply Ord_same; [| |exact H1]; reflexivity.
  - apply Ord_set_cat; [exact H1|apply N.le_refl|]. apply catP_assoc_del. apply Ord_cat_of. exact H1.
Qed.

Lemma Ord_register s i rs s' e : Ord s -> register s i rs = (s', e) -> Ord s'.
Proof.
  intros H E. unfold register in E.
  eapply Ord_same; [eapply replay_cats; eassumption|eapply replay_counter; eassumption|]. apply Ord_add. exact H.
Qed.

Lemma Ord_step s o : Ord s -> Ord (fst (step s o)).
Proof.
  intros H. destruct o; simpl.
  - apply Ord_add; assumption.
  - exact (Ord_get s c d H).
  - assumption.
  - destruct (relate s ps) eqn:E; simpl; [|assumption].
    eapply Ord_same; [eapply relate_cats; eassumption|eapply relate_counter; eassumption|assumption].
  - destruct (unrelate s ps) eqn:E; simpl; [|assumption].
    eapply Ord_same; [eapply unrelate_cats; eassumption|eapply unrelate_counter; eassumption|assumption].
  - destruct (remove s c d) as [s' [e|]] eqn:E; simpl; eapply Ord_remove; eassumption.
  - assumption.
  - destruct (register s i rs) as [s' [e|]] eqn:E; simpl; eapply Ord_register; eassumption.
  - assumption.
Qed.

(* every state reached by any operation sequence (adds, registrations with relations, relate / unrelate, removes --
   also removes that raise part-way -- and reads) keeps the stored orders distinct per category and below the counter *)
Theorem reachable_orders ops : Ord (run_state init ops).
Proof.
  assert (G : forall s, Ord s -> Ord (run_state s ops)).
  { induction ops as [|o r IH]; intros s H; simpl; [assumption|]. apply IH. apply Ord_step. assumption. }
  apply G. constructor.
Qed.

Definition order_lt (x y : intr * N) : Prop := (snd x < snd y)%N.

Lemma sorted_strict l : Sorted order_le l -> NoDup (map snd l) -> Sorted order_lt l.
Proof.
  induction l as [|a r IH]; intros Hs Hn; [constructor|].
  inversion Hs as [|? ? Hs' Hh]; subst. simpl in Hn. inversion Hn as [|? ? Hna Hnr]; subst.
  constructor; [apply IH; assumption|]. destruct r as [|p r']; constructor.
  inversion Hh; subst. unfold order_lt, order_le in *. apply N.le_neq. split; [assumption|].
  intros E. apply Hna. simpl. left. symmetry. exact E.
Qed.

(* in every reachable state get_category answers in STRICTLY ascending registration order, every order below the
   counter: no two entries of a category ever share an order *)
Theorem get_category_strictly_ascending ops c l :
  get_category (run_state init ops) c = Some l ->
  Sorted order_lt l /\ Forall (fun e => (snd e < counter (run_state init ops))%N) l.
Proof.
  intros H. destruct (get_category_exact_and_sorted _ _ _ H) as [P S].
  destruct (Ord_cat_of _ c (reachable_orders ops)) as [Hd Hb].
  split.
  - apply sorted_strict; [exact S|].
    eapply Permutation_NoDup; [apply Permutation_map; exact P|]. rewrite map_map. exact Hd.
  - eapply Permutation_Forall; [exact P|]. apply Forall_map. exact Hb.
Qed.

(* the invariant, stated on the entries of one category *)
Theorem reachable_orders_cat ops c :
  NoDup (map (fun e => snd (snd e)) (cat_of (run_state init ops) c)) /\
  Forall (fun e => (snd (snd e) < counter (run_state init ops))%N) (cat_of (run_state init ops) c).
Proof. exact (Ord_cat_of _ c (reachable_orders ops)). Qed.

(* non-vacuity: re-registration under a key, a removal and a later add leave distinct, ascending orders *)
Example strictly_ascending_example :
  let a := mkIntr [97]%N [49]%N [120]%N 0 in
  let b := mkIntr [97]%N [50]%N [121]%N 1 in
  let c := mkIntr [97]%N [51]%N [122]%N 2 in
  get_category (run_state init [OAdd a; OAdd b; OAdd a; ORemove [97]%N [50]%N; OAdd c]) [97]%N
  = Some [(a, 2%N); (c, 3%N)].
Proof. vm_compute. reflexivity. Qed.
