(* C01, third proof-only round: end-to-end composition.  What the program regenerated from
   RoutesMapper.__call__ hands out, for the multi-atom matcher that ./check runs and the facts of
   the current source: the selected route's pattern decomposes the WHOLE decoded path, the
   dictionary is the merged dictionary of that decomposition, its predicates hold, and every route
   before it in the route list fails to qualify. *)
From Coq Require Import List NArith ZArith Bool Lia Arith.
Import ListNotations.
Require Import Verif.Lib.Wire Verif.Lib.Text Verif.Lib.PathNorm Verif.Lib.Utf8 Verif.Gen.Facts_C01 Verif.Model.C01
  Verif.Gen.Prog_C01 Verif.Proofs.C01 Verif.Proofs.C01_b Verif.Proofs.C01_gen.
Local Close Scope N_scope.
Local Open Scope nat_scope.

(* the multi-atom matcher matches the whole text *)
Theorem match_m_whole O p s d :
  match_pat_m O p s = Some d ->
  exists caps, d = merge_dict (mk_dict (items p) (star p) caps) /\ s = render (items p) caps
               /\ caps_ok O (star p) (items p) caps = true.
Proof.
  unfold match_pat_m. destruct (match_pat O p s) as [d0|] eqn:E; [|discriminate].
  cbn [option_map]. intros H. injection H as <-.
  destruct (match_whole _ _ _ _ E) as (caps & -> & Hs & Hc). exists caps. auto.
Qed.

Theorem gen_selected_route_whole_path O m method raw r d :
  fst (gen_call (match_pat_m O) m method raw) = OMatch r d ->
  exists path pre post caps,
    request_path raw = RPath path
    /\ routelist m = pre ++ r :: post
    /\ Forall (fun r' => qual (match_pat_m O) method path r' = false) pre
    /\ path = render (items (r_pat r)) caps
    /\ caps_ok O (star (r_pat r)) (items (r_pat r)) caps = true
    /\ d = merge_dict (mk_dict (items (r_pat r)) (star (r_pat r)) caps)
    /\ forallb (pred_ok method d) (r_preds r) = true.
Proof.
  intros H. destruct (gen_dispatch_first _ _ _ _ _ _ H) as (path & pre & post & Hp & Hl & Hf & Hm & Ha).
  destruct (match_m_whole _ _ _ _ Hm) as (caps & Hd & Hs & Hc).
  exists path, pre, post, caps. repeat split; auto.
Qed.

(* no route is selected exactly when no route of the list qualifies (valid path) *)
Theorem gen_none_selected_iff O m method raw path :
  request_path raw = RPath path ->
  (fst (gen_call (match_pat_m O) m method raw) = ONone <->
   Forall (fun r' => qual (match_pat_m O) method path r' = false) (routelist m)).
Proof.
  intros Hp. rewrite fst_gen_call. unfold dispatch_request_with. rewrite Hp.
  pose proof (dispatch_none (match_pat_m O) method (routelist m) path) as Hn.
  destruct (dispatch_with (match_pat_m O) method (routelist m) path) as [[[r d]|] tr] eqn:E; cbn [fst] in *.
  - split; [discriminate|]. intros HF. apply Hn in HF. discriminate.
  - split; [intros _; apply Hn; reflexivity|reflexivity].
Qed.

Require Import Coq.Strings.String.
Local Open Scope string_scope.
(* non-vacuity: a route with a multi-atom placeholder is selected through the regenerated connect / __call__ *)
Example selected_route_nonvacuous :
  let ds := [mkDecl (T "r0") (T "/y/{d:\d{4}-\d{2}}") false [PConst true]] in
  let m := fst (connect_all_f (gen_connect (parse_pattern_m no_oracle)) empty_mapper 0 ds) in
  exists r, fst (gen_call (match_pat_m no_oracle) m (T "GET") (Some (T "/y/2024-09")))
            = OMatch r [(T "d", MText (T "2024-09"))]
  /\ fst (gen_call (match_pat_m no_oracle) m (T "GET") (Some (T "/y/2024-9"))) = ONone.
Proof. eexists. vm_compute. split; reflexivity. Qed.
