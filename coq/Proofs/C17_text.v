(* C17 -- round 6, relation (2): the path route.generate produces, percent-decoded as a whole, reads
   literal, value, literal, .., star value for the values the caller supplied (bytes are UTF-8 text, other objects str(v),
   a star sequence joined with '/').  Seed C17-17 (a bytes star value iterated as integers) contradicts exactly this. *)
From Coq Require Import List NArith ZArith Bool Lia ZifyBool ZifyN.
Import ListNotations.
Require Import Verif.Lib.Wire Verif.Lib.Text Verif.Lib.Utf8 Verif.Lib.Percent Verif.Lib.C06Utf8
               Verif.Gen.Facts_C17 Verif.Model.C17 Verif.Model.C17_glue Verif.Proofs.C17.
Open Scope N_scope.

(* ---- chunks: pieces of a quoted text that decode independently of what follows *)
Definition chunk (c b : text) : Prop := forall rest, unquote (c ++ rest) = b ++ unquote rest.

Lemma chunk_nil : chunk [] [].
Proof. intros rest. reflexivity. Qed.
Lemma chunk_app c1 b1 c2 b2 : chunk c1 b1 -> chunk c2 b2 -> chunk (c1 ++ c2) (b1 ++ b2).
Proof. intros H1 H2 rest. rewrite <- !app_assoc. rewrite H1, H2. reflexivity. Qed.
Lemma chunk_quote safe bs : is_safe safe 37 = false -> Forall byte bs -> chunk (quote safe bs) bs.
Proof.
  intros H37. induction 1 as [|b r Hb _ IH]; intros rest; [reflexivity|].
  unfold quote. simpl flat_map. fold (quote safe r). rewrite <- app_assoc.
  rewrite unquote_quote1 by assumption. rewrite IH. reflexivity.
Qed.
Lemma chunk_slash : chunk [47] [47].
Proof. intros rest. reflexivity. Qed.

Lemma encode_app a b : encode (a ++ b) = encode a ++ encode b.
Proof. unfold encode. apply flat_map_app. Qed.
Lemma valid_app' a b : forallb valid_scalar (a ++ b) = forallb valid_scalar a && forallb valid_scalar b.
Proof. apply forallb_app. Qed.

(* a quoted segment is a chunk for the UTF-8 bytes of the text the value stands for *)
Lemma qps_chunk safe v q :
  good_safe safe = true -> quote_path_segment safe v = Ok q ->
  exists t, spec_text v = Some t /\ forallb valid_scalar t = true /\ chunk q (encode t).
Proof.
  intros Hg H. apply good_safe_spec in Hg. destruct Hg as [Ha H37].
  apply qps_ok in H. destruct H as (t & Ht & Hv & ->). exists t.
  split; [apply text_of_spec; assumption|]. split; [assumption|].
  apply chunk_quote; [assumption|apply encode_bytes; assumption].
Qed.

Lemma compile_value_good : good_safe compile_value_safe = true.
Proof. destruct compile_safe_parts as (_ & _ & H). apply path_safe_good, H. Qed.

Lemma join_chunks qs ts :
  Forall2 (fun q t => forallb valid_scalar t = true /\ chunk q (encode t)) qs ts ->
  forallb valid_scalar (join [47] ts) = true /\ chunk (join [47] qs) (encode (join [47] ts)).
Proof.
  induction 1 as [|q t qs ts [Hv Hc] HF IH]; [split; [reflexivity|apply chunk_nil]|].
  destruct IH as [IHv IHc]. destruct HF as [|q' t' qs' ts' H' HF'].
  - cbn [join]. auto.
  - change (join [47] (t :: t' :: ts')) with (t ++ [47] ++ join [47] (t' :: ts')).
    change (join [47] (q :: q' :: qs')) with (q ++ [47] ++ join [47] (q' :: qs')).
    split.
    + rewrite !valid_app', Hv, IHv. reflexivity.
    + rewrite !encode_app. apply chunk_app; [assumption|]. apply chunk_app; [apply chunk_slash|assumption].
Qed.

Lemma q_values_chunks l : forall qs ts,
  mapM q_value l = Ok qs -> map_opt spec_text l = Some ts ->
  Forall2 (fun q t => forallb valid_scalar t = true /\ chunk q (encode t)) qs ts.
Proof.
  induction l as [|x l IH]; intros qs ts Hm Hs.
  - inversion Hm; inversion Hs; constructor.
  - cbn [mapM] in Hm. apply rbind_ok in Hm. destruct Hm as (q & Hq & Hm). apply rbind_ok in Hm. destruct Hm as (qs' & Hqs & Hm).
    inversion Hm; subst qs. clear Hm.
    apply map_opt_inv in Hs. inversion Hs as [|x0 t l0 ts' Hx Hl]; subst.
    destruct (qps_chunk _ _ _ compile_value_good Hq) as (t0 & Ht0 & Hv0 & Hc0).
    assert (t0 = t) by congruence. subst t0.
    constructor; [auto|]. apply IH; [assumption|]. apply map_opt_some. exact Hl.
Qed.

Lemma gen_value_chunk b v q t :
  gen_value b v = Ok q -> kw_text b v = Some t -> forallb valid_scalar t = true /\ chunk q (encode t).
Proof.
  destruct v as [x|l shown]; cbn [gen_value kw_text].
  - intros H Ht. destruct x as [s|bs|z|k s].
    + destruct (qps_chunk _ _ _ compile_value_good H) as (t0 & Ht0 & Hv0 & Hc0). assert (t0 = t) by congruence. subst. auto.
    + apply rbind_ok in H. destruct H as (t1 & Hd & H). unfold utf8_dec in Hd. cbn [spec_text] in Ht. rewrite Ht in Hd.
      inversion Hd; subst t1. destruct (qps_chunk _ _ _ compile_value_good H) as (t0 & Ht0 & Hv0 & Hc0).
      cbn [spec_text] in Ht0. destruct (forallb valid_scalar t); inversion Ht0; subst. auto.
    + destruct (qps_chunk _ _ _ compile_value_good H) as (t0 & Ht0 & Hv0 & Hc0). assert (t0 = t) by congruence. subst. auto.
    + destruct (qps_chunk _ _ _ compile_value_good H) as (t0 & Ht0 & Hv0 & Hc0). assert (t0 = t) by congruence. subst. auto.
  - destruct b.
    + intros H Ht. apply rbind_ok in H. destruct H as (qs & Hqs & H). inversion H; subst q.
      destruct (map_opt spec_text l) as [ts|] eqn:Em; [|discriminate]. cbn in Ht. inversion Ht; subst t.
      apply join_chunks. eapply q_values_chunks; eassumption.
    + intros H Ht. destruct (forallb valid_scalar shown) eqn:Ev; [|discriminate]. inversion Ht; subst t.
      destruct (qps_chunk _ _ _ compile_value_good H) as (t0 & Ht0 & Hv0 & Hc0).
      cbn [spec_text] in Ht0. rewrite Ev in Ht0. inversion Ht0; subst. auto.
Qed.

(* the dictionary route.generate formats with: every entry is the quoted value of the keyword of that name *)
Lemma newdict_assoc' p kw : forall d n q,
  build_newdict p kw = Ok d -> assoc n d = Some q ->
  exists v, assoc n kw = Some v /\ gen_value (is_star_key p n) v = Ok q.
Proof.
  unfold build_newdict. induction kw as [|[k v] kw IH]; intros d n q Hd Ha.
  - inversion Hd; subst. discriminate.
  - cbn [mapM fst snd] in Hd. apply rbind_ok in Hd. destruct Hd as ([k' q'] & Hkq & Hd).
    apply rbind_ok in Hkq. destruct Hkq as (q0 & Hq0 & Hkq). inversion Hkq; subst k' q'. clear Hkq.
    apply rbind_ok in Hd. destruct Hd as (d' & Hd' & Hd). inversion Hd; subst d. clear Hd.
    cbn [assoc] in *. destruct (text_eqb n k) eqn:E.
    + apply text_eqb_eq in E. subst k. inversion Ha; subst q0. eauto.
    + eapply IH; eassumption.
Qed.

Lemma slot_chunk p kw d n q t :
  build_newdict p kw = Ok d -> format_part d (TSlot n) = Ok q -> slot_text p kw n = Some t ->
  forallb valid_scalar t = true /\ chunk q (encode t).
Proof.
  intros Hd Hf Ht. cbn [format_part] in Hf. destruct (assoc n d) as [q'|] eqn:Ea; [|discriminate]. inversion Hf; subst q'.
  destruct (newdict_assoc' _ _ _ _ _ Hd Ea) as (v & Hv & Hg). unfold slot_text in Ht. rewrite Hv in Ht. cbn in Ht.
  eapply gen_value_chunk; eassumption.
Qed.

Lemma lit_chunk safe s d tp q :
  path_safe_ok safe = true -> lit_part safe s = Ok tp -> format_part d tp = Ok q ->
  forallb valid_scalar s = true /\ chunk q (encode s).
Proof.
  intros Hs Hl Hf. unfold lit_part in Hl. apply rbind_ok in Hl. destruct Hl as (q0 & Hq0 & Hl). inversion Hl; subst tp.
  cbn [format_part] in Hf. rewrite undouble_double in Hf. inversion Hf; subst q0.
  destruct (qps_chunk _ _ _ (path_safe_good _ Hs) Hq0) as (t0 & Ht0 & Hv0 & Hc0).
  cbn [spec_text] in Ht0. destruct (forallb valid_scalar s) eqn:E; inversion Ht0; subst. auto.
Qed.

Lemma mapM_app_inv {A B} (f : A -> res B) l1 : forall l2 ys,
  mapM f (l1 ++ l2) = Ok ys -> exists y1 y2, mapM f l1 = Ok y1 /\ mapM f l2 = Ok y2 /\ ys = y1 ++ y2.
Proof.
  induction l1 as [|x l1 IH]; intros l2 ys H; [exists [], ys; auto|].
  cbn [app mapM] in H. apply rbind_ok in H. destruct H as (y & Hy & H). apply rbind_ok in H. destruct H as (ys' & Hys & H).
  inversion H; subst ys. destruct (IH _ _ Hys) as (y1 & y2 & H1 & H2 & ->).
  exists (y :: y1), y2. cbn [mapM]. rewrite Hy. cbn [rbind]. rewrite H1. auto.
Qed.

Definition hole_parts (h : text * text) : res (list tpart) :=
  match snd h with
  | [] => Ok [TSlot (fst h)]
  | s => rlet l := lit_part compile_literal_safe s in Ok [TSlot (fst h); l]
  end.

Lemma holes_chunk p kw d : build_newdict p kw = Ok d -> forall holes hs parts ts,
  mapM hole_parts holes = Ok hs -> mapM (format_part d) (concat hs) = Ok parts ->
  map_opt (hole_text p kw) holes = Some ts ->
  forallb valid_scalar (concat ts) = true /\ chunk (concat parts) (encode (concat ts)).
Proof.
  intros Hd. destruct compile_safe_parts as (_ & S2 & _).
  induction holes as [|[n l] holes IH]; intros hs parts ts Hh Hp Ht.
  - inversion Hh; subst hs. inversion Hp; subst parts. inversion Ht; subst ts. split; [reflexivity|apply chunk_nil].
  - cbn [mapM] in Hh. apply rbind_ok in Hh. destruct Hh as (h1 & Hh1 & Hh). apply rbind_ok in Hh. destruct Hh as (hs' & Hhs & Hh).
    inversion Hh; subst hs. clear Hh. cbn [concat] in Hp.
    apply mapM_app_inv in Hp. destruct Hp as (p1 & p2 & Hp1 & Hp2 & ->).
    apply map_opt_inv in Ht. inversion Ht as [|h0 t1 l0 ts' Hx Hl]; subst. apply map_opt_some in Hl.
    destruct (IH _ _ _ Hhs Hp2 Hl) as [IHv IHc].
    unfold hole_text in Hx. cbn [fst snd] in Hx. destruct (slot_text p kw n) as [t|] eqn:Es; [|discriminate]. cbn in Hx.
    inversion Hx; subst t1. clear Hx.
    unfold hole_parts in Hh1. cbn [fst snd] in Hh1. rewrite concat_app. cbn [concat].
    destruct l as [|c l].
    + inversion Hh1; subst h1. cbn [mapM] in Hp1. apply rbind_ok in Hp1. destruct Hp1 as (qv & Hqv & Hp1). inversion Hp1; subst p1.
      destruct (slot_chunk _ _ _ _ _ _ Hd Hqv Es) as [Hv Hc].
      cbn [concat]. rewrite !app_nil_r. split; [rewrite valid_app', Hv, IHv; reflexivity|].
      rewrite encode_app. apply chunk_app; assumption.
    + apply rbind_ok in Hh1. destruct Hh1 as (lp & Hlp & Hh1). inversion Hh1; subst h1.
      cbn [mapM] in Hp1. apply rbind_ok in Hp1. destruct Hp1 as (qv & Hqv & Hp1). apply rbind_ok in Hp1.
      destruct Hp1 as (rest & Hrest & Hp1). apply rbind_ok in Hrest. destruct Hrest as (ql & Hql & Hrest).
      inversion Hrest; subst rest. inversion Hp1; subst p1.
      destruct (slot_chunk _ _ _ _ _ _ Hd Hqv Es) as [Hv Hc].
      destruct (lit_chunk _ _ _ _ _ S2 Hlp Hql) as [Hlv Hlc].
      cbn [concat]. rewrite !app_nil_r. split.
      * rewrite !valid_app', Hv, Hlv, IHv. reflexivity.
      * rewrite <- ?app_assoc. rewrite !encode_app. rewrite <- ?app_assoc.
        apply chunk_app; [assumption|]. apply chunk_app; assumption.
Qed.

Lemma path_char_ascii c : path_char c = true -> ascii c.
Proof.
  unfold path_char, pchar, unreserved, sub_delim, is_alpha, is_digit, ascii. cbn [memN]. intros H.
  destruct (c <? 128) eqn:E; [apply N.ltb_lt; exact E|]. exfalso. apply N.ltb_ge in E.
  repeat (apply orb_true_iff in H; destruct H as [H|H]);
    repeat (apply andb_true_iff in H; destruct H as [? ?]);
    repeat match goal with
           | X : (_ <=? _) = true |- _ => apply N.leb_le in X
           | X : (_ =? _) = true |- _ => apply N.eqb_eq in X
           end; try lia; try discriminate.
Qed.

Theorem generate_decodes_text p kw u t :
  generate p kw = Ok u -> spec_path_text p kw = Some t -> unquote_text u = Some t.
Proof.
  intros H Hs. pose proof (generate_chars _ _ _ H) as Hpc.
  destruct compile_safe_parts as (S1 & _ & _).
  unfold generate in H. apply rbind_ok in H. destruct H as (tpl & Htpl & H). apply rbind_ok in H. destruct H as (d & Hd & H).
  apply rbind_ok in H. destruct H as (parts & Hparts & H). inversion H; subst u. clear H.
  unfold gen_template in Htpl. apply rbind_ok in Htpl. destruct Htpl as (pre & Hpre & Htpl).
  apply rbind_ok in Htpl. destruct Htpl as (hs & Hhs & Htpl). inversion Htpl; subst tpl. clear Htpl.
  unfold spec_path_text in Hs. destruct (map_opt (hole_text p kw) (p_holes p)) as [hts|] eqn:Eh; [|discriminate]. cbn in Hs.
  cbn [mapM] in Hparts. apply rbind_ok in Hparts. destruct Hparts as (qpre & Hqpre & Hparts).
  apply rbind_ok in Hparts. destruct Hparts as (rest & Hrest & Hparts). inversion Hparts; subst parts. clear Hparts.
  apply mapM_app_inv in Hrest. destruct Hrest as (ph & ps & Hph & Hps & ->).
  destruct (lit_chunk _ _ _ _ _ S1 Hpre Hqpre) as [Pv Pc].
  destruct (holes_chunk p kw d Hd _ _ _ _ Hhs Hph Eh) as [Hv Hc].
  assert (St : exists st, (match star_slot p with Some r => slot_text p kw r | None => Some [] end) = Some st
                          /\ t = p_prefix p ++ concat hts ++ st
                          /\ forallb valid_scalar st = true /\ chunk (concat ps) (encode st)).
  { destruct (star_slot p) as [r|].
    - destruct (slot_text p kw r) as [st|] eqn:Es; [|discriminate]. cbn in Hs. inversion Hs; subst t.
      cbn [mapM] in Hps. apply rbind_ok in Hps. destruct Hps as (qs & Hqs & Hps). inversion Hps; subst ps.
      destruct (slot_chunk _ _ _ _ _ _ Hd Hqs Es) as [Sv Sc]. exists st. cbn [concat]. rewrite app_nil_r. auto.
    - cbn in Hs. inversion Hs; subst t. inversion Hps; subst ps. exists []. repeat split; auto; try apply chunk_nil. }
  destruct St as (st & _ & -> & Sv & Sc).
  assert (Hall : chunk (concat (qpre :: ph ++ ps)) (encode (p_prefix p ++ concat hts ++ st))).
  { cbn [concat]. rewrite concat_app. rewrite !encode_app. apply chunk_app; [assumption|]. apply chunk_app; assumption. }
  unfold unquote_text. rewrite text_bytes_ascii.
  - pose proof (Hall []) as Hu. rewrite app_nil_r in Hu. cbn [unquote] in Hu. rewrite app_nil_r in Hu. rewrite Hu.
    apply decode_encode. rewrite !valid_app', Pv, Hv, Sv. reflexivity.
  - eapply Forall_impl; [|exact Hpc]. intros c Hc'. apply path_char_ascii. exact Hc'.
Qed.

(* non-vacuity: a literal with a space, a bytes value, a star sequence *)
Example spec_path_text_example :
  spec_path_text (mkPat [47;97;32] [([120], [47])] (Some [114]))
                 [([120], KScalar (PBytes [195;169])); ([114], KSeq [PStr [97]; PInt 7] [])]
  = Some [47;97;32;233;47;97;47;55].
Proof. vm_compute. reflexivity. Qed.
