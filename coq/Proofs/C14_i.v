(* C14 -- part 9: with NO premise on the view bodies, the rendering of an exception BEGINS as the property says: the
   first event of invoke_exception_view (search-goes-on variant and the regenerated function) is the body of the view
   the lookup selects, and that view sees the exception as its context, as request.exception and request.exc_info, and
   no request.response -- whatever that body or later ones then do (e.g. raise PredicateMismatch). *)
From Coq Require Import List NArith ZArith Bool Lia.
Import ListNotations.
Require Import Verif.Lib.Wire Verif.Gen.Facts_C03 Verif.Model.C03 Verif.Proofs.C03 Verif.Gen.Facts_C14 Verif.Model.C14
               Verif.Proofs.C14 Verif.Proofs.C14_b Verif.Proofs.C14_c Verif.Proofs.C14_d Verif.Proofs.C14_gen
               Verif.Proofs.C14_h.

Theorem iev_pm_first_event b W ri site rr sec e st t :
  call_view_sec (spec_params_b b) (w_reg W) sec exc_classifier_id (exc_request (spec_params_b b) W ri e) = Ran t ->
  sec && b_perm (body_of (w_bodies W) t) && ri_deny ri = false ->
  exists rest, st_log (snd (iev_pm (spec_params_b b) W ri site rr sec e st))
               = st_log st ++ EBody t e (seen_snapshot e) :: rest.
Proof.
  intros Hsel Hperm.
  destruct (iev_pm_first_body (spec_params_b b) W ri site rr sec e st t Hsel) as [rest Hr].
  exists rest. rewrite Hr. rewrite (run_body_eq _ _ _ _ _ _ _ _ Hperm). cbn [fst snd].
  rewrite seen_attrs. reflexivity.
Qed.

Theorem gen_iev_first_event b W ri oth site rr sec e st t :
  call_view_sec (spec_params_b b) (w_reg W) sec exc_classifier_id (exc_request (spec_params_b b) W ri e) = Ran t ->
  sec && b_perm (body_of (w_bodies W) t) && ri_deny ri = false ->
  exists rest, st_log (snd (gen_iev (spec_params_b b) W ri oth site rr sec e st))
               = st_log st ++ EBody t e (seen_snapshot e) :: rest.
Proof. intros Hsel Hperm. rewrite gen_iev_is_model. apply iev_pm_first_event; assumption. Qed.

(* non-vacuity in the world whose selected body raises PredicateMismatch (pm_W, Proofs/C14_d.v): the premises hold for
   the exception the request of [search_goes_on] raises, and the rendering has MORE than one body event *)
Example iev_pm_first_event_nonvacuous :
  exists e t, call_view_sec spec_params (w_reg pm_W) true exc_classifier_id (exc_request spec_params pm_W pm_ri e) = Ran t
    /\ true && b_perm (body_of (w_bodies pm_W) t) && ri_deny pm_ri = false
    /\ (2 <= length (st_log (snd (iev_pm spec_params pm_W pm_ri site_tween false true e (mkSt [] [])))))%nat.
Proof.
  pose (es := map x_id (w_excs pm_W)).
  pose (ok := fun e => match call_view_sec spec_params (w_reg pm_W) true exc_classifier_id
                               (exc_request spec_params pm_W pm_ri e) with
                       | Ran t => negb (true && b_perm (body_of (w_bodies pm_W) t) && ri_deny pm_ri)
                                  && Nat.leb 2 (length (st_log (snd (iev_pm spec_params pm_W pm_ri site_tween false true e
                                                                       (mkSt [] [])))))
                       | _ => false end).
  let l := eval vm_compute in (filter ok es) in
  match l with
  | ?e :: _ =>
      exists e;
      match eval vm_compute in (call_view_sec spec_params (w_reg pm_W) true exc_classifier_id
                                  (exc_request spec_params pm_W pm_ri e)) with
      | Ran ?t => exists t
      end
  end.
  split; [vm_compute; reflexivity|]. split; [vm_compute; reflexivity|].
  apply Nat.leb_le. vm_compute. reflexivity.
Qed.
