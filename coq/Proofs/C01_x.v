(* C01, seventh round -- route predicates that are functions of the request (request_param=, xhr=,
   plain or under not_()) and the traverse= pseudo-predicate: meaning of the reference model,
   resolution against the request, end-to-end statement over the program regenerated from the
   source. *)
From Coq Require Import List NArith ZArith Bool Lia Arith.
Import ListNotations.
Require Import Verif.Lib.Wire Verif.Lib.Text Verif.Lib.Utf8
  Verif.Gen.Facts_C01 Verif.Model.C01 Verif.Gen.Prog_C01 Verif.Proofs.C01 Verif.Proofs.C01_b Verif.Proofs.C01_gen.
Local Close Scope N_scope.
Local Open Scope nat_scope.

(* ------------------------------------------------------------ RequestParamPredicate.__call__ regenerated from the source
   (the script takes the loop apart by pattern and case-splits on the ATOMS: the lookup, the
   required value being None / a str, the comparison) *)
Theorem gen_param_call_is_model reqs ps : gen_param_call reqs ps = param_call_model reqs ps.
Proof.
  unfold gen_param_call, param_call_model.
  induction reqs as [|kv r IH]; [reflexivity|].
  cbv beta match fix. cbn [forallb]. unfold param_req_ok at 1.
  destruct (params_get ps (fst kv)) as [a|]; [|reflexivity].
  destruct (snd kv) as [v|]; cbn [is_remainder otext_eqb andb]; [|apply IH].
  destruct (text_eqb_spec a v) as [->|Hn].
  - rewrite ?text_eqb_refl. cbn [andb negb]. apply IH.
  - assert (H1 : text_eqb v a = false) by (apply text_eqb_neq; congruence).
    rewrite ?H1. cbn [andb negb]. reflexivity.
Qed.

(* ------------------------------------------------------------ request.params.get: the LAST value *)
Lemma params_get_fold ps k : forall acc,
  fold_left (fun acc kv => if text_eqb k (fst kv) then Some (snd kv) else acc) ps acc =
  match params_get ps k with Some v => Some v | None => acc end.
Proof.
  unfold params_get. induction ps as [|[k' v'] ps IH]; intros acc; cbn [fold_left fst snd].
  - reflexivity.
  - rewrite IH. rewrite (IH (if text_eqb k k' then Some v' else None)).
    destruct (fold_left _ ps None); [reflexivity|]. destruct (text_eqb k k'); reflexivity.
Qed.

Lemma params_get_cons ps k k' v' :
  params_get ((k', v') :: ps) k =
  match params_get ps k with Some v => Some v | None => if text_eqb k k' then Some v' else None end.
Proof.
  unfold params_get at 1. cbn [fold_left fst snd]. rewrite params_get_fold. reflexivity.
Qed.

Theorem params_get_last ps k v :
  params_get ps k = Some v <->
  exists pre post, ps = pre ++ (k, v) :: post /\ Forall (fun kv => fst kv <> k) post.
Proof.
  split.
  - revert v. induction ps as [|[k' v'] ps IH]; intros v H.
    + discriminate.
    + rewrite params_get_cons in H. destruct (params_get ps k) as [w|] eqn:E.
      * injection H as <-. destruct (IH w eq_refl) as (pre & post & -> & Hp).
        exists ((k', v') :: pre), post. split; [reflexivity|assumption].
      * destruct (text_eqb k k') eqn:Ek; [|discriminate]. injection H as <-.
        apply text_eqb_eq in Ek. subst k'. exists [], ps. split; [reflexivity|].
        clear IH. induction ps as [|[k2 v2] ps IH2]; [constructor|].
        rewrite params_get_cons in E. destruct (params_get ps k) eqn:E2; [discriminate|].
        destruct (text_eqb k k2) eqn:E3; [discriminate|]. constructor.
        -- cbn. apply text_eqb_neq in E3. congruence.
        -- apply IH2. reflexivity.
  - intros (pre & post & -> & Hp). induction pre as [|[k' v'] pre IH].
    + cbn [app]. rewrite params_get_cons.
      assert (E : params_get post k = None).
      { clear -Hp. induction Hp as [|[k2 v2] post H2 _ IH]; [reflexivity|].
        rewrite params_get_cons, IH. cbn in H2. destruct (text_eqb k k2) eqn:E; [|reflexivity].
        apply text_eqb_eq in E. congruence. }
      rewrite E, text_eqb_refl. reflexivity.
    + cbn [app]. rewrite params_get_cons, IH. reflexivity.
Qed.

(* ------------------------------------------------------------ RequestParamPredicate.__call__ *)
Definition param_req_holds (ps : list (text * text)) (kv : text * option text) : Prop :=
  exists a, params_get ps (fst kv) = Some a /\ (snd kv = None \/ snd kv = Some a).

Lemma param_req_ok_spec ps kv : param_req_ok ps kv = true <-> param_req_holds ps kv.
Proof.
  unfold param_req_ok, param_req_holds. destruct (params_get ps (fst kv)) as [a|].
  - destruct (snd kv) as [v|].
    + split.
      * intros H. apply text_eqb_eq in H. subst. exists v. split; [reflexivity|right; reflexivity].
      * intros (a' & Ha & [Hn|Hs]); [discriminate|]. injection Ha as <-. injection Hs as ->. apply text_eqb_refl.
    + split; [intros _; exists a; split; [reflexivity|left; reflexivity]|reflexivity].
  - split; [discriminate|intros (a & Ha & _); discriminate].
Qed.

Theorem param_call_spec reqs ps :
  param_call_model reqs ps = true <-> Forall (param_req_holds ps) reqs.
Proof.
  unfold param_call_model. rewrite forallb_forall, Forall_forall.
  split; intros H x Hx; apply param_req_ok_spec, H, Hx.
Qed.

(* ------------------------------------------------------------ RequestParamPredicate.__init__, one value *)
Lemma split_first_none c s : ~ In c s -> split_first c s = None.
Proof.
  induction s as [|x r IH]; intros H; [reflexivity|]. cbn [split_first].
  destruct (N.eqb_spec x c) as [->|Hn]; [exfalso; apply H; left; reflexivity|].
  rewrite IH; [reflexivity|]. intros Hi. apply H. right. assumption.
Qed.

Lemma split_first_app c a b : ~ In c a -> split_first c (a ++ c :: b) = Some (a, b).
Proof.
  induction a as [|x r IH]; intros H; cbn [app split_first].
  - rewrite N.eqb_refl. reflexivity.
  - destruct (N.eqb_spec x c) as [->|Hn]; [exfalso; apply H; left; reflexivity|].
    rewrite IH; [reflexivity|]. intros Hi. apply H. right. assumption.
Qed.

Theorem param_parse_bare p : ~ In c_eq p -> param_parse p = (p, None).
Proof.
  intros H. destruct p as [|c r]; [reflexivity|]. unfold param_parse.
  destruct (N.eqb_spec c c_eq) as [->|Hn]; [exfalso; apply H; left; reflexivity|].
  rewrite split_first_none; [reflexivity|assumption].
Qed.

Theorem param_parse_kv k v : k <> [] -> ~ In c_eq k ->
  param_parse (k ++ c_eq :: v) = (strip_ws k, Some (strip_ws v)).
Proof.
  intros Hk H. destruct k as [|c r]; [congruence|]. unfold param_parse. cbn [app].
  destruct (N.eqb_spec c c_eq) as [->|Hn]; [exfalso; apply H; left; reflexivity|].
  change (c :: r ++ c_eq :: v) with ((c :: r) ++ c_eq :: v).
  rewrite split_first_app; [reflexivity|assumption].
Qed.

(* '=k=v': a leading '=' belongs to the key *)
Theorem param_parse_eq_key k v : ~ In c_eq k ->
  param_parse (c_eq :: k ++ c_eq :: v) = (strip_ws (c_eq :: k), Some (strip_ws v)).
Proof.
  intros H. unfold param_parse. rewrite N.eqb_refl. rewrite split_first_app; [reflexivity|assumption].
Qed.

(* request_param='k=' : the parameter must be present AND empty (an empty required value is a
   required value) *)
Theorem param_empty_value_required k ps :
  k <> [] -> ~ In c_eq k -> strip_ws k = k ->
  (param_call_model (param_init_model [k ++ [c_eq]]) ps = true <-> params_get ps k = Some []).
Proof.
  intros Hk H Hs. unfold param_init_model. cbn [map].
  rewrite (param_parse_kv k [] Hk H), Hs. change (strip_ws []) with (@nil N).
  rewrite param_call_spec. split.
  - intros HF. inversion HF as [|? ? (a & Ha & Hv) _]; subst. cbn [fst snd] in *.
    destruct Hv as [Hv|Hv]; [discriminate|]. injection Hv as <-. assumption.
  - intros Hg. constructor; [|constructor]. exists []. split; [assumption|right; reflexivity].
Qed.

(* ------------------------------------------------------------ resolution against the request *)
Theorem xresolve_holds e method d x :
  pred_ok method d (xresolve param_call_model e x) = xpred_holds e method d x.
Proof. destruct x; reflexivity. Qed.

Theorem xresolve_all e method d xps :
  forallb (pred_ok method d) (map (xresolve param_call_model e) xps) = forallb (xpred_holds e method d) xps.
Proof.
  induction xps as [|x r IH]; [reflexivity|]. cbn [map forallb]. rewrite xresolve_holds, IH. reflexivity.
Qed.

(* a request_param predicate, plain or negated, holds exactly when the declarative reading of its
   values holds / does not hold of the request's parameters *)
Theorem xparam_holds_iff e method d neg vs :
  xpred_holds e method d (XParam neg vs) = true <->
  (if neg then ~ Forall (param_req_holds (e_params e)) (map param_parse vs)
   else Forall (param_req_holds (e_params e)) (map param_parse vs)).
Proof.
  cbn [xpred_holds]. fold (param_call_model (map param_parse vs) (e_params e)).
  destruct (param_call_model (map param_parse vs) (e_params e)) eqn:E.
  - apply param_call_spec in E. destruct neg; cbn; split; intros H; try assumption; try discriminate; try reflexivity.
    exfalso. apply H. assumption.
  - destruct neg; cbn; split; intros H; try discriminate; try reflexivity.
    + intros HF. apply param_call_spec in HF. congruence.
    + apply param_call_spec in H. congruence.
Qed.

(* ------------------------------------------------------------ end to end, over the regenerated program *)
Lemma xbuild_gen_is_model xs e :
  xbuild gen_param_call gen_nest_prefix gen_prefix_pattern xs e
  = xbuild param_call_model nest_prefix_model prefix_pattern_model xs e.
Proof.
  unfold xbuild. rewrite !map_map. apply map_ext. intros x. unfold xdecl_resolve, effective_decl. f_equal.
  - rewrite gen_prefix_pattern_is_model. f_equal.
    generalize (@None text). induction (x_levels x) as [|p r IH]; intros o; cbn [fold_left]; [reflexivity|].
    rewrite gen_nest_prefix_is_model. apply IH.
  - cbn [d_preds]. apply map_ext. intros q. destruct q; cbn [xresolve]; rewrite ?gen_param_call_is_model; reflexivity.
Qed.

Theorem gen_request_spec_x O e xs method raw m sts :
  let ds := xbuild gen_param_call gen_nest_prefix gen_prefix_pattern xs e in
  sup_with (spec_parse_m O) ds = true ->
  connect_all_f (gen_connect (parse_pattern_m O)) empty_mapper 0 ds = (m, sts) ->
  spec_request_m O (xbuild param_call_model nest_prefix_model prefix_pattern_model xs e) method raw
  = spec_of_outcome (fst (gen_call (match_pat_m O) m method raw)).
Proof.
  intros ds Hs Hc.
  assert (Eds : xbuild param_call_model nest_prefix_model prefix_pattern_model xs e = ds)
    by (symmetry; apply xbuild_gen_is_model).
  rewrite Eds. eapply gen_request_spec_m; eassumption.
Qed.

(* whoever is selected, its predicates -- read declaratively on THIS request -- all hold, and every
   earlier route of the list fails to match or has a predicate that does not hold *)
Theorem gen_dispatch_first_x O e method raw m r d xps :
  fst (gen_call (match_pat_m O) m method raw) = OMatch r d ->
  r_preds r = map (xresolve param_call_model e) xps ->
  forallb (xpred_holds e method d) xps = true.
Proof.
  intros H Hp. destruct (gen_dispatch_first _ _ _ _ _ _ H) as (path & pre & post & _ & _ & _ & _ & Hall).
  rewrite Hp, xresolve_all in Hall. assumption.
Qed.

(* ------------------------------------------------------------ the same about the regenerated predicate call *)
Theorem gen_param_call_spec reqs ps :
  gen_param_call reqs ps = true <->
  Forall (fun kv => exists a, params_get ps (fst kv) = Some a /\ (snd kv = None \/ snd kv = Some a)) reqs.
Proof. rewrite gen_param_call_is_model. exact (param_call_spec reqs ps). Qed.

Theorem gen_param_empty_value_required k ps :
  k <> [] -> ~ In c_eq k -> strip_ws k = k ->
  (gen_param_call (param_init_model [k ++ [c_eq]]) ps = true <-> params_get ps k = Some []).
Proof. rewrite gen_param_call_is_model. exact (param_empty_value_required k ps). Qed.

Theorem gen_xresolve_holds e method d x :
  pred_ok method d (xresolve gen_param_call e x) = xpred_holds e method d x.
Proof. rewrite <- xresolve_holds. destruct x; cbn [xresolve]; rewrite ?gen_param_call_is_model; reflexivity. Qed.

(* ------------------------------------------------------------ traverse= : the dictionary keeps every capture *)
Lemma md_put_absent d k v : dict_get d k = None -> md_put d k v = d ++ [(k, v)].
Proof.
  induction d as [|[k' v'] r IH]; intros H; [reflexivity|]. cbn [md_put dict_get app] in *.
  destruct (text_eqb k k'); [discriminate|]. rewrite IH; [reflexivity|assumption].
Qed.

Lemma dict_get_md_put_other d k v k2 : text_eqb k2 k = false -> dict_get (md_put d k v) k2 = dict_get d k2.
Proof.
  intros H. induction d as [|[k' v'] r IH]; cbn [md_put dict_get].
  - rewrite H. reflexivity.
  - destruct (text_eqb k k') eqn:E; cbn [dict_get].
    + apply text_eqb_eq in E. subst k'. rewrite H. reflexivity.
    + destruct (text_eqb k2 k'); [reflexivity|apply IH].
Qed.

(* what the model does with the outcome of a traverse= route is what the specification asks for:
   every entry of the captured dictionary is kept (also one called 'traverse'), the key
   'traverse' is added when no placeholder has that name *)
Theorem traverse_fix_is_spec xs o :
  spec_of_outcome (traverse_fix xs o) = spec_traverse_fix xs (spec_of_outcome o).
Proof.
  destruct o as [|r d| |]; try reflexivity. cbn [traverse_fix spec_of_outcome spec_traverse_fix].
  destruct (has_traverse_at xs (r_id r)); [|reflexivity].
  destruct (dict_get d key_traverse) eqn:E; [reflexivity|].
  cbn [spec_of_outcome]. rewrite md_put_absent; [reflexivity|assumption].
Qed.

Theorem traverse_fix_keeps_captures xs r d r' d' k :
  traverse_fix xs (OMatch r d) = OMatch r' d' ->
  r' = r /\ (forall v, dict_get d k = Some v -> dict_get d' k = Some v).
Proof.
  cbn [traverse_fix]. destruct (has_traverse_at xs (r_id r)).
  - destruct (dict_get d key_traverse) eqn:E; intros H; injection H as <- <-; (split; [reflexivity|]); intros v Hv; [assumption|].
    destruct (text_eqb k key_traverse) eqn:Ek.
    + apply text_eqb_eq in Ek. subst k. congruence.
    + rewrite dict_get_md_put_other; assumption.
  - intros H; injection H as <- <-. split; [reflexivity|auto].
Qed.

(* ------------------------------------------------------------ eighth round: header= predicates *)
From Coq Require Import Permutation.

Definition header_req_holds (O : oracle) (hs : list (text * text)) (q : hreq) : Prop :=
  exists value, hdr_get hs (fst (fst q)) = Some value /\
    match snd (fst q) with None => True | Some atoms => re_match O atoms value = true end.

Lemma header_req_ok_spec O hs q : header_req_ok O hs q = true <-> header_req_holds O hs q.
Proof.
  unfold header_req_ok, header_req_holds, hdr_mem. destruct (snd (fst q)) as [atoms|]; destruct (hdr_get hs (fst (fst q))) as [v|].
  - split; [intros H; exists v; auto|intros (v' & Hv & H); injection Hv as <-; exact H].
  - split; [discriminate|intros (v' & Hv & _); discriminate].
  - split; [intros _; exists v; auto|reflexivity].
  - split; [discriminate|intros (v' & Hv & _); discriminate].
Qed.

(* the predicate holds iff EVERY requirement holds: a bare name is present, a name with a regex is
   present with a value the regex matches *)
Theorem header_call_spec O reqs hs :
  header_call_model O reqs hs = true <-> Forall (header_req_holds O hs) reqs.
Proof.
  unfold header_call_model. rewrite forallb_forall, Forall_forall.
  split; intros H x Hx; apply header_req_ok_spec, H, Hx.
Qed.

(* the order in which as_sorted_tuple puts the requirements cannot matter *)
Lemma forallb_perm {A} (f : A -> bool) l l' : Permutation l l' -> forallb f l = forallb f l'.
Proof.
  induction 1; cbn [forallb]; try congruence.
  - destruct (f x), (f y); reflexivity.
Qed.

Theorem header_call_order_irrelevant O reqs reqs' hs :
  Permutation reqs reqs' -> header_call_model O reqs hs = header_call_model O reqs' hs.
Proof. apply forallb_perm. Qed.

Theorem param_call_order_irrelevant reqs reqs' ps :
  Permutation reqs reqs' -> param_call_model reqs ps = param_call_model reqs' ps.
Proof. apply forallb_perm. Qed.

(* one requirement that does not hold refutes the predicate, wherever it stands *)
Theorem header_call_all_required O pre q post hs :
  header_req_ok O hs q = false -> header_call_model O (pre ++ q :: post) hs = false.
Proof.
  intros H. unfold header_call_model. rewrite forallb_app. cbn [forallb]. rewrite H.
  destruct (forallb _ pre); reflexivity.
Qed.

(* header names are looked up case-insensitively, '-' and '_' alike *)
Theorem hdr_get_key_only hs n n' : hdr_key n = hdr_key n' -> hdr_get hs n = hdr_get hs n'.
Proof. intros H. induction hs as [|[k v] r IH]; [reflexivity|]. cbn [hdr_get]. rewrite H, IH. reflexivity. Qed.

Theorem xresolve_h_model e x : xresolve_h model_pcalls e x = xresolve param_call_model e x.
Proof. destruct x; reflexivity. Qed.

Lemma xbuild_h_model nf pf xs e : xbuild_h model_pcalls nf pf xs e = xbuild param_call_model nf pf xs e.
Proof.
  unfold xbuild_h, xbuild. f_equal. apply map_ext. intros x. unfold xdecl_resolve_h, xdecl_resolve. do 3 f_equal.
  apply map_ext. intros q. apply xresolve_h_model.
Qed.

(* HeaderPredicate.__call__ / XHRPredicate.__call__ regenerated from the source equal the references
   (loop taken apart by induction; case split on the ATOMS: regex present or not, header lookup,
   membership, regex verdict) *)
Theorem gen_header_call_is_model O reqs hs : gen_header_call O reqs hs = header_call_model O reqs hs.
Proof.
  unfold gen_header_call, header_call_model.
  induction reqs as [|q r IH]; [reflexivity|].
  cbv beta match fix. cbn [forallb]. unfold header_req_ok at 1. unfold hdr_mem.
  destruct (snd (fst q)) as [atoms|].
  - destruct (hdr_get hs (fst (fst q))) as [value|]; [|reflexivity].
    destruct (re_match O atoms value); cbn [andb negb]; [apply IH|reflexivity].
  - destruct (hdr_get hs (fst (fst q))) as [value|]; cbn [andb negb]; [apply IH|reflexivity].
Qed.

Theorem gen_xhr_call_is_model val xhr : gen_xhr_call val xhr = xhr_call_model val xhr.
Proof. unfold gen_xhr_call, xhr_call_model. destruct val, xhr; reflexivity. Qed.

Theorem gen_method_call_is_model val method : gen_method_call val method = method_call_model val method.
Proof. reflexivity. Qed.

Definition gen_pcalls : pcalls := mkPcalls gen_param_call gen_header_call gen_xhr_call gen_method_call.

Lemma xresolve_h_gen_is_model e q : xresolve_h gen_pcalls e q = xresolve param_call_model e q.
Proof.
  (* no [rewrite] for the one-line predicates: their reference is convertible to an instance of the generated term
     with the arguments swapped, which a rewrite up to conversion would hit as well *)
  destruct q as [p|n vs|n b|tp|n vs|n vs]; unfold xresolve_h, xresolve, gen_pcalls; cbn [k_param k_header k_xhr k_method].
  - reflexivity.
  - do 2 f_equal; try reflexivity; exact (gen_param_call_is_model _ _).
  - do 2 f_equal; try reflexivity; exact (gen_xhr_call_is_model _ _).
  - reflexivity.
  - unfold header_verdict. destruct (header_init_model vs); [|reflexivity]. do 2 f_equal; try reflexivity; exact (gen_header_call_is_model _ _ _).
  - do 2 f_equal; try reflexivity; exact (gen_method_call_is_model _ _).
Qed.

Lemma xbuild_h_gen_is_model xs e :
  xbuild_h gen_pcalls gen_nest_prefix gen_prefix_pattern xs e
  = xbuild param_call_model nest_prefix_model prefix_pattern_model xs e.
Proof.
  rewrite <- xbuild_gen_is_model.
  unfold xbuild_h, xbuild. f_equal. apply map_ext. intros x. unfold xdecl_resolve_h, xdecl_resolve. do 3 f_equal.
  apply map_ext. intros q. rewrite xresolve_h_gen_is_model.
  destruct q; cbn [xresolve]; rewrite ?gen_param_call_is_model; reflexivity.
Qed.

(* request_method=: GET implies HEAD; otherwise exactly the listed methods *)
Theorem method_get_implies_head vals :
  mem_text t_GET vals = true -> method_call_model (method_init_model vals) t_HEAD = true.
Proof.
  intros H. unfold method_init_model, method_call_model. rewrite H. cbn [andb].
  destruct (mem_text t_HEAD vals) eqn:E; cbn [negb]; [exact E|].
  unfold mem_text. rewrite existsb_app. cbn [existsb]. rewrite text_eqb_refl. rewrite orb_true_r. reflexivity.
Qed.

Theorem method_init_only_adds_head vals m :
  m <> t_HEAD -> method_call_model (method_init_model vals) m = mem_text m vals.
Proof.
  intros H. unfold method_init_model, method_call_model.
  destruct (mem_text t_GET vals && negb (mem_text t_HEAD vals)); [|reflexivity].
  unfold mem_text. rewrite existsb_app. cbn [existsb].
  apply text_eqb_neq in H. rewrite H. rewrite !orb_false_r. reflexivity.
Qed.

Theorem method_no_get_no_head vals :
  mem_text t_GET vals = false -> method_call_model (method_init_model vals) t_HEAD = mem_text t_HEAD vals.
Proof. intros H. unfold method_init_model, method_call_model. rewrite H. reflexivity. Qed.

(* end to end with every request predicate regenerated *)
Theorem gen_request_spec_y O e xs method raw m sts :
  let ds := xbuild_h gen_pcalls gen_nest_prefix gen_prefix_pattern xs e in
  sup_with (spec_parse_m O) ds = true ->
  connect_all_f (gen_connect (parse_pattern_m O)) empty_mapper 0 ds = (m, sts) ->
  spec_request_m O (xbuild param_call_model nest_prefix_model prefix_pattern_model xs e) method raw
  = spec_of_outcome (fst (gen_call (match_pat_m O) m method raw)).
Proof.
  intros ds Hs Hc. rewrite <- (xbuild_h_gen_is_model xs e). eapply gen_request_spec_m; eassumption.
Qed.

(* what the declarative reading of a header= predicate is *)
Theorem xheader_holds_iff e method d neg vs reqs :
  header_init_model vs = Some reqs ->
  (xpred_holds e method d (XHeader neg vs) = true <->
   (if neg then ~ Forall (header_req_holds (e_orc e) (e_headers e)) reqs
    else Forall (header_req_holds (e_orc e) (e_headers e)) reqs)).
Proof.
  intros Hi. cbn [xpred_holds]. unfold header_verdict. rewrite Hi.
  destruct (header_call_model (e_orc e) reqs (e_headers e)) eqn:E.
  - apply header_call_spec in E. destruct neg; cbn; split; intros H; try assumption; try discriminate; try reflexivity.
    exfalso. apply H. assumption.
  - destruct neg; cbn; split; intros H; try discriminate; try reflexivity.
    + intros HF. apply header_call_spec in HF. congruence.
    + apply header_call_spec in H. congruence.
Qed.

(* the structural fact regenerated on this run: in the whole package only TraversePredicate.__call__
   writes to / hands on the dictionary the route matcher produced *)
Lemma matchdict_single_writer_true : (matchdict_single_writer =? 1)%N = true.
Proof. vm_compute. reflexivity. Qed.

(* ------------------------------------------------------------ ninth round: legacy path=, include overrides *)
From Coq Require Import Sorting.Sorted.

Theorem legacy_pattern_wins p path : legacy_pattern_model (Some p) path = Some p.
Proof. reflexivity. Qed.
Theorem legacy_path_alone path : legacy_pattern_model None path = path.
Proof. reflexivity. Qed.

(* the bw-compat statement of add_route regenerated from the source *)
Theorem gen_legacy_pattern_is_model pattern path : gen_legacy_pattern pattern path = legacy_pattern_model pattern path.
Proof. unfold gen_legacy_pattern, legacy_pattern_model. destruct pattern, path; reflexivity. Qed.

(* which declarations survive the commit, with the index of their declaration: exactly those whose
   verdict is "stands", in declaration order *)
Lemma survivors_char all : forall xs i surv, survivors all i xs = Some surv ->
  forall j x, In (j, x) surv <->
    exists k, j = i + k /\ nth_error xs k = Some x /\ override_verdict all x = Some true.
Proof.
  induction xs as [|y r IH]; intros i surv H j x; cbn [survivors] in H.
  - injection H as <-. split; [intros []|]. intros (k & _ & Hn & _). destruct k; discriminate.
  - destruct (override_verdict all y) as [[|]|] eqn:Ev; [| |discriminate];
      destruct (survivors all (S i) r) as [t|] eqn:Et; try discriminate; injection H as <-.
    + split.
      * intros [Hh|Ht].
        -- injection Hh as <- <-. exists 0. rewrite Nat.add_0_r. auto.
        -- apply (IH _ _ Et) in Ht. destruct Ht as (k & -> & Hn & Hv). exists (S k). split; [lia|auto].
      * intros (k & -> & Hn & Hv). destruct k as [|k].
        -- cbn in Hn. injection Hn as <-. left. rewrite Nat.add_0_r. reflexivity.
        -- right. apply (IH _ _ Et). exists k. split; [lia|auto].
    + split.
      * intros Ht. apply (IH _ _ Et) in Ht. destruct Ht as (k & -> & Hn & Hv). exists (S k). split; [lia|auto].
      * intros (k & -> & Hn & Hv). destruct k as [|k].
        -- cbn in Hn. injection Hn as <-. congruence.
        -- apply (IH _ _ Et). exists k. split; [lia|auto].
Qed.

Lemma survivors_sorted all : forall xs i surv, survivors all i xs = Some surv ->
  StronglySorted lt (map fst surv) /\ Forall (fun j => i <= j) (map fst surv).
Proof.
  induction xs as [|y r IH]; intros i surv H; cbn [survivors] in H.
  - injection H as <-. split; constructor.
  - destruct (override_verdict all y) as [[|]|]; [| |discriminate];
      destruct (survivors all (S i) r) as [t|] eqn:Et; try discriminate; injection H as <-;
      destruct (IH _ _ Et) as [Hs Hf].
    + cbn [map fst]. split.
      * constructor; [assumption|]. eapply Forall_impl; [|exact Hf]. cbn. intros; lia.
      * constructor; [lia|]. eapply Forall_impl; [|exact Hf]. cbn. intros; lia.
    + split; [assumption|]. eapply Forall_impl; [|exact Hf]. cbn. intros; lia.
Qed.

Theorem resolve_overrides_char xs surv : resolve_overrides xs = Some surv ->
  StronglySorted lt (map fst surv)
  /\ forall j x, In (j, x) surv <-> nth_error xs j = Some x /\ override_verdict xs x = Some true.
Proof.
  intros H. split; [apply (survivors_sorted _ _ _ _ H)|].
  intros j x. rewrite (survivors_char _ _ _ _ H). split.
  - intros (k & -> & Hn & Hv). auto.
  - intros [Hn Hv]. exists j. auto.
Qed.

(* a declaration that stands although its name is declared several times is the top-level one *)
Theorem override_survivor_is_top xs x y :
  override_verdict xs x = Some true -> In y xs -> x_same x y = true -> y <> x -> In x xs -> x_top x = true.
Proof.
  unfold override_verdict. intros H Hy Hs Hne Hx.
  destruct (filter (x_same x) xs) as [|a [|b l]] eqn:E.
  - assert (In y (filter (x_same x) xs)) by (apply filter_In; auto). rewrite E in H0. destruct H0.
  - assert (Hy' : In y (filter (x_same x) xs)) by (apply filter_In; auto).
    assert (Hx' : In x (filter (x_same x) xs)) by (apply filter_In; split; [assumption|apply text_eqb_refl]).
    rewrite E in Hy', Hx'. destruct Hy' as [<-|[]]. destruct Hx' as [<-|[]]. congruence.
  - destruct (filter x_top (a :: b :: l)) as [|c [|d l']]; try discriminate. injection H as H. exact H.
Qed.

(* route identities are renamed to declaration indexes: dispatch commutes with the renaming *)
Lemma dispatch_with_ren mt f method path : forall rs,
  dispatch_with mt method (map (ren_route f) rs) path =
  (option_map (fun rd => (ren_route f (fst rd), snd rd)) (fst (dispatch_with mt method rs path)),
   map (fun ev => (f (fst ev), snd ev)) (snd (dispatch_with mt method rs path))).
Proof.
  induction rs as [|r rest IH]; [reflexivity|]. cbn [map dispatch_with]. cbn [ren_route r_pat r_preds r_id].
  destruct (mt (r_pat r) path) as [d|]; [|apply IH].
  destruct (eval_preds method d (r_preds r) 0) as [ok n]. destruct ok; [reflexivity|].
  rewrite IH. destruct (dispatch_with mt method rest path) as [o tr]. reflexivity.
Qed.

Definition ren_outcome (f : nat -> nat) (o : outcome) : outcome :=
  match o with OMatch r d => OMatch (ren_route f r) d | _ => o end.

Theorem gen_call_ren mt f m method raw :
  fst (gen_call mt (ren_mapper f m) method raw) = ren_outcome f (fst (gen_call mt m method raw)).
Proof.
  rewrite !fst_gen_call. unfold dispatch_request_with. destruct (request_path raw); [reflexivity|].
  cbn [ren_mapper routelist]. rewrite dispatch_with_ren.
  destruct (dispatch_with mt method (routelist m) t) as [[[r d]|] tr]; reflexivity.
Qed.

(* end to end for a configuration with include overrides: the survivors, connected in declaration
   order by the regenerated connect and asked through the regenerated __call__ with identities
   renamed to declaration indexes, answer what the specification says of the survivors *)
Theorem gen_request_spec_survivors O f ds method raw m sts :
  sup_with (spec_parse_m O) ds = true ->
  connect_all_f (gen_connect (parse_pattern_m O)) empty_mapper 0 ds = (m, sts) ->
  ren_spec f (spec_request_m O ds method raw)
  = spec_of_outcome (fst (gen_call (match_pat_m O) (ren_mapper f m) method raw)).
Proof.
  intros Hs Hc. rewrite gen_call_ren, (gen_request_spec_m _ _ _ _ _ _ Hs Hc).
  destruct (fst (gen_call (match_pat_m O) m method raw)); reflexivity.
Qed.

(* ------------------------------------------------------------ examples *)
Require Import Coq.Strings.String.
Local Open Scope string_scope.
Example param_empty_value_nonvacuous :
  param_call_model (param_init_model [T "q="]) [(T "q", T "abc")] = false
  /\ param_call_model (param_init_model [T "q="]) [(T "q", [])] = true
  /\ param_call_model (param_init_model [T "q="]) [] = false
  /\ param_call_model (param_init_model [T "q"]) [(T "q", T "abc")] = true
  /\ param_call_model (param_init_model [T " q = a "]) [(T "q", T "b"); (T "q", T "a")] = true
  /\ param_parse (T "=k=1") = (T "=k", Some (T "1")).
Proof. vm_compute. repeat split. Qed.

Example header_nonvacuous :
  let reqs := header_init_model [T "X-Api-Version:2"; T "Authorization"] in
  let O := mkOracle (fun _ => false) (fun _ => false) in
  match reqs with
  | Some rq =>
      header_call_model O rq [(T "authorization", T "Bearer-t"); (T "X_API_VERSION", T "22")] = true
      /\ header_call_model O rq [(T "Authorization", T "Bearer-t")] = false
      /\ header_call_model O rq [(T "Authorization", T "Bearer-t"); (T "X-Api-Version", T "beta")] = false
      /\ header_call_model O rq [(T "X-Api-Version", T "2")] = false
  | None => False
  end.
Proof. vm_compute. repeat split. Qed.
