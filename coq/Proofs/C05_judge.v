(* C05 proofs: the executable judge (the specification run on the implementation's log) accepts the model's
   own traces -- clause J1 (mediation) and clause J2 (refusal), for one-commit programs. *)
From Coq Require Import List NArith ZArith Bool Lia ZifyBool ZifyN Sorting.Permutation.
Import ListNotations.
Require Import Verif.Lib.Wire Verif.Gen.Facts_C03 Verif.Model.C03 Verif.Proofs.C03.
Require Import Verif.Gen.Facts_C05 Verif.Model.C05 Verif.Proofs.C05 Verif.Proofs.C05_cfg Verif.Proofs.C05_seq.
Local Close Scope N_scope.
Local Open Scope nat_scope.

(* ---- equality tests *)
Lemma exc_eqb_refl e : exc_eqb e e = true.
Proof. destruct e; reflexivity. Qed.
Lemma ctx_eqb_refl c : ctx_eqb c c = true.
Proof. destruct c; simpl; [apply N.eqb_refl|apply exc_eqb_refl]. Qed.
Lemma event_eqb_refl e : event_eqb e e = true.
Proof.
  destruct e as [p c b|t c|t c|x]; simpl;
    rewrite ?text_eqb_refl, ?ctx_eqb_refl, ?N.eqb_refl, ?exc_eqb_refl; simpl; try reflexivity.
  destruct b; reflexivity.
Qed.
Lemma existsb_In_event e l : In e l -> existsb (event_eqb e) l = true.
Proof. intros H. apply existsb_exists. exists e. split; [exact H|apply event_eqb_refl]. Qed.

(* ---- statement tags *)
Definition stmt_tag_list (s : stmt) : list N := match stmt_opts s with Some o => [o_tag o] | None => [] end.
Definition stmt_tags (prog : list stmt) : list N := flat_map stmt_tag_list prog.

Lemma in_stmt_tags prog st o : In st prog -> stmt_opts st = Some o -> In (o_tag o) (stmt_tags prog).
Proof.
  intros H Ho. unfold stmt_tags. apply in_flat_map. exists st. split; [exact H|].
  unfold stmt_tag_list. rewrite Ho. left. reflexivity.
Qed.

Lemma find_stmt_unique prog :
  NoDup (stmt_tags prog) -> forall st o, In st prog -> stmt_opts st = Some o -> find_stmt prog (o_tag o) = Some st.
Proof.
  induction prog as [|s r IH]; intros Hn st o Hin Ho; [destruct Hin|].
  cbn [find_stmt]. unfold stmt_tags in Hn. cbn [flat_map] in Hn. fold (stmt_tags r) in Hn.
  destruct Hin as [->|Hin].
  - rewrite Ho, N.eqb_refl. reflexivity.
  - unfold stmt_tag_list in Hn. destruct (stmt_opts s) as [o'|] eqn:Es.
    + cbn [app] in Hn. inversion Hn as [|x l Hx Hl]; subst.
      destruct (N.eqb (o_tag o') (o_tag o)) eqn:E.
      * apply N.eqb_eq in E. exfalso. apply Hx. rewrite E. eapply in_stmt_tags; eauto.
      * apply IH; auto.
    + cbn [app] in Hn. apply IH; auto.
Qed.

Lemma find_stmt_none prog t : ~ In t (stmt_tags prog) -> find_stmt prog t = None.
Proof.
  induction prog as [|s r IH]; intros H; [reflexivity|].
  cbn [find_stmt]. unfold stmt_tags in H. cbn [flat_map] in H. fold (stmt_tags r) in H.
  unfold stmt_tag_list in H. destruct (stmt_opts s) as [o|].
  - destruct (N.eqb (o_tag o) t) eqn:E.
    + apply N.eqb_eq in E. exfalso. apply H. left. exact E.
    + apply IH. intros Hr. apply H. right. exact Hr.
  - apply IH. exact H.
Qed.

(* ---- tags of registrations *)
Lemma rtag_div t eo : N.div (rtag t eo) 2 = t.
Proof. unfold rtag. destruct eo; rewrite N.mul_comm, N.div_add_l by discriminate; simpl; apply N.add_0_r. Qed.
Lemma rtag_odd t eo : N.odd (rtag t eo) = eo.
Proof. unfold rtag. destruct eo; rewrite N.add_comm, N.odd_add_mul_2; reflexivity. Qed.
Lemma rtag_small t eo : (t < builtin_tag)%N -> N.leb (2 * builtin_tag) (rtag t eo) = false.
Proof. intros H. apply N.leb_gt. unfold rtag, builtin_tag in *. destruct eo; lia. Qed.
Lemma stag_rtag t eo : (t < builtin_tag)%N -> stag (rtag t eo) = t.
Proof. intros H. unfold stag. rewrite (rtag_small t eo H). apply rtag_div. Qed.

(* ---- what a directive registers, read declaratively *)
Lemma static_default_npr : static_none_default = no_permission_required.
Proof. vm_compute. reflexivity. Qed.

Lemma strip_npr_marker : strip_npr (Some no_permission_required) = None.
Proof. unfold strip_npr. rewrite npr_is_npr. reflexivity. Qed.

Lemma force_perm f o : In f [forced_forbidden; forced_notfound; forced_excview] ->
  o_perm (force f o) = Some no_permission_required.
Proof. intros Hf. rewrite (forced_ok f Hf). reflexivity. Qed.

Lemma directive_view st0 s o b :
  directive st0 s = Some (AView o b) ->
  exists o0, stmt_opts s = Some o0 /\ o_tag o = o_tag o0 /\ o_isexc o = o_isexc o0 /\ o_behave o = o_behave o0 /\
    forall prog eo, var_ok eo o ->
      secured_permission (mkRS true (declared_defperm prog)) eo (o_perm o) = spec_eff prog s eo.
Proof.
  destruct s as [t c|p t c| |o0|o0|o0 a|o0|o0]; unfold directive; intros H.
  - destruct (c && negb (ctor_policy_is_none_test || t)); discriminate H.
  - destruct (c && negb (ctor_defperm_is_none_test || t)); discriminate H.
  - discriminate H.
  - inversion H; subst. exists o0. repeat split.
    intros prog eo Hv. rewrite secured_permission_declarative. cbn [spec_eff].
    destruct (o_perm (viewdefaults o0)); [reflexivity|]. destruct eo; [rewrite orb_true_r; reflexivity|].
    unfold var_ok in Hv. cbn in Hv. rewrite Hv. reflexivity.
  - inversion H; subst. exists o0. repeat split.
    intros prog eo Hv. rewrite secured_permission_declarative, force_perm by (simpl; auto).
    rewrite strip_npr_marker. reflexivity.
  - destruct a; inversion H; subst; exists o0; repeat split;
      intros prog eo Hv; rewrite secured_permission_declarative, force_perm by (simpl; auto);
      rewrite strip_npr_marker; reflexivity.
  - inversion H; subst. exists o0. repeat split.
    intros prog eo Hv. rewrite secured_permission_declarative, force_perm by (simpl; auto).
    rewrite strip_npr_marker. reflexivity.
  - inversion H; subst. exists o0. repeat split.
    intros prog eo Hv. rewrite secured_permission_declarative. cbn [spec_eff with_perm o_perm].
    destruct (o_perm o0) as [p|]; [reflexivity|]. rewrite static_default_npr, strip_npr_marker. reflexivity.
Qed.

(* ---- hypotheses on a one-commit program (what the generator guarantees) *)
Record prog_ok (prog : list stmt) : Prop := mkOK {
  ok_tags : NoDup (stmt_tags prog);
  ok_small : forall t, In t (stmt_tags prog) -> (t < builtin_tag)%N;
  ok_policy : forall s, In s prog -> is_policy_stmt s = true -> policy_kept s = true;
  ok_defperm : forall p t c, In (SDefPerm p t c) prog ->
                 (c && negb (ctor_defperm_is_none_test || t)) = false /\ declared_defperm prog = Some p
}.

Lemma policy_state prog : (forall s, In s prog -> is_policy_stmt s = true -> policy_kept s = true) ->
  existsb policy_kept prog = policy_declared prog.
Proof.
  unfold policy_declared. induction prog as [|s r IH]; intros H; simpl; [reflexivity|].
  rewrite IH by (intros x Hx; apply H; right; exact Hx). f_equal.
  destruct (is_policy_stmt s) eqn:E; [apply H; [left; reflexivity|exact E]|].
  destruct s; simpl in *; try reflexivity. discriminate E.
Qed.

Lemma declared_none prog : declared_defperm prog = None -> forall p t c, ~ In (SDefPerm p t c) prog.
Proof.
  induction prog as [|s r IH]; intros H p t c Hin; [destruct Hin|].
  destruct Hin as [->|Hin]; [discriminate H|].
  destruct s; simpl in H; try (eapply IH; eauto; fail). discriminate H.
Qed.

Lemma declared_some prog p : declared_defperm prog = Some p -> exists t c, In (SDefPerm p t c) prog.
Proof.
  induction prog as [|s r IH]; intros H; [discriminate H|].
  destruct s; simpl in H; try (destruct (IH H) as (t' & c' & Hin); exists t', c'; right; exact Hin; fail).
  inversion H; subst. eexists _, _. left. reflexivity.
Qed.

Lemma directive_defperm st0 s q : directive st0 s = Some (ADefPerm q) -> exists t c, s = SDefPerm q t c.
Proof.
  destruct s as [t c|p t c| |o0|o0|o0 a|o0|o0]; unfold directive; intros H; try discriminate H.
  - destruct (c && negb (ctor_policy_is_none_test || t)); discriminate H.
  - destruct (c && negb (ctor_defperm_is_none_test || t)); [discriminate H|]. inversion H; subst. eauto.
  - destruct a; discriminate H.
Qed.

Lemma in_somes5_map_intro {A B} (f : A -> option B) l x y : In x l -> f x = Some y -> In y (somes5 (map f l)).
Proof.
  induction l as [|z r IH]; intros Hin Hf; [destruct Hin|]. simpl.
  destruct Hin as [->|Hin]; [rewrite Hf; left; reflexivity|].
  destruct (f z); [right|]; auto.
Qed.

Lemma defperm_state s prog : prog_ok prog -> rs_defperm (cs_rs s) = None ->
  rs_defperm (cs_rs (commit s prog)) = declared_defperm prog.
Proof.
  intros OK H0. destruct (declared_defperm prog) as [p|] eqn:Ed.
  - apply commit_defperm.
    + intros q Hq. apply in_somes5_map in Hq. destruct Hq as (st & Hs & Hd).
      apply directive_defperm in Hd. destruct Hd as (t & c & ->).
      destruct (ok_defperm _ OK _ _ _ Hs) as [_ E]. congruence.
    + destruct (declared_some _ _ Ed) as (t & c & Hin).
      eapply in_somes5_map_intro; [exact Hin|]. unfold directive.
      destruct (ok_defperm _ OK _ _ _ Hin) as [-> _]. reflexivity.
  - unfold commit, batch_actions. rewrite (fold_defperm _ []).
    + replace (existsb _ _) with false; [exact H0|]. symmetry. apply not_true_is_false. intros Hx.
      apply existsb_exists in Hx. destruct Hx as (a & Ha & Hb).
      apply (Permutation_in _ (isort_perm action_leb _)) in Ha.
      destruct a as [|q|o b]; try discriminate Hb.
      apply in_somes5_map in Ha. destruct Ha as (st & Hs & Hd).
      apply directive_defperm in Hd. destruct Hd as (t & c & ->). eapply declared_none; eauto.
    + intros q Hq. exfalso. apply (Permutation_in _ (isort_perm action_leb _)) in Hq.
      apply in_somes5_map in Hq. destruct Hq as (st & Hs & Hd).
      apply directive_defperm in Hd. destruct Hd as (t & c & ->). eapply declared_none; eauto.
Qed.

(* ---- the table of the constructor's state holds only the built-in views *)
Lemma init_tags irq ier iw rt d : In (rt, d) (cs_D (init_state irq ier iw)) -> N.leb (2 * builtin_tag) rt = true.
Proof.
  unfold init_state. cbn [fold_left exec_action]. intros H.
  apply exec_view_D' in H. destruct H as [H|(eo & _ & -> & _)].
  - apply exec_view_D' in H. destruct H as [H|(eo & _ & -> & _)]; [destruct H|].
    destruct eo; vm_compute; reflexivity.
  - destruct eo; vm_compute; reflexivity.
Qed.

(* ---- the link: for a registration that came out of the program, the closed-over permission is the
   property's [protected], provided the variant is the one the judge infers from the context *)
Lemma table_link irq ier iw prog rt d c p :
  prog_ok prog ->
  let s := commit (init_state irq ier iw) prog in
  In (rt, d) (cs_D s) ->
  variant_ev prog (Body rt c) = true ->
  protected prog (stag rt) c = Some p -> d_perm d = Some p.
Proof.
  intros OK s Hin Hv Hp.
  destruct (commit_table _ _ _ _ Hin) as [H0|(st & eo & o & b & Hs & Hd & -> & Hperm & _ & Hvar)].
  - (* built-in view: no statement carries its tag *)
    exfalso. apply init_tags in H0. unfold stag in Hp. rewrite H0 in Hp. unfold protected in Hp.
    rewrite find_stmt_none in Hp; [destruct (policy_declared prog); discriminate Hp|].
    intros Ht. apply (ok_small _ OK) in Ht. unfold builtin_tag in Ht. lia.
  - destruct (directive_view _ _ _ _ Hd) as (o0 & Ho & Et & Ei & _ & Hspec).
    assert (Hsmall : (o_tag o < builtin_tag)%N) by (rewrite Et; apply (ok_small _ OK); eapply in_stmt_tags; eauto).
    assert (Hf : find_stmt prog (o_tag o) = Some st) by (rewrite Et; apply find_stmt_unique; [apply (ok_tags _ OK)|exact Hs|exact Ho]).
    rewrite (stag_rtag _ eo Hsmall) in Hp. unfold protected in Hp. rewrite Hf in Hp.
    unfold variant_ev in Hv. rewrite (rtag_small _ eo Hsmall), rtag_div, Hf, rtag_odd in Hv.
    apply eqb_prop in Hv. rewrite Hv in Hp.
    destruct (policy_declared prog) eqn:Epol; [|discriminate Hp].
    rewrite Hperm.
    assert (Ers : cs_rs s = mkRS true (declared_defperm prog)).
    { destruct (cs_rs s) as [pol dq] eqn:E. f_equal.
      - change pol with (rs_policy (mkRS pol dq)). rewrite <- E. unfold s. rewrite commit_policy.
        rewrite (policy_state prog (ok_policy _ OK)), Epol. apply orb_true_r.
      - change dq with (rs_defperm (mkRS pol dq)). rewrite <- E. unfold s. apply defperm_state; [exact OK|].
        vm_compute. reflexivity. }
    fold s. rewrite Ers, (Hspec prog eo Hvar). exact Hp.
Qed.

(* ================================================================== *)
(* clause J1 of the judge accepts the model's trace *)

Lemma permits_in_proj p c b l : In (Permits p c b) l -> In (Permits p c b) (proj_trace l).
Proof. intros H. unfold proj_trace. apply in_flat_map. exists (Permits p c b). split; [exact H|left; reflexivity]. Qed.

Lemma j1_sound prog D tr : forall seen,
  guarded_from D seen tr ->
  (forall rt c, In (Body rt c) tr \/ In (Deco rt c) tr ->
     forall p d, protected prog (stag rt) c = Some p -> assocN rt D = Some d -> d_perm d = Some p) ->
  j1 prog (proj_trace seen) (proj_trace tr) = true.
Proof.
  induction tr as [|e r IH]; intros seen G L; [reflexivity|].
  destruct G as [G1 G2].
  assert (IHr : j1 prog (proj_trace (e :: seen)) (proj_trace r) = true).
  { apply IH; [exact G2|]. intros rt c H. apply L. destruct H; [left|right]; right; assumption. }
  assert (Hchk : forall t c, (e = Body t c \/ e = Deco t c) ->
            match protected prog (stag t) c with
            | Some p => existsb (event_eqb (Permits p c true)) (proj_trace seen)
            | None => true
            end = true).
  { intros t c He. destruct (protected prog (stag t) c) as [p|] eqn:Ep; [|reflexivity].
    apply existsb_In_event, permits_in_proj.
    assert (G1' : (exists d, assocN t D = Some d) /\
                  forall d p, assocN t D = Some d -> d_perm d = Some p -> In (Permits p c true) seen)
      by (destruct He as [->| ->]; exact G1).
    destruct G1' as [[d Hd] Hin]. apply (Hin d p Hd).
    eapply L; [|exact Ep|exact Hd]. destruct He as [->| ->]; [left|right]; left; reflexivity. }
  unfold proj_trace in *. cbn [flat_map] in *.
  destruct e as [p c b|t c|t c|x]; cbn [proj_event] in *.
  - cbn [app j1] in *. exact IHr.
  - cbn [app j1] in *. rewrite (Hchk t c) by (right; reflexivity). exact IHr.
  - destruct (N.leb (2 * builtin_tag) t); cbn [app j1] in *; [exact IHr|].
    rewrite (Hchk t c) by (left; reflexivity). exact IHr.
  - cbn [app j1] in *. exact IHr.
Qed.

Lemma variant_ev_in prog tr rt c :
  variant_okb prog tr = true -> In (Body rt c) tr \/ In (Deco rt c) tr -> variant_ev prog (Body rt c) = true.
Proof.
  unfold variant_okb. rewrite forallb_forall. intros H [Hin|Hin]; [exact (H _ Hin)|].
  change (variant_ev prog (Body rt c)) with (variant_ev prog (Deco rt c)). exact (H _ Hin).
Qed.

(* for every one-commit program within the hypotheses, every decision table and request: the mediation clause of the
   judge, evaluated on the observable projection of the model's trace, holds *)
Lemma judge_j1_sound irq ier iw prog tb q :
  prog_ok prog ->
  let s := commit (init_state irq ier iw) prog in
  let tr := fst (run_request s tb q) in
  variant_okb prog tr = true -> j1 prog [] (proj_trace tr) = true.
Proof.
  intros OK s tr Hv. apply (j1_sound prog (cs_D s) tr []).
  - apply router_guarded.
  - intros rt c Hin p d Hp Hd. eapply (table_link irq ier iw prog rt d c p OK).
    + apply assocN_In. exact Hd.
    + eapply variant_ev_in; eauto.
    + exact Hp.
Qed.

(* ================================================================== *)
(* clause J2 of the judge accepts the model's trace: result 0, or 4 (refusal while an exception view was rendered) *)

Definition is_raised_ev (e : event) : bool := match e with Raised _ => true | _ => false end.

Lemma refusal_last_proj tr o : refusal_last tr o -> refusal_last (proj_trace tr) o.
Proof.
  induction tr as [|e r IH]; intros H; [exact I|].
  change (proj_trace (e :: r)) with (proj_event e ++ proj_trace r).
  destruct e as [p c [|]|t c|t c|x].
  - exact (IH H).
  - destruct H as [-> ->]. split; reflexivity.
  - exact (IH H).
  - cbn [proj_event]. destruct (N.leb (2 * builtin_tag) t); [exact (IH H)|exact (IH H)].
  - exact (IH H).
Qed.

Lemma j2_no_refusal fin tr : forall o ie rest,
  refusal_last tr o -> o <> Raise EForbidden ->
  j2 fin false ie (tr ++ rest) = j2 fin false (ie || existsb is_raised_ev tr) rest.
Proof.
  induction tr as [|e r IH]; intros o ie rest H Hne; simpl; [rewrite orb_false_r; reflexivity|].
  destruct e as [p c [|]|t c|t c|x]; simpl in H |- *.
  - eapply IH; eauto.
  - destruct H as [_ H]. contradiction.
  - eapply IH; eauto.
  - eapply IH; eauto.
  - rewrite (IH o true rest H Hne). rewrite orb_true_r. reflexivity.
Qed.

Lemma j2_refusal_end fin tr : forall ie rest,
  refusal_last tr (Raise EForbidden) ->
  j2 fin false ie (tr ++ rest) = j2 fin false (ie || existsb is_raised_ev tr) rest \/
  exists ie', j2 fin false ie (tr ++ rest) = j2 fin true ie' rest /\ (ie = true -> ie' = true).
Proof.
  induction tr as [|e r IH]; intros ie rest H; simpl; [left; rewrite orb_false_r; reflexivity|].
  destruct e as [p c [|]|t c|t c|x]; simpl in H |- *.
  - apply IH; exact H.
  - destruct H as [-> _]. right. exists ie. split; [reflexivity|auto].
  - apply IH; exact H.
  - apply IH; exact H.
  - destruct (IH true rest H) as [E|(ie' & E & Hi)].
    + left. rewrite E, orb_true_r. reflexivity.
    + right. exists ie'. split; [exact E|]. intros _. apply Hi. reflexivity.
Qed.

Lemma j2_segment fin tr o ie rest :
  refusal_last tr o ->
  (exists ie', j2 fin false ie (tr ++ rest) = j2 fin false ie' rest /\ (ie = true -> ie' = true)) \/
  (o = Raise EForbidden /\ exists ie', j2 fin false ie (tr ++ rest) = j2 fin true ie' rest /\ (ie = true -> ie' = true)).
Proof.
  intros H. destruct o as [t|e| |].
  - left. eexists. split; [eapply j2_no_refusal; [exact H|discriminate]|]. intros ->. reflexivity.
  - destruct e; try (left; eexists; split; [eapply j2_no_refusal; [exact H|discriminate]|intros ->; reflexivity]).
    destruct (j2_refusal_end fin tr ie rest H) as [E|(ie' & E & Hi)].
    + left. eexists. split; [exact E|]. intros ->. reflexivity.
    + right. split; [reflexivity|]. exists ie'. auto.
  - left. eexists. split; [eapply j2_no_refusal; [exact H|discriminate]|]. intros ->. reflexivity.
  - left. eexists. split; [eapply j2_no_refusal; [exact H|discriminate]|]. intros ->. reflexivity.
Qed.

Lemma judge_j2_sound R D tb q :
  let tr := fst (router_call R D tb q) in
  let fin := snd (router_call R D tb q) in
  j2 (proj_final fin) false false (proj_trace tr) = 0%N \/ j2 (proj_final fin) false false (proj_trace tr) = 4%N.
Proof.
  intros tr fin. subst tr fin.
  destruct (router_split R D tb q) as (tr1 & o1 & _ & [_ (R1 & _ & _)] & Hr). simpl in R1.
  apply refusal_last_proj in R1.
  destruct o1 as [t|e| |].
  - rewrite Hr. simpl fst. simpl snd.
    rewrite <- (app_nil_r (proj_trace tr1)), (j2_no_refusal _ _ _ _ _ R1) by discriminate. left. reflexivity.
  - destruct Hr as (tr2 & o2 & _ & [_ (R2 & _ & _)] & Ht & Hf & _). simpl in R2. apply refusal_last_proj in R2.
    rewrite Ht. unfold proj_trace. rewrite flat_map_app. cbn [flat_map proj_event app]. fold (proj_trace tr1) (proj_trace tr2).
    set (fin := proj_final (snd (router_call R D tb q))).
    assert (Hstep : j2 fin false false (proj_trace tr1 ++ Raised e :: proj_trace tr2) = j2 fin false true (proj_trace tr2)).
    { destruct (j2_segment fin (proj_trace tr1) (Raise e) false (Raised e :: proj_trace tr2) R1)
        as [(ie' & E & _)|(Ee & ie' & E & _)].
      - rewrite E. simpl. destruct e; reflexivity.
      - rewrite E. inversion Ee; subst e. reflexivity. }
    rewrite Hstep.
    rewrite <- (app_nil_r (proj_trace tr2)).
    destruct (j2_segment fin (proj_trace tr2) o2 true [] R2) as [(ie' & E & _)|(Eo & ie' & E & Hi)].
    + rewrite E. left. reflexivity.
    + rewrite E, (Hi eq_refl). right. unfold fin. rewrite (Hf Eo). reflexivity.
  - rewrite Hr. simpl fst. simpl snd.
    rewrite <- (app_nil_r (proj_trace tr1)), (j2_no_refusal _ _ _ _ _ R1) by discriminate. left. reflexivity.
  - rewrite Hr. simpl fst. simpl snd.
    rewrite <- (app_nil_r (proj_trace tr1)), (j2_no_refusal _ _ _ _ _ R1) by discriminate. left. reflexivity.
Qed.
