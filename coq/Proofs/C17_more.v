(* C17 -- proof-only round: (1) the *_path function forms of pyramid.url, AS REGENERATED, equal the *_url function forms
   minus scheme://authority -- one statement over the route / static / current-route pairs; (2) totality of static_url for
   an asset registered under a URL. *)
From Coq Require Import List NArith ZArith Bool Lia.
Import ListNotations.
Require Import Verif.Lib.Wire Verif.Lib.Text Verif.Lib.Utf8 Verif.Lib.Percent
               Verif.Gen.Facts_C17 Verif.Model.C17 Verif.Model.C17_glue Verif.Gen.Code_C17
               Verif.Proofs.C17 Verif.Proofs.C17_gen Verif.Proofs.C17_gen2 Verif.Proofs.C17_total.
Open Scope N_scope.

Lemma static_x_route_path_minus_authority e rs regs path o kw sub s rname u :
  find_reg_x regs path = Some (sub, RRoute s rname) ->
  o_app_url o = None -> static_url_x e rs regs path o kw = Ok u ->
  exists p, static_path_x e rs regs path o kw = Ok p /\ u = host_part e o ++ p.
Proof.
  intros Hf Ho H. unfold static_url_x in H. rewrite Hf in H.
  destruct (route_path_is_url_minus_authority _ _ _ _ _ _ _ _ Ho H) as (p & Hp & E).
  exists p. split; [|exact E]. unfold static_path_x. unfold route_path in Hp.
  change (path_app_url static_path_script_quoted e) with (path_app_url route_path_script_quoted e).
  destruct (path_app_url route_path_script_quoted e) as [a|]; cbn [rbind] in *; [|discriminate].
  unfold static_url_x. rewrite Hf. exact Hp.
Qed.

Lemma current_route_url_x_plain c e xs rs rname matched md gt els o kw :
  (forall n, assoc n xs = None) ->
  current_route_url_x c e xs rs rname matched md gt els o kw = current_route_url c e rs rname matched md gt els o kw.
Proof.
  intros Hx. unfold current_route_url_x, current_route_url.
  destruct (match rname with Some n => Some n | None => matched end); [|reflexivity]. apply route_url_x_plain, Hx.
Qed.

(* the function forms pyramid.url.route_path / static_path / current_route_path, as regenerated from the source, are the
   function forms route_url / static_url / current_route_url minus scheme://authority (ordinary routes; an asset below a route
   registration) *)
Theorem gen_fn_paths_are_urls_minus_authority :
  (forall c e xs rs n els o kw u,
     assoc n xs = None -> o_app_url o = None -> gen_fn_route_url c e xs rs n els o kw = Ok u ->
     exists p, gen_fn_route_path c e xs rs n els o kw = Ok p /\ u = host_part e o ++ p)
  /\ (forall e rs regs path o kw sub s rname u,
        find_reg_x regs path = Some (sub, RRoute s rname) -> o_app_url o = None ->
        gen_fn_static_url e rs regs path o kw = Ok u ->
        exists p, gen_fn_static_path e rs regs path o kw = Ok p /\ u = host_part e o ++ p)
  /\ (forall c e xs rs rname matched md gt els o kw u,
        (forall n, assoc n xs = None) -> o_app_url o = None ->
        gen_fn_current_route_url c e xs rs rname matched md gt els o kw = Ok u ->
        exists p, gen_fn_current_route_path c e xs rs rname matched md gt els o kw = Ok p /\ u = host_part e o ++ p).
Proof.
  split; [|split].
  - intros c e xs rs n els o kw u Hx Ho H. rewrite gen_fn_route_url_is_model, route_url_x_plain in H by assumption.
    rewrite gen_fn_route_path_is_model, route_path_x_plain by assumption. apply route_path_is_url_minus_authority; assumption.
  - intros e rs regs path o kw sub s rname u Hf Ho H. rewrite gen_fn_static_url_is_model in H. rewrite gen_fn_static_path_is_model.
    eapply static_x_route_path_minus_authority; eassumption.
  - intros c e xs rs rname matched md gt els o kw u Hx Ho H.
    rewrite gen_fn_current_route_url_is_model, current_route_url_x_plain in H by assumption.
    rewrite gen_fn_current_route_path_is_model, <- gen_current_route_path_is_model.
    apply gen_current_route_path_is_url_minus_authority; assumption.
Qed.

(* totality for an asset registered under a URL: the registered URL only has to be splittable (no unbalanced '[' / ']'
   in its authority -- urlparse raises ValueError otherwise, at generation time) *)
Theorem static_url_x_external_total e rs regs path o kw sub s url :
  find_reg_x regs path = Some (sub, RExt s url) ->
  (exists pr, urlparse [] url = Ok pr) ->
  must_static e rs regs path o kw = true -> exists u, static_url_x e rs regs path o kw = Ok u.
Proof.
  intros Hf (pr & Hpr) H. unfold must_static in H. rewrite Hf in H.
  repeat match goal with X : _ && _ = true |- _ => apply andb_true_iff in X; destruct X end.
  unfold static_url_x. rewrite Hf. unfold static_external.
  destruct (parse_url_overrides_total e o) as ([[ap qs] fr] & ->); try assumption. cbn [rbind].
  rewrite Hpr. cbn [rbind]. rewrite (c17_utf8_enc_total sub) by assumption. cbn [rbind].
  rewrite Facts_ok_static_external_join. cbn [rbind]. eauto.
Qed.

(* .. and the hypothesis on the registered URL cannot be dropped *)
Example static_url_x_external_needs_splittable_url :
  let e := mkEnv [104;116;116;112] None [108] [56;48] [] in
  let regs := [RExt [112;58;97;47] [104;116;116;112;58;47;47;91;104;47]] in          (* http://[h/ *)
  let o := mkOv None None None None None None in
  must_static e [] regs [112;58;97;47;120] o [] = true /\ static_url_x e [] regs [112;58;97;47;120] o [] = Err EVal.
Proof. vm_compute. split; reflexivity. Qed.

Example static_url_x_external_total_example :
  let e := mkEnv [104;116;116;112] None [108] [56;48] [] in
  let regs := [RExt [112;58;97;47] [47;47;99;100;110;47;115;47]] in                    (* //cdn/s/ *)
  let o := mkOv None None None None None None in
  must_static e [] regs [112;58;97;47;120;32;121] o [] = true
  /\ static_url_x e [] regs [112;58;97;47;120;32;121] o [] = Ok [104;116;116;112;58;47;47;99;100;110;47;115;47;120;37;50;48;121].
Proof. vm_compute. split; reflexivity. Qed.
