(* C03 -- ties inside a MultiView after in-place replacements.  A re-registration whose phash is already in
   [views] (an override; order a function of the phash) replaces the entry IN PLACE: the sequence of
   (order, phash) pairs of [views] -- hence the relative position of entries of equal order -- is unchanged,
   whatever accept= the re-registration carries and however many there are.  Together with
   multiview_ties_in_registration_order (Proofs/C03_ph.v): among entries of equal order the list order is the order
   of FIRST registration of each phash. *)
From Coq Require Import List NArith ZArith Bool Lia.
Import ListNotations.
Require Import Verif.Lib.Wire Verif.Lib.Text Verif.Gen.Facts_C03 Verif.Model.C03 Verif.Proofs.C03 Verif.Proofs.C03_w
               Verif.Proofs.C03_ph Verif.Proofs.C03_loc.

Definition e_key (e : entry) : Z * text := (e_order e, e_phash e).

Lemma replace_keeps_keys ph o v l l' :
  replace_phash ph (o, v, ph) l = Some l' ->
  (forall e, In e l -> e_phash e = ph -> e_order e = o) ->
  map e_key l' = map e_key l.
Proof.
  revert l'. induction l as [|e l IH]; simpl; intros l' H Ho; [discriminate|].
  destruct (text_eqb_spec ph (e_phash e)) as [E|E].
  - inversion H; subst l'. cbn [map]. f_equal. change (e_key (o, v, ph)) with (o, ph). unfold e_key.
    rewrite (Ho e (or_introl eq_refl) (eq_sym E)), <- E. reflexivity.
  - destruct (replace_phash ph (o, v, ph) l) as [r'|] eqn:R; [|discriminate].
    inversion H; subst l'. cbn [map]. f_equal. apply IH; [reflexivity|]. intros x Hx. apply Ho. right. exact Hx.
Qed.

Lemma replace_some_if_present ph new l : In ph (map e_phash l) -> exists l', replace_phash ph new l = Some l'.
Proof.
  induction l as [|e l IH]; simpl; intros H; [contradiction|].
  destruct (text_eqb_spec ph (e_phash e)) as [E|E]; [eexists; reflexivity|].
  destruct H as [H|H]; [congruence|]. destruct (IH H) as [l' R]. rewrite R. eexists; reflexivity.
Qed.

Lemma keys_phashes l : map e_phash l = map snd (map e_key l).
Proof. rewrite map_map. reflexivity. Qed.

Theorem readd_keeps_positions f m v ph acc ao :
  mv_sorted f m -> In ph (map e_phash (mv_views m)) ->
  map e_key (mv_views (mv_add m v (f ph) ph acc ao)) = map e_key (mv_views m)
  /\ mv_media (mv_add m v (f ph) ph acc ao) = mv_media m /\ mv_accepts (mv_add m v (f ph) ph acc ao) = mv_accepts m.
Proof.
  intros ((_ & Hf & _) & _) Hin. destruct (replace_some_if_present ph (f ph, v, ph) _ Hin) as [l' R].
  unfold mv_add. rewrite R. cbn [mv_views mv_media mv_accepts]. split; [|split; reflexivity].
  eapply replace_keeps_keys; [exact R|]. intros e He E. rewrite (Hf e He), E. reflexivity.
Qed.

Definition is_readd (f : text -> Z) (m : mview) (a : add_args) : Prop :=
  let '(_, order, phash, _, _) := a in order = f phash /\ In phash (map e_phash (mv_views m)).

Theorem readds_keep_positions f readds : forall m,
  mv_sorted f m -> Forall (is_readd f m) readds ->
  map e_key (mv_views (fold_left mv_add_args readds m)) = map e_key (mv_views m).
Proof.
  induction readds as [|a readds IH]; intros m Hm Hr; [reflexivity|].
  inversion Hr as [|? ? Ha Hr']; subst. destruct a as [[[[v o] ph] acc] ao]. destruct Ha as [Ho Hin]. subst o.
  cbn [fold_left mv_add_args].
  destruct (readd_keeps_positions f m v ph acc ao Hm Hin) as (K & _ & _).
  rewrite IH; [exact K|apply mv_add_sorted; [reflexivity|exact Hm]|].
  eapply Forall_impl; [|exact Hr']. intros [[[[v' o'] ph'] acc'] ao'] [Ho' Hin']. split; [exact Ho'|].
  rewrite keys_phashes, K, <- keys_phashes. exact Hin'.
Qed.

(* ties: the entries of any given order keep their relative positions through any number of re-registrations *)
Lemma filter_keys k l :
  filter (fun kp : Z * text => Z.eqb (fst kp) k) (map e_key l) = map e_key (filter (same_order k) l).
Proof.
  induction l as [|e l IH]; [reflexivity|]. cbn [map filter]. unfold same_order at 1. cbn [e_key fst].
  destruct (Z.eqb (e_order e) k); cbn [map]; rewrite IH; reflexivity.
Qed.

Theorem ties_in_first_registration_order f (adds : list (reg * Z * text)) readds k :
  let m0 := fold_left mv_add_args (map plain_add adds) mv_empty in
  NoDup (map (fun a => snd a) adds) ->
  Forall (fun a : reg * Z * text => snd (fst a) = f (snd a)) adds ->
  Forall (is_readd f m0) readds ->
  filter (fun kp : Z * text => Z.eqb (fst kp) k) (map e_key (mv_views (fold_left mv_add_args readds m0)))
  = map e_key (filter (same_order k) (map add_entry adds)).
Proof.
  intros m0 Hnd Hf Hr.
  assert (Hs : mv_sorted f m0).
  { apply multiview_sorted. clear -Hf. induction adds as [|[[v o] ph] adds IH]; [constructor|].
    inversion Hf; subst. constructor; [assumption|apply IH; assumption]. }
  rewrite (readds_keep_positions f readds m0 Hs Hr), filter_keys.
  unfold m0. rewrite (multiview_ties_in_registration_order adds k Hnd). reflexivity.
Qed.

(* non-vacuity: one view, then an override of it with another body and accept= *)
Example readds_nonvacuous :
  let f := fun _ : text => 7%Z in
  let m0 := fold_left mv_add_args (map plain_add [(w_v1, 7%Z, [1%N])]) mv_empty in
  mv_sorted f m0 /\ is_readd f m0 (w_v2, 7%Z, [1%N], None, None).
Proof.
  intros f m0. split.
  - apply multiview_sorted. repeat constructor.
  - split; [reflexivity|]. vm_compute. left. reflexivity.
Qed.
