(* C20 -- the keys of the relation table `_refs` are pairwise distinct in EVERY reachable state (no hypothesis on the
   objects): first step towards the `remove` case of the relation theorems. *)
From Coq Require Import List NArith ZArith Bool.
Import ListNotations.
Require Import Verif.Lib.Wire Verif.Lib.C20Types Verif.Gen.Facts_C20 Verif.Model.C20 Verif.Proofs.C20 Verif.Proofs.C20_wf Verif.Proofs.C20_rel Verif.Proofs.C20_rm.

Definition keys (rf : list (intr * list intr)) : list intr := map fst rf.
Definition KD (rf : list (intr * list intr)) : Prop := NoDup (keys rf).

Lemma keys_refs_set x v rf :
  keys (refs_set x v rf) = keys rf \/ (keys (refs_set x v rf) = keys rf ++ [x] /\ ~ In x (keys rf)).
Proof.
  induction rf as [|[k v'] r IH]; simpl.
  - right. split; [reflexivity|intros []].
  - destruct (key_eq x k) eqn:E; simpl; [left; reflexivity|].
    assert (Hne : k <> x) by (intros ->; rewrite key_eq_refl in E; discriminate).
    destruct IH as [IH|[IH Hn]].
    + left. unfold keys in *. rewrite IH. reflexivity.
    + right. unfold keys in *. rewrite IH. split; [reflexivity|]. intros [H|H]; [contradiction|exact (Hn H)].
Qed.

Lemma KD_set x v rf : KD rf -> KD (refs_set x v rf).
Proof.
  unfold KD. intros H. destruct (keys_refs_set x v rf) as [E|[E Hn]]; rewrite E; [exact H|].
  apply nodup_snoc; assumption.
Qed.

Lemma keys_del_incl x rf a : In a (keys (refs_del x rf)) -> In a (keys rf).
Proof.
  induction rf as [|[k v] r IH]; simpl; [auto|]. destruct (key_eq x k); simpl; [auto|]. intros [H|H]; auto.
Qed.

Lemma KD_del x rf : KD rf -> KD (refs_del x rf).
Proof.
  unfold KD. induction rf as [|[k v] r IH]; simpl; intros H; [constructor|].
  inversion H as [|? ? Hn Hr]; subst. destruct (key_eq x k); simpl; [exact Hr|].
  constructor; [intros Hin; apply Hn; eapply keys_del_incl; exact Hin|apply IH; exact Hr].
Qed.

Lemma KD_relate1 rf p : KD rf -> KD (relate1 rf p).
Proof. destruct p as [x y]. unfold relate1. apply KD_set. Qed.

Lemma KD_unrelate1 rf p : KD rf -> KD (unrelate1 rf p).
Proof.
  destruct p as [x y]. unfold unrelate1. intros H. destruct (refs_get x rf) as [L|]; [|exact H].
  destruct (remove_first y L) as [L'|]; [apply KD_set; exact H|exact H].
Qed.

Lemma KD_fold (f : list (intr * list intr) -> intr * intr -> list (intr * list intr)) ps :
  (forall rf p, KD rf -> KD (f rf p)) -> forall rf, KD rf -> KD (fold_left f ps rf).
Proof. intros Hf. induction ps as [|p r IH]; simpl; intros rf H; [exact H|]. apply IH. apply Hf. exact H. Qed.

Lemma KD_relate s ps s' : KD (refs s) -> relate s ps = Ok s' -> KD (refs s').
Proof.
  intros H. unfold relate. destruct (intrs_by_pairs s ps); intros E; inversion E; subst; simpl.
  apply KD_fold; [exact KD_relate1|exact H].
Qed.
Lemma KD_unrelate s ps s' : KD (refs s) -> unrelate s ps = Ok s' -> KD (refs s').
Proof.
  intros H. unfold unrelate. destruct (intrs_by_pairs s ps); intros E; inversion E; subst; simpl.
  apply KD_fold; [exact KD_unrelate1|exact H].
Qed.

Lemma KD_replay rs : forall s i s' e, KD (refs s) -> replay s i rs = (s', e) -> KD (refs s').
Proof.
  induction rs as [|[c d|c d] r IH]; intros s i s' e HK H; simpl in H.
  - inversion H; subst; exact HK.
  - destruct (relate s _) as [s1|] eqn:E; [|inversion H; subst; exact HK].
    eapply IH; [|exact H]. eapply KD_relate; eassumption.
  - destruct (unrelate s _) as [s1|] eqn:E; [|inversion H; subst; exact HK].
    eapply IH; [|exact H]. eapply KD_unrelate; eassumption.
Qed.

Lemma KD_backrefs i L : forall rf rf' e, KD rf -> remove_backrefs i L rf = (rf', e) -> KD rf'.
Proof.
  induction L as [|d r IH]; simpl; intros rf rf' e HK H.
  - inversion H; subst; exact HK.
  - destruct (refs_get d rf) as [L2|]; [|inversion H; subst; exact HK].
    destruct (remove_first i L2) as [L2'|]; [|inversion H; subst; exact HK].
    eapply IH; [|exact H]. apply KD_set. exact HK.
Qed.

Lemma KD_remove s c d s' e : KD (refs s) -> remove s c d = (s', e) -> KD (refs s').
Proof.
  intros HK. unfold remove. destruct (get s c d) as [s1 o] eqn:G.
  assert (E1 : refs s1 = refs s) by (change s1 with (fst (s1, o)); rewrite <- G; apply get_refs).
  rewrite <- E1 in HK.
  destruct o as [i|]; [|intros H; inversion H; subst; exact HK].
  destruct (remove_backrefs i _ (refs_del i (refs s1))) as [rf oe] eqn:RB.
  apply KD_backrefs in RB; [|apply KD_del; exact HK].
  destruct oe as [e'|]; intros H; inversion H; subst; simpl; exact RB.
Qed.

Lemma KD_step s o : KD (refs s) -> KD (refs (fst (step s o))).
Proof.
  intros HK. destruct o; simpl.
  - exact HK.
  - change (KD (refs (fst (get s c d)))). rewrite get_refs. exact HK.
  - exact HK.
  - destruct (relate s ps) eqn:E; simpl; [eapply KD_relate; eassumption|exact HK].
  - destruct (unrelate s ps) eqn:E; simpl; [eapply KD_unrelate; eassumption|exact HK].
  - destruct (remove s c d) as [s' [e|]] eqn:E; simpl; eapply KD_remove; eassumption.
  - exact HK.
  - destruct (register s i rs) as [s' [e|]] eqn:E; simpl; unfold register in E;
      (eapply KD_replay; [|exact E]; exact HK).
  - exact HK.
Qed.

(* every state reached by any operation sequence -- no hypothesis on the objects, removes that raise included -- keeps the
   keys of the relation table pairwise distinct: each object has at most one relation list *)
Theorem reachable_refs_keys_distinct ops : NoDup (map fst (refs (run_state init ops))).
Proof.
  assert (G : forall s, KD (refs s) -> KD (refs (run_state s ops))).
  { induction ops as [|o r IH]; intros s H; simpl; [exact H|]. apply IH. apply KD_step. exact H. }
  apply G. constructor.
Qed.

Example keys_distinct_example :
  let a := mkIntr [97]%N [49]%N [120]%N 0 in
  let b := mkIntr [98]%N [49]%N [121]%N 1 in
  let ka := ([97]%N, [49]%N) in let kb := ([98]%N, [49]%N) in
  map iid (map fst (refs (run_state init [OAdd a; OAdd b; ORelate [ka; kb]; OUnrelate [ka; kb]; ORelate [kb; ka];
                                         ORemove [97]%N [49]%N]))) = [1%N].
Proof. vm_compute. reflexivity. Qed.
