(* C12 -- the program REGENERATED from the source on this run (Gen/Facts_C12_prog.v: gen_is_same_domain,
   gen_<policy>_new/get/check, gen_check_csrf_token, gen_check_csrf_origin, gen_view_outcome) equals the
   hand-written reference model (Model/C12.v), for all inputs; the property theorems are then restated
   about the regenerated program.

   The proof scripts never mention the text of the generated terms: they unfold both sides, case-split on
   whatever the goal branches on (the atoms of the primitive table: None tests, emptiness / equality /
   membership tests, the url parse, the outcome of a nested check) and ask that both sides then compute to
   the same result.  Hence they are insensitive to the names of the source's locals, to `elif` vs nested
   `if`, to `a and b` vs nested tests, to the order of independent tests and to where an assignment is
   made; they fail as soon as some valuation of the atoms leads the regenerated program to another result
   than the model. *)
From Coq Require Import List NArith ZArith Bool Lia.
Import ListNotations.
Require Import Verif.Lib.Wire Verif.Lib.Text Verif.Lib.Utf8 Verif.Gen.Facts_C12 Verif.Model.C12 Verif.Proofs.C12
  Verif.Proofs.C12_seq Verif.Gen.Facts_C12_prog.
Open Scope N_scope.

Ltac atomic a := lazymatch a with andb _ _ => fail | orb _ _ => fail | negb _ => fail | _ => idtac end.
Ltac split_step0 :=
  match goal with
  | |- context [if ?c then _ else _] => destruct c eqn:?
  | |- context [andb ?a _] => atomic a; destruct a eqn:?
  | |- context [orb ?a _] => atomic a; destruct a eqn:?
  | |- context [negb ?a] => atomic a; destruct a eqn:?
  | |- context [andb _ ?a] => atomic a; destruct a eqn:?
  | |- context [orb _ ?a] => atomic a; destruct a eqn:?
  end.

(* ------------------------------------------------------------ util.is_same_domain *)
Theorem gen_is_same_domain_is_model h p : gen_is_same_domain h p = is_same_domain h p.
Proof.
  assert (E : is_same_domain h p =
              if is_empty p then false
              else (text_eqb (firstn 1 (lower p)) dot && (endswith h (lower p) || text_eqb h (tl (lower p))))
                   || text_eqb (lower p) h) by (destruct p; reflexivity).
  rewrite E. unfold gen_is_same_domain. change dot with [46].
  generalize (lower p); intros lp.
  repeat (cbn [andb orb negb]; try reflexivity; try congruence; split_step0).
Qed.

Lemma existsb_gen_same_domain n l :
  existsb (fun h => gen_is_same_domain n h) l = existsb (is_same_domain n) l.
Proof.
  induction l as [|a l IH]; [reflexivity|]. cbn [existsb]. rewrite gen_is_same_domain_is_model. f_equal. exact IH.
Qed.

(* ------------------------------------------------------------ util.strings_differ *)
Theorem gen_strings_differ_is_model a b : gen_strings_differ a b = strings_differ a b.
Proof.
  unfold gen_strings_differ, strings_differ, b2n.
  rewrite ?(Nat.eqb_sym (length b) (length a)).
  repeat match goal with
         | |- context [Nat.eqb ?x ?y] => destruct (Nat.eqb x y) eqn:?
         | |- context [bytes_eqb ?x ?y] => destruct (bytes_eqb x y) eqn:?
         end; try reflexivity; try congruence.
Qed.

(* the regenerated comparison is byte equality *)
Theorem gen_strings_differ_spec a b : gen_strings_differ a b = false <-> a = b.
Proof. rewrite gen_strings_differ_is_model. apply strings_differ_spec. Qed.

(* ------------------------------------------------------------ pyramid.session CookieSession.new/get_csrf_token *)
Theorem gen_sess_is_model r st :
  gen_sess_new r st = (r_fresh r, Some (r_fresh r)) /\
  gen_sess_get r st = (session_token st (r_fresh r), session_store st (r_fresh r)).
Proof. unfold gen_sess_get, gen_sess_new, session_token, session_store. destruct st; split; reflexivity. Qed.

(* ------------------------------------------------------------ set_default_csrf_options -> DefaultCSRFOptions *)
Theorem gen_directive_options_is_model d : gen_directive_options d = options_of_defaults d.
Proof. destruct d as [rq tk hd sf co an cb]. destruct rq, tk, hd, sf, co, an; reflexivity. Qed.

(* what csrf_view finds registered is the regenerated directive's object for the declared arguments *)
Theorem gen_registered_options_from_directive c o :
  registered_options c = Some o -> exists d, c_defaults c = Some d /\ o = gen_directive_options d.
Proof.
  unfold registered_options. destruct (c_defaults c) as [d|] eqn:Ed; [|discriminate].
  destruct (negb (defaults_visible (c_defaults_first c))); [discriminate|].
  intros H. injection H as <-. exists d. split; [reflexivity|].
  rewrite gen_directive_options_is_model. unfold effective. rewrite Ed, defaults_always_visible. reflexivity.
Qed.

(* every argument of the directive reaches the option of the same name; an omitted one is the documented default *)
Theorem gen_directive_options_fields d :
  o_require (gen_directive_options d) = dflt (d_require d) true /\
  o_token (gen_directive_options d) = dflt (d_token d) (Some s_token) /\
  o_header (gen_directive_options d) = dflt (d_header d) (Some s_header) /\
  o_safe (gen_directive_options d) = dflt (d_safe d) s_safe /\
  o_check_origin (gen_directive_options d) = dflt (d_check_origin d) true /\
  o_allow_no_origin (gen_directive_options d) = dflt (d_allow_no_origin d) false /\
  o_callback (gen_directive_options d) = d_callback d.
Proof. rewrite gen_directive_options_is_model. repeat split. Qed.

(* the leaves stay folded *)
Local Arguments gen_strings_differ : simpl never.
Local Arguments urlparse_m : simpl never.
Local Arguments aslist : simpl never.
Local Arguments header_get : simpl never.
Local Arguments env_get : simpl never.
Local Arguments req_scheme : simpl never.
Local Arguments req_method : simpl never.
Local Arguments req_domain : simpl never.
Local Arguments req_host_port : simpl never.
Local Arguments lookup_last : simpl never.
Local Arguments encode_tok : simpl never.
Local Arguments strings_differ : simpl never.
Local Arguments split_on : simpl never.
Local Arguments lower : simpl never.
Local Arguments endswith : simpl never.
Local Arguments text_eqb : simpl never.
Local Arguments mem_text : simpl never.
Local Arguments existsb : simpl never.
Local Arguments last : simpl never.
Local Arguments firstn : simpl never.

Ltac split_step :=
  match goal with
  | |- context [is_none ?x] => is_var x; destruct x
  | |- context [is_none_l ?x] => is_var x; destruct x
  | |- context [is_none ?x] => destruct x eqn:?
  | |- context [is_none_o ?x] => destruct x eqn:?
  | |- context [is_true ?x] => destruct x as [[|]|] eqn:?
  | |- context [is_false ?x] => destruct x as [[|]|] eqn:?
  | |- context [verdict_bool ?v] => destruct v eqn:?
  | H : context [match ?c with _ => _ end] |- _ => destruct c eqn:?
  | |- context [if ?c then _ else _] => destruct c eqn:?
  | |- context [match ?c with _ => _ end] => destruct c eqn:?
  | |- context [andb ?a _] => atomic a; destruct a eqn:?
  | |- context [orb ?a _] => atomic a; destruct a eqn:?
  | |- context [negb ?a] => atomic a; destruct a eqn:?
  | |- context [andb _ ?a] => atomic a; destruct a eqn:?
  | |- context [orb _ ?a] => atomic a; destruct a eqn:?
  end.
Ltac split_all := repeat (simpl in *; try reflexivity; try congruence; split_step).

(* ------------------------------------------------------------ the storage policies *)
Theorem gen_policy_new_is_model r st :
  gen_legacy_new r st = (r_fresh r, Some (r_fresh r)) /\
  gen_session_new r st = (r_fresh r, Some (r_fresh r)) /\
  gen_cookie_new r st = (r_fresh r, Some (r_fresh r)).
Proof. repeat split. Qed.

(* get_csrf_token: the token compared against, and what the storage holds afterwards *)
Theorem gen_policy_get_is_model r :
  gen_legacy_get r (r_stored r) = (expected_token Legacy r, store_after_get Legacy (r_stored r) (r_fresh r)) /\
  gen_session_get r (r_stored r) = (expected_token Session r, store_after_get Session (r_stored r) (r_fresh r)) /\
  gen_cookie_get r (r_stored r) = (expected_token Cookie r, store_after_get Cookie (r_stored r) (r_fresh r)).
Proof.
  unfold gen_legacy_get, gen_session_get, gen_cookie_get, gen_session_new, gen_cookie_new, gen_sess_get, gen_sess_new,
    expected_token, store_after_get, token_absent, session_token, session_store.
  destruct (r_stored r) as [[|x t]|]; repeat split.
Qed.

Theorem gen_policy_check_is_model s r sup :
  gen_policy_check s r (r_stored r) sup =
  (policy_check true s r sup, store_after_get s (r_stored r) (r_fresh r)).
Proof.
  destruct (gen_policy_get_is_model r) as (H1 & H2 & H3).
  unfold gen_policy_check, gen_legacy_check, gen_session_check, gen_cookie_check, policy_check.
  destruct s; rewrite ?H1, ?H2, ?H3;
    repeat (simpl in *; try reflexivity; try congruence;
            first [ match goal with |- context [gen_strings_differ ?a ?b] => rewrite (gen_strings_differ_is_model a b) end
                  | split_step ]).
Qed.

(* ------------------------------------------------------------ the module-level API pyramid.csrf.get_csrf_token / new_csrf_token *)
(* for ANY held token st (not only the one the request arrived with): get returns the held token and mints exactly
   when none is held; new always installs the fresh token.  This is what the view body's action does to the store. *)
Theorem gen_api_is_model s r st :
  gen_api_get s r st = (or_empty (store_after_get s st (r_fresh r)), store_after_get s st (r_fresh r)) /\
  gen_api_new s r st = (r_fresh r, Some (r_fresh r)).
Proof.
  unfold gen_api_get, gen_api_new, gen_policy_get, gen_policy_new, gen_legacy_get, gen_session_get, gen_cookie_get,
    gen_legacy_new, gen_session_new, gen_cookie_new, gen_sess_get, gen_sess_new, store_after_get, token_absent.
  destruct s; destruct st as [[|x t]|]; split; reflexivity.
Qed.

Corollary gen_api_body_store s r st :
  snd (gen_api_get s r st) = body_store s AGet st (r_fresh r) /\
  snd (gen_api_new s r st) = body_store s ANew st (r_fresh r).
Proof. destruct (gen_api_is_model s r st) as [-> ->]. split; reflexivity. Qed.

(* within one request: get_csrf_token after new_csrf_token returns the token just installed and mints nothing
   (the policies make the new token visible to the rest of the request) *)
Theorem gen_api_get_after_new s r st :
  r_fresh r <> [] ->
  gen_api_get s r (snd (gen_api_new s r st)) = (r_fresh r, Some (r_fresh r)).
Proof.
  intros Hf. destruct (gen_api_is_model s r st) as [_ ->]. cbn [snd].
  destruct (gen_api_is_model s r (Some (r_fresh r))) as [-> _].
  unfold store_after_get, token_absent. destruct (r_fresh r); [contradiction|]. destruct s; reflexivity.
Qed.

(* ------------------------------------------------------------ csrf.check_csrf_token *)
Theorem gen_check_csrf_token_is_model pr s token header raises r :
  p_utf8 pr = true ->
  gen_check_csrf_token s token header raises r = check_csrf_token_p pr s token header r.
Proof.
  intros Hu. unfold gen_check_csrf_token, check_csrf_token_p, supplied_token, verdict_bool, verdict_error.
  rewrite Hu, !gen_policy_check_is_model. cbn [fst].
  split_all.
Qed.

(* ------------------------------------------------------------ csrf.check_csrf_origin *)

Theorem gen_check_csrf_origin_is_model pr settings caller allow raises r :
  p_catch pr = true ->
  gen_check_csrf_origin settings caller allow raises r = fst (check_csrf_origin_p pr settings caller allow r).
Proof.
  intros Hc. rewrite check_origin_unfold.
  unfold gen_check_csrf_origin, decide_origin, claimed_origin, own_host.
  rewrite Hc.
  unfold https_req, https_origin, null_origin, origin_header, origin_pick_last, origin_sep, std_ports, own_format.
  cbn [hd flat_map fst snd app].
  rewrite ?app_nil_r.
  repeat (simpl in *; rewrite ?existsb_gen_same_domain in *; try reflexivity; try congruence; split_step).
Qed.

(* ------------------------------------------------------------ viewderivers.csrf_view *)
Lemma effective_registered c :
  effective c = match registered_options c with Some o => o | None => builtin_options end.
Proof.
  unfold registered_options, effective. destruct (c_defaults c); [|reflexivity].
  destruct (negb (defaults_visible (c_defaults_first c))); reflexivity.
Qed.

Theorem gen_view_outcome_is_model pr c r :
  p_utf8 pr = true -> p_catch pr = true ->
  gen_view_outcome c r = view_outcome_p pr c r.
Proof.
  intros Hu Hc.
  unfold gen_view_outcome, view_outcome_p, checks_apply, csrf_enabled.
  rewrite effective_registered.
  assert (Ho : forall s caller allow raises, gen_check_csrf_origin s caller allow raises r =
                                             fst (check_csrf_origin_p pr s caller allow r))
    by (intros; apply gen_check_csrf_origin_is_model; exact Hc).
  assert (Ht : forall s token header raises, gen_check_csrf_token s token header raises r =
                                             check_csrf_token_p pr s token header r)
    by (intros; apply gen_check_csrf_token_is_model; exact Hu).
  destruct (registered_options c) as [o|]; cbn [is_none_o or_options].
  - rewrite ?Ho, ?Ht. destruct o as [rq tk hd sf co an cb].
    cbn [o_require o_token o_header o_safe o_check_origin o_allow_no_origin o_callback].
    destruct (c_explicit c) as [[|]|]; cbn [is_true is_false negb orb andb];
      destruct tk as [[|? ?]|]; destruct hd as [[|? ?]|]; cbn [truthy or_empty is_empty orb andb negb];
      rewrite ?andb_false_r; cbn [andb orb negb];
      destruct rq; cbn [andb orb negb]; try reflexivity;
      destruct (c_exception_only c); cbn [andb orb negb]; try reflexivity;
      destruct (mem_text (req_method r) sf); cbn [andb orb negb]; try reflexivity;
      destruct cb; cbn [andb orb negb]; try reflexivity;
      destruct (r_cb r); cbn [andb orb negb]; try reflexivity;
      destruct co; try reflexivity.
  - rewrite ?Ho, ?Ht. unfold builtin_options.
    unfold builtin_require, builtin_token, builtin_header, builtin_safe, builtin_check_origin, builtin_allow_no_origin,
      builtin_callback_none.
    cbn [o_require o_token o_header o_safe o_check_origin o_allow_no_origin o_callback truthy negb orb andb].
    destruct (c_explicit c) as [[|]|]; cbn [is_true is_false negb orb andb]; try reflexivity.
    destruct (mem_text (req_method r) _); reflexivity.
Qed.

Corollary gen_view_outcome_is_view_outcome c r : gen_view_outcome c r = view_outcome c r.
Proof.
  unfold view_outcome. destruct (the_params_ok (c_storage c)) as (_ & Hu & Hc).
  apply gen_view_outcome_is_model; assumption.
Qed.

(* ------------------------------------------------------------ the property theorems, about the regenerated program *)
Theorem gen_csrf_gate c r :
  wf_tokens c r = true -> (gen_view_outcome c r = Ran <-> spec_runs c r = true).
Proof. rewrite gen_view_outcome_is_view_outcome. apply csrf_gate. Qed.

Theorem gen_body_never_runs_on_failure c r : gen_view_outcome c r = Ran -> spec_runs c r = true.
Proof. rewrite gen_view_outcome_is_view_outcome. apply body_never_runs_on_failure. Qed.

Theorem gen_rejection_is_400 c r :
  wf_tokens c r = true -> parse_defined r = true ->
  gen_view_outcome c r = Ran \/ gen_view_outcome c r = BadToken \/ exists w, gen_view_outcome c r = BadOrigin w.
Proof. rewrite gen_view_outcome_is_view_outcome. apply rejection_is_400. Qed.

Theorem gen_same_domain_spec h p :
  gen_is_same_domain h p = true <->
  p <> [] /\ (h = lower p \/
              exists rest, lower p = 46 :: rest /\ ((exists pre, h = pre ++ lower p) \/ h = rest)).
Proof. rewrite gen_is_same_domain_is_model. apply same_domain_spec_lemma. Qed.

Theorem gen_origin_pass_iff settings caller allow raises r :
  gen_check_csrf_origin settings caller allow raises r = OPass <-> spec_origin_ok settings caller allow r = true.
Proof.
  rewrite (gen_check_csrf_origin_is_model (mkParams true true true)) by reflexivity. apply origin_pass_iff.
Qed.

Theorem gen_origin_never_raises settings caller allow raises r e :
  parse_defined r = true -> gen_check_csrf_origin settings caller allow raises r <> ORaise e.
Proof.
  intros Hp. rewrite (gen_check_csrf_origin_is_model (mkParams true true true)) by reflexivity.
  apply origin_no_raise; [reflexivity|exact Hp].
Qed.

Theorem gen_token_ok_iff_equal s token header raises r :
  forallb valid_scalar (expected_token s r) = true ->
  forallb valid_scalar (supplied_token token header r) = true ->
  (gen_check_csrf_token s token header raises r = TPass <-> supplied_token token header r = expected_token s r) /\
  (gen_check_csrf_token s token header raises r = TFail <-> supplied_token token header r <> expected_token s r).
Proof.
  intros W1 W2. rewrite (gen_check_csrf_token_is_model (the_params s)) by apply the_params_ok.
  apply token_pass_iff_equal; assumption.
Qed.

Theorem gen_no_stored_token_empty_supplied_rejected s token header raises r :
  token_absent s (r_stored r) = true -> r_fresh r <> [] -> forallb valid_scalar (r_fresh r) = true ->
  supplied_token token header r = [] ->
  gen_check_csrf_token s token header raises r = TFail.
Proof.
  intros. rewrite (gen_check_csrf_token_is_model (the_params s)) by apply the_params_ok.
  apply no_stored_token_empty_supplied_rejected; assumption.
Qed.

(* the policies mint exactly when nothing is held, and compare against what is then held *)
Theorem gen_policy_lifecycle s r sup :
  snd (gen_policy_check s r (r_stored r) sup) = store_after_get s (r_stored r) (r_fresh r) /\
  (fst (gen_policy_check s r (r_stored r) sup) = TPass -> sup = expected_token s r).
Proof.
  rewrite gen_policy_check_is_model. cbn [fst snd]. split; [reflexivity|apply policy_check_pass].
Qed.

(* non-vacuity, computed by the regenerated program itself *)
Example c12_gen_nonvacuous :
  gen_is_same_domain [97; 46; 98] [46; 98] = true /\ gen_is_same_domain [97; 98] [46; 98] = false /\
  gen_session_get (mkReq [] [] [] None [102] true []) None = ([102], Some [102]) /\
  fst (gen_session_check (mkReq [] [] [] None [102] true []) None []) = TFail.
Proof. vm_compute. repeat split. Qed.
