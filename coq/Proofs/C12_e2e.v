(* C12 -- end-to-end composition (proof-only round): several clients interleaved through csrf_view, each view body
   optionally calling the public token API, while the trusted-origins setting in force changes from step to step.
   One statement ties together: interleaving independence (C12_seq), "the body's API use never changes the verdict",
   "the setting is read when the request is checked" (with_settings), the gate (csrf_gate), the two-level view
   option / special views (c_explicit) and the regenerated directive options (gen_directive_options). *)
From Coq Require Import List NArith ZArith Bool Lia.
Import ListNotations.
Require Import Verif.Lib.Wire Verif.Lib.Text Verif.Lib.Utf8 Verif.Gen.Facts_C12 Verif.Model.C12 Verif.Proofs.C12
  Verif.Proofs.C12_seq Verif.Gen.Facts_C12_prog Verif.Proofs.C12_gen Verif.Proofs.C12_ex.
Open Scope N_scope.

(* a step: the setting in force when it is checked, what the body does, the request *)
Definition sstep := (list text * (action * request))%type.
Definition ss_settings (x : sstep) : list text := fst x.
Definition ss_request (x : sstep) : request := snd (snd x).

Definition step_s (pr : params) (c : config) (st : option text) (x : sstep) : outcome * option text :=
  client_step_a pr (with_settings c (fst x)) st (snd x).

Fixpoint run_client_as (pr : params) (c : config) (st : option text) (rs : list sstep) : list outcome * option text :=
  match rs with
  | [] => ([], st)
  | x :: rest =>
      let '(out, st') := step_s pr c st x in
      let '(outs, st'') := run_client_as pr c st' rest in
      (out :: outs, st'')
  end.

Fixpoint run_clients_as (pr : params) (c : config) (s : stores) (steps : list (N * sstep)) : list outcome * stores :=
  match steps with
  | [] => ([], s)
  | (k, x) :: rest =>
      let '(out, v) := step_s pr c (st_get k s) x in
      let '(outs, s') := run_clients_as pr c (st_set k v s) rest in
      (out :: outs, s')
  end.

Fixpoint requests_of_as (k : N) (steps : list (N * sstep)) : list sstep :=
  match steps with
  | [] => []
  | (k', x) :: rest => if k' =? k then x :: requests_of_as k rest else requests_of_as k rest
  end.
Fixpoint outcomes_of_as (k : N) (steps : list (N * sstep)) (outs : list outcome) : list outcome :=
  match steps, outs with
  | (k', _) :: rest, o :: outs' => if k' =? k then o :: outcomes_of_as k rest outs' else outcomes_of_as k rest outs'
  | _, _ => []
  end.

(* the token a client holds before each of its own steps *)
Fixpoint held_before_as (pr : params) (c : config) (st : option text) (rs : list sstep) : list (option text) :=
  match rs with
  | [] => []
  | x :: rest => st :: held_before_as pr c (snd (step_s pr c st x)) rest
  end.

(* with a constant setting this is the sequence model of the earlier rounds *)
Lemma run_clients_as_const pr c s0 steps : forall s,
  run_clients_as pr c s (map (fun kx => (fst kx, (s0, snd kx))) steps) = run_clients_a pr (with_settings c s0) s steps.
Proof.
  induction steps as [|[k x] rest IH]; intros s; [reflexivity|].
  cbn [map run_clients_as run_clients_a fst snd]. unfold step_s. cbn [fst snd].
  destruct (client_step_a pr (with_settings c s0) (st_get k s) x) as [out v]. rewrite IH. reflexivity.
Qed.

(* interleaving independence, the setting changing from step to step *)
Lemma interleaving_independent_as pr c k steps : forall s,
  outcomes_of_as k steps (fst (run_clients_as pr c s steps)) = fst (run_client_as pr c (st_get k s) (requests_of_as k steps)) /\
  st_get k (snd (run_clients_as pr c s steps)) = snd (run_client_as pr c (st_get k s) (requests_of_as k steps)).
Proof.
  induction steps as [|[k' x] rest IH]; intros s; [split; reflexivity|].
  cbn [run_clients_as requests_of_as].
  destruct (step_s pr c (st_get k' s) x) as [out v] eqn:Ec.
  specialize (IH (st_set k' v s)).
  destruct (run_clients_as pr c (st_set k' v s) rest) as [outs s'] eqn:Er. cbn [fst snd] in *.
  cbn [outcomes_of_as].
  destruct (N.eqb_spec k' k) as [->|Hne].
  - cbn [run_client_as]. rewrite Ec. rewrite st_get_set_same in IH.
    destruct (run_client_as pr c v (requests_of_as k rest)) as [outs2 s2]. cbn [fst snd] in *.
    destruct IH as [IH1 IH2]. split; [f_equal; exact IH1|exact IH2].
  - rewrite st_get_set_other in IH by congruence. exact IH.
Qed.

(* the verdict of one step: the single-request verdict for (the request with the held token, the setting of that moment) *)
Definition verdict_of (pr : params) (c : config) (p : option text * sstep) : outcome :=
  view_outcome_p pr (with_settings c (ss_settings (snd p))) (with_client_state (fst p) (ss_request (snd p))).

Lemma step_s_outcome pr c st x : fst (step_s pr c st x) = verdict_of pr c (st, x).
Proof. destruct x as [s [a r]]. unfold step_s, verdict_of. cbn [fst snd ss_settings ss_request]. apply client_step_a_outcome. Qed.

Lemma run_client_as_exact pr c : forall rs st,
  fst (run_client_as pr c st rs) = map (verdict_of pr c) (combine (held_before_as pr c st rs) rs).
Proof.
  induction rs as [|x rs IH]; intros st; [reflexivity|].
  cbn [run_client_as held_before_as combine map].
  pose proof (step_s_outcome pr c st x) as Ho.
  destruct (step_s pr c st x) as [out st'] eqn:E. cbn [fst snd] in *.
  specialize (IH st'). destruct (run_client_as pr c st' rs) as [outs st'']. cbn [fst] in *.
  rewrite Ho, IH. reflexivity.
Qed.

(* the state only moves by minting / the body's API, never because of another client or an earlier setting *)
Lemma held_before_as_head pr c st x rs : held_before_as pr c st (x :: rs) = st :: held_before_as pr c (snd (step_s pr c st x)) rs.
Proof. reflexivity. Qed.

Lemma Forall2_map_self {A B} (P : A -> B -> Prop) (f : A -> B) l : (forall a, P a (f a)) -> Forall2 P l (map f l).
Proof. intros H. induction l; constructor; auto. Qed.

(* ------------------------------------------------------------------ the end-to-end statement *)
(* In ANY interleaving of clients, with view bodies that show / rotate the token and a trusted-origins setting that
   changes between steps, what client k observes is, step by step, exactly the declarative gate evaluated on
   (its request carrying the token it holds at that moment, the setting in force at that moment): the body ran iff
   spec_runs; the token it ends up holding is what its own steps alone produce. *)
Theorem e2e_gate c k steps s :
  let pr := the_params (c_storage c) in
  let mine := requests_of_as k steps in
  let held := held_before_as pr c (st_get k s) mine in
  Forall2 (fun p out =>
             let cs := with_settings c (ss_settings (snd p)) in
             let r' := with_client_state (fst p) (ss_request (snd p)) in
             out = view_outcome cs r' /\
             (out = Ran -> spec_runs cs r' = true) /\
             (wf_tokens cs r' = true -> (out = Ran <-> spec_runs cs r' = true)))
          (combine held mine)
          (outcomes_of_as k steps (fst (run_clients_as pr c s steps))) /\
  st_get k (snd (run_clients_as pr c s steps)) = snd (run_client_as pr c (st_get k s) mine).
Proof.
  cbv zeta. destruct (interleaving_independent_as (the_params (c_storage c)) c k steps s) as [H1 H2].
  split; [|exact H2]. rewrite H1, run_client_as_exact.
  apply Forall2_map_self. intros [st x]. unfold verdict_of. cbn [fst snd].
  change (view_outcome_p (the_params (c_storage c)) (with_settings c (ss_settings x)) (with_client_state st (ss_request x)))
    with (view_outcome (with_settings c (ss_settings x)) (with_client_state st (ss_request x))).
  split; [reflexivity|]. split.
  - apply body_never_runs_on_failure.
  - apply csrf_gate.
Qed.

(* configuration side of the same run: the option the gate reads is the two-level view option, the defaults are the
   regenerated directive's object for the declared arguments (omitted = documented default) *)
Theorem e2e_configuration c cls call d :
  c_explicit c = explicit_of cls call -> c_defaults c = Some d ->
  forall s, effective (with_settings c s) = gen_directive_options d /\
            c_explicit (with_settings c s) = spec_explicit cls call /\
            o_require (effective (with_settings c s)) = dflt (d_require d) true /\
            o_check_origin (effective (with_settings c s)) = dflt (d_check_origin d) true /\
            o_allow_no_origin (effective (with_settings c s)) = dflt (d_allow_no_origin d) false.
Proof.
  intros He Hd s.
  assert (E : effective (with_settings c s) = gen_directive_options d).
  { rewrite gen_directive_options_is_model. unfold effective. cbn [c_defaults with_settings c_defaults_first].
    rewrite Hd, defaults_always_visible. reflexivity. }
  destruct (gen_directive_options_fields d) as (F1 & _ & _ & _ & F5 & F6 & _).
  rewrite E. repeat split; try assumption.
  cbn [c_explicit with_settings]. rewrite He. apply explicit_is_spec.
Qed.

(* special views (add_exception_view / add_notfound_view / add_forbidden_view), and views that opted out at either
   level: in every interleaving, under every setting, every request of every client runs the body *)
Theorem e2e_unchecked_views pr c steps s :
  c_explicit c = Some false -> Forall (fun out => out = Ran) (fst (run_clients_as pr c s steps)).
Proof.
  intros He. revert s. induction steps as [|[k x] rest IH]; intros s; [constructor|].
  cbn [run_clients_as]. pose proof (step_s_outcome pr c (st_get k s) x) as Ho.
  destruct (step_s pr c (st_get k s) x) as [out v]. cbn [fst] in Ho.
  specialize (IH (st_set k v s)). destruct (run_clients_as pr c (st_set k v s) rest) as [outs s']. cbn [fst] in *.
  constructor; [|exact IH]. rewrite Ho. unfold verdict_of. apply opted_out_unchecked. exact He.
Qed.

Corollary e2e_special_views pr c steps s :
  c_explicit c = special_explicit -> Forall (fun out => out = Ran) (fst (run_clients_as pr c s steps)).
Proof. apply e2e_unchecked_views. Qed.

(* non-vacuity: client 1 (holding "a1b2c3d4") posts from https://shop.example.com to svc.internal while ".example.com" is
   trusted and its body rotates the token: runs; the setting is revoked: client 2 and client 1 are refused for the origin;
   the setting is restored: client 1's old token is refused because of the rotation *)
Definition ex_dot : list text := [[46; 101; 120; 97; 109; 112; 108; 101; 46; 99; 111; 109]].
Example ex_e2e :
  fst (run_clients_as repaired ex_cfg [(1, Some [97; 49; 98; 50; 99; 51; 100; 52])]
         [(1, (ex_dot, (ANew, ex_req_subdomain))); (2, ([], (ANone, ex_req_subdomain)));
          (1, ([], (ANone, ex_req_subdomain))); (1, (ex_dot, (ANone, ex_req_subdomain)))]) =
  [Ran; BadOrigin RNoMatch; BadOrigin RNoMatch; BadToken].
Proof. vm_compute. reflexivity. Qed.
