(* C02 -- end-to-end statements composing the theorems of Proofs/C02_gen.v:
   (1) the FULL `traversed` clause (and every other field) for requests without a virtual-root header, about the
       regenerated __call__;
   (2) route match -> match dictionary entry -> traversal: what a route pattern captured (Model.route_remainder) or
       its traverse= option generated (Model.traverse_entry) is exactly the segment list the regenerated traverser
       walks, and the result is the declarative outcome of that walk. *)
From Coq Require Import List NArith ZArith Bool Lia.
Import ListNotations.
Require Import Verif.Lib.Wire Verif.Lib.Text Verif.Lib.PathNorm Verif.Lib.C02PathNorm Verif.Lib.Utf8
               Verif.Lib.C02Expr Verif.Gen.Facts_C02 Verif.Model.C02 Verif.Proofs.C02 Verif.Proofs.C02_memo
               Verif.Proofs.C02_gen.
Close Scope N_scope.

(* ---- (1) no virtual root: every field as the property says, `traversed` = exactly the consumed segments *)
Theorem gen_call_no_vroot_full root q d :
  q_vroot q = None -> gen_call root q = Ok d ->
  exists path sub ctx consumed rest,
    path_and_subpath q = Ok (path, sub) /\
    walk_outcome root (gen_split_path_info path) ctx consumed rest /\
    t_context d = fst ctx /\ t_view_name d = view_name_of rest /\ t_subpath d = subpath_of sub rest /\
    t_traversed d = consumed /\
    t_virtual_root d = fst root /\ t_virtual_root_path d = [] /\ t_root d = fst root.
Proof.
  intros Hv H.
  destruct (gen_call_resolves root q d H)
    as (path & sub & vt & ctx & c & r & Hps & Hvt & Hw & Hc & Hvn & Hsub & Htr & Hvp & Hr & Hd).
  assert (E : vt = []) by (unfold vroot_tuple_of in Hvt; rewrite Hv in Hvt; congruence).
  rewrite E in *. cbn [app length firstn] in *. rewrite app_nil_r in Htr.
  exists path, sub, ctx, c, r. repeat (split; [assumption|]).
  split; [|split; assumption].
  destruct Hd as [(_ & v & c' & Hdv & Hvr & _)|(Hlt & _)]; [|lia].
  cbn [descend] in Hdv. inversion Hdv; subst v. exact Hvr.
Qed.

(* ---- (2) a tuple-valued `traverse` entry of normal segments is walked as it is *)
Lemma path_of_md_tuple l pi sp :
  Forall normal_seg l ->
  exists path sub, path_and_subpath (mkReq pi (Some (mkMd (Some (MTuple l)) sp)) None) = Ok (path, sub) /\
                   gen_split_path_info path = l.
Proof.
  intros Hn. unfold path_and_subpath. cbn [q_matchdict md_traverse md_subpath].
  destruct l as [|x r].
  - cbn [mval_falsy]. eexists. eexists. split; [reflexivity|]. reflexivity.
  - cbn [mval_falsy]. eexists. eexists. split; [reflexivity|].
    unfold slash_text. apply gen_split_keeps_names_abs. exact Hn.
Qed.

Theorem md_tuple_resolves root l pi sp d :
  Forall normal_seg l ->
  gen_call root (mkReq pi (Some (mkMd (Some (MTuple l)) sp)) None) = Ok d ->
  exists ctx consumed rest,
    walk_outcome root l ctx consumed rest /\
    t_context d = fst ctx /\ t_view_name d = view_name_of rest /\ t_traversed d = consumed /\
    t_virtual_root d = fst root /\ t_virtual_root_path d = [] /\ t_root d = fst root.
Proof.
  intros Hn H.
  destruct (gen_call_no_vroot_full root (mkReq pi (Some (mkMd (Some (MTuple l)) sp)) None) d eq_refl H)
    as (path & sub & ctx & c & r & Hps & Hw & Hc & Hvn & _ & Htr & Hvr & Hvp & Hr).
  destruct (path_of_md_tuple l pi sp Hn) as (path' & sub' & Hps' & Hs).
  rewrite Hps' in Hps. inversion Hps; subst path' sub'. rewrite Hs in Hw.
  exists ctx, c, r. repeat (split; [assumption|]). assumption.
Qed.

(* route match (a `*traverse` remainder) -> match dictionary -> traversal: the walk is over the normalised remainder
   of the decoded PATH_INFO, whatever the traverse= option says *)
Theorem route_star_to_resolution root decoded pieces rem opt pi sp d :
  route_remainder decoded pieces = Some rem ->
  gen_call root (mkReq pi (Some (mkMd (traverse_entry (Some (MTuple (split_path_info (slash :: rem)))) opt) sp)) None)
    = Ok d ->
  decoded = concat pieces ++ rem /\
  exists ctx consumed rest,
    walk_outcome root (split_path_info (slash :: rem)) ctx consumed rest /\
    t_context d = fst ctx /\ t_view_name d = view_name_of rest /\ t_traversed d = consumed /\
    t_virtual_root d = fst root /\ t_virtual_root_path d = [] /\ t_root d = fst root.
Proof.
  intros Hr H. split; [apply route_remainder_spec; exact Hr|].
  rewrite traverse_entry_capture_wins in H.
  apply (md_tuple_resolves root _ pi sp d (spi_normal _) H).
Qed.

(* route match (no capture, traverse= option naming ordinary segments) -> match dictionary -> traversal: the walk is
   over exactly the named pieces *)
Theorem route_option_to_resolution root ps pi sp d :
  Forall normal_seg ps ->
  gen_call root (mkReq pi (Some (mkMd (traverse_entry None (Some ps)) sp)) None) = Ok d ->
  exists ctx consumed rest,
    walk_outcome root ps ctx consumed rest /\
    t_context d = fst ctx /\ t_view_name d = view_name_of rest /\ t_traversed d = consumed /\
    t_virtual_root d = fst root /\ t_virtual_root_path d = [] /\ t_root d = fst root.
Proof.
  intros Hn H.
  destruct (traverse_entry_spec None (Some ps)) as (_ & Hopt & _).
  destruct (Hopt eq_refl ps eq_refl) as (l & Hl & _ & Heq). rewrite Hl in H. rewrite (Heq Hn) in H.
  exact (md_tuple_resolves root ps pi sp d Hn H).
Qed.

(* non-vacuity: PATH_INFO /r/a/b/zz under the route /r/*traverse on the witness tree *)
Example route_star_nonvacuous :
  route_remainder [47; 114; 47; 97; 47; 98; 47; 122; 122]%N [[47; 114; 47]%N] = Some [97; 47; 98; 47; 122; 122]%N /\
  gen_call ([], wit_tree)
    (mkReq None (Some (mkMd (traverse_entry (Some (MTuple (split_path_info (slash :: [97; 47; 98; 47; 122; 122]%N))))
                                           (Some [tb])) None)) None)
  = Ok (mkT [0; 0] [122; 122]%N [] [ta; tb] [] [] []) /\
  gen_call ([], wit_tree) (mkReq None (Some (mkMd (traverse_entry None (Some [tb; tx])) None)) None)
  = Ok (mkT [1; 0] [] [] [tb; tx] [] [] []) /\
  Forall normal_seg [tb; tx].
Proof.
  split; [vm_compute; reflexivity|]. split; [vm_compute; reflexivity|]. split; [vm_compute; reflexivity|].
  repeat constructor; try discriminate; intros [E|[]]; discriminate.
Qed.
