(* C20: well-formedness of reachable introspector states (each category holds
   one entry per discriminator) and the "remove erases the entry" theorem. *)
From Coq Require Import List NArith ZArith Bool Lia.
Import ListNotations.
Require Import Verif.Lib.Wire Verif.Lib.C20Types Verif.Gen.Facts_C20 Verif.Model.C20 Verif.Proofs.C20.

Lemma assoc_In {B} k (v : B) l : assoc k l = Some v -> In (k, v) l.
Proof.
  induction l as [|[k' v'] r IH]; simpl; [discriminate|].
  destruct (text_eqb_spec k k') as [->|Hne]; [intros H; inversion H; auto|auto].
Qed.

Lemma assoc_notin {B} k (l : list (text * B)) : ~ In k (map fst l) -> assoc k l = None.
Proof.
  induction l as [|[k' v'] r IH]; simpl; [reflexivity|]. intros H.
  destruct (text_eqb_spec k k') as [->|Hne]; [exfalso; auto|apply IH; tauto].
Qed.

Lemma keys_assoc_set {B} k (v : B) l x : In x (map fst (assoc_set k v l)) <-> x = k \/ In x (map fst l).
Proof.
  induction l as [|[k' v'] r IH]; simpl; [intuition|].
  destruct (text_eqb_spec k k') as [->|Hne]; simpl; [intuition|]. rewrite IH. intuition.
Qed.

Lemma nodup_assoc_set {B} k (v : B) l : NoDup (map fst l) -> NoDup (map fst (assoc_set k v l)).
Proof.
  induction l as [|[k' v'] r IH]; simpl; intros H; [constructor; [intros []|constructor]|].
  inversion H as [|? ? Hn Hr]; subst.
  destruct (text_eqb_spec k k') as [->|Hne]; simpl; [constructor; assumption|].
  constructor; [|apply IH; assumption]. rewrite keys_assoc_set. intros [E|E]; [congruence|contradiction].
Qed.

Lemma keys_assoc_del {B} k (l : list (text * B)) x : In x (map fst (assoc_del k l)) -> In x (map fst l).
Proof.
  induction l as [|[k' v'] r IH]; simpl; [tauto|].
  destruct (text_eqb_spec k k') as [->|Hne]; simpl; [auto|]. intros [E|E]; auto.
Qed.

Lemma nodup_assoc_del {B} k (l : list (text * B)) : NoDup (map fst l) -> NoDup (map fst (assoc_del k l)).
Proof.
  induction l as [|[k' v'] r IH]; simpl; intros H; [constructor|].
  inversion H as [|? ? Hn Hr]; subst.
  destruct (text_eqb_spec k k') as [->|Hne]; simpl; [assumption|].
  constructor; [|apply IH; assumption]. intros E. apply Hn. eapply keys_assoc_del; eassumption.
Qed.

Lemma assoc_del_none {B} k (l : list (text * B)) : NoDup (map fst l) -> assoc k (assoc_del k l) = None.
Proof.
  induction l as [|[k' v'] r IH]; simpl; intros H; [reflexivity|].
  inversion H as [|? ? Hn Hr]; subst.
  destruct (text_eqb_spec k k') as [->|Hne]; simpl.
  - apply assoc_notin. assumption.
  - destruct (text_eqb_spec k k'); [contradiction|]. apply IH. assumption.
Qed.

Definition WF (s : st) : Prop :=
  NoDup (map fst (cats s)) /\ Forall (fun p => NoDup (map fst (snd p))) (cats s).

Lemma WF_init : WF init.
Proof. split; constructor. Qed.

Lemma cat_of_nodup s c : WF s -> NoDup (map fst (cat_of s c)).
Proof.
  intros [_ H]. unfold cat_of. destruct (assoc c (cats s)) as [l|] eqn:E; [|constructor].
  apply assoc_In in E. rewrite Forall_forall in H. apply (H (c, l) E).
Qed.

Lemma Forall_assoc_set {B} (P : text * B -> Prop) k v l :
  P (k, v) -> Forall P l -> Forall P (assoc_set k v l).
Proof.
  intros Hp H. induction H as [|[k' v'] r Hx Hr IH]; simpl; [constructor; [assumption|constructor]|].
  destruct (text_eqb k k'); constructor; assumption.
Qed.

Lemma WF_set_cat s c l : WF s -> NoDup (map fst l) ->
  WF (mkSt (assoc_set c l (cats s)) (refs s) (counter s)).
Proof.
  intros [H1 H2] Hl. split; simpl; [apply nodup_assoc_set; assumption|].
  apply Forall_assoc_set; assumption.
Qed.

Lemma WF_add s i : WF s -> WF (add s i).
Proof.
  intros H. unfold add. apply (WF_set_cat s); [assumption|]. apply nodup_assoc_set. apply cat_of_nodup. assumption.
Qed.

Lemma WF_cats s s' : cats s' = cats s -> WF s -> WF s'.
Proof. unfold WF. intros ->. tauto. Qed.

Lemma WF_get s c d : WF s -> WF (fst (get s c d)).
Proof.
  intros H. unfold get. destruct (assoc c (cats s)) eqn:E; simpl; [assumption|].
  apply (WF_set_cat s c []); [assumption|constructor].
Qed.

Lemma get_lookup s c d : snd (get s c d) = lookup s c d.
Proof. reflexivity. Qed.

Lemma cat_of_get s c d c' : cat_of (fst (get s c d)) c' = cat_of s c'.
Proof.
  unfold get. destruct (assoc c (cats s)) eqn:E; simpl; [reflexivity|].
  unfold cat_of. simpl. destruct (text_eq_dec c' c) as [->|Hne].
  - rewrite assoc_set_same, E. reflexivity.
  - rewrite assoc_set_other by assumption. reflexivity.
Qed.

Lemma WF_remove s c d s' e : WF s -> remove s c d = (s', e) -> WF s'.
Proof.
  intros H. unfold remove. destruct (get s c d) as [s1 o] eqn:G.
  assert (H1 : WF s1) by (change s1 with (fst (s1, o)); rewrite <- G; apply WF_get; assumption).
  destruct o as [i|]; [|intros E; inversion E; subst; assumption].
  destruct (remove_backrefs i _ _) as [rf [e'|]]; intros E; inversion E; subst.
  - eapply WF_cats; [|exact H1]. reflexivity.
  - apply (WF_set_cat s1 (icat i)) with (l := assoc_del (idisc i) (cat_of s1 (icat i))) in H1.
    + exact H1.
    + apply nodup_assoc_del. apply cat_of_nodup. assumption.
Qed.

Lemma WF_relate s ps s' : WF s -> relate s ps = Ok s' -> WF s'.
Proof. intros H E. eapply WF_cats; [eapply relate_cats; eassumption|assumption]. Qed.
Lemma WF_unrelate s ps s' : WF s -> unrelate s ps = Ok s' -> WF s'.
Proof. intros H E. eapply WF_cats; [eapply unrelate_cats; eassumption|assumption]. Qed.
Lemma WF_register s i rs s' e : WF s -> register s i rs = (s', e) -> WF s'.
Proof.
  intros H E. unfold register in E. eapply WF_cats; [eapply replay_cats; eassumption|]. apply WF_add. assumption.
Qed.

(* every state reached by any operation sequence is well-formed *)
Lemma WF_step s o : WF s -> WF (fst (step s o)).
Proof.
  intros H. destruct o; simpl.
  - apply WF_add; assumption.
  - exact (WF_get s c d H).
  - assumption.
  - destruct (relate s ps) eqn:E; simpl; [eapply WF_relate; eassumption|assumption].
  - destruct (unrelate s ps) eqn:E; simpl; [eapply WF_unrelate; eassumption|assumption].
  - destruct (remove s c d) as [s' [e|]] eqn:E; simpl; eapply WF_remove; eassumption.
  - assumption.
  - destruct (register s i rs) as [s' [e|]] eqn:E; simpl; eapply WF_register; eassumption.
  - assumption.
Qed.

Fixpoint run_state (s : st) (ops : list op) : st :=
  match ops with [] => s | o :: r => run_state (fst (step s o)) r end.

Theorem reachable_WF ops : WF (run_state init ops).
Proof.
  assert (G : forall s, WF s -> WF (run_state s ops)).
  { induction ops as [|o r IH]; intros s H; simpl; [assumption|]. apply IH. apply WF_step. assumption. }
  apply G. apply WF_init.
Qed.

(* entries are stored under their own key *)
Definition KeysOwn (s : st) : Prop :=
  forall c d i, lookup s c d = Some i -> icat i = c /\ idisc i = d.

Lemma lookup_set_cat s c l c' d' r n :
  lookup (mkSt (assoc_set c l (cats s)) r n) c' d' =
  if text_eqb c' c then match assoc d' l with Some (i, _) => Some i | None => None end else lookup s c' d'.
Proof.
  unfold lookup, cat_of. simpl. destruct (text_eqb_spec c' c) as [->|Hne].
  - rewrite assoc_set_same. reflexivity.
  - rewrite assoc_set_other by assumption. reflexivity.
Qed.

Lemma KeysOwn_add s i : KeysOwn s -> KeysOwn (add s i).
Proof.
  intros H c d j Hl. destruct (text_eq_dec c (icat i)) as [->|Hc].
  - destruct (text_eq_dec d (idisc i)) as [->|Hd].
    + rewrite lookup_add_same in Hl. inversion Hl; subst. auto.
    + rewrite lookup_add_other in Hl by congruence. auto.
  - rewrite lookup_add_other in Hl by congruence. auto.
Qed.

Lemma KeysOwn_cats s s' : cats s' = cats s -> KeysOwn s -> KeysOwn s'.
Proof. intros E H c d i Hl. rewrite (lookup_cats _ _ c d E) in Hl. auto. Qed.

Lemma lookup_get s c d c' d' : lookup (fst (get s c d)) c' d' = lookup s c' d'.
Proof. unfold lookup. rewrite cat_of_get. reflexivity. Qed.

Lemma assoc_del_other {B} k k2 (l : list (text * B)) : k2 <> k -> assoc k2 (assoc_del k l) = assoc k2 l.
Proof.
  intros Hne. induction l as [|[k' v'] r IH]; simpl; [reflexivity|].
  destruct (text_eqb_spec k k') as [->|Hn]; simpl.
  - destruct (text_eqb_spec k2 k'); [contradiction|reflexivity].
  - destruct (text_eqb k2 k'); [reflexivity|exact IH].
Qed.

Lemma remove_lookup s c d s' e :
  WF s -> KeysOwn s -> remove s c d = (s', e) ->
  (forall c' d', (c', d') <> (c, d) -> lookup s' c' d' = lookup s c' d') /\
  (e = None -> lookup s' c d = None).
Proof.
  intros Hw Hk. unfold remove. destruct (get s c d) as [s1 o] eqn:G.
  assert (Hl1 : forall c' d', lookup s1 c' d' = lookup s c' d').
  { intros c' d'. change s1 with (fst (s1, o)). rewrite <- G. apply lookup_get. }
  assert (Ho : o = lookup s c d) by (change o with (snd (s1, o)); rewrite <- G; reflexivity).
  assert (Hw1 : WF s1) by (change s1 with (fst (s1, o)); rewrite <- G; apply WF_get; assumption).
  destruct o as [i|].
  - symmetry in Ho. destruct (Hk _ _ _ Ho) as [Ec Ed]. subst c d.
    destruct (remove_backrefs i _ _) as [rf [e'|]]; intros E; inversion E; subst s' e.
    + split; [|discriminate]. intros c' d' _. unfold lookup, cat_of. simpl. apply Hl1.
    + split.
      * intros c' d' Hne. rewrite lookup_set_cat.
        destruct (text_eqb_spec c' (icat i)) as [->|Hc]; [|apply Hl1].
        rewrite assoc_del_other by congruence. fold (lookup s1 (icat i) d'). apply Hl1.
      * intros _. rewrite lookup_set_cat, text_eqb_refl.
        rewrite assoc_del_none; [reflexivity|apply cat_of_nodup; assumption].
  - intros E; inversion E; subst s' e. split; [intros; apply Hl1|]. intros _. rewrite Hl1. congruence.
Qed.

Lemma KeysOwn_remove s c d s' e : WF s -> KeysOwn s -> remove s c d = (s', e) -> KeysOwn s'.
Proof.
  intros Hw Hk E c' d' i Hl. destruct (remove_lookup _ _ _ _ _ Hw Hk E) as [H1 H2].
  destruct (text_eq_dec c' c) as [->|Hc].
  - destruct (text_eq_dec d' d) as [->|Hd].
    + destruct e as [e|].
      * (* remove failed part-way: categories untouched *)
        revert Hl. unfold remove in E. destruct (get s c d) as [s1 o] eqn:G.
        assert (Hl1 : forall c' d', lookup s1 c' d' = lookup s c' d').
        { intros c'' d''. change s1 with (fst (s1, o)). rewrite <- G. apply lookup_get. }
        destruct o as [j|]; [|inversion E].
        destruct (remove_backrefs j _ _) as [rf [e'|]]; inversion E; subst.
        unfold lookup, cat_of. simpl. intros Hl. apply Hk. rewrite <- Hl1. exact Hl.
      * rewrite (H2 eq_refl) in Hl. discriminate.
    + rewrite H1 in Hl by congruence. auto.
  - rewrite H1 in Hl by congruence. auto.
Qed.

Lemma KeysOwn_step s o : WF s -> KeysOwn s -> KeysOwn (fst (step s o)).
Proof.
  intros Hw H. destruct o; simpl.
  - apply KeysOwn_add; assumption.
  - intros c' d' i Hl. change (lookup (fst (get s c d)) c' d' = Some i) in Hl. rewrite lookup_get in Hl. auto.
  - assumption.
  - destruct (relate s ps) eqn:E; simpl; [eapply KeysOwn_cats; [eapply relate_cats; eassumption|assumption]|assumption].
  - destruct (unrelate s ps) eqn:E; simpl; [eapply KeysOwn_cats; [eapply unrelate_cats; eassumption|assumption]|assumption].
  - destruct (remove s c d) as [s' [e|]] eqn:E; simpl; eapply KeysOwn_remove; eassumption.
  - assumption.
  - destruct (register s i rs) as [s' [e|]] eqn:E; simpl;
      (eapply KeysOwn_cats; [unfold register in E; eapply replay_cats; eassumption|apply KeysOwn_add; assumption]).
  - assumption.
Qed.

Theorem reachable_invariants ops : WF (run_state init ops) /\ KeysOwn (run_state init ops).
Proof.
  assert (G : forall s, WF s -> KeysOwn s -> WF (run_state s ops) /\ KeysOwn (run_state s ops)).
  { induction ops as [|o r IH]; intros s H K; simpl; [auto|]. apply IH; [apply WF_step|apply KeysOwn_step]; assumption. }
  apply G; [apply WF_init|]. intros c d i Hl. discriminate.
Qed.

(* remove erases the entry and touches no other: in every reachable state *)
Theorem remove_erases ops c d s' :
  remove (run_state init ops) c d = (s', None) ->
  lookup s' c d = None /\
  forall c' d', (c', d') <> (c, d) -> lookup s' c' d' = lookup (run_state init ops) c' d'.
Proof.
  intros E. destruct (reachable_invariants ops) as [Hw Hk].
  destruct (remove_lookup _ _ _ _ _ Hw Hk E) as [H1 H2]. split; [apply H2; reflexivity|exact H1].
Qed.
