(* C10 -- the chain theorem instantiated with the real wire format (no codec premise left) *)
From Coq Require Import List NArith ZArith Bool Lia ZifyBool ZifyN Arith.
Import ListNotations.
Ltac Zify.zify_post_hook ::= Z.div_mod_to_equations.
Require Import Verif.Lib.Wire Verif.Gen.Facts_C10 Verif.Model.C10 Verif.Proofs.C10 Verif.Proofs.C10_sat
        Verif.Proofs.C10_on Verif.Proofs.C10_codec.

Definition wf_pair (kv : text * jv) : bool := forallb wf_char (fst kv) && wf_jv (snd kv).
Lemma wf_dict_eq d : wf_dict d = forallb wf_pair d.
Proof. reflexivity. Qed.

Lemma fp_cons kv d : forallb wf_pair (kv :: d) = wf_pair kv && forallb wf_pair d.
Proof. reflexivity. Qed.
Lemma wf_pair_eq k v : wf_pair (k, v) = forallb wf_char k && wf_jv v.
Proof. reflexivity. Qed.

Lemma fp_get d k v : forallb wf_pair d = true -> d_get k d = Some v -> wf_jv v = true.
Proof.
  induction d as [|[k' v'] d IH]; [discriminate|].
  rewrite fp_cons, wf_pair_eq. intros W. apply andb_true_iff in W. destruct W as [Wp Wd].
  apply andb_true_iff in Wp. cbn [d_get]. destruct (text_eqb k k'); [intros E; inversion E; subst; tauto|auto].
Qed.
Lemma fp_set d k v : forallb wf_char k = true -> wf_jv v = true -> forallb wf_pair d = true ->
  forallb wf_pair (d_set k v d) = true.
Proof.
  intros Wk Wv. induction d as [|[k' v'] d IH]; cbn [d_set].
  - intros _. rewrite fp_cons, wf_pair_eq, Wk, Wv. reflexivity.
  - rewrite fp_cons, wf_pair_eq. intros W. apply andb_true_iff in W. destruct W as [Wp Wd].
    apply andb_true_iff in Wp. destruct Wp as [Wk' Wv'].
    destruct (text_eqb k k'); rewrite fp_cons, wf_pair_eq.
    + rewrite Wk', Wv, Wd. reflexivity.
    + rewrite Wk', Wv', (IH Wd). reflexivity.
Qed.
Lemma fp_del d k : forallb wf_pair d = true -> forallb wf_pair (d_del k d) = true.
Proof.
  induction d as [|[k' v'] d IH]; [auto|]. rewrite fp_cons. cbn [d_del].
  intros W. apply andb_true_iff in W. destruct W as [Wp Wd].
  destruct (text_eqb k k'); [exact Wd|]. rewrite fp_cons, Wp, (IH Wd). reflexivity.
Qed.

Lemma wfd_get d k v : wf_dict d = true -> d_get k d = Some v -> wf_jv v = true.
Proof. exact (fp_get d k v). Qed.
Lemma wfd_set d k v : wf_text k = true -> wf_jv v = true -> wf_dict d = true -> wf_dict (d_set k v d) = true.
Proof. exact (fp_set d k v). Qed.
Lemma wfd_del d k : wf_dict d = true -> wf_dict (d_del k d) = true.
Proof. exact (fp_del d k). Qed.
Lemma wfd_update m : forall d, wf_dict m = true -> wf_dict d = true -> wf_dict (d_update m d) = true.
Proof.
  unfold d_update. induction m as [|[k v] m IH]; intros d Wm Wd; [exact Wd|].
  change (forallb wf_pair ((k, v) :: m) = true) in Wm. rewrite fp_cons, wf_pair_eq in Wm.
  apply andb_true_iff in Wm. destruct Wm as [Wp Wm]. apply andb_true_iff in Wp. destruct Wp as [Wk Wv].
  cbn [fold_left fst snd]. apply IH; [exact Wm|]. apply wfd_set; assumption.
Qed.
Lemma wfd_app a b : wf_dict a = true -> wf_dict b = true -> wf_dict (a ++ b) = true.
Proof.
  intros A B. change (forallb wf_pair (a ++ b) = true). rewrite forallb_app.
  change (forallb wf_pair a) with (wf_dict a). change (forallb wf_pair b) with (wf_dict b). rewrite A, B. reflexivity.
Qed.
Lemma wfd_sub a b : (forall x, In x a -> In x b) -> wf_dict b = true -> wf_dict a = true.
Proof.
  intros S B. change (forallb wf_pair a = true). change (forallb wf_pair b = true) in B.
  rewrite forallb_forall in *. auto.
Qed.
Lemma wfd_single k v : forallb wf_char k = true -> wf_jv v = true -> wf_dict [(k, v)] = true.
Proof. intros A B. change (forallb wf_pair [(k, v)] = true). rewrite fp_cons, wf_pair_eq, A, B. reflexivity. Qed.

Definition WF (d : dict) : Prop := wf_dict d = true.

Lemma flash_key_wf q : wf_text q = true -> wf_text (flash_key q) = true.
Proof. unfold flash_key, wf_text. rewrite forallb_app. intros ->. vm_compute. reflexivity. Qed.
Lemma csrf_key_wf : wf_text csrf_key = true.
Proof. vm_compute. reflexivity. Qed.

Lemma wf_op_closed p : wf_op p = true -> closed WF p.
Proof.
  unfold closed, WF. intros Wp d Wd.
  destruct p; cbn [raw wf_op] in *; try exact Wd; try reflexivity.
  - apply wfd_update; assumption.
  - apply andb_true_iff in Wp. destruct Wp as [Wk Wv].
    destruct (d_get k d); cbn [fst]; [exact Wd|].
    apply wfd_app; [exact Wd|]. apply wfd_single; assumption.
  - destruct (d_get k d); cbn [fst]; [apply wfd_del|]; exact Wd.
  - destruct (rev d) as [|kv r] eqn:E; cbn [fst]; [exact Wd|].
    apply (wfd_sub _ d); [|exact Wd]. intros x Hx. apply in_rev in Hx. apply in_rev. rewrite E. right. exact Hx.
  - apply andb_true_iff in Wp. destruct Wp as [Wk Wv]. apply wfd_set; assumption.
  - destruct (d_get k d); cbn [fst]; [apply wfd_del|]; exact Wd.
  - apply andb_true_iff in Wp. destruct Wp as [Wm Wq].
    destruct (d_get (flash_key q) d) as [v|] eqn:G.
    + destruct v; cbn [fst]; try exact Wd.
      destruct (dup || _); cbn [fst]; [|exact Wd].
      apply wfd_set; [apply flash_key_wf, Wq| |exact Wd].
      pose proof (wfd_get d _ _ Wd G) as Wl. cbn [wf_jv] in Wl |- *.
      rewrite forallb_app, Wl. cbn [forallb]. rewrite Wm. reflexivity.
    + cbn [fst]. apply wfd_app; [exact Wd|]. apply wfd_single; [apply (flash_key_wf q Wq)|].
      cbn [wf_jv forallb]. rewrite Wm. reflexivity.
  - destruct (d_get (flash_key q) d); cbn [fst]; [apply wfd_del|]; exact Wd.
  - cbn [fst]. apply wfd_set; [apply csrf_key_wf|exact Wp|exact Wd].
  - destruct (token_absent d); cbn [fst]; [|exact Wd]. apply wfd_set; [apply csrf_key_wf|exact Wp|exact Wd].
  - apply wfd_update; assumption.
Qed.

(* ------------------------------------------------------------------ json_dumps writes bytes *)
Lemma hexd_byte x : (x < 16)%N -> is_byte (hexd x).
Proof. unfold is_byte, hexd. destruct (x <? 10)%N; lia. Qed.

Lemma u4_bytes x : (x < 65536)%N -> Forall is_byte (u4 x).
Proof.
  intros H. unfold u4. repeat constructor; try (unfold is_byte; lia); apply hexd_byte; lia.
Qed.

Lemma esc_char_bytes c : wf_char c = true -> Forall is_byte (esc_char c).
Proof.
  unfold wf_char, esc_char. intros W.
  repeat match goal with |- context[if ?b then _ else _] => destruct b eqn:? end;
    try (repeat constructor; unfold is_byte; lia).
  - apply u4_bytes. lia.
  - apply Forall_app. split; apply u4_bytes; lia.
Qed.

Lemma digits_bytes l : forallb is_digit l = true -> Forall is_byte l.
Proof.
  rewrite forallb_forall, Forall_forall. intros H x Hx. specialize (H x Hx). unfold is_digit in H. unfold is_byte. lia.
Qed.
Lemma dec_N_bytes n : Forall is_byte (dec_N n).
Proof. destruct (dec_N_spec n) as (l & -> & F & _). apply digits_bytes, F. Qed.

Lemma json_str_bytes s : forallb wf_char s = true -> Forall is_byte (json_str s).
Proof.
  intros W. unfold json_str. constructor; [unfold is_byte; lia|]. apply Forall_app. split; [|repeat constructor; unfold is_byte; lia].
  induction s as [|c s IH]; [constructor|]. cbn [forallb] in W. apply andb_true_iff in W. destruct W as [Wc Ws].
  cbn [flat_map]. apply Forall_app. split; [apply esc_char_bytes, Wc|apply IH, Ws].
Qed.

Lemma join_sep_bytes (l : list text) : Forall (Forall is_byte) l -> Forall is_byte (join_sep l).
Proof.
  induction l as [|x l IH]; intros F; [constructor|]. inversion F as [|? ? Hx Hl]; subst.
  destruct l as [|y l]; [exact Hx|]. rewrite join_sep_cons. apply Forall_app. split; [exact Hx|].
  apply Forall_app. split; [repeat constructor; unfold is_byte; lia|apply IH, Hl].
Qed.

Lemma json_bytes : forall v, wf_jv v = true -> Forall is_byte (json_dumps v).
Proof.
  induction v using jv_ind2; intros W.
  - repeat constructor; unfold is_byte; lia.
  - destruct b; repeat constructor; unfold is_byte; lia.
  - cbn [json_dumps]. unfold dec_Z. destruct (z <? 0)%Z; [constructor; [unfold is_byte; lia|]|]; apply dec_N_bytes.
  - cbn [json_dumps]. unfold flt_repr. apply Forall_app. split; [destruct (z <? 0)%Z; repeat constructor; unfold is_byte; lia|].
    apply Forall_app. split; [apply dec_N_bytes|]. apply Forall_app. split; [repeat constructor; unfold is_byte; lia|].
    assert (M : (Z.abs_N z mod 4 = 0 \/ Z.abs_N z mod 4 = 1 \/ Z.abs_N z mod 4 = 2 \/ Z.abs_N z mod 4 = 3)%N) by lia.
    destruct M as [M|[M|[M|M]]]; rewrite M; repeat constructor; unfold is_byte; lia.
  - apply json_str_bytes, W.
  - cbn [json_dumps wf_jv] in *. constructor; [unfold is_byte; lia|]. apply Forall_app. split; [|repeat constructor; unfold is_byte; lia].
    apply join_sep_bytes. rewrite Forall_forall in *. intros t Ht. apply in_map_iff in Ht. destruct Ht as (x & <- & Hx).
    apply H; [exact Hx|]. rewrite forallb_forall in W. apply W, Hx.
  - rewrite json_dumps_obj. cbn [wf_jv] in W. constructor; [unfold is_byte; lia|]. apply Forall_app. split; [|repeat constructor; unfold is_byte; lia].
    apply join_sep_bytes. rewrite Forall_forall in *. intros t Ht. apply in_map_iff in Ht. destruct Ht as (x & <- & Hx).
    rewrite forallb_forall in W. specialize (W x Hx). apply andb_true_iff in W. destruct W as [Wk Wv].
    unfold pair_text. apply Forall_app. split; [apply json_str_bytes, Wk|]. apply Forall_app. split; [repeat constructor; unfold is_byte; lia|].
    apply H; assumption.
Qed.

(* ------------------------------------------------------------------ the instance *)
Lemma payload_wf s : wf_dict (st s) = true -> wf_jv (payload s) = true.
Proof.
  intros W. unfold payload.
  change (wf_jv (tjv (accessed s)) && (wf_jv (tjv (created s)) && (wf_dict (st s) && true)) = true).
  rewrite W. destruct (accessed s), (created s); reflexivity.
Qed.

Lemma real_codec_ok macf n k : (forall k m, Forall is_byte (macf k m)) -> codec_ok (real_O macf n) k WF.
Proof.
  intros Hb s W. unfold codec_at. cbn [ser deser b64 unb64 mac real_O]. split.
  - apply b64dec_b64enc. apply Forall_app. split; [apply Hb|]. apply json_bytes, payload_wf, W.
  - apply json_loads_dumps, payload_wf, W.
Qed.

Theorem chain_refines_spec_real macf n o l :
  (forall k m, length (macf k m) = n) -> (forall k m, Forall is_byte (macf k m)) -> wf_chain l ->
  chain_ok (real_O macf n) o l ->
  Forall2 ok_at (run_chain (real_O macf n) o None l) (spec_chain (real_O macf n) o None true l).
Proof.
  intros Hl Hb Wl Hok. apply (chain_refines_spec_on (real_O macf n) o WF).
  - exact Hl.
  - apply real_codec_ok, Hb.
  - reflexivity.
  - exact Hok.
  - unfold wf_chain, chain_closed in *. rewrite Forall_forall in *. intros r Hr. specialize (Wl r Hr).
    rewrite Forall_forall in *. intros pt Hp. apply wf_op_closed, Wl, Hp.
  - exact Logic.I.
Qed.

(* with a (toy) MAC of one byte there is no premise at all besides well-formed arguments *)
Definition toy_mac (k m : text) : text := [N.of_nat (length k + length m) mod 256]%N.
Theorem chain_refines_spec_real_closed o l : wf_chain l -> chain_ok (real_O toy_mac 1) o l ->
  Forall2 ok_at (run_chain (real_O toy_mac 1) o None l) (spec_chain (real_O toy_mac 1) o None true l).
Proof.
  apply chain_refines_spec_real; [reflexivity|]. intros k m. repeat constructor. unfold is_byte. lia.
Qed.
