(* C13 part (b): the accumulation relation Rc of Proofs/C13_c.v admits at most ONE subrequest segment per request.
   Towards several subrequests per request: the segment predicate closed under concatenation ([star Q]) composes
   without any exclusivity side condition, and two subrequests run one after the other are preserved. *)
From Coq Require Import List NArith ZArith Bool Arith Lia.
Import ListNotations.
Require Import Verif.Lib.Wire Verif.Lib.C13Bracket Verif.Gen.Facts_C13 Verif.Model.C13 Verif.Proofs.C13_b Verif.Proofs.C13_c.
Local Open Scope N_scope.

(* a deeper log that is a sequence of segments, each one a judged subrequest *)
Inductive star (Q : list pev -> Prop) : list pev -> Prop :=
| star_nil : star Q []
| star_app s1 s2 : Q s1 -> star Q s2 -> star Q (s1 ++ s2).

Lemma star_one (Q : list pev -> Prop) s : Q s -> star Q s.
Proof. intros H. rewrite <- (app_nil_r s). apply star_app; [exact H|apply star_nil]. Qed.
Lemma star_cat (Q : list pev -> Prop) s1 s2 : star Q s1 -> star Q s2 -> star Q (s1 ++ s2).
Proof. induction 1; intros H2; [exact H2|]. rewrite <- app_assoc. apply star_app; auto. Qed.

Section Star.
Variables (l : N) (sc : scn).

(* Rc with a starred segment predicate: the "empty" alternative is subsumed *)
Lemma Rc_star_of A Q a b : Rc l sc A Q a b -> Rc l sc A (star Q) a b.
Proof.
  intros [n [L [F [R [G [N1 [M S]]]]]]]. exists n. repeat split; auto.
  destruct S as [S|S]; [left; exact S|right; apply star_one; exact S].
Qed.

(* composition with NO exclusivity condition (Rc_comp needs one of the two sides to be subrequest-free) *)
Lemma Rc_star_trans A Q a b c : Rc l sc A (star Q) a b -> Rc l sc A (star Q) b c -> Rc l sc A (star Q) a c.
Proof.
  intros [n1 [L1 [F1 [R1 [G1 [N1 [M1 S1]]]]]]] [n2 [L2 [F2 [R2 [G2 [N2 [M2 S2]]]]]]].
  exists (n1 ++ n2). rewrite lvl_log_app, !reg0_app, ge_log_app.
  repeat split.
  - rewrite L2, L1, app_assoc. reflexivity.
  - apply Forall_app; auto.
  - rewrite R2, R1, app_assoc. reflexivity.
  - rewrite G2, G1, app_assoc. reflexivity.
  - congruence.
  - congruence.
  - right. apply star_cat.
    + destruct S1 as [->|S1]; [apply star_nil|exact S1].
    + destruct S2 as [->|S2]; [apply star_nil|exact S2].
Qed.

Lemma pres_star_seq A Q (m n : M) :
  pres (Rc l sc A (star Q)) m -> pres (Rc l sc A (star Q)) n -> pres (Rc l sc A (star Q)) (seq m n).
Proof.
  intros Hm Hn st st' r E. unfold seq, bind in E. destruct (m st) as [s1 [v|k]] eqn:Em.
  - eapply Rc_star_trans; [eapply Hm; exact Em|eapply Hn; exact E].
  - injection E as <- _. eapply Hm; exact Em.
Qed.

(* a subrequest (anything that only adds deeper events satisfying P and restores the deques) as a starred step *)
Lemma pres_sub_star A P (sr : M) : pres (Rsub l P) sr -> pres (Rc l sc A (star P)) sr.
Proof. intros H st st' r E. apply Rc_star_of. apply (Rsub_Rs l sc P A). eapply H. exact E. Qed.

(* two -- by induction any number of -- subrequests started one after the other by the same request: own log, deques
   and counters untouched, the deeper log is a sequence of judged segments *)
Theorem two_subrequests_pres A P (sr1 sr2 : M) :
  pres (Rsub l P) sr1 -> pres (Rsub l P) sr2 -> pres (Rc l sc A (star P)) (seq sr1 sr2).
Proof. intros H1 H2. apply pres_star_seq; apply pres_sub_star; assumption. Qed.

Fixpoint seq_all (ms : list M) : M := match ms with [] => ret 0 | m :: r => seq m (seq_all r) end.
Theorem many_subrequests_pres A P (srs : list M) :
  Forall (fun sr => pres (Rsub l P) sr) srs -> pres (Rc l sc A (star P)) (seq_all srs).
Proof.
  induction 1 as [|sr srs H F IH]; cbn [seq_all].
  - intros st st' r E. injection E as <- _. apply Rc_star_of. apply Rc_refl.
  - apply pres_star_seq; [apply pres_sub_star; exact H|exact IH].
Qed.
End Star.

(* instance: real subrequests of the interpreter (any valid scenario trees, with or without tweens), two in a row:
   the stack, the parent's deques and counters are as before, the log grew by two judged segments *)
Theorem two_run_requests ev l sc1 tw1 sc2 tw2 st st' r :
  valid_tree sc1 = true -> valid_tree sc2 = true ->
  seq (run_request ev (l + 1) sc1 tw1) (run_request ev (l + 1) sc2 tw2) st = (st', r) ->
  exists new, log st' = log st ++ new /\ rq st' = rq st /\ fq st' = fq st /\ nr st' = nr st /\ nf st' = nf st /\
    Forall (fun e => l + 1 <= e_lvl e) new /\
    star (fun seg => subP (l + 1) sc1 tw1 seg \/ subP (l + 1) sc2 tw2 seg) new.
Proof.
  intros V1 V2 E.
  set (P := fun seg => subP (l + 1) sc1 tw1 seg \/ subP (l + 1) sc2 tw2 seg).
  assert (H1 : pres (Rsub l P) (run_request ev (l + 1) sc1 tw1)).
  { intros a b rr Er. destruct (run_request_judged sc1 ev (l + 1) tw1 a b rr V1 Er) as [n [A1 [A2 [A3 [A4 [A5 [A6 A7]]]]]]].
    exists n. repeat split; auto. left. exact A7. }
  assert (H2 : pres (Rsub l P) (run_request ev (l + 1) sc2 tw2)).
  { intros a b rr Er. destruct (run_request_judged sc2 ev (l + 1) tw2 a b rr V2 Er) as [n [A1 [A2 [A3 [A4 [A5 [A6 A7]]]]]]].
    exists n. repeat split; auto. right. exact A7. }
  destruct (two_subrequests_pres l (Scn false [] [] NoSub) (fun _ => false) P _ _ H1 H2 _ _ _ E)
    as [new [L [F [R [G [N1 [M S]]]]]]].
  assert (Fl : Forall (fun e => l + 1 <= e_lvl e) new).
  { eapply Forall_impl; [|exact F]. intros e [[_ X]|X]; [discriminate X|exact X]. }
  assert (X : lvl_log l new = []).
  { apply filter_none. eapply Forall_impl; [|exact Fl]. intros e H. simpl in H. apply N.eqb_neq. lia. }
  assert (Y : ge_log (l + 1) new = new).
  { apply filter_all. eapply Forall_impl; [|exact Fl]. intros e H. apply N.leb_le. exact H. }
  rewrite X in R, G. simpl in R, G. rewrite app_nil_r in R, G. rewrite Y in S.
  exists new. repeat split; auto.
  destruct S as [->|S]; [apply star_nil|exact S].
Qed.
