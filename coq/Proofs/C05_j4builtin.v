(* C05 -- second step towards the program-text clause J4: the built-in exception-response view (the only table entries whose
   Body events proj_trace drops) returns, so it is never the source of an HTTPForbidden at registration level. *)
From Coq Require Import List NArith ZArith Bool Lia.
Import ListNotations.
Require Import Verif.Lib.Wire Verif.Gen.Facts_C03 Verif.Model.C03 Verif.Gen.Facts_C05 Verif.Model.C05.
Require Import Verif.Proofs.C05 Verif.Proofs.C05_cfg Verif.Proofs.C05_seq Verif.Proofs.C05_judge Verif.Proofs.C05_j4.
Local Close Scope N_scope.
Local Open Scope nat_scope.

Lemma init_bodies irq ier iw rt d :
  In (rt, d) (cs_D (init_state irq ier iw)) -> body_behave (d_body d) = BReturn /\ d_perm d = None.
Proof.
  intros H. vm_compute in H.
  repeat (destruct H as [H|H]; [inversion H; subst; split; reflexivity|]). destruct H.
Qed.

(* every built-in entry of the table of a prog_ok one-commit program returns and is unprotected *)
Theorem builtin_returns irq ier iw prog rt d :
  prog_ok prog ->
  In (rt, d) (cs_D (commit (init_state irq ier iw) prog)) ->
  N.leb (2 * builtin_tag) rt = true ->
  body_behave (d_body d) = BReturn /\ d_perm d = None.
Proof.
  intros OK Hin Hbig.
  destruct (commit_table _ _ _ _ Hin) as [H0|(st & eo & o & b & Hs & Hd & -> & _ & _ & _)].
  - eapply init_bodies; exact H0.
  - exfalso. destruct (directive_view _ _ _ _ Hd) as (o0 & Ho & Et & _).
    assert (Hsmall : (o_tag o < builtin_tag)%N) by (rewrite Et; apply (ok_small _ OK); eapply in_stmt_tags; eauto).
    rewrite (rtag_small _ eo Hsmall) in Hbig. discriminate Hbig.
Qed.

(* so a dropped (built-in) Body event is never accepted as the source of an HTTPForbidden *)
Theorem builtin_not_source irq ier iw prog rt d c :
  prog_ok prog ->
  let s := commit (init_state irq ier iw) prog in
  In (rt, d) (cs_D s) -> assocN rt (cs_D s) = Some d ->
  N.leb (2 * builtin_tag) rt = true ->
  forbid_source_D (cs_D s) (Some (Body rt c)) = false.
Proof.
  intros OK s Hin Ha Hbig. unfold forbid_source_D. rewrite Ha.
  destruct (builtin_returns irq ier iw prog rt d OK Hin Hbig) as [Hb _]. rewrite Hb. reflexivity.
Qed.

(* non-vacuity: the table of a prog_ok program does hold the built-in entries (tags 9000..9003), and they return *)
Example ex_builtin_returns :
  option_map (fun d => body_behave (d_body d)) (assocN 9000%N (cs_D (commit (init_state 1%N 7%N 8%N) ex_prog2))) = Some BReturn
  /\ N.leb (2 * builtin_tag) 9000%N = true.
Proof. split; vm_compute; reflexivity. Qed.
