(* C06 -- the generator closure translated from the source (Gen/Code_C06.v, regenerated on every run)
   equals the reference model.  The scripts never mention the generated text: case analysis on the
   shape of the value and on every scrutinee that appears, one induction for the loop. *)
From Coq Require Import List NArith ZArith Bool.
Import ListNotations.
Require Import Verif.Lib.Wire Verif.Lib.Text Verif.Lib.PathNorm Verif.Lib.Utf8 Verif.Lib.Percent.
Require Verif.Gen.Facts_C01 Verif.Model.C01.
Require Import Verif.Gen.Facts_C17 Verif.Model.C17.
Require Import Verif.Gen.Facts_C06 Verif.Model.C06 Verif.Gen.Code_C06.
Open Scope N_scope.

(* one iteration of the reference model: quote the value of one item, store it, go on *)
Definition step_model (sf : bool) (star : option text) (x : text * kwval) (acc : list (text * text))
           (K : list (text * text) -> M text) : M text :=
  fun c => match gen_value_ck sf c (star_eq star (fst x)) (snd x) with
           | (Ok q, c1) => K (acc ++ [(fst x, q)]) c1
           | (Err e, c1) => (Err e, c1)
           end.

Lemma mmapM_seq_ck sf (f : pval -> M text) : (forall x c, f x c = qv_ck sf c x) ->
  forall l c, mmapM f l c = seq_ck sf c l.
Proof.
  intros Hf. induction l as [|x r IH]; intros c; cbn [mmapM seq_ck]; [reflexivity|].
  unfold mbind at 1. rewrite Hf. destruct (qv_ck sf c x) as [[q|e] c1]; [|reflexivity].
  unfold mbind at 1. rewrite IH. destruct (seq_ck sf c1 r) as [[qs|e] c2]; reflexivity.
Qed.

Ltac split_matches :=
  repeat match goal with
         | |- context [match ?X with _ => _ end] =>
             lazymatch X with
             | context [match _ with _ => _ end] => fail
             | _ => destruct X eqn:?
             end
         end.

Lemma gen_q_pv_is_model sf x c : gen_q_pv sf x c = qv_ck sf c x.
Proof. unfold gen_q_pv, mbind, mret, q_pv. destruct (qv_ck sf c x) as [[q|e] c1]; reflexivity. Qed.

Lemma gen_q_kw_is_model sf v c : gen_q_kw sf v c = q_kw sf v c.
Proof. unfold gen_q_kw, mbind, mret. destruct (q_kw sf v c) as [[q|e] c1]; reflexivity. Qed.

Lemma mbind_ext {A B} (m m' : M A) (f f' : A -> M B) c :
  m c = m' c -> (forall a c1, f a c1 = f' a c1) -> mbind m f c = mbind m' f' c.
Proof. intros Hm Hf. unfold mbind. rewrite Hm. destruct (m' c) as [[a|e] c1]; auto. Qed.

(* the translated loop body is one iteration of the reference model *)
Ltac one_match :=
  match goal with
  | |- context [match ?X with _ => _ end] =>
      lazymatch X with
      | context [match _ with _ => _ end] => fail
      | _ => destruct X eqn:?
      end
  end.
Ltac body_step sf :=
  first
    [ progress cbn [kv_is_bytes kv_is_str kv_is_seq kv_items kv_decode_utf8 kv_str negb andb orb gen_value_ck text_of q_kw fst snd]
    | progress unfold mbind, mlift, mret, dstore, rbind
    | rewrite gen_q_kw_is_model
    | rewrite gen_q_pv_is_model
    | rewrite (mmapM_seq_ck sf) by
        (intros; unfold mbind, mret; rewrite gen_q_pv_is_model;
         match goal with |- context [qv_ck ?a ?b ?d] => destruct (qv_ck a b d) as [[?|?] ?] end; reflexivity)
    | progress unfold q_pv
    | one_match ].

Theorem gen_body_is_model sf star x acc K c :
  gen_generator_body sf star x acc K c = step_model sf star x acc K c.
Proof.
  destruct x as [k v]. unfold gen_generator_body, step_model. cbn [fst snd].
  destruct v as [[s|b|z|n s]|l shown]; destruct (star_eq star k);
    repeat body_step sf; try reflexivity; try congruence.
Qed.

Lemma newdict_ck_star sf g : forall kw c, newdict_ck sf c g kw = newdict_ck sf c (star_pat (p_star g)) kw.
Proof.
  induction kw as [|kv r IH]; intros c; cbn [newdict_ck]; [reflexivity|].
  change (is_star_key (star_pat (p_star g)) (fst kv)) with (is_star_key g (fst kv)).
  destruct (gen_value_ck sf c (is_star_key g (fst kv)) (snd kv)) as [[q|e] c1]; [|reflexivity].
  rewrite IH. reflexivity.
Qed.

(* any loop body that is one iteration of the reference model folds to the reference model *)
Lemma mfold_model sf star tpl (body : text * kwval -> list (text * text) -> (list (text * text) -> M text) -> M text)
      (k_end : list (text * text) -> M text) :
  (forall x acc K c, body x acc K c = step_model sf star x acc K c) ->
  (forall acc c, k_end acc c = (format_template tpl acc, c)) ->
  forall kw acc c,
    mfold body kw acc k_end c =
    match newdict_ck sf c (star_pat star) kw with
    | (Ok d, c1) => (format_template tpl (acc ++ d), c1)
    | (Err e, c1) => (Err e, c1)
    end.
Proof.
  intros Hb He. induction kw as [|kv r IH]; intros acc c; cbn [mfold newdict_ck].
  - rewrite He, app_nil_r. reflexivity.
  - rewrite Hb. unfold step_model.
    change (is_star_key (star_pat star) (fst kv)) with (star_eq star (fst kv)).
    destruct (gen_value_ck sf c (star_eq star (fst kv)) (snd kv)) as [[q|e] c1]; [|reflexivity].
    rewrite IH. destruct (newdict_ck sf c1 (star_pat star) r) as [[d|e] c2]; [|reflexivity].
    rewrite <- app_assoc. reflexivity.
Qed.

(* generated = model: the whole closure *)
Theorem gen_generator_is_model sf star tpl kw c :
  gen_generator sf star tpl kw c = generator_model sf star tpl kw c.
Proof.
  unfold gen_generator, generator_model. cbv zeta.
  match goal with
  | |- mfold ?body ?l ?a ?ke ?cc = _ =>
      rewrite (mfold_model sf star tpl body ke (gen_body_is_model sf star))
  end.
  - reflexivity.
  - intros acc c0. unfold mbind, mlift, mret. destruct (format_template tpl acc); reflexivity.
Qed.

(* the reference model of the closure is what [generate_ck] (the cache-threaded Route.generate) runs *)
Theorem generate_ck_closure sf c g kw :
  generate_ck sf c g kw =
  match gen_template g with
  | Err e => (Err e, c)
  | Ok tpl => generator_model sf (p_star g) tpl kw c
  end.
Proof.
  unfold generate_ck, generator_model. destruct (gen_template g) as [tpl|e]; [|reflexivity].
  rewrite <- newdict_ck_star. destruct (newdict_ck sf c g kw) as [[d|e] c1]; reflexivity.
Qed.

Lemma history_g_ext G1 G2 : (forall star tpl kw c, G1 star tpl kw c = G2 star tpl kw c) ->
  forall g calls c, history_g G1 c g calls = history_g G2 c g calls.
Proof.
  intros H g. induction calls as [|kw r IH]; intros c; cbn [history_g]; [reflexivity|].
  destruct (gen_template g) as [tpl|e].
  - rewrite H. destruct (G2 (p_star g) tpl kw c) as [u c1]. rewrite IH. reflexivity.
  - rewrite IH. reflexivity.
Qed.

(* histories answered by the reference closure are the histories of the cache-threaded generate *)
Theorem history_g_model sf g : forall calls c,
  history_g (generator_model sf) c g calls = history_ck sf c g calls.
Proof.
  induction calls as [|kw r IH]; intros c; cbn [history_g history_ck]; [reflexivity|].
  rewrite generate_ck_closure. destruct (gen_template g) as [tpl|e].
  - destruct (generator_model sf (p_star g) tpl kw c) as [u c1]. rewrite IH. reflexivity.
  - rewrite IH. reflexivity.
Qed.

(* the runner that answers with the translated source answers as the reference runner *)
Theorem run_generated_is_model : forall o d calls, run_hist gen_generator o d calls = run_hist generator_model o d calls.
Proof.
  intros o d calls. unfold run_hist.
  destruct (C01.get_oracle o) as [orc|]; [|reflexivity]. cbn [obind].
  destruct (get_decl2 d) as [dd|]; [|reflexivity]. cbn [obind].
  destruct (get_list_of get_kw calls) as [cs|]; [|reflexivity]. cbn [obind].
  destruct (parse orc (snd dd)); try reflexivity.
  rewrite (history_g_ext (gen_generator segment_key_stringified) (generator_model segment_key_stringified)
             (gen_generator_is_model segment_key_stringified)).
  reflexivity.
Qed.

Require Import Verif.Proofs.C06_hist.

(* the property theorem about histories, restated for the program translated from the source *)
Theorem generated_history_independent : forall g calls,
  history_g (gen_generator segment_key_stringified) [] g calls = map (generate g) calls.
Proof.
  intros g calls.
  rewrite (history_g_ext _ _ (gen_generator_is_model segment_key_stringified)).
  rewrite history_g_model. apply generation_history_independent.
Qed.
