(* C05 -- step towards the program-text clause J4: for a one-commit program (prog_ok) every entry of the derived-view table
   that is not the built-in view carries the body behaviour its STATEMENT declares, so the judge's program-text test
   "the callable of this statement raises HTTPForbidden" (forbid_source) agrees with the registration-level test
   (forbid_source_D, Proofs/C05_j4.v) on Body events of statement views. *)
From Coq Require Import List NArith ZArith Bool Lia.
Import ListNotations.
Require Import Verif.Lib.Wire Verif.Gen.Facts_C03 Verif.Model.C03 Verif.Gen.Facts_C05 Verif.Model.C05.
Require Import Verif.Proofs.C05 Verif.Proofs.C05_cfg Verif.Proofs.C05_seq Verif.Proofs.C05_judge Verif.Proofs.C05_j4.
Local Close Scope N_scope.
Local Open Scope nat_scope.

Lemma directive_body st0 s o b :
  directive st0 s = Some (AView o b) ->
  exists o0, stmt_opts s = Some o0 /\ o_tag o = o_tag o0 /\ body_behave b = o_behave o0.
Proof.
  destruct s as [t c|p t c| |o0|o0|o0 a|o0|o0]; unfold directive; intros H.
  - destruct (c && negb (ctor_policy_is_none_test || t)); discriminate H.
  - destruct (c && negb (ctor_defperm_is_none_test || t)); discriminate H.
  - discriminate H.
  - inversion H; subst. exists o0. repeat split.
  - inversion H; subst. exists o0. repeat split.
  - destruct a; inversion H; subst; exists o0; repeat split.
  - inversion H; subst. exists o0. repeat split.
  - inversion H; subst. exists o0. repeat split.
Qed.

(* the body a table entry runs is the one its statement declares *)
Theorem behave_link irq ier iw prog rt d :
  prog_ok prog ->
  In (rt, d) (cs_D (commit (init_state irq ier iw) prog)) ->
  N.leb (2 * builtin_tag) rt = false ->
  stmt_behave prog (stag rt) = body_behave (d_body d).
Proof.
  intros OK Hin Hsm.
  destruct (commit_table _ _ _ _ Hin) as [H0|(st & eo & o & b & Hs & Hd & -> & _ & Hb & _)].
  - apply init_tags in H0. congruence.
  - destruct (directive_body _ _ _ _ Hd) as (o0 & Ho & Et & Hbh).
    assert (Hsmall : (o_tag o < builtin_tag)%N) by (rewrite Et; apply (ok_small _ OK); eapply in_stmt_tags; eauto).
    assert (Hf : find_stmt prog (o_tag o) = Some st) by (rewrite Et; apply find_stmt_unique; [apply (ok_tags _ OK)|exact Hs|exact Ho]).
    rewrite (stag_rtag _ eo Hsmall). unfold stmt_behave. rewrite Hf, Ho, Hb, Hbh. reflexivity.
Qed.

(* hence the program-text source test of J4 and the registration-level one agree on the Body events of statement views *)
Theorem forbid_source_link irq ier iw prog rt d c :
  prog_ok prog ->
  let s := commit (init_state irq ier iw) prog in
  In (rt, d) (cs_D s) -> assocN rt (cs_D s) = Some d ->
  N.leb (2 * builtin_tag) rt = false ->
  forbid_source prog (Some (Body (stag rt) c)) = forbid_source_D (cs_D s) (Some (Body rt c)).
Proof.
  intros OK s Hin Ha Hsm. unfold forbid_source, forbid_source_D. rewrite Ha.
  rewrite (behave_link irq ier iw prog rt d OK Hin Hsm). reflexivity.
Qed.

(* non-vacuity: a prog_ok program whose table holds a statement view; its entry runs the body the statement declares *)
Example ex_behave_link :
  prog_ok ex_prog2
  /\ option_map (fun d => body_behave (d_body d)) (assocN 2%N (cs_D (commit (init_state 1%N 7%N 8%N) ex_prog2)))
     = Some (stmt_behave ex_prog2 (stag 2%N))
  /\ stmt_behave ex_prog2 (stag 2%N) = BRaise EBoom.
Proof.
  split; [|split; vm_compute; reflexivity].
  constructor.
  - vm_compute. repeat constructor; simpl; intuition discriminate.
  - intros t Ht. vm_compute in Ht. destruct Ht as [<-|[<-|[]]]; vm_compute; reflexivity.
  - intros s Hs Hp. destruct Hs as [<-|[<-|[<-|[]]]]; try discriminate Hp. vm_compute. reflexivity.
  - intros p t c Hs. destruct Hs as [H|[H|[H|[]]]]; discriminate H.
Qed.
