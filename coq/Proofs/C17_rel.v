(* C17 -- round 6: relations between two calls that the parsed-URL judge observes on the implementation.
   (1) extra elements: the URL with elements is the URL without them with  [/]quoted elements  inserted after the route's
       path -- no segment nobody supplied (seed C17-16 aliased the element joiner to traversal._join_path_tuple, whose
       `or '/'` turns a single empty element into an extra empty segment). *)
From Coq Require Import List NArith ZArith Bool Lia.
Import ListNotations.
Require Import Verif.Lib.Wire Verif.Lib.Text Verif.Lib.Utf8 Verif.Lib.Percent
               Verif.Gen.Facts_C17 Verif.Model.C17 Verif.Proofs.C17.
Open Scope N_scope.

Theorem route_url_elements_extend c e rs n els o kw u0 u :
  els <> [] -> join_elements_c c els = join_elements els ->
  route_url c e rs n [] o kw = Ok u0 -> route_url c e rs n els o kw = Ok u ->
  exists ap path qs fr s ts,
    u0 = ap ++ path ++ qs ++ fr
    /\ u = ap ++ path ++ (if endswith_char 47 path then s else 47 :: s) ++ qs ++ fr
    /\ join_elements els = Ok s /\ spec_elements els = Some ts /\ decode_segments s = Some ts.
Proof.
  intros Hne Hc H0 H. unfold route_url in *. destruct (assoc n rs) as [p|]; [|discriminate].
  destruct (parse_url_overrides e o) as [[[ap qs] fr]|]; cbn [rbind] in *; [|discriminate].
  destruct (generate p kw) as [path|]; cbn [rbind] in *; [|discriminate].
  inversion H0; subst u0. clear H0.
  destruct els as [|x els]; [contradiction|]. rewrite Hc in H.
  destruct (join_elements (x :: els)) as [s|] eqn:Ej; cbn [rbind] in H; [|discriminate]. inversion H; subst u. clear H.
  destruct (elements_roundtrip _ _ Hne Ej) as (ts & T1 & T2).
  exists ap, path, qs, fr, s, ts. cbn [app]. repeat split; auto.
Qed.

Theorem resource_url_elements_extend c e names els o u0 u :
  els <> [] -> join_elements_c c els = join_elements els ->
  resource_url c e names [] o = Ok u0 -> resource_url c e names els o = Ok u ->
  exists ap vp qs fr s ts,
    u0 = ap ++ vp ++ qs ++ fr /\ u = ap ++ vp ++ s ++ qs ++ fr
    /\ join_elements els = Ok s /\ spec_elements els = Some ts /\ decode_segments s = Some ts.
Proof.
  intros Hne Hc H0 H. unfold resource_url in *. destruct (virtual_path names) as [vp|]; cbn [rbind] in *; [|discriminate].
  destruct (parse_url_overrides e o) as [[[ap qs] fr]|]; cbn [rbind] in *; [|discriminate].
  inversion H0; subst u0. clear H0.
  destruct els as [|x els]; [contradiction|]. rewrite Hc in H.
  destruct (join_elements (x :: els)) as [s|] eqn:Ej; cbn [rbind] in H; [|discriminate]. inversion H; subst u. clear H.
  destruct (elements_roundtrip _ _ Hne Ej) as (ts & T1 & T2).
  exists ap, vp, qs, fr, s, ts. cbn [app]. repeat split; auto.
Qed.

(* a single empty element adds the empty text (after the '/' that separates it from the route's path); the joiner of
   resource paths answers "/" for the same tuple: the two may not be shared *)
Example join_elements_single_empty : join_elements [PStr []] = Ok [].
Proof. vm_compute. reflexivity. Qed.
Theorem join_elements_is_not_join_path_tuple : exists els, join_path_tuple els <> join_elements els.
Proof. exists [PStr []]. vm_compute. discriminate. Qed.

(* (2) StaticURLInfo.add (configuration time): the registration a statement add_static_view(name, spec) leaves behind is
   the one static_url finds for every asset below that spec, unless an earlier registration's spec is a prefix of the
   asset path too (registrations are searched in order; the new one goes last) *)
Require Import Verif.Model.C17_glue.

Lemma c17_find_reg_x_app regs1 regs2 path :
  (forall g, In g regs1 -> strip_prefix (c17_reg_spec g) path = None) ->
  find_reg_x (regs1 ++ regs2) path = find_reg_x regs2 path.
Proof.
  induction regs1 as [|g r IH]; intros H; [reflexivity|]. cbn [app find_reg_x].
  pose proof (H g (or_introl eq_refl)) as Hg. unfold c17_reg_spec in Hg.
  destruct g; rewrite Hg; apply IH; intros g' Hg'; apply H; right; exact Hg'.
Qed.

Lemma c17_drop_first_in u regs g : In g (c17_drop_first u regs) -> In g regs.
Proof.
  induction regs as [|x r IH]; [intros []|]. cbn [c17_drop_first]. destruct (c17_is_url_reg u x).
  - intros H. right. exact H.
  - intros [E|H]; [left; exact E|right; auto].
Qed.

Theorem c17_static_add_finds regs name spec is_url sub :
  (forall g, In g regs -> strip_prefix (c17_reg_spec g) (c17_norm_spec spec ++ sub) = None) ->
  find_reg_x (c17_static_add regs name spec is_url) (c17_norm_spec spec ++ sub)
  = Some (sub, if is_url then RExt (c17_norm_spec spec) (c17_add_slash name)
               else RRoute (c17_norm_spec spec) ([95; 95] ++ c17_add_slash name)).
Proof.
  intros H. unfold c17_static_add.
  assert (E : strip_prefix (c17_norm_spec spec) (c17_norm_spec spec ++ sub) = Some sub) by (apply strip_prefix_spec; reflexivity).
  destruct is_url.
  - rewrite c17_find_reg_x_app by (intros g Hg; apply H; eapply c17_drop_first_in; exact Hg).
    cbn [find_reg_x]. rewrite E. reflexivity.
  - rewrite c17_find_reg_x_app by assumption. cbn [find_reg_x]. rewrite E. reflexivity.
Qed.

(* a spec and a name always end up with their trailing slash (a bare package 'pkg:' excepted) *)
Lemma c17_add_slash_ends s : endswith_char 47 (c17_add_slash s) = true.
Proof.
  unfold c17_add_slash. destruct (endswith_char 47 s) eqn:E; [exact E|].
  clear E. induction s as [|c r IH]; [reflexivity|]. cbn [app]. destruct r as [|d r']; [reflexivity|]. exact IH.
Qed.

Example c17_static_adds_example :
  c17_static_adds [([115], [112;58;97], false); ([104;116;116;112;58;47;47;99;47], [112;58;98;47], true);
                   ([104;116;116;112;58;47;47;99], [112;58;99], true)]
  = [RRoute [112;58;97;47] [95;95;115;47]; RExt [112;58;99;47] [104;116;116;112;58;47;47;99;47]].
Proof. vm_compute. reflexivity. Qed.
