(* C14 -- the functions REGENERATED from the source on this run (Gen/Facts_C14.v: gen_hide_attrs, gen_reraise,
   gen_iev, gen_error_handler, gen_excview_tween, gen_default_view, gen_isexception; harness/c14/translate.py) equal
   the hand-written reference model (Model/C14_base.v), for all inputs; the property theorems are then restated
   about the regenerated functions.

   The proof scripts never mention the text of the generated terms: loops are taken apart by pattern
   ([?F names st []]), one induction per loop, then both sides are case-split on whatever they scrutinise (the atoms
   of the primitive table: isinstance tests, reraise / secure flags, optional values, the results of the primitive
   calls) until they compute to the same result.  Hence they are insensitive to the names of the source's locals,
   to elif-vs-nested-if, to `and`-splitting, to the order of independent tests and statements; they fail as soon
   as some valuation of the atoms leads the regenerated function to another result than the model. *)
From Coq Require Import List NArith ZArith Bool Lia.
Import ListNotations.
Require Import Verif.Lib.Wire Verif.Gen.Facts_C03 Verif.Model.C03 Verif.Proofs.C03 Verif.Gen.Facts_C14 Verif.Model.C14
               Verif.Proofs.C14 Verif.Proofs.C14_b Verif.Proofs.C14_c Verif.Proofs.C14_d.

(* split on everything either side scrutinises, then compute *)
Ltac split_all :=
  repeat match goal with
         | |- context [isa ?W ?c ?x] => destruct (isa W c x) eqn:?
         | |- context [st_get ?k ?s] => destruct (st_get k s) eqn:?
         | |- context [aget ?k ?s] => destruct (aget k s) eqn:?
         | |- context [andb ?c _] => is_var c; destruct c
         | |- context [andb _ ?c] => is_var c; destruct c
         | |- context [if ?c then _ else _] => is_var c; destruct c
         | |- context [match ?c with _ => _ end] => is_var c; destruct c
         end.

Lemma adel_absent k m : aget k m = None -> adel k m = m.
Proof.
  unfold aget. induction m as [|[k' v] r IH]; simpl; [reflexivity|].
  destruct (text_eqb k k'); [discriminate|]. intros H. rewrite (IH H). reflexivity.
Qed.

(* ------------------------------------------------------------------ reraise *)
Theorem gen_reraise_is_model W fresh value : gen_reraise W fresh value = reraise_m fresh value.
Proof. unfold gen_reraise, reraise_m. destruct value; reflexivity. Qed.

(* ------------------------------------------------------------------ hide_attrs *)
Theorem gen_hide_attrs_is_model {A} names (body : state -> wres A * state) st :
  gen_hide_attrs names body st = hide_attrs_w names body st.
Proof.
  unfold gen_hide_attrs, hide_attrs_w.
  match goal with
  | |- ?F names st [] = _ =>
      enough (H : forall l st s,
                 F l st s = let '(m1, s') := hide_pop l (st_attrs st) s in
                            let '(w, st2) := body (mkSt m1 (st_log st)) in
                            (w, mkSt (hide_restore names s' (st_attrs st2)) (st_log st2))) by apply H
  end.
  induction l as [|x l IH]; intros [a lg] s.
  - cbn [hide_pop st_attrs st_log]. destruct (body (mkSt a lg)) as [w st2].
    assert (R : forall (w0 : wres A) (G : list text -> state -> wres A * state),
              (forall st, G [] st = (w0, st)) ->
              (forall x l st, G (x :: l) st =
                              match sget x s with
                              | None => if st_mem x st then G l (st_del x st) else G l st
                              | Some v => G l (st_set x v st)
                              end) ->
              forall l st, G l st = (w0, mkSt (hide_restore l s (st_attrs st)) (st_log st))).
    { intros w0 G Hn Hc. induction l as [|x l IHl]; intros [a2 lg2].
      - rewrite Hn. reflexivity.
      - rewrite Hc. cbn [hide_restore st_attrs st_log]. unfold sget, st_mem, st_get, st_set, st_del.
        cbn [st_attrs st_log].
        destruct (assoc x s) as [[v|]|]; try destruct (aget x a2) eqn:E; rewrite IHl; cbn [st_attrs st_log];
          rewrite ?(adel_absent _ _ E); reflexivity. }
    destruct w as [y|e]; simpl;
      match goal with |- ?G names st2 = _ => apply (R _ G); [intros; reflexivity|intros; reflexivity] end.
  - simpl. rewrite IH. unfold st_del, st_get. cbn [st_attrs st_log]. reflexivity.
Qed.

(* ------------------------------------------------------------------ invoke_exception_view *)
Theorem gen_iev_is_model b W ri oth site rr sec e st :
  gen_iev (spec_params_b b) W ri oth site rr sec e st = iev_pm (spec_params_b b) W ri site rr sec e st.
Proof.
  unfold gen_iev. rewrite gen_hide_attrs_is_model. rewrite ?gen_reraise_is_model.
  unfold hide_attrs_w, iev_pm, hide_attrs, prim_call_view, reraise_m, exc_request, spec_params_b, set_all,
    st_set, fresh_of_class.
  destruct st as [a lg]. cbn [st_attrs st_log p_hidden p_set_in p_set_after p_combined p_view_name p_none_raises
                               p_iev_catches fold_left].
  unfold hn_response, hn_exc_info, hn_exception, cn_Exception, cn_HTTPNotFound.
  destruct (hide_pop _ a []) as [m1 s]. cbn [st_attrs st_log].
  match goal with |- context [comps_loop ?P ?W ?s ?d ?si ?c ?f ?rq ?l ?p ?aa ?ev] =>
    destruct (comps_loop P W s d si c f rq l p aa ev) as [[res evs] a2] end.
  cbn [st_attrs st_log].
  destruct res as [[r|e2]|]; cbn [st_attrs st_log]; split_all; reflexivity.
Qed.

(* ------------------------------------------------------------------ _error_handler, excview_tween *)
Definition error_handler_m (P : params) (W : world) (ievf : bool -> N -> bool -> bool -> N -> state -> outcome * state)
    (site e : N) (st : state) : outcome * state :=
  match ievf false site false true e st with
  | (Resp r, st') => (Resp r, st')
  | (Raise e2, st') =>
      if isa W (p_handler_catches P) e2 then (Raise (if p_handler_reraises P then e else e2), st') else (Raise e2, st')
  end.

Theorem gen_error_handler_is_model b W ri site e st :
  gen_error_handler (spec_params_b b) W ri site e st
  = error_handler_m (spec_params_b b) W (fun _ => iev_pm (spec_params_b b) W ri) site e st.
Proof.
  unfold gen_error_handler, error_handler_m. rewrite gen_iev_is_model, ?gen_reraise_is_model. unfold reraise_m.
  destruct (iev_pm (spec_params_b b) W ri site false true e st) as [[r|e2] st']; cbn; unfold cn_HTTPNotFound, cn_Exception; split_all; reflexivity.
Qed.

Theorem gen_excview_tween_is_model b W ri ho st :
  gen_excview_tween (spec_params_b b) W ri site_tween ho st
  = excview_tween_g (spec_params_b b) W (fun _ => iev_pm (spec_params_b b) W ri) ho st.
Proof.
  unfold gen_excview_tween, excview_tween_g. destruct ho as [r|e]; [reflexivity|].
  cbn [p_tween_catches spec_params_b]. unfold cn_Exception.
  match goal with |- context [isa W ?c e] => destruct (isa W c e) eqn:E end; [|reflexivity].
  rewrite gen_error_handler_is_model. unfold error_handler_m.
  destruct (iev_pm (spec_params_b b) W ri site_tween false true e st) as [[r|e2] st']; cbn; unfold cn_HTTPNotFound, cn_Exception; split_all; reflexivity.
Qed.

(* ------------------------------------------------------------------ default_exceptionresponse_view, isexception *)
Theorem gen_default_view_is_model W ctx st : gen_default_view W ctx st = ctx_returned W ctx (st_attrs st).
Proof. unfold gen_default_view, ctx_returned, st_get, cn_Exception, cn_truthy, hn_exception. split_all; reflexivity. Qed.

Theorem gen_isexception_is_model c : gen_isexception c = isexception_m c.
Proof. unfold gen_isexception, isexception_m. destruct c as [[] [] [] [] []]; reflexivity. Qed.

(* ------------------------------------------------------------------ the whole request *)
Theorem run_request_gen_is_model b W ri :
  run_request_gen (spec_params_b b) W ri = run_request_pm (spec_params_b b) W ri.
Proof.
  unfold run_request_gen, run_request_x, run_request_pm, run_request_g.
  assert (Hu : forall st, under_tween_g W ri (main_handler_pm (spec_params_b b) W ri) (gen_iev (spec_params_b b) W ri) st
                          = under_tween_g W ri (main_handler_pm (spec_params_b b) W ri) (fun _ => iev_pm (spec_params_b b) W ri) st).
  { intros st. unfold under_tween_g. destruct (ri_under ri) as [|e| |rr sec via thn]; try reflexivity.
    destruct (main_handler_pm (spec_params_b b) W ri false st) as [[r|e] st1]; [reflexivity|].
    destruct (isa W cn_Exception e); [|reflexivity]. rewrite gen_iev_is_model. reflexivity. }
  rewrite Hu. destruct (under_tween_g W ri _ _ _) as [o1 st1]. rewrite gen_excview_tween_is_model. reflexivity.
Qed.

(* ------------------------------------------------------------------ the property theorems, about the regenerated functions *)
Theorem gen_hide_attrs_restores {A} names (body : state -> wres A * state) st k :
  NoDup names -> In k names -> st_get k (snd (gen_hide_attrs names body st)) = st_get k st.
Proof.
  intros Hnd Hin. rewrite gen_hide_attrs_is_model. unfold hide_attrs_w, st_get.
  pose proof (hide_pop_saved names (st_attrs st) [] k Hnd Hin) as Hs.
  destruct (hide_pop names (st_attrs st) []) as [m1 s]. destruct (body _) as [w st2]. simpl in *.
  rewrite hide_restore_in by assumption. rewrite Hs. destruct (aget k (st_attrs st)); reflexivity.
Qed.

Theorem gen_judge_accepts b regs W ri :
  no_pm (spec_params_b b) W ->
  b = true \/ sec_of (ri_under ri) = true ->
  (forall e, spec_ok exc_classifier_id regs (exc_request (spec_params_b b) W ri e)
               (call_view (w_reg W) exc_classifier_id (exc_request (spec_params_b b) W ri e)) = true) ->
  isa W cn_Exception ctx_resource = false ->
  (forall site, In site [site_under; site_tween] ->
     isa W cn_HTTPNotFound (fresh_nf site) = true /\ isa W cn_HTTPNotFound (fresh_pme site) = true
     /\ isa W cn_Exception (fresh_pme site) = true
     /\ isa W cn_HTTPForbidden (fresh_forb site) = true /\ isa W cn_Exception (fresh_forb site) = true
     /\ isa W cn_HTTPNotFound (fresh_forb site) = false) ->
  judge regs W ri (run_request_gen (spec_params_b b) W ri) = true.
Proof. intros. rewrite run_request_gen_is_model. apply judge_accepts_model_pm; assumption. Qed.

Theorem gen_no_view_propagates b W ri e st :
  no_pm (spec_params_b b) W ->
  isa W cn_HTTPNotFound (fresh_pme site_tween) = true -> isa W cn_HTTPNotFound (fresh_nf site_tween) = true ->
  not_found (call_view (w_reg W) exc_classifier_id (exc_request (spec_params_b b) W ri e)) ->
  let r := gen_excview_tween (spec_params_b b) W ri site_tween (Raise e) st in
  fst r = Raise e /\ st_log (snd r) = st_log st
  /\ forall k, In k (p_hidden (spec_params_b b)) -> aget k (st_attrs (snd r)) = aget k (st_attrs st).
Proof.
  intros Hno F1 F2 Hnf r. subst r. rewrite gen_excview_tween_is_model.
  assert (E : excview_tween_g (spec_params_b b) W (fun _ => iev_pm (spec_params_b b) W ri) (Raise e) st
              = excview_tween (spec_params_b b) W ri (Raise e) st).
  { unfold excview_tween_g, excview_tween. destruct (isa W _ e); [|reflexivity].
    rewrite (iev_pm_eq _ _ Hno). reflexivity. }
  rewrite E. apply (no_view_propagates (spec_params_b b) W ri e st (spec_hidden_nodup b) eq_refl);
    [split; assumption|exact Hnf].
Qed.
