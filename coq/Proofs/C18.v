(* C18 proofs: what sorted() returns, for any sorter state; tween and deriver nesting. *)
From Coq Require Import List NArith ZArith Bool Lia Permutation.
Import ListNotations.
Require Import Verif.Lib.Wire Verif.Gen.Facts_C18 Verif.Model.C18.
Require Import Verif.Proofs.C18_kahn Verif.Proofs.C18_build.

(* ---------- precedes *)
Lemma precedes_intro p q a b : In a p -> precedes (p ++ b :: q) a b = true.
Proof.
  induction p as [|x p IH]; intros H; [destruct H|]. simpl.
  destruct (text_eqb_spec x a) as [->|Hne].
  - apply mem_text_In. apply in_or_app. right. left. reflexivity.
  - destruct H as [H|H]; [contradiction|auto].
Qed.

Lemma precedes_filter f l a b :
  precedes l a b = true -> f a = true -> f b = true -> precedes (filter f l) a b = true.
Proof.
  intros H Ha Hb. induction l as [|x l IH]; simpl in *; [discriminate|].
  destruct (text_eqb_spec x a) as [->|Hne].
  - rewrite Ha. simpl. rewrite text_eqb_refl. apply mem_text_In. apply filter_In. split; [|exact Hb].
    apply mem_text_In. exact H.
  - destruct (f x); simpl; [|auto]. apply text_eqb_neq in Hne. rewrite Hne. auto.
Qed.

Lemma precedes_In l a b : precedes l a b = true -> In a l /\ In b l.
Proof.
  induction l as [|x l IH]; simpl; [discriminate|].
  destruct (text_eqb_spec x a) as [->|Hne].
  - intros H. apply mem_text_In in H. auto.
  - intros H. destruct (IH H). auto.
Qed.

(* with no duplicates, precedes is irreflexive and asymmetric *)
Lemma precedes_irrefl l a : NoDup l -> precedes l a a = false.
Proof.
  induction l as [|x l IH]; intros Hnd; simpl; [reflexivity|]. inversion Hnd as [|? ? Hnot Hnd']; subst.
  destruct (text_eqb_spec x a) as [->|Hne]; [apply mem_text_false; exact Hnot|auto].
Qed.

Lemma precedes_trans l a b c : NoDup l -> precedes l a b = true -> precedes l b c = true -> precedes l a c = true.
Proof.
  induction l as [|x l IH]; intros Hnd; simpl; [discriminate|]. inversion Hnd as [|? ? Hnot Hnd']; subst.
  destruct (text_eqb_spec x a) as [->|Hne].
  - intros Hab. destruct (text_eqb_spec a b) as [->|Hne2].
    + apply mem_text_In in Hab. contradiction.
    + intros Hbc. apply precedes_In in Hbc. apply mem_text_In. tauto.
  - intros Hab. destruct (text_eqb_spec x b) as [->|Hne2].
    + apply precedes_In in Hab. tauto.
    + auto.
Qed.

Lemma before_ok_precedes arcs em a b :
  before_ok arcs em -> In (a, b) arcs -> In b em -> precedes (rev em) a b = true.
Proof.
  intros Ho Harc Hb. apply in_split in Hb. destruct Hb as (l1 & l2 & ->).
  pose proof (Ho l1 b l2 eq_refl a Harc) as Ha.
  rewrite rev_app_distr. simpl. rewrite <- app_assoc. simpl.
  apply precedes_intro. apply in_rev in Ha. exact Ha.
Qed.

(* ---------- sorted() on an arbitrary sorter state *)
Definition miss_before (s : sorter) : list node := missing (req_before s) (has_dep (all_names s) (name2before s)).
Definition miss_after (s : sorter) : list node := missing (req_after s) (has_dep (all_names s) (name2after s)).

Lemma nonempty_false {A} (l : list A) : nonempty l = false -> l = [].
Proof. destruct l; [reflexivity|discriminate]. Qed.
Lemma nonempty_true {A} (l : list A) : nonempty l = true -> l <> [].
Proof. destruct l; [discriminate|intros _ H; discriminate]. Qed.

Definition sorted_post (s : sorter) (o : outcome) : Prop :=
  match o with
  | Sorted l =>
      miss_before s = [] /\ miss_after s = [] /\
      exists full,                                   (* sorted_names, sentinels included *)
        NoDup full /\ (forall n, In n full <-> In n (all_names s)) /\
        (forall a b, In (a, b) (parcs s) -> precedes full a b = true) /\
        l = map (fun n => (n, val_of s n)) (filter (fun n => mem_text n (names s)) full)
  | Cyclic l =>
      miss_before s = [] /\ miss_after s = [] /\ l <> [] /\
      forall k, In k (map fst l) ->
        In k (all_names s) /\ exists a, In (a, k) (parcs s) /\ In a (map fst l)
  | UnsatBefore l => l = miss_before s /\ l <> []
  | UnsatAfter l => miss_before s = [] /\ l = miss_after s /\ l <> []
  | Internal => False
  end.

(* the cycle dictionary: with distinct keys, one entry per remaining node, in order *)
Lemma cycle_dict_map (g : graph) : NoDup (keys g) ->
  cycle_dict g = map (fun kv : node * gentry => (fst kv, snd (snd kv))) g.
Proof.
  unfold cycle_dict.
  enough (H : forall (g : graph) (acc : list (node * list node)),
            NoDup (keys acc ++ keys g) ->
            fold_left (fun cd kv => aset (fst kv) (snd (snd kv)) cd) g acc
            = acc ++ map (fun kv : node * gentry => (fst kv, snd (snd kv))) g).
  { intros Hnd. apply (H g []). exact Hnd. }
  clear g. induction g as [|[k e] g IH]; intros acc Hnd; simpl; [rewrite app_nil_r; reflexivity|].
  assert (Hk : ~ In k (keys acc)).
  { intros Hin. apply NoDup_remove_2 in Hnd. apply Hnd. apply in_or_app. left. exact Hin. }
  assert (Ea : aset k (snd e) acc = acc ++ [(k, snd e)]).
  { clear -Hk. induction acc as [|[k' v'] acc IHa]; simpl; [reflexivity|].
    destruct (text_eqb_spec k k') as [->|Hne]; [exfalso; apply Hk; left; reflexivity|].
    rewrite IHa; [reflexivity|]. intros H. apply Hk. right. exact H. }
  rewrite Ea, IH.
  - rewrite <- app_assoc. reflexivity.
  - unfold keys. rewrite map_app. simpl. rewrite <- app_assoc. simpl.
    unfold keys in Hnd. simpl in Hnd.
    apply NoDup_remove_1 in Hnd as H1. apply NoDup_remove_2 in Hnd as H2.
    apply (NoDup_Add (a := k) (l := map fst acc ++ map fst g)); [|split; assumption].
    apply Add_app.
Qed.

Lemma sorted_state s : sorted_post s (sorted s).
Proof.
  unfold sorted. destruct (build s) as [g roots] eqn:Eb.
  destruct (build_cinv s g roots Eb) as (HI & Hnodes & HarcsK).
  fold (miss_before s). destruct (nonempty (miss_before s)) eqn:Emb.
  { simpl. split; [reflexivity|apply nonempty_true; exact Emb]. }
  fold (miss_after s). destruct (nonempty (miss_after s)) eqn:Ema.
  { simpl. split; [apply nonempty_false; exact Emb|]. split; [reflexivity|apply nonempty_true; exact Ema]. }
  apply nonempty_false in Emb, Ema.
  destruct (loop_inv (parcs s) (keys g) HarcsK (length g) roots g [] HI (le_n _)) as (g' & em & Hl & HI').
  rewrite Hl. destruct (nonempty g') eqn:Eg.
  - (* cycle *)
    rewrite (cycle_dict_map g') by apply (c_keys_nodup _ _ _ _ _ HI').
    cbn [sorted_post]. split; [exact Emb|]. split; [exact Ema|].
    split.
    + destruct g'; [discriminate|]. simpl. discriminate.
    + intros k Hk.
      assert (Hk' : In k (keys g')) by (unfold keys; rewrite map_map in Hk; exact Hk).
      split.
      * apply Hnodes. apply (c_keys _ _ _ _ _ HI') in Hk'. tauto.
      * destruct (exit_certificate (parcs s) (keys g) HarcsK g' em HI' k Hk') as (a & Ha & Hak).
        exists a. split; [exact Ha|]. rewrite map_map. exact Hak.
  - (* sorted *)
    apply nonempty_false in Eg. simpl. split; [exact Emb|]. split; [exact Ema|].
    exists (rev em). split; [|split; [|split]].
    + apply NoDup_rev. apply (c_em_nodup _ _ _ _ _ HI').
    + intros n. rewrite <- in_rev. split.
      * intros H. apply Hnodes. apply (c_em_nodes _ _ _ _ _ HI'). exact H.
      * intros H. apply Hnodes in H. eapply exit_all_emitted; eauto.
    + intros a b Harc. eapply before_ok_precedes; [apply (c_order _ _ _ _ _ HI')|exact Harc|].
      eapply exit_all_emitted; eauto. apply (HarcsK a b Harc).
    + reflexivity.
Qed.

(* ---------- corollaries on an arbitrary state *)
Lemma map_fst_pairs (v : node -> N) l : map fst (map (fun n => (n, v n)) l) = l.
Proof. rewrite map_map. simpl. apply map_id. Qed.

(* every declared name exactly once, with its current value *)
Lemma sorted_perm_state s l :
  sorted s = Sorted l -> NoDup (names s) ->
  Permutation (map fst l) (names s) /\ (forall n v, In (n, v) l -> v = val_of s n).
Proof.
  intros E Hnd. pose proof (sorted_state s) as H. rewrite E in H.
  destruct H as (_ & _ & full & Hfnd & Hfull & _ & ->). split.
  - rewrite map_fst_pairs. apply NoDup_Permutation; [apply NoDup_filter; exact Hfnd|exact Hnd|].
    intros n. rewrite filter_In, mem_text_In, Hfull. unfold all_names. simpl. tauto.
  - intros n v Hin. apply in_map_iff in Hin. destruct Hin as (m & Hm & _). congruence.
Qed.

(* every arc whose ends are both present is respected -- in the full order
   (sentinels included) and therefore in the returned order of the names *)
Lemma sorted_respects_state s l :
  sorted s = Sorted l ->
  exists full,
    NoDup full /\ (forall n, In n full <-> In n (all_names s)) /\
    map fst l = filter (fun n => mem_text n (names s)) full /\
    (forall a b, In (a, b) (all_order s) -> In a (all_names s) -> In b (all_names s) ->
                 precedes full a b = true) /\
    (forall a b, In (a, b) (order s) -> In a (names s) -> In b (names s) ->
                 precedes (map fst l) a b = true).
Proof.
  intros E. pose proof (sorted_state s) as H. rewrite E in H.
  destruct H as (_ & _ & full & Hfnd & Hfull & Hprec & ->).
  exists full. split; [exact Hfnd|]. split; [exact Hfull|]. split; [apply map_fst_pairs|].
  assert (Hp : forall a b, In (a, b) (all_order s) -> In a (all_names s) -> In b (all_names s) ->
                           precedes full a b = true).
  { intros a b Hab Ha Hb. apply Hprec. apply filter_In. split; [exact Hab|].
    unfold arc_present. simpl fst. simpl snd. apply andb_true_iff. split; apply mem_text_In; assumption. }
  split; [exact Hp|].
  intros a b Hab Ha Hb. rewrite map_fst_pairs. apply precedes_filter.
  - apply Hp; [right; exact Hab| |]; unfold all_names; simpl; tauto.
  - apply mem_text_In. exact Ha.
  - apply mem_text_In. exact Hb.
Qed.

(* cycles *)
Inductive path (arcs : list arc) : node -> node -> Prop :=
| path_one a b : In (a, b) arcs -> path arcs a b
| path_cons a b c : In (a, b) arcs -> path arcs b c -> path arcs a c.

(* <= : a cycle among the present constraints is never ordered *)
Lemma sorted_acyclic_state s l : sorted s = Sorted l -> forall a, ~ path (parcs s) a a.
Proof.
  intros E a Hp. pose proof (sorted_state s) as H. rewrite E in H.
  destruct H as (_ & _ & full & Hfnd & _ & Hprec & _).
  assert (Hall : forall x y, path (parcs s) x y -> precedes full x y = true).
  { intros x y P. induction P as [x y H|x y z H P IH]; [apply Hprec; exact H|].
    eapply precedes_trans; [exact Hfnd|apply Hprec; exact H|exact IH]. }
  pose proof (Hall a a Hp) as H1. rewrite precedes_irrefl in H1 by exact Hfnd. discriminate.
Qed.

Lemma cyclic_error_state s :
  miss_before s = [] -> miss_after s = [] -> (exists a, path (parcs s) a a) ->
  exists l, sorted s = Cyclic l.
Proof.
  intros Hb Ha (a & Hp). pose proof (sorted_state s) as H.
  destruct (sorted s) as [l|l|l|l|] eqn:E; simpl in H.
  - exfalso. eapply sorted_acyclic_state; eauto.
  - destruct H as (-> & H). congruence.
  - destruct H as (_ & -> & H). congruence.
  - eauto.
  - contradiction.
Qed.

(* => (certificate form): the reported dictionary is a non-empty set of nodes each of
   which has a predecessor in the set along a present constraint *)
Lemma cyclic_certificate_state s l :
  sorted s = Cyclic l ->
  l <> [] /\ forall k, In k (map fst l) -> exists a, In (a, k) (parcs s) /\ In a (map fst l).
Proof.
  intros E. pose proof (sorted_state s) as H. rewrite E in H. destruct H as (_ & _ & Hne & H).
  split; [exact Hne|]. intros k Hk. apply (H k Hk).
Qed.

(* unsatisfied dependencies: exactly the requirements of the state *)
Lemma In_missing n req has : In n (missing req has) <-> In n req /\ ~ In n has.
Proof. unfold missing. rewrite filter_In, negb_true_iff, mem_text_false. reflexivity. Qed.

Lemma In_has_dep n nm d :
  In n (has_dep nm d) <-> exists alts, In (n, alts) d /\ exists a, In a alts /\ In a nm.
Proof.
  unfold has_dep. rewrite in_map_iff. split.
  - intros ([k alts] & <- & H). apply filter_In in H. destruct H as (H1 & H2). simpl in *.
    apply existsb_exists in H2. destruct H2 as (a & Ha & Hm). apply mem_text_In in Hm. eauto.
  - intros (alts & Hin & a & Ha & Hm). exists (n, alts). split; [reflexivity|].
    apply filter_In. split; [exact Hin|]. simpl. apply existsb_exists. exists a.
    split; [exact Ha|apply mem_text_In; exact Hm].
Qed.

Lemma unsat_error_state s :
  ((exists l, sorted s = UnsatBefore l) <-> miss_before s <> []) /\
  ((exists l, sorted s = UnsatAfter l) <-> miss_before s = [] /\ miss_after s <> []) /\
  (forall l, sorted s = UnsatBefore l -> l = miss_before s) /\
  (forall l, sorted s = UnsatAfter l -> l = miss_after s).
Proof.
  pose proof (sorted_state s) as HS.
  destruct (sorted s) as [l|l|l|l|] eqn:E; simpl in HS; [| | | |contradiction];
    repeat split; intros;
    repeat match goal with
           | H : exists _, _ |- _ => destruct H
           | H : _ /\ _ |- _ => destruct H
           end; try discriminate; try congruence; eauto.
Qed.

Lemma sorted_never_internal s : sorted s <> Internal.
Proof. intros E. pose proof (sorted_state s) as H. rewrite E in H. exact H. Qed.

(* ---------- tweens and derivers: nesting *)
Definition wrap_right (use : list (node * N)) (h : handler) : handler :=
  fold_right (fun nf h => Wrap (fst nf) (snd nf) h) h use.

Lemma trace_wrap_right use :
  trace (wrap_right use Base) =
  map (fun nf => Enter (fst nf)) use ++ [Call] ++ map (fun nf => Exit (fst nf)) (rev use).
Proof.
  induction use as [|[n f] use IH]; simpl; [reflexivity|].
  rewrite IH. rewrite map_app. simpl. rewrite <- !app_assoc. reflexivity.
Qed.

Lemma wrap_all_right use h : wrap_all use h = wrap_right use h.
Proof.
  unfold wrap_all, wrap_right.
  assert (E : tw_use_reversed = true) by reflexivity. rewrite E.
  rewrite <- fold_left_rev_right. rewrite rev_involutive. reflexivity.
Qed.

(* the first tween of the order in use is outermost: entered first, left last;
   an explicit list replaces the implicit order *)
Lemma tweens_nesting t h :
  tweens_call t Base = inr h ->
  exists use,
    (tw_explicit t <> [] -> use = tw_explicit t) /\
    (tw_explicit t = [] -> implicit t = Sorted use) /\
    h = wrap_right use Base /\
    trace h = map (fun nf => Enter (fst nf)) use ++ [Call] ++ map (fun nf => Exit (fst nf)) (rev use).
Proof.
  unfold tweens_call. destruct (tw_explicit t) as [|x ex] eqn:Ex; simpl.
  - destruct (implicit t) as [use| | | |] eqn:Ei; try discriminate.
    intros H. injection H as <-. exists use. rewrite wrap_all_right.
    split; [congruence|]. split; [auto|]. split; [reflexivity|apply trace_wrap_right].
  - intros H. injection H as <-. exists (x :: ex). rewrite wrap_all_right.
    split; [auto|]. split; [discriminate|]. split; [reflexivity|apply trace_wrap_right].
Qed.

Lemma tweens_error t e : tweens_call t Base = inl e -> tw_explicit t = [] /\ implicit t = e /\ forall l, e <> Sorted l.
Proof.
  unfold tweens_call. destruct (tw_explicit t) as [|x ex]; simpl; [|discriminate].
  destruct (implicit t); intros H; try discriminate; injection H as <-; repeat split; intros; discriminate.
Qed.

Lemma derivers_nesting s h :
  apply_view_derivers s Base = inr h ->
  exists ds, sorted s = Sorted ds /\
    let all := map (fun n => (n, 0%N)) dv_outer ++ ds in
    h = wrap_right all Base /\
    trace h = map (fun nf => Enter (fst nf)) all ++ [Call] ++ map (fun nf => Exit (fst nf)) (rev all).
Proof.
  unfold apply_view_derivers. destruct (sorted s) as [ds| | | |] eqn:E; try discriminate.
  remember (map (fun n => (n, 0%N)) dv_outer) as outer eqn:Eo.
  assert (Er : dv_reversed = true) by reflexivity. rewrite Er.
  intros H. injection H as <-. exists ds. split; [reflexivity|].
  assert (Ew : forall all, fold_left (fun h nf => Wrap (fst nf) (snd nf) h) (rev all) Base = wrap_right all Base).
  { intros all. unfold wrap_right. rewrite <- fold_left_rev_right, rev_involutive. reflexivity. }
  cbv zeta. rewrite Ew. split; [reflexivity|apply trace_wrap_right].
Qed.

(* the default pipeline, from the regenerated declarations of add_default_view_derivers *)
Definition t_secured_view : text := [115;101;99;117;114;101;100;95;118;105;101;119]%N.
Definition t_rendered_view : text := [114;101;110;100;101;114;101;100;95;118;105;101;119]%N.
Definition t_mapped_view : text := [109;97;112;112;101;100;95;118;105;101;119]%N.

Definition default_deriver_order : list node :=
  match sorted default_derivers with Sorted l => map fst l | _ => [] end.

Lemma default_derivers_order :
  exists mid, sorted default_derivers = Sorted (map (fun n => (n, 0%N)) (t_secured_view :: mid ++ [t_rendered_view; t_mapped_view])).
Proof. eexists (_ :: _ :: _ :: _ :: nil). vm_compute. reflexivity. Qed.

Lemma default_derivers_secured_first :
  exists rest, default_deriver_order = t_secured_view :: rest /\ ~ In t_secured_view rest.
Proof.
  eexists. split; [vm_compute; reflexivity|].
  intros H. repeat (destruct H as [H|H]; [discriminate H|]). exact H.
Qed.

(* ---------- non-vacuity *)
Definition tx (c : N) : text := [c].
Example ex_sorted :
  sorted (add (tx 99) 3 (HOne (tx 97)) HNone (add (tx 97) 1 HNone (HOne (tx 98)) (add (tx 98) 2 HNone HNone (new_sorter cfg_plain))))
  = Sorted [(tx 97, 1%N); (tx 99, 3%N); (tx 98, 2%N)].
Proof. vm_compute. reflexivity. Qed.

Example ex_cyclic :
  exists l, sorted (add (tx 98) 2 (HOne (tx 97)) HNone (add (tx 97) 1 (HOne (tx 98)) HNone (new_sorter cfg_plain))) = Cyclic l
            /\ map fst l = [tx 97; tx 98].
Proof. eexists. vm_compute. split; reflexivity. Qed.

(* the repaired tree reports the own unsatisfied constraint of c although a names c (DESIGN 5 item 11) *)
Example ex_unsat_own :
  sorted (add (tx 97) 2 HNone (HOne (tx 99)) (add (tx 99) 1 (HOne (tx 102)) HNone (new_sorter cfg_plain)))
  = UnsatAfter [tx 99].
Proof. vm_compute. reflexivity. Qed.

Example ex_tweens_explicit_wins :
  let t := add_explicit (tx 98) 2 (add_explicit (tx 97) 1 (add_implicit (tx 97) 1 (HOne (tx 98)) HNone
             (add_implicit (tx 98) 2 HNone HNone new_tweens))) in
  match tweens_call t Base with
  | inr h => trace h = [Enter (tx 97); Enter (tx 98); Call; Exit (tx 98); Exit (tx 97)]
  | inl _ => False
  end.
Proof. vm_compute. reflexivity. Qed.

(* an empty iterable of alternatives is unsatisfiable while declared, and is withdrawn with the item *)
Example empty_alternatives_withdrawn :
  let ops := [OAdd (tx 97) 1 (HMany []) HNone; ORemove (tx 97)] in
  run_ops (new_sorter cfg_plain) ops = [RSorted (UnsatAfter [tx 97]); RSorted (Sorted [])]
  /\ judge cfg_plain (decls_of cfg_plain ops) (Sorted []) = true.
Proof. vm_compute. repeat split; reflexivity. Qed.

(* ---------- the names of every reachable state = the current declarations
   (a re-added name replaces the earlier one and moves to the end) *)
Lemma names_remove n s s' : remove n s = Some s' -> names s' = remove_first n (names s).
Proof.
  unfold remove. destruct (mem_text n (names s)); [|discriminate].
  destruct (aget n (name2after s)), (aget n (name2before s)); intros H; injection H as <-; reflexivity.
Qed.

Lemma remove_Some n s : mem_text n (names s) = true -> exists s', remove n s = Some s'.
Proof.
  intros E. unfold remove. rewrite E.
  destruct (aget n (name2after s)), (aget n (name2before s)); eexists; reflexivity.
Qed.

Lemma names_add n v a b s : names (add n v a b s) = remove_first n (names s) ++ [n].
Proof.
  unfold add. destruct (mem_text n (names s)) eqn:E.
  - destruct (remove_Some n s E) as (s' & Hs'). rewrite Hs'.
    rewrite <- (names_remove n s s' Hs').
    destruct (match a, b with HNone, HNone => _ | _, _ => _ end) as [a' b']. reflexivity.
  - rewrite remove_first_notin by (apply mem_text_false; exact E).
    destruct (match a, b with HNone, HNone => _ | _, _ => _ end) as [a' b']. reflexivity.
Qed.

Lemma names_apply_op s o : names (fst (apply_op s o)) =
  match o with OAdd n _ _ _ => remove_first n (names s) ++ [n] | ORemove n => remove_first n (names s) end.
Proof.
  destruct o as [n v a b|n]; simpl; [apply names_add|].
  destruct (remove n s) as [s'|] eqn:Er; simpl; [apply (names_remove n s s' Er)|].
  symmetry. apply remove_first_notin. apply mem_text_false.
  destruct (mem_text n (names s)) eqn:E; [|reflexivity].
  destruct (remove_Some n s E) as (s' & Hs'). congruence.
Qed.

Lemma dnames_spec_remove n ds : NoDup (dnames ds) -> dnames (spec_remove n ds) = remove_first n (dnames ds).
Proof.
  unfold spec_remove, dnames. induction ds as [|d ds IH]; simpl; [reflexivity|].
  intros Hnd. inversion Hnd as [|? ? Hnot Hnd']; subst.
  destruct (text_eqb_spec n (dname d)) as [->|Hne]; simpl.
  - rewrite IH by exact Hnd'. apply remove_first_notin. exact Hnot.
  - rewrite IH by exact Hnd'. reflexivity.
Qed.

Lemma dnames_spec_op c ds o : NoDup (dnames ds) -> dnames (spec_op c ds o) =
  match o with OAdd n _ _ _ => remove_first n (dnames ds) ++ [n] | ORemove n => remove_first n (dnames ds) end.
Proof.
  intros Hnd. destruct o as [n v a b|n]; simpl; [|apply dnames_spec_remove; exact Hnd].
  unfold spec_add. destruct c as [[[db da] f] l].
  destruct a, b; unfold dnames; rewrite map_app; simpl; fold (dnames (spec_remove n ds));
    rewrite dnames_spec_remove by exact Hnd; reflexivity.
Qed.

Lemma NoDup_remove_snoc n l : NoDup l -> NoDup (remove_first n l ++ [n]).
Proof.
  intros Hnd. apply NoDup_snoc; [apply NoDup_remove_first; exact Hnd|].
  intros H. apply In_remove_first_nodup in H; [|exact Hnd]. destruct H as (_ & H). congruence.
Qed.

Lemma names_track c ops : forall s ds,
  names s = dnames ds -> NoDup (names s) ->
  names (final_state s ops) = dnames (fold_left (spec_op c) ops ds) /\ NoDup (names (final_state s ops)).
Proof.
  unfold final_state. induction ops as [|o ops IH]; intros s ds Hn Hnd; simpl; [auto|].
  apply IH.
  - rewrite names_apply_op, dnames_spec_op by (rewrite <- Hn; exact Hnd). rewrite Hn. reflexivity.
  - rewrite names_apply_op. destruct o; [apply NoDup_remove_snoc|apply NoDup_remove_first]; exact Hnd.
Qed.

Lemma names_of_ops c ops :
  names (final_state (new_sorter c) ops) = dnames (decls_of c ops) /\
  NoDup (names (final_state (new_sorter c) ops)).
Proof.
  apply names_track; destruct c as [[[db da] f] l]; simpl; [reflexivity|constructor].
Qed.

(* the declared names of an operation sequence, described directly: last add wins *)
Lemma sorted_perm_ops c ops l :
  sorted (final_state (new_sorter c) ops) = Sorted l ->
  Permutation (map fst l) (dnames (decls_of c ops)) /\ NoDup (map fst l).
Proof.
  intros E. destruct (names_of_ops c ops) as (Hn & Hnd).
  destruct (sorted_perm_state _ _ E Hnd) as (Hp & _). rewrite Hn in Hp. split; [exact Hp|].
  eapply Permutation_NoDup; [apply Permutation_sym; exact Hp|]. rewrite <- Hn. exact Hnd.
Qed.

Lemma sorted_deterministic c ops1 ops2 : ops1 = ops2 -> run_ops (new_sorter c) ops1 = run_ops (new_sorter c) ops2.
Proof. intros ->. reflexivity. Qed.
