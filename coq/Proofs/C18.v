(* C18 proofs *)
From Coq Require Import List NArith ZArith Bool Lia.
Import ListNotations.
Require Import Verif.Lib.Wire Verif.Gen.Facts_C18 Verif.Model.C18.

Lemma sorted_deterministic c ops1 ops2 : ops1 = ops2 -> run_ops (new_sorter c) ops1 = run_ops (new_sorter c) ops2.
Proof. intros ->. reflexivity. Qed.
