(* C03, accept-aware part: what a MultiView tries, and in which order, when views were registered
   with accept=.  (The registry-level theorem over more_specific_media is not proved; see NOTES.) *)
From Coq Require Import List NArith ZArith Bool Lia Sorting.Sorted Sorting.Permutation.
Import ListNotations.
Require Import Verif.Lib.Wire Verif.Lib.Text Verif.Gen.Facts_C03 Verif.Model.C03 Verif.Proofs.C03.

Definition q_ge (rq : request) (a b : offer) : bool := N.leb (offer_q rq (o_full b)) (offer_q rq (o_full a)).

Lemma q_ge_total rq a b : q_ge rq a b = true \/ q_ge rq b a = true.
Proof. unfold q_ge. rewrite !N.leb_le. lia. Qed.
Lemma q_ge_trans rq a b c : q_ge rq a b = true -> q_ge rq b c = true -> q_ge rq a c = true.
Proof. unfold q_ge. rewrite !N.leb_le. lia. Qed.

(* request.accept.acceptable_offers as modelled: exactly the offers of positive quality, best first *)
Theorem acceptable_offers_spec rq offers :
  (forall o, In o (acceptable_offers rq offers) <-> In o offers /\ (0 < offer_q rq (o_full o))%N)
  /\ StronglySorted (fun a b => (offer_q rq (o_full b) <= offer_q rq (o_full a))%N) (acceptable_offers rq offers).
Proof.
  unfold acceptable_offers. split.
  - intros o. split.
    + intros H. apply (Permutation_in _ (isort_perm _ _)) in H. apply filter_In in H.
      rewrite N.ltb_lt in H. exact H.
    + intros H. apply (Permutation_in _ (Permutation_sym (isort_perm _ _))). apply filter_In.
      rewrite N.ltb_lt. exact H.
  - eapply SSorted_weaken_in; [apply (isort_sorted (q_ge rq)); [apply q_ge_total|apply q_ge_trans]|].
    intros a b _ _ H. unfold q_ge in H. apply N.leb_le. exact H.
Qed.

Definition subset_of (m : mview) (o : offer) : list entry :=
  match assoc (o_full o) (mv_media m) with Some s => s | None => [] end.

(* what a MultiView tries for a request: the media subsets of exactly the acceptable offers, by
   non-increasing quality, each sorted by order with one entry per phash; then the views without
   accept=, sorted by order; the body that runs is the first of this sequence whose predicates hold *)
Theorem multiview_tried_order f m rq :
  mv_sorted f m ->
  get_views m rq = (match mv_accepts m with
                    | [] => []
                    | _ => flat_map (subset_of m) (acceptable_offers rq (mv_accepts m))
                    end) ++ mv_views m
  /\ (forall o, list_ok f (subset_of m o))
  /\ list_ok f (mv_views m)
  /\ mv_call rq (get_views m rq) = option_map r_tag (find (qualifies rq) (map e_view (get_views m rq))).
Proof.
  intros (Hv & Hm). split; [|split; [|split]].
  - unfold get_views. destruct (mv_accepts m); reflexivity.
  - intros o. unfold subset_of. destruct (assoc (o_full o) (mv_media m)) as [s|] eqn:E.
    + destruct (assoc_in _ _ _ E) as (k & Hk). exact (Hm _ _ Hk).
    + repeat split; try constructor. intros e [].
  - exact Hv.
  - apply mv_call_find.
Qed.

(* ================================================================== *)
(* for EVERY registration list (accept=, overrides and phash collisions included): whatever the
   registry holds in a slot was registered for that slot *)

Definition comp_all (c : component) : list reg :=
  match c with
  | CView v => [v]
  | CMulti m => map e_view (mv_views m) ++ flat_map (fun ks => map e_view (snd ks)) (mv_media m)
  end.

Definition holds_only (regs : list reg) (R : registry) : Prop :=
  forall s vt c, R s vt = Some c -> forall x, In x (comp_all c) -> In x regs /\ r_slot x = s.

Lemma in_media x m : In x (flat_map (fun ks : text * list entry => map e_view (snd ks)) m) <->
                     exists k s e, In (k, s) m /\ In e s /\ e_view e = x.
Proof.
  rewrite in_flat_map. split.
  - intros ([k s] & H1 & H2). simpl in H2. apply in_map_iff in H2. destruct H2 as (e & H2 & H3). eauto 6.
  - intros (k & s & e & H1 & H2 & H3). exists (k, s). split; [assumption|]. simpl. apply in_map_iff. eauto.
Qed.

Lemma mv_add_all m v order phash accept ao x :
  In x (comp_all (CMulti (mv_add m v order phash accept ao))) -> x = v \/ In x (comp_all (CMulti m)).
Proof.
  unfold mv_add. simpl.
  destruct (replace_phash phash (order, v, phash) (mv_views m)) as [views'|] eqn:E1.
  - simpl. rewrite !in_app_iff. intros [H|H]; [|auto].
    apply in_map_iff in H. destruct H as (e & <- & He).
    destruct (replace_phash_some _ _ _ _ E1) as (_ & Hin & _). destruct (Hin e He) as [->|He']; [left; reflexivity|].
    right. left. apply in_map. assumption.
  - destruct accept as [a|].
    + set (subset := match assoc (o_full a) (mv_media m) with Some s => s | None => [] end).
      assert (Hsub : forall e, In e subset -> In (e_view e) (flat_map (fun ks : text * list entry => map e_view (snd ks)) (mv_media m))).
      { intros e He. unfold subset in He. destruct (assoc (o_full a) (mv_media m)) as [s|] eqn:Ea; [|destruct He].
        destruct (assoc_in _ _ _ Ea) as (k' & Hk). apply in_media. eauto 6. }
      assert (G : forall subset', (forall e, In e subset' -> e = (order, v, phash) \/ In e subset) ->
                  In x (map e_view (mv_views m) ++
                        flat_map (fun ks : text * list entry => map e_view (snd ks)) (media_set (o_full a) subset' (mv_media m))) ->
                  x = v \/ In x (map e_view (mv_views m) ++ flat_map (fun ks : text * list entry => map e_view (snd ks)) (mv_media m))).
      { intros subset' Hs'. rewrite !in_app_iff. intros [H|H]; [auto|].
        apply in_media in H. destruct H as (k & s & e & H1 & H2 & <-).
        apply media_set_in in H1. destruct H1 as [H1|H1].
        - injection H1 as _ Es. subst s. destruct (Hs' e H2) as [->|He]; [left; reflexivity|]. right. right. auto.
        - right. right. apply in_media. eauto 6. }
      destruct (replace_phash phash (order, v, phash) subset) as [subset'|] eqn:E2; simpl.
      * apply G. exact (proj1 (proj2 (replace_phash_some _ _ _ _ E2))).
      * apply G. intros e He. apply (Permutation_in _ (isort_perm entry_leb _)) in He.
        apply in_app_or in He. destruct He as [He|[<-|[]]]; auto.
    + simpl. rewrite !in_app_iff. intros [H|H]; [|auto].
      apply in_map_iff in H. destruct H as (e & <- & He).
      apply (Permutation_in _ (isort_perm entry_leb _)) in He. apply in_app_or in He.
      destruct He as [He|[<-|[]]]; [|left; reflexivity]. right. left. apply in_map. assumption.
Qed.

Lemma unregister_all_some R s l vt c : unregister_all R s l s vt = Some c -> R s vt = Some c.
Proof.
  unfold unregister_all. revert R. induction l as [|x l IH]; intros R H; simpl in H; [assumption|].
  apply IH in H. unfold reg_set in H. rewrite slot_eqb_refl in H. simpl in H.
  destruct (vtype_eqb x vt); [discriminate|assumption].
Qed.

Lemma first_registered_some R s l c : first_registered R s l = Some c -> exists vt, R s vt = Some c.
Proof.
  induction l as [|vt l IH]; simpl; [discriminate|].
  destruct (R s vt) eqn:E; [intros H; inversion H; subst; eauto|exact IH].
Qed.

Lemma reg_set_at R s vt c vt' :
  reg_set R s vt c s vt' = if vtype_eqb vt vt' then c else R s vt'.
Proof. unfold reg_set. rewrite slot_eqb_refl. reflexivity. Qed.

Lemma holds_only_step ao regs R v :
  holds_only regs R -> holds_only (regs ++ [v]) (register_view ao R v).
Proof.
  intros H s vt' c Hc x Hx.
  assert (Hmono : forall y t, In y regs /\ r_slot y = t -> In y (regs ++ [v]) /\ r_slot y = t).
  { intros y t [A B]. split; [apply in_or_app; auto|assumption]. }
  assert (Hv : In v (regs ++ [v])) by (apply in_or_app; simpl; auto).
  destruct (slot_eqb (r_slot v) s) eqn:Es.
  2:{ apply slot_eqb_neq in Es. rewrite register_view_other in Hc by assumption. apply Hmono. eapply H; eassumption. }
  apply slot_eqb_eq in Es. subst s. unfold register_view in Hc. cbv zeta in Hc.
  remember (first_registered R (r_slot v) register_view_types) as old eqn:Ef in Hc. symmetry in Ef.
  match type of Hc with (if ?b then _ else _) _ _ = _ => destruct b end.
  - rewrite reg_set_at in Hc. destruct (vtype_eqb _ vt').
    + inversion Hc; subst c. simpl in Hx. destruct Hx as [<-|[]]. auto.
    + apply unregister_all_some in Hc. apply Hmono. eapply H; eassumption.
  - rewrite reg_set_at in Hc. destruct (vtype_eqb IMultiView vt').
    2:{ apply unregister_all_some in Hc. apply Hmono. eapply H; eassumption. }
    inversion Hc; subst c. clear Hc. apply mv_add_all in Hx. destruct Hx as [->|Hx]; [auto|].
    destruct old as [[o|m]|].
    + apply mv_add_all in Hx. destruct Hx as [->|Hx]; [|simpl in Hx; destruct Hx].
      apply first_registered_some in Ef. destruct Ef as (vt0 & Ef). apply Hmono. eapply H; [exact Ef|simpl; auto].
    + apply first_registered_some in Ef. destruct Ef as (vt0 & Ef). apply Hmono. eapply H; [exact Ef|exact Hx].
    + simpl in Hx. destruct Hx.
Qed.

Lemma holds_only_all ao regs : holds_only regs (register_all ao regs).
Proof.
  induction regs as [|v regs IH] using rev_ind.
  - intros s vt c H. discriminate.
  - unfold register_all. rewrite fold_left_app. simpl. apply holds_only_step. exact IH.
Qed.

Lemma get_views_all m rq e : In e (get_views m rq) -> In (e_view e) (comp_all (CMulti m)).
Proof.
  unfold get_views. simpl. rewrite in_app_iff. intros H.
  assert (G : In e (mv_views m) -> In (e_view e) (map e_view (mv_views m)) \/
              In (e_view e) (flat_map (fun ks : text * list entry => map e_view (snd ks)) (mv_media m))).
  { intros He. left. apply in_map. assumption. }
  destruct (mv_accepts m) as [|o0 os]; [auto|].
  apply in_app_or in H. destruct H as [H|H]; [|auto].
  apply in_flat_map in H. destruct H as (o & _ & H).
  destruct (assoc (o_full o) (mv_media m)) as [s|] eqn:Ea; [|destruct H].
  destruct (assoc_in _ _ _ Ea) as (k' & Hk). right. apply in_media. eauto 6.
Qed.

(* the body that runs belongs to a registration of the looked-up classifier and name, for
   interfaces of the two resolution orders, whose predicates all hold -- no hypothesis at all *)
Theorem ran_is_registered_and_qualifies ao regs cls rq t :
  call_view (register_all ao regs) cls rq = Ran t ->
  exists x, In x regs /\ r_tag x = t /\ qualifies rq x = true
            /\ s_cls (r_slot x) = cls /\ s_name (r_slot x) = q_view_name rq
            /\ In (s_req (r_slot x)) (q_req_sro rq) /\ In (s_ctx (r_slot x)) (q_ctx_sro rq).
Proof.
  intros H. destruct (failing_pred_never_runs _ _ _ _ H) as (x & Hx & Hq & Ht).
  exists x. unfold tried, find_views in Hx. apply in_flat_map in Hx. destruct Hx as (c & Hc & Hx).
  apply in_flat_map in Hc. destruct Hc as ([r k] & Hrk & Hc). apply in_prod_iff in Hrk.
  apply in_flat_map in Hc. destruct Hc as (vt & _ & Hc). simpl in Hc.
  destruct (register_all ao regs (mkSlot cls r k (q_view_name rq)) vt) as [c0|] eqn:E; [|destruct Hc].
  destruct Hc as [<-|[]].
  assert (Hall : In x (comp_all c0)).
  { destruct c0 as [v|m]; simpl in Hx; [exact Hx|]. apply in_map_iff in Hx. destruct Hx as (e & <- & He).
    apply get_views_all in He. exact He. }
  destruct (holds_only_all ao regs _ _ _ E x Hall) as [A B]. rewrite B. simpl. tauto.
Qed.

(* ================================================================== *)
(* not_(P) and P never hash alike (Notted.phash prefixes the mark), so sibling views that differ
   only by not_() around one predicate are distinct registrations *)


Lemma not_mark_nonempty : (0 < length not_mark)%nat.
Proof. vm_compute. lia. Qed.

Theorem notted_phash_differs p :
  nonempty (pred_phash p) = true -> pred_phash (PNot p) <> pred_phash p.
Proof.
  intros Hne E. cbn [pred_phash] in E. cbv zeta in E. rewrite Hne in E.
  apply (f_equal (@length N)) in E. rewrite app_length in E. pose proof not_mark_nonempty. lia.
Qed.

Lemma concat_length {A} (l : list (list A)) : length (concat l) = list_sum (map (@length A) l).
Proof. induction l as [|x l IH]; simpl; [reflexivity|]. rewrite app_length, IH. reflexivity. Qed.

Theorem notted_sibling_phash_differs l1 l2 p :
  nonempty (pred_phash p) = true ->
  concat (map pred_phash (l1 ++ PNot p :: l2)) <> concat (map pred_phash (l1 ++ p :: l2)).
Proof.
  intros Hne E. apply (f_equal (@length N)) in E.
  rewrite !map_app, !concat_app in E. cbn [map concat pred_phash] in E. cbv zeta in E. rewrite Hne in E.
  rewrite !app_length in E. pose proof not_mark_nonempty. lia.
Qed.

(* hence the two registrations have different keys: the hypothesis [NoDup (map key regs)] of
   lookup_winner holds of such a pair *)
Theorem notted_sibling_distinct_keys a b l1 l2 p :
  reg_wf a -> reg_wf b -> r_preds a = l1 ++ p :: l2 -> r_preds b = l1 ++ PNot p :: l2 ->
  nonempty (pred_phash p) = true -> NoDup (map key [a; b]).
Proof.
  intros Ha Hb Ea Eb Hne. simpl. constructor; [|constructor; [intros []|constructor]].
  intros [H|[]]. unfold key in H. injection H as _ H. unfold reg_wf in Ha, Hb.
  rewrite Ha, Hb, Ea, Eb in H. exact (notted_sibling_phash_differs l1 l2 p Hne H).
Qed.

(* what make computes for not_(value): the Notted wrapper of what it computes for value, same weight *)
Theorem make_vals_notted name n v acc :
  make_vals name n [(true, v)] acc =
  match make_vals name n [(false, v)] acc with
  | Some (ps, ws) => match rev ps with
                     | p :: r => Some (rev (PNot p :: r), ws)
                     | [] => None
                     end
  | None => None
  end.
Proof.
  simpl. destruct (factory name v) as [p|]; simpl; [|reflexivity].
  rewrite rev_app_distr. simpl. rewrite rev_involutive. reflexivity.
Qed.
