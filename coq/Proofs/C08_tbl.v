(* C08 proofs, part 2: what the regenerated directive table says about the directives the
   property names (closed by computation over Gen/Facts_C08.v: a directive moved to another
   phase, or a discriminator made eager, makes these stop compiling). *)
From Coq Require Import List NArith ZArith Bool.
Import ListNotations.
Require Import Verif.Lib.Wire Verif.Gen.Facts_C08 Verif.Model.C08.

Fixpoint find_row (n : text) (l : list row) : option row :=
  match l with [] => None | r :: t => if text_eqb n (rname r) then Some r else find_row n t end.
Definition phase_of (n : text) : option Z := option_map rphase (find_row n rows).
Definition deferred_of (n : text) : option bool := option_map rdeferred (find_row n rows).

(* "add_renderer#0" etc. as code points *)
Definition n_add_renderer : text := [97;100;100;95;114;101;110;100;101;114;101;114;35;48]%N.
Definition n_set_default_permission : text := [115;101;116;95;100;101;102;97;117;108;116;95;112;101;114;109;105;115;115;105;111;110;35;48]%N.
Definition n_set_default_csrf_options : text := [115;101;116;95;100;101;102;97;117;108;116;95;99;115;114;102;95;111;112;116;105;111;110;115;35;48]%N.
Definition n_add_predicate : text := [95;97;100;100;95;112;114;101;100;105;99;97;116;101;35;48]%N.
Definition n_add_view_deriver : text := [97;100;100;95;118;105;101;119;95;100;101;114;105;118;101;114;35;48]%N.
Definition n_set_security_policy : text := [115;101;116;95;115;101;99;117;114;105;116;121;95;112;111;108;105;99;121;35;48]%N.
Definition n_add_route_connect : text := [97;100;100;95;114;111;117;116;101;35;48]%N.
Definition n_add_route_iface : text := [97;100;100;95;114;111;117;116;101;35;49]%N.
Definition n_add_view : text := [97;100;100;95;118;105;101;119;35;48]%N.

(* predicates, derivers, renderers, default permission, CSRF defaults in PHASE1; policy and route request
   interfaces in PHASE2; views in PHASE3 = the default phase, with a deferred discriminator; route-connect
   in the default phase (declaration order) *)
Lemma directive_phases :
  phase_of n_add_predicate = Some phase1 /\ phase_of n_add_view_deriver = Some phase1 /\
  phase_of n_add_renderer = Some phase1 /\ phase_of n_set_default_permission = Some phase1 /\
  phase_of n_set_default_csrf_options = Some phase1 /\
  phase_of n_set_security_policy = Some phase2 /\ phase_of n_add_route_iface = Some phase2 /\
  phase_of n_add_view = Some phase3 /\ deferred_of n_add_view = Some true /\
  phase_of n_add_route_connect = Some default_order /\
  (phase0 < phase1 < phase2)%Z /\ (phase2 < phase3)%Z /\ phase3 = default_order.
Proof. vm_compute. repeat split; reflexivity. Qed.

(* PredicateList.make: the weight of the predicate at position n (regenerated from the expression in
   `weights.append(...)`) is a power of two, and different positions get different powers -- so the OR of the
   weights of a predicate set determines the set, and sets differing in one member never get the same score *)
Definition pow2 (w : N) : bool := negb (N.eqb w 0) && N.eqb (N.land w (w - 1)) 0.
Fixpoint pairwise_disjoint (l : list N) : bool :=
  match l with [] => true | w :: r => forallb (fun v => N.eqb (N.land w v) 0) r && pairwise_disjoint r end.
Lemma predicate_weights_are_distinct_bits :
  forallb pow2 pred_weights = true /\ pairwise_disjoint pred_weights = true /\
  (13 <= length default_view_preds <= length pred_weights)%nat.
Proof. vm_compute. repeat split; try reflexivity; repeat constructor. Qed.
