(* C20 -- `remove` keeps the hypotheses of the relation theorems (relation lists hold registered objects, no duplicates);
   with it they hold in EVERY reachable state, and the unrelate theorems become statements about reachable states. *)
From Coq Require Import List NArith ZArith Bool.
Import ListNotations.
Require Import Verif.Lib.Wire Verif.Lib.C20Types Verif.Gen.Facts_C20 Verif.Model.C20 Verif.Proofs.C20 Verif.Proofs.C20_wf Verif.Proofs.C20_rel.

Section Pool.
Variable U : intr -> Prop.

Lemma remove_first_incl y L : forall L' b, remove_first y L = Some L' -> In b L' -> In b L.
Proof.
  induction L as [|e r IH]; simpl; intros L' b H Hb; [discriminate|].
  destruct (cont_eq y e); [inversion H; subst; right; exact Hb|].
  destruct (remove_first y r) as [r'|] eqn:Er; [|discriminate]. inversion H; subst L'.
  destruct Hb as [->|Hb]; [left; reflexivity|right; eapply IH; [reflexivity|exact Hb]].
Qed.

Lemma remove_first_keeps y L : forall L', remove_first y L = Some L' ->
  (Forall U L -> Forall U L') /\ (NoDup L -> NoDup L').
Proof.
  induction L as [|e r IH]; simpl; intros L' H; [discriminate|].
  destruct (cont_eq y e).
  - inversion H; subst L'. split; intros K; inversion K; assumption.
  - destruct (remove_first y r) as [r'|] eqn:Er; [|discriminate]. inversion H; subst L'.
    destruct (IH r' eq_refl) as [I1 I2]. split; intros K; inversion K as [|? ? K1 K2]; subst.
    + constructor; auto.
    + constructor; [|auto]. intros Hin. apply K1. eapply remove_first_incl; [exact Er|exact Hin].
Qed.

Lemma refs_in_del x rf : refs_in U rf -> refs_in U (refs_del x rf).
Proof.
  intros H. induction H as [|[k v] r Hk Hr IH]; simpl; [constructor|].
  destruct (key_eq x k); [exact Hr|constructor; assumption].
Qed.

Lemma lists_nodup_del x rf : lists_nodup rf -> lists_nodup (refs_del x rf).
Proof.
  intros H. induction H as [|[k v] r Hk Hr IH]; simpl; [constructor|].
  destruct (key_eq x k); [exact Hr|constructor; assumption].
Qed.

Lemma remove_backrefs_keeps i L : forall rf rf' e,
  Forall U L -> refs_in U rf -> lists_nodup rf ->
  remove_backrefs i L rf = (rf', e) -> refs_in U rf' /\ lists_nodup rf'.
Proof.
  induction L as [|d r IH]; simpl; intros rf rf' e HL Hrf Hnd H.
  - inversion H; subst. auto.
  - inversion HL as [|? ? Hd Hr]; subst.
    pose proof (R_in_U U rf d Hrf) as HU2. pose proof (R_nodup rf d Hnd) as HN2. unfold R in HU2, HN2.
    destruct (refs_get d rf) as [L2|]; [|inversion H; subst; auto].
    destruct (remove_first i L2) as [L2'|] eqn:ER; [|inversion H; subst; auto].
    destruct (remove_first_keeps i L2 L2' ER) as [K1 K2].
    eapply IH; [exact Hr| | |exact H].
    + apply refs_in_set; auto.
    + apply lists_nodup_set; auto.
Qed.

Lemma get_refs s c d : refs (fst (get s c d)) = refs s.
Proof. unfold get. destruct (assoc c (cats s)); reflexivity. Qed.

(* remove -- returning normally or raising part-way -- keeps both hypotheses *)
Theorem remove_keeps_relation_lists_U s c d s' e :
  refs_in U (refs s) -> lists_nodup (refs s) -> remove s c d = (s', e) ->
  refs_in U (refs s') /\ lists_nodup (refs s').
Proof.
  intros Hrf Hnd. unfold remove. destruct (get s c d) as [s1 o] eqn:G.
  assert (E1 : refs s1 = refs s) by (change s1 with (fst (s1, o)); rewrite <- G; apply get_refs).
  rewrite <- E1 in Hrf, Hnd.
  destruct o as [i|]; [|intros H; inversion H; subst; auto].
  pose proof (R_in_U U (refs s1) i Hrf) as HL. unfold R in HL.
  destruct (remove_backrefs i _ (refs_del i (refs s1))) as [rf oe] eqn:RB.
  apply remove_backrefs_keeps in RB; [|exact HL|apply refs_in_del; exact Hrf|apply lists_nodup_del; exact Hnd].
  destruct oe as [e'|]; intros H; inversion H; subst; simpl; exact RB.
Qed.
End Pool.

(* ---------------------------------------------------------------- every reachable state *)
Definition op_in (U : intr -> Prop) (o : op) : Prop :=
  match o with OAdd i => U i | ORegister i _ => U i | _ => True end.
Definition RelInv (U : intr -> Prop) (s : st) : Prop :=
  lookups_in_U U s /\ refs_in U (refs s) /\ lists_nodup (refs s).

Section Reach.
Variable U : intr -> Prop.
Hypothesis Hinj : forall a b, U a -> U b -> cont_eq a b = true -> a = b.

Lemma intrs_by_pairs_U s ps : forall l, lookups_in_U U s -> intrs_by_pairs s ps = Ok l -> Forall U l.
Proof.
  induction ps as [|[c d] r IH]; simpl; intros l HU H.
  - inversion H; constructor.
  - destruct (lookup s c d) as [t|] eqn:E; [|discriminate].
    destruct (intrs_by_pairs s r) as [l0|e0] eqn:E2; [|discriminate].
    inversion H; subst. constructor; [eapply HU; exact E|apply IH; auto].
Qed.

Lemma product_U l : Forall U l -> Forall (fun p => U (fst p) /\ U (snd p)) (product l).
Proof.
  intros HU. rewrite Forall_forall in HU. apply Forall_forall. intros [a b] Hin.
  unfold product in Hin. apply in_flat_map in Hin. destruct Hin as (x & Hx & Hin).
  apply in_map_iff in Hin. destruct Hin as (y & E & Hy). inversion E; subst. simpl. split; apply HU; assumption.
Qed.

Lemma relate_inv s ps s' : RelInv U s -> relate s ps = Ok s' -> RelInv U s'.
Proof.
  intros (HU & Hrf & Hnd). unfold relate. destruct (intrs_by_pairs s ps) as [l|e0] eqn:E; [|discriminate].
  intros H. inversion H; subst s'; clear H.
  pose proof (product_U l (intrs_by_pairs_U s ps l HU E)) as Hps.
  split; [intros c d t Hl; exact (HU c d t Hl)|]. simpl. split.
  - exact (proj1 (fold_relate1_spec U Hinj _ _ Hps Hrf)).
  - exact (fold_relate1_nodup U Hinj _ _ Hps Hrf Hnd).
Qed.

Lemma unrelate_inv s ps s' : RelInv U s -> unrelate s ps = Ok s' -> RelInv U s'.
Proof.
  intros (HU & Hrf & Hnd). unfold unrelate. destruct (intrs_by_pairs s ps) as [l|e0] eqn:E; [|discriminate].
  intros H. inversion H; subst s'; clear H.
  pose proof (product_U l (intrs_by_pairs_U s ps l HU E)) as Hps.
  destruct (fold_unrelate1_spec U Hinj _ _ Hps Hrf Hnd) as (R1 & N1 & _).
  split; [intros c d t Hl; exact (HU c d t Hl)|]. simpl. split; assumption.
Qed.

Lemma add_inv s i : U i -> RelInv U s -> RelInv U (add s i).
Proof.
  intros Hi (HU & Hrf & Hnd). split; [|split; assumption].
  intros c d t Hl. destruct (text_eq_dec c (icat i)) as [->|Hc].
  - destruct (text_eq_dec d (idisc i)) as [->|Hd].
    + rewrite lookup_add_same in Hl. inversion Hl; subst. exact Hi.
    + rewrite lookup_add_other in Hl by congruence. eapply HU; exact Hl.
  - rewrite lookup_add_other in Hl by congruence. eapply HU; exact Hl.
Qed.

Lemma get_inv s c d : RelInv U s -> RelInv U (fst (get s c d)).
Proof.
  intros (HU & Hrf & Hnd). split.
  - intros c' d' t Hl. rewrite lookup_get in Hl. eapply HU; exact Hl.
  - rewrite get_refs. split; assumption.
Qed.

Lemma replay_inv rs : forall s i s' e, RelInv U s -> replay s i rs = (s', e) -> RelInv U s'.
Proof.
  induction rs as [|[c d|c d] r IH]; intros s i s' e HI H; simpl in H.
  - inversion H; subst; exact HI.
  - destruct (relate s _) as [s1|] eqn:E; [|inversion H; subst; exact HI].
    eapply IH; [|exact H]. eapply relate_inv; eassumption.
  - destruct (unrelate s _) as [s1|] eqn:E; [|inversion H; subst; exact HI].
    eapply IH; [|exact H]. eapply unrelate_inv; eassumption.
Qed.

Lemma remove_lookups_sub s c d s' e :
  WF s -> KeysOwn s -> remove s c d = (s', e) ->
  forall c' d' t, lookup s' c' d' = Some t -> lookup s c' d' = Some t.
Proof.
  intros Hw Hk E c' d' t Hl. destruct (remove_lookup _ _ _ _ _ Hw Hk E) as [H1 H2].
  destruct (text_eq_dec c' c) as [->|Hc]; [|(rewrite H1 in Hl by congruence); exact Hl].
  destruct (text_eq_dec d' d) as [->|Hd]; [|(rewrite H1 in Hl by congruence); exact Hl].
  destruct e as [e|]; [|rewrite (H2 eq_refl) in Hl; discriminate].
  revert Hl. unfold remove in E. destruct (get s c d) as [s1 o] eqn:G.
  assert (Hl1 : forall c' d', lookup s1 c' d' = lookup s c' d').
  { intros c'' d''. change s1 with (fst (s1, o)). rewrite <- G. apply lookup_get. }
  destruct o as [j|]; [|inversion E].
  destruct (remove_backrefs j _ _) as [rf [e'|]]; inversion E; subst.
  intros Hl. rewrite <- Hl1. exact Hl.
Qed.

Lemma remove_inv s c d s' e : WF s -> KeysOwn s -> RelInv U s -> remove s c d = (s', e) -> RelInv U s'.
Proof.
  intros Hw Hk (HU & Hrf & Hnd) E. split.
  - intros c' d' t Hl. eapply HU. eapply remove_lookups_sub; eassumption.
  - eapply remove_keeps_relation_lists_U; eassumption.
Qed.

Lemma step_inv s o : WF s -> KeysOwn s -> op_in U o -> RelInv U s -> RelInv U (fst (step s o)).
Proof.
  intros Hw Hk Ho HI. destruct o; simpl in *.
  - apply add_inv; assumption.
  - exact (get_inv s c d HI).
  - exact HI.
  - destruct (relate s ps) eqn:E; simpl; [eapply relate_inv; eassumption|exact HI].
  - destruct (unrelate s ps) eqn:E; simpl; [eapply unrelate_inv; eassumption|exact HI].
  - destruct (remove s c d) as [s' [e|]] eqn:E; simpl; eapply remove_inv; eassumption.
  - exact HI.
  - destruct (register s i rs) as [s' [e|]] eqn:E; simpl; unfold register in E;
      (eapply replay_inv; [|exact E]; apply add_inv; assumption).
  - exact HI.
Qed.

Theorem reachable_relinv ops : Forall (op_in U) ops -> RelInv U (run_state init ops).
Proof.
  assert (G : forall s, WF s -> KeysOwn s -> RelInv U s -> Forall (op_in U) ops -> RelInv U (run_state s ops)).
  { induction ops as [|o r IH]; intros s Hw Hk HI Ho; simpl; [exact HI|].
    inversion Ho as [|? ? Ho1 Ho2]; subst.
    apply IH; [apply WF_step; assumption|apply KeysOwn_step; assumption|apply step_inv; assumption|exact Ho2]. }
  apply G.
  - apply WF_init.
  - intros c d i Hl. discriminate.
  - split; [intros c d t Hl; discriminate|]. split; constructor.
Qed.
End Reach.

(* ---------------------------------------------------------------- closed statements (objects drawn from a pool of
   pairwise distinguishable introspectables) *)
Theorem remove_keeps_relation_lists (pool : list intr) s c d s' e :
  refs_in (fun t => In t pool) (refs s) -> lists_nodup (refs s) -> remove s c d = (s', e) ->
  refs_in (fun t => In t pool) (refs s') /\ lists_nodup (refs s').
Proof. apply remove_keeps_relation_lists_U. Qed.

Theorem reachable_relation_lists (pool : list intr) ops :
  (forall x y, In x pool -> In y pool -> cont_eq x y = true -> x = y) ->
  Forall (op_in (fun t => In t pool)) ops ->
  (forall c d t, lookup (run_state init ops) c d = Some t -> In t pool) /\
  refs_in (fun t => In t pool) (refs (run_state init ops)) /\ lists_nodup (refs (run_state init ops)).
Proof. intros Hinj Ho. exact (reachable_relinv _ Hinj ops Ho). Qed.

(* the unrelate theorem without state hypotheses: in EVERY state reached by adds / registrations of pool objects and any
   relate / unrelate / remove / read operations *)
Theorem unrelate_withdraws_exactly_reachable (pool : list intr) ops c1 d1 c2 d2 s' :
  (forall x y, In x pool -> In y pool -> cont_eq x y = true -> x = y) ->
  Forall (op_in (fun t => In t pool)) ops ->
  unrelate (run_state init ops) [(c1, d1); (c2, d2)] = Ok s' ->
  exists x y, lookup (run_state init ops) c1 d1 = Some x /\ lookup (run_state init ops) c2 d2 = Some y /\
    forall a b, In a pool -> In b pool ->
      (linked s' a b = true <->
       linked (run_state init ops) a b = true /\ ~ ((a = x \/ a = y) /\ (b = x \/ b = y))).
Proof.
  intros Hinj Ho H. destruct (reachable_relation_lists pool ops Hinj Ho) as (HU & Hrf & Hnd).
  destruct (unrelate_withdraws_exactly pool _ _ _ _ _ _ Hinj HU Hrf Hnd H) as (x & y & L1 & L2 & _ & _ & Sp).
  exists x, y. split; [exact L1|]. split; [exact L2|exact Sp].
Qed.

(* non-vacuity: a history with a removal in between; the later unrelate withdraws the a-b link only *)
Example unrelate_after_remove_example :
  let a := mkIntr [97]%N [49]%N [120]%N 0 in
  let b := mkIntr [98]%N [49]%N [121]%N 1 in
  let c := mkIntr [99]%N [49]%N [122]%N 2 in
  let ka := ([97]%N, [49]%N) in let kb := ([98]%N, [49]%N) in let kc := ([99]%N, [49]%N) in
  let s := run_state init [OAdd a; OAdd b; OAdd c; ORelate [ka; kb]; ORelate [ka; kc]; ORelate [kb; kc];
                           ORemove [99]%N [49]%N] in
  match unrelate s [ka; kb] with
  | Ok s' => (linked s a b, linked s a c, linked s b c, linked s' a b, linked s' b a) = (true, false, false, false, false)
  | Err _ => False
  end.
Proof. vm_compute. reflexivity. Qed.
