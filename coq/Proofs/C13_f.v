(* C13 part (a): balance is closed under every statement constructor and under bracketing by an acquire / release
   pair, hence holds for ARBITRARY nestings of the analysed scope programs (prepare inside a request inside a
   Configurator scope, ...), from the per-program theorems -- no new path analysis. *)
From Coq Require Import List NArith Bool Arith Lia.
Import ListNotations.
Require Import Verif.Lib.C13Bracket Verif.Gen.Facts_C13 Verif.Model.C13 Verif.Proofs.C13_a.

Definition balanced (p : stmt) : Prop := forall s k s' tr, exec p s k s' tr -> s' = s.
(* an acquiring procedure: nothing left on raise, exactly the frame t on return; a releasing one: pops one frame *)
Definition acquires (p : stmt) (t : N) : Prop :=
  forall s k s' tr, exec p s k s' tr -> (k = KExc -> s' = s) /\ (k <> KExc -> s' = t :: s).
Definition releases (p : stmt) : Prop := forall s k s' tr, exec p s k s' tr -> s' = tl s.

Lemma scope_not_ret a s k s' tr : exec (Scope a) s k s' tr -> k <> KRet.
Proof. intros E. inversion E; subst. destruct k0; discriminate. Qed.

Ltac bal := repeat match goal with
  | Hb : balanced ?p, H : exec ?p _ _ _ _ |- _ => apply Hb in H; subst
  end; try reflexivity.

Lemma bal_seq a b : balanced a -> balanced b -> balanced (Seq a b).
Proof. intros Ha Hb s k s' tr E. inversion E; subst; bal. Qed.
Lemma bal_fin a b : balanced a -> balanced b -> balanced (TryFinally a b).
Proof. intros Ha Hb s k s' tr E. inversion E; subst; bal. Qed.
Lemma bal_exc al a h : balanced a -> balanced h -> balanced (TryExcept al a h).
Proof. intros Ha Hh s k s' tr E. inversion E; subst; bal. Qed.
Lemma bal_if a b : balanced a -> balanced b -> balanced (If a b).
Proof. intros Ha Hb s k s' tr E. inversion E; subst; bal. Qed.
Lemma bal_scope a : balanced a -> balanced (Scope a).
Proof. intros Ha s k s' tr E. inversion E; subst; bal. Qed.
Lemma bal_loop a : balanced a -> balanced (Loop a).
Proof.
  intros Ha s k s' tr E. remember (Loop a) as p eqn:Ep. induction E; try discriminate Ep.
  - reflexivity.
  - injection Ep as ->. rewrite (IHE2 eq_refl). bal.
  - injection Ep as ->. bal.
Qed.
(* acquire; try: body finally: release *)
Lemma bal_bracket t a body rel : acquires (Scope a) t -> releases rel -> balanced body ->
  balanced (Seq (Scope a) (TryFinally body rel)).
Proof.
  intros Ha Hr Hb s k s' tr E. inversion E; subst.
  - match goal with H : exec (Scope a) _ KN _ _ |- _ => destruct (Ha _ _ _ _ H) as [_ A2] end.
    rewrite (A2 ltac:(discriminate)) in *.
    match goal with H : exec (TryFinally body rel) _ _ _ _ |- _ => inversion H; subst end.
    match goal with H : exec rel _ _ _ _ |- _ => apply Hr in H; subst end. bal.
  - match goal with H : exec (Scope a) _ _ _ _ |- _ =>
      destruct (Ha _ _ _ _ H) as [A1 _]; pose proof (scope_not_ret _ _ _ _ _ H) as NR end.
    apply A1. destruct k; [match goal with H : KN <> KN |- _ => contradiction H; reflexivity end|contradiction NR; reflexivity|reflexivity].
Qed.

(* the acquire / release pairs of the analysed entry points *)
Definition scope_wrappers : list (stmt * stmt * N) :=
  [(prog_cfg_begin, prog_cfg_end, tag_configurator);
   (prog_prepare, prog_prepare_closer, tag_request_context);
   (prog_get_root, prog_get_root_closer, tag_request_context);
   (prog_bootstrap, prog_prepare_closer, tag_request_context)].
Definition wrap (w : stmt * stmt * N) (body : stmt) : stmt := Seq (fst (fst w)) (TryFinally body (snd (fst w))).
Definition nest (ws : list (stmt * stmt * N)) (body : stmt) : stmt := fold_right wrap body ws.

Lemma wrapper_ok w : In w scope_wrappers ->
  (exists a, fst (fst w) = Scope a) /\ acquires (fst (fst w)) (snd w) /\ releases (snd (fst w)).
Proof.
  destruct configurator_scopes_balanced as [_ [CB CE]].
  destruct scripting_balanced as [GR [PR [GC [PC _]]]].
  destruct bootstrap_balanced as [BS _].
  intros [<-|[<-|[<-|[<-|[]]]]]; cbn [fst snd]; (split; [eexists; reflexivity|split]).
  - exact CB.
  - exact CE.
  - intros s k s' tr E. destruct (PR _ _ _ _ E) as [A [B _]]. split; assumption.
  - exact PC.
  - intros s k s' tr E. destruct (GR _ _ _ _ E) as [A [B _]]. split; assumption.
  - exact GC.
  - intros s k s' tr E. destruct (BS _ _ _ _ E) as [A [B _]]. split; assumption.
  - exact PC.
Qed.

Theorem scope_nesting_balanced : forall ws body,
  (forall w, In w ws -> In w scope_wrappers) -> balanced body -> balanced (nest ws body).
Proof.
  induction ws as [|w ws IH]; intros body Hw Hb; [exact Hb|].
  cbn [nest fold_right]. destruct (wrapper_ok w (Hw w (or_introl eq_refl))) as [[a Ea] [Ha Hr]].
  unfold wrap. rewrite Ea in *. eapply bal_bracket; [exact Ha|exact Hr|].
  apply IH; [intros w' I; apply Hw; right; exact I|exact Hb].
Qed.

(* the balanced entry points, usable as bodies (and sequenced, branched, looped, ... by the closure lemmas) *)
Lemma balanced_entry_points :
  balanced prog_wsgi_call /\ balanced prog_subrequest /\ balanced prog_request_context_manual /\
  balanced prog_prepare_with /\ balanced prog_bootstrap_with /\ balanced prog_exception_view /\
  (forall p, In p cfg_programs -> balanced p).
Proof.
  destruct scripting_balanced as [_ [_ [_ [_ PW]]]]. destruct bootstrap_balanced as [_ BW].
  destruct configurator_scopes_balanced as [CP _]. destruct exception_view_balanced as [EV _].
  repeat split.
  - intros s k s' tr E. exact (proj1 (wsgi_call_balanced _ _ _ _ E)).
  - intros s k s' tr E. exact (proj1 (subrequest_balanced _ _ _ _ E)).
  - intros s k s' tr E. exact (proj1 (request_context_manual_balanced _ _ _ _ E)).
  - exact PW.
  - exact BW.
  - intros s k s' tr E. exact (proj1 (EV _ _ _ _ E)).
  - intros p I s k s' tr E. exact (proj1 (CP p I _ _ _ _ E)).
Qed.

(* non-vacuity / the nesting named in the design: a Configurator scope around a WSGI call followed by a scripting
   environment (prepare .. closer) inside which a subrequest is made, twice in a loop *)
Example nesting_example :
  balanced (nest [(prog_cfg_begin, prog_cfg_end, tag_configurator)]
              (Seq prog_wsgi_call
                   (Loop (nest [(prog_prepare, prog_prepare_closer, tag_request_context);
                                (prog_cfg_begin, prog_cfg_end, tag_configurator)] prog_subrequest)))).
Proof.
  destruct balanced_entry_points as [W [S _]].
  apply scope_nesting_balanced; [intros w [<-|[]]; left; reflexivity|].
  apply bal_seq; [exact W|]. apply bal_loop.
  apply scope_nesting_balanced; [|exact S].
  intros w [<-|[<-|[]]]; [right; left; reflexivity|left; reflexivity].
Qed.
