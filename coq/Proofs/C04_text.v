(* C04 proofs, part 17: the override test compares include chains ELEMENT BY ELEMENT.  Chains whose text is related
   (a sibling's name extended by a character; one element that reads like two joined elements) are unrelated chains:
   the test reports them. *)
From Coq Require Import List NArith ZArith Bool Lia.
Import ListNotations.
Require Import Verif.Lib.Wire Verif.Gen.Facts_C04 Verif.Model.C04 Verif.Proofs.C04 Verif.Proofs.C04_decide.

(* one-element chains: overridden only by the empty chain, never by another one-element chain -- whatever the texts *)
Theorem sibling_chains_conflict (a b : text) : conflicting [a] [b] = true.
Proof.
  rewrite conflicting_strict_prefix. unfold strict_prefix. cbn [is_prefix path_eqb].
  destruct (text_eqb a b); reflexivity.
Qed.

(* a chain of one element never overrides, and is never overridden by, a chain of two or more elements that does not
   start with that very element *)
Theorem unrelated_depths_conflict (a b : text) (r : path) :
  text_eqb a b = false -> conflicting [a] (b :: r) = true /\ conflicting (b :: r) [a] = true.
Proof.
  intros H. rewrite !conflicting_strict_prefix. unfold strict_prefix. cbn [is_prefix path_eqb].
  rewrite H. assert (H' : text_eqb b a = false).
  { destruct (text_eqb b a) eqn:E; [|reflexivity]. apply text_eqb_eq in E. subst. rewrite text_eqb_refl in H. discriminate. }
  rewrite H'. split; reflexivity.
Qed.
