(* C01, proof-only round: soundness of the compiled matcher for ANY end continuation, and from it
   the "render ++ newline" form of soundness for the '$' anchor (the pre-repair compiled pattern):
   whatever the anchor and the remainder group, a match decomposes the whole path along the
   pattern, except that with '$' one final newline may be left over. *)
From Coq Require Import List NArith ZArith Bool Lia Arith.
Import ListNotations.
Require Import Verif.Lib.Wire Verif.Lib.Text Verif.Lib.PathNorm Verif.Lib.Utf8 Verif.Gen.Facts_C01 Verif.Model.C01
  Verif.Proofs.C01.
Local Close Scope N_scope.
Local Open Scope nat_scope.

(* backtracking gives back characters of the greedy run only: the capture is a prefix of the run,
   at least lo long, and the continuation accepted what is left *)
Lemma back_sound lo k : forall tr rest caps,
  back lo tr rest k = Some caps ->
  exists v r' c w, caps = v :: c /\ k r' = Some c /\ rev tr ++ rest = v ++ r' /\ lo <= length v /\ rev tr = v ++ w.
Proof.
  induction tr as [|c0 tr IH]; intros rest caps H; cbn [back] in H.
  - destruct lo; [|discriminate]. destruct (k rest) as [c|] eqn:Ek; [|discriminate]. injection H as <-.
    exists [], rest, c, []. repeat split; auto.
  - destruct (length (c0 :: tr) <? lo) eqn:Hlt; [discriminate|]. apply Nat.ltb_ge in Hlt.
    destruct (k rest) as [c|] eqn:Ek.
    + injection H as <-. exists (rev (c0 :: tr)), rest, c, []. repeat split; auto.
      * rewrite rev_length. exact Hlt.
      * rewrite app_nil_r. reflexivity.
    + destruct (IH _ _ H) as (v & r' & c & w & -> & Hk & Hs & Hlo & Hw).
      exists v, r', c, (w ++ [c0]). repeat split; auto.
      * cbn [rev]. rewrite <- app_assoc. exact Hs.
      * cbn [rev]. rewrite Hw, <- app_assoc. reflexivity.
Qed.

(* soundness for an arbitrary end continuation ek *)
Theorem mi_sound_any ek O : forall its s caps,
  mi ek O its s = Some caps ->
  exists hc ec rest,
    caps = hc ++ ec /\ ek rest = Some ec /\ s = render its hc ++ rest
    /\ (forall e, render its (hc ++ e) = render its hc ++ render [] e)
    /\ (forall st e, caps_ok O st [] e = true -> caps_ok O st its (hc ++ e) = true).
Proof.
  induction its as [|[l|n h] its IH]; intros s caps H; cbn [mi] in H.
  - exists [], caps, s. repeat split; auto.
  - destruct (strip_prefix l s) as [r|] eqn:E; [|discriminate]. apply strip_prefix_spec in E. subst s.
    destruct (IH _ _ H) as (hc & ec & rest & -> & Hk & -> & Hr & Hc).
    exists hc, ec, rest. repeat split; auto.
    + cbn [render]. rewrite <- app_assoc. reflexivity.
    + intros e. cbn [render]. rewrite Hr, <- app_assoc. reflexivity.
  - destruct (span_upto (cls_mem O (h_cls h)) (h_hi h) s) as [p r] eqn:E.
    destruct (span_upto_spec _ _ _ _ _ E) as (Hs & Hp & Hb & _).
    destruct (back_sound _ _ _ _ _ H) as (v & r' & c & w & -> & Hk & Hvr & Hlo & Hw).
    rewrite rev_involutive in Hvr, Hw.
    destruct (IH _ _ Hk) as (hc & ec & rest & -> & Hek & -> & Hr & Hc).
    assert (Hok : hole_ok O h v = true).
    { unfold hole_ok. rewrite Hw, forallb_app in Hp. apply andb_true_iff in Hp as [Hpv _].
      rewrite Hpv, andb_true_r. apply andb_true_iff. split; [apply Nat.leb_le; exact Hlo|].
      destruct (h_hi h) as [m|]; [|reflexivity]. apply Nat.leb_le. specialize (Hb m eq_refl).
      rewrite Hw, app_length in Hb. lia. }
    exists (v :: hc), ec, rest. repeat split; auto.
    + cbn [render]. rewrite Hs, Hvr, <- app_assoc. reflexivity.
    + intros e. cbn [render app]. rewrite Hr, <- app_assoc. reflexivity.
    + intros st e He. cbn [caps_ok app]. rewrite Hok, (Hc st e He). reflexivity.
Qed.

(* the lazy remainder group under '$': all that is left, or all but one final newline *)
Lemma lazy_star_dollar b : forall t acc v,
  lazy_star Dollar b acc t = Some v -> rev acc ++ t = v \/ rev acc ++ t = v ++ [c_nl].
Proof.
  induction t as [|c t IH]; intros acc v H.
  - cbn in H. injection H as <-. left. apply app_nil_r.
  - cbn [lazy_star] in H. destruct (at_end Dollar (c :: t)) eqn:Ea.
    + injection H as <-. right. destruct t as [|d t']; [|discriminate]. cbn in Ea.
      apply N.eqb_eq in Ea. subst c. reflexivity.
    + destruct (b || negb (c =? c_nl)%N); [|discriminate].
      destruct (IH _ _ H) as [Hv|Hv]; [left|right]; rewrite <- Hv; cbn [rev]; rewrite <- app_assoc; reflexivity.
Qed.

Lemma at_end_dollar t : at_end Dollar t = true -> t = [] \/ t = [c_nl].
Proof.
  destruct t as [|c [|d t]]; cbn; intros H; try discriminate; auto.
  right. apply N.eqb_eq in H. subst c. reflexivity.
Qed.

(* the '$' anchor, with or without DOTALL in the remainder group: a match decomposes the whole
   path along the pattern (every capture in its placeholder's language), or the path is such a
   decomposition followed by ONE newline -- nothing else can slip through *)
Theorem match_sound_dollar b O p s d :
  match_pat_with Dollar b O p s = Some d ->
  exists caps, d = mk_dict (items p) (star p) caps
    /\ caps_ok O (star p) (items p) caps = true
    /\ (s = render (items p) caps \/ s = render (items p) caps ++ [c_nl]).
Proof.
  unfold match_pat_with. destruct (mi (kend Dollar b (star p)) O (items p) s) as [caps|] eqn:E; [|discriminate].
  intros H. injection H as <-. exists caps. split; [reflexivity|].
  destruct (mi_sound_any _ _ _ _ _ E) as (hc & ec & rest & -> & Hk & -> & Hr & Hc).
  unfold kend in Hk. destruct (star p) as [n|].
  - destruct (lazy_star Dollar b [] rest) as [v|] eqn:El; [|discriminate]. injection Hk as <-.
    split; [apply Hc; reflexivity|]. rewrite Hr. cbn [render].
    destruct (lazy_star_dollar _ _ _ _ El) as [Hv|Hv]; cbn [rev app] in Hv; subst rest; [left; reflexivity|right].
    rewrite app_assoc. reflexivity.
  - destruct (at_end Dollar rest) eqn:Ea; [|discriminate]. injection Hk as <-.
    split; [apply Hc; reflexivity|]. rewrite Hr. cbn [render]. rewrite app_nil_r.
    destruct (at_end_dollar _ Ea) as [-> | ->]; [left; rewrite ?app_nil_r; reflexivity|right; reflexivity].
Qed.

(* the same general soundness gives, for the strict anchor, a second proof of "matches the whole
   path" that does not go through the enumeration; stated for ANY anchor and DOTALL flag in the
   weak form: the rendering of the captures is a PREFIX of the path, the rest is what the end
   continuation accepted *)
Theorem match_sound_prefix a b O p s d :
  match_pat_with a b O p s = Some d ->
  exists caps rest, d = mk_dict (items p) (star p) caps /\ caps_ok O (star p) (items p) caps = true
    /\ s = render (items p) caps ++ rest
    /\ (rest = [] \/ (a = Dollar /\ rest = [c_nl])).
Proof.
  destruct a.
  - intros H. destruct (match_sound_dollar _ _ _ _ _ H) as (caps & Hd & Hc & [Hs|Hs]).
    + exists caps, []. rewrite app_nil_r. repeat split; auto.
    + exists caps, [c_nl]. repeat split; auto.
  - unfold match_pat_with. destruct (mi (kend EndZ b (star p)) O (items p) s) as [caps|] eqn:E; [|discriminate].
    intros H. injection H as <-. exists caps, [].
    destruct (mi_sound_any _ _ _ _ _ E) as (hc & ec & rest & -> & Hk & -> & Hr & Hc).
    unfold kend in Hk. destruct (star p) as [n|].
    + destruct (lazy_star EndZ b [] rest) as [v|] eqn:El; [|discriminate]. injection Hk as <-.
      assert (Hv : rest = v).
      { clear -El. assert (G : forall t acc u, lazy_star EndZ b acc t = Some u -> rev acc ++ t = u).
        { induction t as [|c t IH]; intros acc u H.
          - cbn in H. injection H as <-. apply app_nil_r.
          - cbn [lazy_star] in H. replace (at_end EndZ (c :: t)) with false in H by (destruct t; reflexivity).
            destruct (b || negb (c =? c_nl)%N); [|discriminate]. rewrite <- (IH _ _ H). cbn [rev].
            rewrite <- app_assoc. reflexivity. }
        apply (G rest [] v El). }
      subst v. split; [reflexivity|]. split; [apply Hc; reflexivity|]. split; [rewrite Hr; cbn [render]; rewrite ?app_nil_r; reflexivity|left; reflexivity].
    + destruct (at_end EndZ rest) eqn:Ea; [|discriminate]. injection Hk as <-.
      assert (rest = []) by (destruct rest as [|c [|? ?]]; [reflexivity|discriminate|discriminate]). subst rest.
      split; [reflexivity|]. split; [apply Hc; reflexivity|]. split; [rewrite Hr; cbn [render]; rewrite ?app_nil_r; reflexivity|left; reflexivity].
Qed.

Require Import Coq.Strings.String.
Local Open Scope string_scope.
(* non-vacuity: both disjuncts occur *)
Example match_sound_dollar_nonvacuous :
  let p := mkPat [Lit (T "/foo")] None in
  let q := mkPat [Lit (T "/f/")] (Some (T "rest")) in
  match_pat_with Dollar false no_oracle p (T "/foo") = Some []
  /\ match_pat_with Dollar false no_oracle p (T "/foo" ++ [c_nl])%list = Some []
  /\ match_pat_with Dollar false no_oracle p (T "/foo" ++ [c_nl; c_nl])%list = None
  /\ match_pat_with Dollar false no_oracle q (T "/f/a" ++ [c_nl])%list = Some [(T "rest", MSegs [T "a"])].
Proof. vm_compute. repeat split. Qed.
