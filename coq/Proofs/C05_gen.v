(* C05 -- the program REGENERATED from the source on this run (the gen_ definitions of Gen/Facts_C05.v) equals the hand-written
   reference model (Model/C05.v), for all inputs; the property theorems are then restated about the regenerated program.

   The proof scripts never mention the text of the generated terms: they take loops apart by pattern, do one induction
   per loop, split on the atoms the primitive table can produce and ask that both sides compute to the same result or to
   the induction hypothesis.  They are therefore insensitive to the names of the source's locals, to elif-vs-nested-if,
   to and/or splitting and to the order of independent statements; they fail as soon as some valuation of the atoms
   leads the regenerated program to another result than the model. *)
From Coq Require Import List NArith ZArith Bool Lia.
Import ListNotations.
Require Import Verif.Lib.Wire Verif.Gen.Facts_C03 Verif.Model.C03 Verif.Gen.Facts_C05 Verif.Model.C05.
Require Import Verif.Proofs.C03 Verif.Proofs.C05 Verif.Proofs.C05_cfg Verif.Proofs.C05_seq.
Local Close Scope N_scope.
Local Open Scope nat_scope.

(* ---- the monad *)
Lemma m_bind_ret c : m_bind c m_ret = c.
Proof. destruct c as [tr o]. unfold m_bind, m_ret. destruct o; rewrite ?app_nil_r; reflexivity. Qed.

Lemma m_bind_ret' c : m_bind c (fun r => m_ret r) = c.
Proof. apply m_bind_ret. Qed.

(* ---- _secured_view, derive time: which permission the wrapper closes over *)
Theorem gen_secured_permission_is_model st exception_only perm :
  gen_secured_permission exception_only perm (rs_defperm st) (rs_policy st) = secured_permission st exception_only perm.
Proof.
  unfold gen_secured_permission, secured_permission, opt_text_eqb, is_npr, is_none.
  destruct exception_only, perm as [p|], (rs_defperm st) as [dp|], (rs_policy st); cbn;
    repeat match goal with |- context [text_eqb ?a ?b] => destruct (text_eqb a b) end; reflexivity.
Qed.

(* ---- the secured closure: ask the policy, then the view or HTTPForbidden *)
Theorem gen_secured_call_is_model tb q lookup p r d t c :
  run_ws tb q lookup (WSecured p :: r) d t c = gen_secured_call tb p c (run_ws tb q lookup r d t c).
Proof.
  unfold gen_secured_call, m_bindb, m_permits, m_raise. cbn [run_ws exc_new].
  destruct (granted tb p c); [destruct (run_ws tb q lookup r d t c); reflexivity|reflexivity].
Qed.

(* ---- secured_view, the deriver: _secured_view then _authdebug_view; _authdebug_view returns the view unchanged
   unless debug_authorization is on *)
Theorem gen_secured_view_deriver_is_model {V} (f : V -> V) sp eo op dp (dbg : V -> V) v :
  gen_secured_view_deriver f (fun w => gen_authdebug_view sp false eo op dp w (dbg w)) v = f v.
Proof. unfold gen_secured_view_deriver, gen_authdebug_view. destruct sp; reflexivity. Qed.

Theorem gen_authdebug_view_off {V} sp eo op dp (v w : V) : gen_authdebug_view sp false eo op dp v w = v.
Proof. unfold gen_authdebug_view. destruct sp; reflexivity. Qed.

(* ---- default_exceptionresponse_view: the response IS the exception being rendered *)
Theorem gen_default_exceptionresponse_view_is_model {V} (f : V -> V -> V) (c r : V) :
  gen_default_exceptionresponse_view f true c r = c.
Proof. reflexivity. Qed.

(* ---- _find_views (cache miss, default view types) *)
Theorem gen_find_views_is_model R cls rs cs nm :
  gen_find_views R rs cs nm None (Some cls) = find_views R cls rs cs nm.
Proof.
  unfold gen_find_views, find_views. rewrite find_view_types_ok.
  match goal with
  | |- ?F (list_prod rs cs) [] = flat_map ?g _ =>
      enough (H : forall l acc, F l acc = acc ++ flat_map g l) by (rewrite H; reflexivity)
  end.
  induction l as [|x t IH]; intros acc; [cbn; rewrite app_nil_r; reflexivity|].
  cbn.
  repeat match goal with |- context [R ?s ?vt] => destruct (R s vt) end;
    rewrite IH; cbn; rewrite <- ?app_assoc; reflexivity.
Qed.

Theorem gen_find_views_default_classifier R rs cs nm :
  gen_find_views R rs cs nm None None = find_views R view_classifier rs cs nm.
Proof. rewrite <- gen_find_views_is_model. reflexivity. Qed.

(* ---- _call_view *)
Section CallView.
  Variable R : registry.
  Variable D : list (N * dview).
  Variable tb : grants.
  Variable q : rq5.
  Variable lookup : text -> ctx -> trace * res.
  Variable c : ctx.

  Lemma exc_isa_pm e : exc_isa CPredicateMismatch e = true <-> e = EPredMismatch.
  Proof. destruct e; simpl; split; congruence. Qed.

  (* one iteration: the try body of the loop equals the model's component call *)
  Lemma permissive_facts : permissive_checks_predicates = true.
  Proof. reflexivity. Qed.

  Theorem gen_call_view_is_model find secure i a :
    gen_call_view (fun cmp => call_component5 D tb q lookup cmp c) (pc_of D) (pr_of D) (run_pr q)
                  (call_pc D tb q lookup c) find secure (Some i) a
    = call_loop_s D tb q secure lookup (find i) c false.
  Proof.
    unfold gen_call_view.
    match goal with
    | |- ?F (find i) NoView None = _ =>
        enough (H : forall l (b : bool), F l NoView (if b then Some EPredMismatch else None)
                                         = call_loop_s D tb q secure lookup l c b) by apply (H (find i) false)
    end.
    induction l as [|cmp r IH]; intros b; [destruct b; reflexivity|].
    cbn [call_loop_s].
    simpl.
    (* the body of the try = the model's component call: split on the atoms of the table *)
    match goal with
    | |- m_try ?B ?h = _ => assert (HB : B = call_component_s D tb q secure lookup cmp c)
    end.
    { unfold call_component_s. rewrite ?m_bind_ret'. destruct secure; [reflexivity|].
      rewrite permissive_facts. cbn [andb].
      destruct cmp as [v|m]; cbn [pc_of pr_of call_pc call_component5].
      - destruct (assocN (r_tag v) D) as [d|] eqn:Hd.
        + destruct (d_perm d) as [p|] eqn:Hp; cbn [is_some is_none negb andb].
          * unfold run_pr, qualifies. destruct (r_preds (d_reg d)) eqn:Ep; [rewrite ?m_bind_ret'; reflexivity|].
            rewrite ?m_bind_ret'. unfold run_pr, qualifies. rewrite ?Ep.
            destruct (forallb (eval_pred (q_base q)) (p0 :: l)); reflexivity.
          * rewrite ?m_bind_ret'. symmetry. eapply permissive_unsecured; eauto.
        + rewrite ?m_bind_ret'. unfold call_reg, call_reg_permissive. rewrite Hd. reflexivity.
      - rewrite ?m_bind_ret'. reflexivity. }
    rewrite HB.
    destruct (call_component_s D tb q secure lookup cmp c) as [tr o]. unfold m_try.
    destruct o as [t|e| |]; try reflexivity.
    destruct e;
      try (exact (f_equal (fun z : trace * res => let '(tr2, o2) := z in (tr ++ tr2, o2)) (IH true)));
      cbn; rewrite app_nil_r; reflexivity.
  Qed.
End CallView.

(* ================================================================== *)
(* the whole request path, assembled from the regenerated pieces exactly as the code assembles them:
   Router.invoke_request( excview_tween( <harness logger>( handle_request: _call_view ) ),
                          _error_handler -> invoke_exception_view(exc_info) -> _call_view(exception view) ) *)
Section Router.
  Variable R : registry.
  Variable D : list (N * dview).
  Variable tb : grants.
  Variable q : rq5.

  Lemma gen_call_view_at_is_model secure cls req_sro name c :
    gen_call_view_at R D tb q secure cls req_sro name c = call_view_s R D tb q secure fuel0 cls req_sro name c.
  Proof.
    unfold gen_call_view_at. rewrite gen_call_view_is_model, gen_find_views_is_model. reflexivity.
  Qed.

  Local Arguments gen_call_view_at : simpl never.
  Local Arguments call_view5 : simpl never.
  Theorem gen_router_is_model : gen_router R D tb q = router_call R D tb q.
  Proof.
    unfold gen_router, gen_default_secure_call_view, gen_default_secure_invoke_exception_view,
      gen_default_reraise_invoke_exception_view.
    unfold gen_invoke_request, gen_excview_tween, gen_error_handler, gen_invoke_exception_view, gen_handle_request_view,
      with_raise_logger.
    rewrite !m_bind_ret'.
    rewrite gen_call_view_at_is_model, <- router_uses_secure.
    unfold router_call, handle_request.
    destruct (call_view5 R D tb q fuel0 view_classifier (q_main_sro q) (q_view_name (q_base q)) (q_ctx q)) as [tr o].
    destruct o as [t|e| |].
    - cbn. rewrite ?app_nil_r. reflexivity.
    - (* the main handler raised e *)
      cbn.
      assert (He : exc_isa CException e = true) by (destruct e; reflexivity).
      rewrite ?He. cbn.
      rewrite gen_call_view_at_is_model, <- router_uses_secure.
      destruct (call_view5 R D tb q fuel0 exc_classifier (q_comb_sro q) [] (CExc e)) as [tr2 o2].
      destruct o2 as [t2|e2| |]; [|destruct e2| |]; unfold finalize; cbn; rewrite ?app_nil_r, <- ?app_assoc; cbn;
        try reflexivity; destruct e; cbn; rewrite ?app_nil_r, <- ?app_assoc; reflexivity.
    - (* no view at all: HTTPNotFound *)
      cbn. rewrite ?app_nil_r.
      rewrite gen_call_view_at_is_model, <- router_uses_secure.
      destruct (call_view5 R D tb q fuel0 exc_classifier (q_comb_sro q) [] (CExc ENotFound)) as [tr2 o2].
      destruct o2 as [t2|e2| |]; [|destruct e2| |]; unfold finalize; cbn; rewrite ?app_nil_r, <- ?app_assoc; reflexivity.
    - cbn. rewrite ?app_nil_r. reflexivity.
  Qed.
End Router.

(* ================================================================== *)
(* the property theorems, restated about the REGENERATED program *)
Section GenProps.
  Variable R : registry.
  Variable D : list (N * dview).
  Variable tb : grants.
  Variable q : rq5.

  Theorem gen_mediation : forall i e t c d p,
    nth_error (fst (gen_router R D tb q)) i = Some e -> (e = Body t c \/ e = Deco t c) ->
    assocN t D = Some d -> d_perm d = Some p ->
    exists j, j < i /\ nth_error (fst (gen_router R D tb q)) j = Some (Permits p c true).
  Proof. rewrite gen_router_is_model. apply mediation. Qed.

  Theorem gen_refusal_blocks : forall j p c,
    nth_error (fst (gen_router R D tb q)) j = Some (Permits p c false) ->
    nth_error (fst (gen_router R D tb q)) (S j) = Some (Raised EForbidden) \/
    (S j = length (fst (gen_router R D tb q)) /\ snd (gen_router R D tb q) = Propagated EForbidden /\
     exists k e, k < j /\ nth_error (fst (gen_router R D tb q)) k = Some (Raised e)).
  Proof. rewrite gen_router_is_model. apply refusal_blocks. Qed.

  Theorem gen_permits_on_behalf : forall p c b,
    In (Permits p c b) (fst (gen_router R D tb q)) ->
    exists t d, assocN t D = Some d /\ (d_perm d = Some p \/ exists bh, d_body d = Slash (Some p) bh).
  Proof. rewrite gen_router_is_model. apply permits_on_behalf. Qed.
End GenProps.

(* the permission table of the regenerated _secured_view *)
Theorem gen_effective_permission : forall st exception_only perm p,
  gen_secured_permission exception_only perm (rs_defperm st) (rs_policy st) = Some p <->
  rs_policy st = true /\ is_npr p = false /\
  (perm = Some p \/ (perm = None /\ exception_only = false /\ rs_defperm st = Some p)).
Proof. intros. rewrite gen_secured_permission_is_model. apply secured_permission_spec. Qed.

(* program level, one commit: mediation for the regenerated request path *)
Theorem gen_mediation_program : forall irq ier iw batch tb q i e rt c d,
  let s0 := init_state irq ier iw in
  let s := commit s0 batch in
  existsb policy_kept batch = true ->
  nth_error (fst (gen_router (cs_R s) (cs_D s) tb q)) i = Some e -> (e = Body rt c \/ e = Deco rt c) ->
  assocN rt (cs_D s) = Some d ->
  In (rt, d) (cs_D s0) \/
  exists st eo o b, In st batch /\ directive (cs_rs s0) st = Some (AView o b) /\ rt = rtag (o_tag o) eo /\
    forall p, match o_perm o with
              | Some p' => strip_npr (Some p')
              | None => if eo then None else strip_npr (rs_defperm (cs_rs s))
              end = Some p ->
              exists j, j < i /\ nth_error (fst (gen_router (cs_R s) (cs_D s) tb q)) j = Some (Permits p c true).
Proof.
  intros irq ier iw batch tb q i e rt c d s0 s. rewrite gen_router_is_model.
  exact (mediation_program irq ier iw batch tb q i e rt c d).
Qed.

(* ---------------------------------------------------------------- MultiView.__call__ (translated: gen_mv_call) *)
Section GenMultiView.
  Variable D : list (N * dview).
  Variable tb : grants.
  Variable q : rq5.
  Variable lookup : text -> ctx -> trace * res.
  Variable c : ctx.

  (* the loop `for order, view, phash in self.get_views(request): try: return view(context, request) except
     PredicateMismatch: continue` followed by `raise PredicateMismatch` is the model's mv_call5, for every list of entries *)
  Theorem gen_mv_call_is_model l :
    gen_mv_call (fun cmp => call_component5 D tb q lookup cmp c) l = mv_call5 D tb q lookup l c.
  Proof.
    unfold gen_mv_call. induction l as [|e r IH]; [reflexivity|].
    cbn [mv_call5]. rewrite <- IH. clear IH.
    change (call_reg D tb q lookup (e_view e) c) with (call_component5 D tb q lookup (entry_view e) c).
    lazy beta iota.
    destruct (call_component5 D tb q lookup (entry_view e) c) as [tr o]. unfold m_try.
    destruct o as [t|x| |]; try reflexivity.
    destruct x; cbn [exc_isa]; unfold m_raise; rewrite ?app_nil_r; reflexivity.
  Qed.

  (* the component call of the request path, with the MultiView case running the regenerated loop *)
  Theorem gen_mv_component_is_model m :
    gen_mv_call (fun cmp => call_component5 D tb q lookup cmp c) (get_views m (q_base q))
    = call_component5 D tb q lookup (CMulti m) c.
  Proof. apply gen_mv_call_is_model. Qed.
End GenMultiView.
