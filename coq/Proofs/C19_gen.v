(* C19 -- the program REGENERATED from src/pyramid/httpexceptions.py on this run
   (Gen/Facts_C19.v: gen_init, gen_move_init, gen_prepare, gen_call) equals the hand-written
   reference model (Model/C19.v: prepare spec_policy, calls), for all inputs.

   The proof scripts never mention the text of the generated terms: they split on the ATOMS
   the primitive table can produce (negotiated type tests, truth of the comment, the custom
   flag, startswith / membership tests of an environ key), take loops apart by pattern
   ([?F l a]) with one induction per loop, and close straight-line code with a congruence
   rule for [rbind] whose premises are convertibility checks.  Hence they are insensitive to
   the names of the source's locals, to elif vs nested if, to and-splitting, to the order of
   independent statements; they fail as soon as some valuation of the atoms leads the
   regenerated program to another result than the reference model. *)
From Coq Require Import List NArith ZArith Bool Lia.
Import ListNotations.
Require Import Verif.Lib.Wire Verif.Lib.Utf8 Verif.Model.C19_base Verif.Gen.Facts_C19 Verif.Model.C19 Verif.Proofs.C19.
Open Scope N_scope.

(* ------------------------------------------------------------------ the reference object *)
Definition ref_obj (c : cls) (i : input) : obj :=
  mkObj (c_code c) (c_title c) (expl_of c i) (tmpl_of c i) (is_custom c i) (c_empty c) (status_of c)
        (i_detail i) (i_comment i) (headers_of c i)
        (if c_empty c then [] else t_html) (if c_empty c then [] else cs_utf8) [].

Ltac split_ifs :=
  repeat match goal with
         | |- context [if ?b then _ else _] => destruct b eqn:?
         | |- context [match ?x with Some _ => _ | None => _ end] => destruct x eqn:?
         end.

Theorem gen_obj_is_model c i : gen_obj c i = ref_obj c i.
Proof.
  unfold gen_obj, ref_obj, gen_move_init, gen_init, set_expl, expl_of, tmpl_of, is_custom, headers_of, status_of, obj_class.
  destruct c as [n code title expl tmpl dflt empty move]; destruct i as [cl d cm ex loc hs en tm ofs].
  cbn [c_name c_code c_title c_expl c_tmpl c_default_tmpl c_empty c_move i_cls i_detail i_comment i_expl i_location
       i_headers i_environ i_tmpl i_offers ob_code ob_title ob_expl ob_tmpl ob_tmpl_custom ob_empty ob_status ob_detail
       ob_comment ob_headers ob_ctype ob_charset ob_body].
  destruct move, empty, dflt, ex, tm, hs; reflexivity.
Qed.

(* ------------------------------------------------------------------ prepare *)
Definition set_resp (o : obj) (ct cs body : text) : obj :=
  mkObj (ob_code o) (ob_title o) (ob_expl o) (ob_tmpl o) (ob_tmpl_custom o) (ob_empty o) (ob_status o)
        (ob_detail o) (ob_comment o) (ob_headers o) ct cs body.

(* the reference: prepare of Model/C19.v under the specification policy, on the object *)
Definition ref_prepare (c : cls) (i : input) (o : obj) : res obj :=
  if c_empty c then Ok o
  else match pick_branch (chosen_type i) (p_branches spec_policy) with
       | Some b => rbind (page_text spec_policy b c i) (fun page =>
                     rmap (fun bytes => set_resp o (b_ctype b) (if b_charset_none b then [] else cs_utf8) bytes)
                          (utf8_bytes page))
       | None => Ok o
       end.

Lemma rbind_cong {A B} (r r' : res A) (f f' : A -> res B) :
  r = r' -> (forall x, f x = f' x) -> rbind r f = rbind r' f'.
Proof. intros -> H. destruct r'; simpl; auto. Qed.
Lemma rbind_assoc {A B C} (r : res A) (f : A -> res B) (g : B -> res C) :
  rbind (rbind r f) g = rbind r (fun x => rbind (f x) g).
Proof. destruct r; reflexivity. Qed.
Lemma rmap_rbind {A B} (h : A -> B) (r : res A) : rmap h r = rbind r (fun x => Ok (h x)).
Proof. destruct r; reflexivity. Qed.
Lemma hd_snoc {A} (d d' : A) l x : hd d (l ++ [x]) = hd d' (l ++ [x]).
Proof. destruct l; reflexivity. Qed.

(* straight-line tail: both sides are nests of [rbind] over convertible primitives *)
Ltac tail := repeat (rewrite ?rbind_assoc, ?rmap_rbind; apply rbind_cong; [reflexivity|intros ?]); reflexivity.

(* the object fields of [ref_obj] (and of an object that differs in content type only) *)
Definition fresh_like (c : cls) (i : input) (o : obj) : Prop :=
  exists ct, o = set_resp (ref_obj c i) ct (if c_empty c then [] else cs_utf8) [].

Ltac env_atoms k :=
  repeat match goal with
         | |- context [startswith ?p k] => destruct (startswith p k) eqn:?
         | |- context [memN ?x k] => destruct (memN x k) eqn:?
         end.

Theorem gen_prepare_is_model neg c i o :
  fresh_like c i o ->
  i_offers i = neg (env_get accept_key accept_default (i_environ i)) offers ->
  gen_prepare neg o (i_environ i) = ref_prepare c i o.
Proof.
  intros [ct ->] Hoff. unfold gen_prepare, ref_prepare, chosen_type. rewrite Hoff.
  unfold set_resp, ref_obj.
  cbn [ob_code ob_title ob_expl ob_tmpl ob_tmpl_custom ob_empty ob_status ob_detail ob_comment ob_headers ob_ctype ob_charset ob_body negb is_nil].
  rewrite (hd_snoc fallback_type (@nil N)).
  unfold offers, fallback_type, accept_key, accept_default, t_html, t_json, t_plain.
  destruct (c_empty c) eqn:Hem; [reflexivity|].
  cbn [pick_branch p_branches spec_policy b_test].
  unfold t_html, t_json, t_plain.
  (* the negotiated type *)
  unfold text in *.
  match goal with |- context [hd ?d (?l ++ [?x])] => set (m := hd d (l ++ [x])); clearbody m end.
  repeat match goal with
         | |- context [text_eqb m ?t] => destruct (text_eqb m t) eqn:?
         end.
  all: try match goal with
      | H1 : text_eqb ?m ?a = true, H2 : text_eqb ?m ?b = true |- _ =>
          exfalso; apply text_eqb_eq in H1; apply text_eqb_eq in H2; rewrite H1 in H2; discriminate H2
      end.
  all: cbv beta iota.
  (* in each form: truth of the comment, custom template or not *)
  all: rewrite page_text_unfold, build_args_spec; unfold base_args, html_comment_of, truthy, page_of;
       cbn [b_esc b_br b_cpre b_csuf b_comment_escaped maybe_esc esc_apply b_page b_ctype b_charset_none];
       destruct (or_empty (i_comment i)) eqn:Ecm; cbn [negb is_nil]; rewrite ?app_nil_l, ?app_nil_r;
       destruct (is_custom c i) eqn:Hcu.
  all: try solve [tail].
  (* custom template: the environ loop, then the headers loop *)
  all: rewrite rbind_assoc;
    match goal with
    | |- ?F1 ?E ?A0 = rbind (substitute ?T (fold_left ?hs ?H (fold_left ?es ?E ?B))) ?G =>
        enough (L1 : forall l a, F1 l a = rbind (substitute T (fold_left hs H (fold_left es l a))) G)
          by (exact (L1 E B))
    end;
    (induction l as [|[k v] l IH]; intros a);
    [ cbn [fold_left];
      match goal with
      | |- ?F2 ?H ?a0 = rbind (substitute ?T (fold_left ?hs ?H ?a0)) ?G =>
          enough (L2 : forall l2 a2, F2 l2 a2 = rbind (substitute T (fold_left hs l2 a2)) G) by (exact (L2 H a0))
      end;
      (induction l2 as [|[k2 v2] l2 IH2]; intros a2); [cbn [fold_left]; tail | cbn [fold_left]; apply IH2]
    | cbn [fold_left]; unfold env_step, env_skipped, env_skip_prefix, env_skip_char; cbn [fst snd];
      env_atoms k; cbn [negb andb]; apply IH ].
Qed.

(* an object that already carries a body is left alone (and empty_body classes never render) *)
Theorem gen_prepare_stored neg o env : ob_body o <> [] -> gen_prepare neg o env = Ok o.
Proof.
  intros H. unfold gen_prepare. destruct (ob_body o) as [|x r] eqn:E; [congruence|].
  cbn [negb is_nil]. reflexivity.
Qed.

Theorem gen_call_is_prepare neg o env :
  gen_call neg o env = rbind (gen_prepare neg o env) (fun o' => Ok (respond o', o')).
Proof. reflexivity. Qed.

(* the reference on the object agrees with prepare of Model/C19.v *)
Lemma ref_prepare_respond c i :
  find_cls (i_cls i) classes = Some c ->
  Some (rmap respond (ref_prepare c i (ref_obj c i))) = prepare spec_policy i.
Proof.
  intros Hf. unfold ref_prepare, prepare. rewrite Hf.
  destruct (c_empty c) eqn:He; [unfold ref_obj, respond; rewrite He; reflexivity|].
  destruct (pick_branch (chosen_type i) (p_branches spec_policy)) as [b|] eqn:Hb.
  - f_equal. destruct (page_text spec_policy b c i); simpl; try reflexivity.
    destruct (utf8_bytes a); reflexivity.
  - unfold chosen_type in Hb. simpl in Hb.
    repeat match type of Hb with (if ?x then _ else _) = _ => destruct x end; discriminate.
Qed.

Lemma fresh_ref c i : fresh_like c i (ref_obj c i).
Proof.
  exists (if c_empty c then [] else t_html). unfold set_resp, ref_obj. reflexivity.
Qed.

(* ---- the regenerated program, run on one call, is the specification *)
Theorem generated_is_spec i :
  model i = spec i.
Proof.
  unfold model, spec. destruct (find_cls (i_cls i) classes) as [c|] eqn:Hf.
  - rewrite gen_obj_is_model, gen_call_is_prepare.
    rewrite (gen_prepare_is_model (fun _ _ => i_offers i) c i (ref_obj c i) (fresh_ref c i) eq_refl).
    rewrite <- (ref_prepare_respond c i Hf).
    f_equal. destruct (ref_prepare c i (ref_obj c i)); reflexivity.
  - unfold prepare. rewrite Hf. reflexivity.
Qed.

(* ------------------------------------------------------------------ histories: one object, several calls *)
Definition is_tchar (t : tok) : bool := match t with TChar _ => true | _ => false end.

Lemma render_nonempty ts e out : render ts e = Ok out -> existsb is_tchar ts = true -> out <> [].
Proof.
  revert out; induction ts as [|t r IH]; intros out H Hex; [discriminate|].
  destruct t as [ch| |n|]; simpl in *.
  - apply rmap_ok in H as [a [_ ->]]. discriminate.
  - apply rmap_ok in H as [a [_ ->]]. discriminate.
  - destruct (lookup n e) as [v|]; [|discriminate]. apply rmap_ok in H as [a [Ha ->]].
    intros E. apply app_eq_nil in E as [_ E]. exact (IH a Ha Hex E).
  - discriminate.
Qed.

Lemma page_templates_have_text :
  existsb is_tchar (tokenise html_template) = true /\ existsb is_tchar (tokenise plain_template) = true.
Proof. split; vm_compute; reflexivity. Qed.

Lemma utf8_nonempty page bytes : utf8_bytes page = Ok bytes -> page <> [] -> bytes <> [].
Proof.
  unfold utf8_bytes. destruct (forallb valid_scalar page); [|discriminate]. intros H Hp. injection H as <-.
  destruct page as [|x r]; [congruence|]. unfold Utf8.encode. cbn [flat_map]. unfold encode1.
  destruct (x <? 128); [discriminate|]. destruct (x <? 2048); [discriminate|]. destruct (x <? 65536); discriminate.
Qed.

Lemma page_nonempty b c i page :
  pick_branch (chosen_type i) (p_branches spec_policy) = Some b ->
  page_text spec_policy b c i = Ok page -> page <> [].
Proof.
  intros Hb Hp. rewrite page_text_unfold in Hp. apply rbind_ok in Hp as [body [_ Hp]].
  assert (Hin : b = bh \/ b = bj \/ b = bp).
  { unfold chosen_type in Hb. cbn [pick_branch p_branches spec_policy b_test] in Hb.
    repeat match type of Hb with (if ?x then _ else _) = _ => destruct x end; injection Hb as <-; auto. }
  destruct page_templates_have_text as [Hh Hpl].
  destruct Hin as [ -> | [ -> | -> ] ]; unfold page_of in Hp; cbn [b_page bh bj bp] in Hp.
  - exact (render_nonempty _ _ _ Hp Hh).
  - injection Hp as <-. discriminate.
  - exact (render_nonempty _ _ _ Hp Hpl).
Qed.

Lemma ref_obj_call c i s : ref_obj c (with_call i s) = ref_obj c i.
Proof. reflexivity. Qed.

(* what a rendering call does to the fresh object *)
Lemma ref_prepare_ok c i o' :
  ref_prepare c i (ref_obj c i) = Ok o' ->
  (c_empty c = true /\ o' = ref_obj c i) \/ (c_empty c = false /\ ob_body o' <> []).
Proof.
  unfold ref_prepare. destruct (c_empty c) eqn:He.
  - intros H; injection H as <-. left; auto.
  - destruct (pick_branch (chosen_type i) (p_branches spec_policy)) as [b|] eqn:Hb.
    + intros H. apply rbind_ok in H as [page [Hp H]]. apply rmap_ok in H as [bytes [Hu ->]].
      right. split; [reflexivity|]. cbn [set_resp ob_body].
      exact (utf8_nonempty _ _ Hu (page_nonempty b c i page Hb Hp)).
    + unfold chosen_type in Hb. cbn [pick_branch p_branches spec_policy b_test] in Hb.
      repeat match type of Hb with (if ?x then _ else _) = _ => destruct x end; discriminate.
Qed.

Definition hist_inv (c : cls) (i : input) (o : obj) (done : option output) : Prop :=
  (done = None /\ o = ref_obj c i) \/ (exists out, done = Some out /\ ob_body o <> [] /\ respond o = out).

Lemma gen_calls_ref c i : find_cls (i_cls i) classes = Some c ->
  forall l o done, hist_inv c i o done ->
  map Some (gen_calls o l) = calls spec_policy i done l.
Proof.
  intros Hf. induction l as [|s r IH]; intros o done Hinv; [reflexivity|].
  cbn [gen_calls calls map].
  destruct Hinv as [ [-> ->] | [out [-> [Hb <-] ] ] ].
  - (* no body yet: this call renders *)
    assert (Hf' : find_cls (i_cls (with_call i s)) classes = Some c) by exact Hf.
    pose proof (ref_prepare_respond c (with_call i s) Hf') as Hr. rewrite ref_obj_call in Hr.
    rewrite gen_call_is_prepare.
    pose proof (gen_prepare_is_model (fun _ _ => snd s) c (with_call i s) (ref_obj c i)
                  (fresh_ref c (with_call i s)) eq_refl) as Hg.
    change (i_environ (with_call i s)) with (fst s) in Hg. rewrite Hg. clear Hg.
    cbv zeta. rewrite <- Hr.
    destruct (ref_prepare c (with_call i s) (ref_obj c i)) as [o'| | |] eqn:E;
      cbn [rbind rmap map]; try (f_equal; apply IH; left; split; reflexivity).
    f_equal. apply IH.
    pose proof (ref_prepare_ok c (with_call i s)) as Hok. rewrite ref_obj_call in Hok.
    destruct (Hok o' E) as [ [He ->] | [He Hne] ].
    + left. split; [|reflexivity]. unfold stored, respond, ref_obj. cbn [o_body ob_body is_nil]. reflexivity.
    + right. exists (respond o'). split; [|split; [exact Hne|reflexivity]].
      unfold stored. cbn [respond o_body]. destruct (ob_body o'); [congruence|reflexivity].
  - (* a body is stored: every call repeats it *)
    rewrite gen_call_is_prepare, (gen_prepare_stored _ o (fst s) Hb). cbn [rbind map].
    f_equal. apply IH. right. exists (respond o). auto.
Qed.

(* ---- the regenerated program, threaded through any sequence of calls, is the reference history *)
Theorem generated_history_is_model i l : model_calls i l = ref_calls i l.
Proof.
  unfold model_calls, ref_calls. destruct (find_cls (i_cls i) classes) as [c|] eqn:Hf.
  - rewrite gen_obj_is_model. apply (gen_calls_ref c i Hf). left; auto.
  - induction l as [|s r IH]; [reflexivity|]. cbn [map calls].
    assert (E : prepare spec_policy (with_call i s) = None).
    { unfold prepare. change (i_cls (with_call i s)) with (i_cls i). rewrite Hf. reflexivity. }
    cbv zeta. rewrite E. cbn [stored]. f_equal. exact IH.
Qed.

(* the history theorems of Proofs/C19.v, about the regenerated program *)
Corollary history_consistent_generated i l k o :
  nth_error (model_calls i l) k = Some (Some (Ok o)) ->
  exists j s, (j <= k)%nat /\ nth_error l j = Some s /\ model (with_call i s) = Some (Ok o).
Proof.
  rewrite generated_history_is_model. intros H.
  destruct (history_consistent i l k o H) as (j & s & Hj & Hn & Hs).
  exists j, s. rewrite generated_is_spec. auto.
Qed.

Corollary history_check_generated i l : history_ok (model_calls i l) (spec_singles i l) = true.
Proof. rewrite generated_history_is_model. apply history_consistent_b. Qed.
