(* C19 -- the program REGENERATED from src/pyramid/httpexceptions.py on this run
   (Gen/Facts_C19.v: gen_init, gen_move_init, gen_prepare, gen_call) equals the hand-written
   reference model (Model/C19.v: prepare spec_policy, calls), for all inputs.

   The proof scripts never mention the text of the generated terms: they split on the ATOMS
   the primitive table can produce (negotiated type tests, truth of the comment, the custom
   flag, startswith / membership tests of an environ key), take loops apart by pattern
   ([?F l a]) with one induction per loop, and close straight-line code with a congruence
   rule for [rbind] whose premises are convertibility checks.  Hence they are insensitive to
   the names of the source's locals, to elif vs nested if, to and-splitting, to the order of
   independent statements; they fail as soon as some valuation of the atoms leads the
   regenerated program to another result than the reference model. *)
From Coq Require Import List NArith ZArith Bool Lia.
Import ListNotations.
Require Import Verif.Lib.Wire Verif.Lib.Utf8 Verif.Model.C19_base Verif.Gen.Facts_C19 Verif.Model.C19 Verif.Proofs.C19.
Open Scope N_scope.

(* ------------------------------------------------------------------ the reference object *)
Definition ref_obj_x (c : cls) (x : xinput) : obj :=
  let i := x_in x in
  mkObj (c_code c) (c_title c) (expl_of c i) (tmpl_of c i) (is_custom c i) (c_empty c) (status_of c)
        (i_detail i) (i_comment i) (headers_of c i)
        (if c_empty c then [] else kw_ctype (kw_of x)) (if c_empty c then [] else kw_charset (kw_of x)) [] (x_fmt x).
Definition ref_obj (c : cls) (i : input) : obj := ref_obj_x c (core i).

(* without keywords the constructor leaves WebOb's default: text/html; charset=UTF-8 *)
Lemma ref_obj_core c i :
  ref_obj c i = mkObj (c_code c) (c_title c) (expl_of c i) (tmpl_of c i) (is_custom c i) (c_empty c) (status_of c)
                      (i_detail i) (i_comment i) (headers_of c i)
                      (if c_empty c then [] else t_html) (if c_empty c then [] else cs_utf8) [] None.
Proof. reflexivity. Qed.

Ltac split_ifs :=
  repeat match goal with
         | |- context [if ?b then _ else _] => destruct b eqn:?
         | |- context [match ?x with Some _ => _ | None => _ end] => destruct x eqn:?
         end.

Theorem gen_obj_is_model_x c x : gen_obj_x c x = ref_obj_x c x.
Proof.
  unfold gen_obj_x, ref_obj_x, gen_move_init, gen_forbidden_init, gen_init, set_expl, expl_of, tmpl_of, is_custom, headers_of, status_of, obj_class, kw_of.
  destruct c as [n code title expl tmpl dflt empty move]; destruct x as [[cl d cm ex loc hs en tm ofs] f ck cs].
  cbn [c_name c_code c_title c_expl c_tmpl c_default_tmpl c_empty c_move i_cls i_detail i_comment i_expl i_location
       i_headers i_environ i_tmpl i_offers ob_code ob_title ob_expl ob_tmpl ob_tmpl_custom ob_empty ob_status ob_detail
       ob_comment ob_headers ob_ctype ob_charset ob_body ob_formatter x_in x_fmt x_ctype_kw x_charset_kw].
  destruct (mem_text n forbidden_init_classes), move, empty, dflt, ex, tm, hs, f, ck, cs; reflexivity.
Qed.
Theorem gen_obj_is_model c i : gen_obj c i = ref_obj c i.
Proof. apply gen_obj_is_model_x. Qed.

(* ------------------------------------------------------------------ prepare *)
Definition set_resp (o : obj) (ct cs body : text) : obj :=
  mkObj (ob_code o) (ob_title o) (ob_expl o) (ob_tmpl o) (ob_tmpl_custom o) (ob_empty o) (ob_status o)
        (ob_detail o) (ob_comment o) (ob_headers o) ct cs body (ob_formatter o).

(* the reference: prepare of Model/C19.v under the specification policy, on the object *)
Definition ref_prepare_x (c : cls) (x : xinput) (o : obj) : res obj :=
  if c_empty c then Ok o
  else match pick_branch (chosen_type (x_in x)) (p_branches spec_policy) with
       | Some b => rbind (page_text_x spec_policy b c x) (fun page =>
                     rmap (fun bytes => set_resp o (b_ctype b) (if b_charset_none b then [] else cs_utf8) bytes)
                          (utf8_bytes page))
       | None => Ok o
       end.
Definition ref_prepare (c : cls) (i : input) (o : obj) : res obj :=
  if c_empty c then Ok o
  else match pick_branch (chosen_type i) (p_branches spec_policy) with
       | Some b => rbind (page_text spec_policy b c i) (fun page =>
                     rmap (fun bytes => set_resp o (b_ctype b) (if b_charset_none b then [] else cs_utf8) bytes)
                          (utf8_bytes page))
       | None => Ok o
       end.

Lemma page_text_x_unfold P b c x :
  page_text_x P b c x =
  rbind (substitute (tmpl_of c (x_in x)) (build_args P b c (x_in x) (is_custom c (x_in x))))
        (page_of_x (x_fmt x) (i_environ (x_in x)) b c).
Proof. reflexivity. Qed.

(* no formatter: the core model *)
Lemma page_text_x_core P b c i ck cs : page_text_x P b c (mkX i None ck cs) = page_text P b c i.
Proof. reflexivity. Qed.
Lemma ref_prepare_x_core c i ck cs o : ref_prepare_x c (mkX i None ck cs) o = ref_prepare c i o.
Proof. reflexivity. Qed.
Lemma prepare_x_core P i ck cs : prepare_x P (mkX i None ck cs) = prepare P i.
Proof. reflexivity. Qed.

Lemma rbind_cong {A B} (r r' : res A) (f f' : A -> res B) :
  r = r' -> (forall x, f x = f' x) -> rbind r f = rbind r' f'.
Proof. intros -> H. destruct r'; simpl; auto. Qed.
Lemma rbind_assoc {A B C} (r : res A) (f : A -> res B) (g : B -> res C) :
  rbind (rbind r f) g = rbind r (fun x => rbind (f x) g).
Proof. destruct r; reflexivity. Qed.
Lemma rmap_rbind {A B} (h : A -> B) (r : res A) : rmap h r = rbind r (fun x => Ok (h x)).
Proof. destruct r; reflexivity. Qed.
Lemma hd_snoc {A} (d d' : A) l x : hd d (l ++ [x]) = hd d' (l ++ [x]).
Proof. destruct l; reflexivity. Qed.

(* straight-line tail: both sides are nests of [rbind] over convertible primitives *)
Ltac tail := repeat (rewrite ?rbind_assoc, ?rmap_rbind; apply rbind_cong; [reflexivity|intros ?]); reflexivity.

(* the object fields of [ref_obj] (and of an object that differs in content type only) *)
Definition fresh_like_x (c : cls) (x : xinput) (o : obj) : Prop :=
  exists ct cs, o = set_resp (ref_obj_x c x) ct cs [].
Definition fresh_like (c : cls) (i : input) (o : obj) : Prop := fresh_like_x c (core i) o.

Ltac env_atoms k :=
  repeat match goal with
         | |- context [startswith ?p k] => destruct (startswith p k) eqn:?
         | |- context [memN ?x k] => destruct (memN x k) eqn:?
         end.

Theorem gen_prepare_is_model_x neg c x o :
  fresh_like_x c x o ->
  i_offers (x_in x) = neg (env_get accept_key accept_default (i_environ (x_in x))) offers ->
  gen_prepare neg o (i_environ (x_in x)) = ref_prepare_x c x o.
Proof.
  intros [ct [cs0 ->]] Hoff. unfold gen_prepare, ref_prepare_x, chosen_type. rewrite Hoff.
  unfold set_resp, ref_obj_x. destruct x as [i fm ck cs1]. cbn [x_in x_fmt] in *.
  cbn [ob_code ob_title ob_expl ob_tmpl ob_tmpl_custom ob_empty ob_status ob_detail ob_comment ob_headers ob_ctype ob_charset ob_body ob_formatter negb is_nil].
  rewrite (hd_snoc fallback_type (@nil N)).
  unfold offers, fallback_type, accept_key, accept_default, t_html, t_json, t_plain.
  destruct (c_empty c) eqn:Hem; [reflexivity|].
  cbn [pick_branch p_branches spec_policy b_test].
  unfold t_html, t_json, t_plain.
  (* the negotiated type *)
  unfold text in *.
  match goal with |- context [hd ?d (?l ++ [?x])] => set (m := hd d (l ++ [x])); clearbody m end.
  repeat match goal with
         | |- context [text_eqb m ?t] => destruct (text_eqb m t) eqn:?
         end.
  all: try match goal with
      | H1 : text_eqb ?m ?a = true, H2 : text_eqb ?m ?b = true |- _ =>
          exfalso; apply text_eqb_eq in H1; apply text_eqb_eq in H2; rewrite H1 in H2; discriminate H2
      end.
  all: cbv beta iota.
  (* in each form: truth of the comment, custom template or not *)
  all: rewrite page_text_x_unfold, build_args_spec; cbn [x_in x_fmt]; destruct fm as [fm|];
       unfold base_args, html_comment_of, truthy, page_of_x, page_of;
       cbn [b_esc b_br b_cpre b_csuf b_comment_escaped maybe_esc esc_apply b_page b_ctype b_charset_none];
       destruct (or_empty (i_comment i)) eqn:Ecm; cbn [negb is_nil]; rewrite ?app_nil_l, ?app_nil_r;
       destruct (is_custom c i) eqn:Hcu.
  all: try solve [tail].
  (* custom template: the environ loop, then the headers loop *)
  all: rewrite rbind_assoc;
    match goal with
    | |- ?F1 ?E ?A0 = rbind (substitute ?T (fold_left ?hs ?H (fold_left ?es ?E ?B))) ?G =>
        enough (L1 : forall l a, F1 l a = rbind (substitute T (fold_left hs H (fold_left es l a))) G)
          by (exact (L1 E B))
    end;
    (induction l as [|[k v] l IH]; intros a);
    [ cbn [fold_left];
      match goal with
      | |- ?F2 ?H ?a0 = rbind (substitute ?T (fold_left ?hs ?H ?a0)) ?G =>
          enough (L2 : forall l2 a2, F2 l2 a2 = rbind (substitute T (fold_left hs l2 a2)) G) by (exact (L2 H a0))
      end;
      (induction l2 as [|[k2 v2] l2 IH2]; intros a2); [cbn [fold_left]; tail | cbn [fold_left]; apply IH2]
    | cbn [fold_left]; unfold env_step, env_skipped, env_skip_prefix, env_skip_char; cbn [fst snd];
      env_atoms k; cbn [negb andb]; apply IH ].
Qed.

(* an object that already carries a body is left alone (and empty_body classes never render) *)
Theorem gen_prepare_is_model neg c i o :
  fresh_like c i o ->
  i_offers i = neg (env_get accept_key accept_default (i_environ i)) offers ->
  gen_prepare neg o (i_environ i) = ref_prepare c i o.
Proof. intros H Hoff. exact (gen_prepare_is_model_x neg c (core i) o H Hoff). Qed.

Theorem gen_prepare_stored neg o env : ob_body o <> [] -> gen_prepare neg o env = Ok o.
Proof.
  intros H. unfold gen_prepare. destruct (ob_body o) as [|x r] eqn:E; [congruence|].
  cbn [negb is_nil]. reflexivity.
Qed.

Theorem gen_call_is_prepare neg o env :
  gen_call neg o env = rbind (gen_prepare neg o env) (fun o' => Ok (respond o', o')).
Proof. reflexivity. Qed.

(* the reference on the object agrees with prepare_x of Model/C19.v *)
Lemma ref_prepare_respond_x c x :
  find_cls (i_cls (x_in x)) classes = Some c ->
  Some (rmap respond (ref_prepare_x c x (ref_obj_x c x))) = prepare_x spec_policy x.
Proof.
  intros Hf. unfold ref_prepare_x, prepare_x. cbv zeta. rewrite Hf.
  destruct (c_empty c) eqn:He; [unfold ref_obj_x, respond; cbv zeta; rewrite He; reflexivity|].
  destruct (pick_branch (chosen_type (x_in x)) (p_branches spec_policy)) as [b|] eqn:Hb.
  - f_equal. destruct (page_text_x spec_policy b c x); simpl; try reflexivity.
    destruct (utf8_bytes a); reflexivity.
  - unfold chosen_type in Hb. simpl in Hb.
    repeat match type of Hb with (if ?x then _ else _) = _ => destruct x end; discriminate.
Qed.

Lemma fresh_ref_x c x : fresh_like_x c x (ref_obj_x c x).
Proof.
  exists (if c_empty c then [] else kw_ctype (kw_of x)), (if c_empty c then [] else kw_charset (kw_of x)).
  unfold set_resp, ref_obj_x. reflexivity.
Qed.
Lemma fresh_ref c i : fresh_like c i (ref_obj c i).
Proof. apply fresh_ref_x. Qed.

(* ---- the regenerated program, run on one call, is the specification (with json_formatter=,
   content_type=, charset= keywords) *)
Theorem generated_is_spec_x x : model_x x = spec_x x.
Proof.
  unfold model_x, spec_x. destruct (find_cls (i_cls (x_in x)) classes) as [c|] eqn:Hf.
  - rewrite gen_obj_is_model_x, gen_call_is_prepare.
    rewrite (gen_prepare_is_model_x (fun _ _ => i_offers (x_in x)) c x (ref_obj_x c x) (fresh_ref_x c x) eq_refl).
    rewrite <- (ref_prepare_respond_x c x Hf).
    f_equal. destruct (ref_prepare_x c x (ref_obj_x c x)); reflexivity.
  - unfold prepare_x. cbv zeta. rewrite Hf. reflexivity.
Qed.
Theorem generated_is_spec i : model i = spec i.
Proof. unfold model. rewrite generated_is_spec_x. reflexivity. Qed.

(* ---- the keywords content_type= / charset= never show in the response; without a formatter,
   and whenever the negotiated form is not JSON, the response is the core specification *)
Theorem kw_irrelevant i f ck cs : spec_x (mkX i f ck cs) = spec_x (mkX i f None None).
Proof. reflexivity. Qed.
Theorem no_formatter_core i ck cs : spec_x (mkX i None ck cs) = spec i.
Proof. reflexivity. Qed.
Theorem formatter_only_json x : chosen_type (x_in x) <> t_json -> spec_x x = spec (x_in x).
Proof.
  intros Hn. unfold spec_x, spec, prepare_x, prepare. cbv zeta.
  destruct (find_cls (i_cls (x_in x)) classes) as [c|]; [|reflexivity].
  destruct (c_empty c); [reflexivity|].
  destruct (pick_branch (chosen_type (x_in x)) (p_branches spec_policy)) as [b|] eqn:Hb; [|reflexivity].
  assert (Hin : b = bh \/ b = bp).
  { cbn [pick_branch p_branches spec_policy b_test] in Hb.
    destruct (text_eqb (chosen_type (x_in x)) t_html); [injection Hb as <-; left; reflexivity|].
    destruct (text_eqb (chosen_type (x_in x)) t_json) eqn:E2; [apply text_eqb_eq in E2; contradiction|].
    injection Hb as <-; right; reflexivity. }
  f_equal. rewrite page_text_x_unfold, page_text_unfold. unfold page_of_x.
  destruct (x_fmt x); destruct Hin as [-> | ->]; reflexivity.
Qed.

(* ---- a custom formatter in the JSON form: the body handed to the formatter is the single-pass
   rendering of the body template (the same text the default formatter puts into "message"); the
   response is labelled application/json and its body is json.dumps of the formatter's members,
   ASCII, and reads back (reference RFC 8259 reader) to exactly those members; a formatter that
   raises yields no response at all *)
Definition bjx := bj.
Lemma json_object_ascii kvs : ascii (json_object kvs).
Proof.
  unfold json_object. apply ascii_app; [repeat constructor; lia|]. apply ascii_app; [|repeat constructor; lia].
  induction kvs as [|kv r IH]; [constructor|].
  destruct r as [|kv2 r']; [apply json_member_ascii|].
  rewrite json_members_cons2. apply ascii_app; [apply json_member_ascii|].
  apply ascii_app; [repeat constructor; lia|exact IH].
Qed.

Theorem formatter_json x c f :
  find_cls (i_cls (x_in x)) classes = Some c -> c_empty c = false -> chosen_type (x_in x) = t_json ->
  x_fmt x = Some f ->
  spec_x x =
  Some (rbind (substitute (tmpl_of c (x_in x)) (build_args spec_policy bj c (x_in x) (is_custom c (x_in x)))) (fun body =>
        rbind (apply_fmt f (status_of c) body (c_title c) (i_environ (x_in x)) []) (fun members =>
        Ok (mkOutput (status_of c) t_json [] (json_object members))))).
Proof.
  intros Hf He Hc Hx. unfold spec_x, prepare_x. cbv zeta. rewrite Hf, He, Hc.
  change (pick_branch t_json (p_branches spec_policy)) with (Some bj). cbv iota beta.
  rewrite page_text_x_unfold, Hx. f_equal.
  destruct (substitute _ _) as [body| | |]; try reflexivity. cbn [rbind].
  unfold page_of_x. cbn [bj b_page b_ctype b_charset_none].
  destruct (apply_fmt f _ body _ _ []) as [m| | |]; try reflexivity. cbn [rmap rbind].
  pose proof (json_object_ascii m) as Ha.
  unfold utf8_bytes. rewrite (ascii_valid _ Ha), (encode_ascii _ Ha). reflexivity.
Qed.

Theorem formatter_json_valid x c f o :
  find_cls (i_cls (x_in x)) classes = Some c -> c_empty c = false -> chosen_type (x_in x) = t_json ->
  x_fmt x = Some f -> spec_x x = Some (Ok o) ->
  exists body members,
    substitute (tmpl_of c (x_in x)) (build_args spec_policy bj c (x_in x) (is_custom c (x_in x))) = Ok body /\
    apply_fmt f (status_of c) body (c_title c) (i_environ (x_in x)) [] = Ok members /\
    o_ctype o = t_json /\ o_body o = json_object members /\ ascii (o_body o) /\
    (members <> [] -> forallb kv_valid members = true -> json_read_object (o_body o) = Some members).
Proof.
  intros Hf He Hc Hx Ho. rewrite (formatter_json x c f Hf He Hc Hx) in Ho. injection Ho as Ho.
  apply rbind_ok in Ho as [body [Hb Ho]]. apply rbind_ok in Ho as [m [Hm Ho]]. injection Ho as <-.
  exists body, m. cbn [o_ctype o_body]. repeat split; try assumption.
  - apply json_object_ascii.
  - intros Hne Hv. apply json_object_roundtrip; assumption.
Qed.

Theorem formatter_error_no_response x c f body :
  find_cls (i_cls (x_in x)) classes = Some c -> c_empty c = false -> chosen_type (x_in x) = t_json ->
  x_fmt x = Some f ->
  substitute (tmpl_of c (x_in x)) (build_args spec_policy bj c (x_in x) (is_custom c (x_in x))) = Ok body ->
  apply_fmt f (status_of c) body (c_title c) (i_environ (x_in x)) [] = KeyErr ->
  spec_x x = Some KeyErr.
Proof.
  intros Hf He Hc Hx Hb Hm. rewrite (formatter_json x c f Hf He Hc Hx), Hb. cbn [rbind]. rewrite Hm. reflexivity.
Qed.

(* ------------------------------------------------------------------ histories: one object, several calls *)
Definition is_tchar (t : tok) : bool := match t with TChar _ => true | _ => false end.

Lemma render_nonempty ts e out : render ts e = Ok out -> existsb is_tchar ts = true -> out <> [].
Proof.
  revert out; induction ts as [|t r IH]; intros out H Hex; [discriminate|].
  destruct t as [ch| |n|]; simpl in *.
  - apply rmap_ok in H as [a [_ ->]]. discriminate.
  - apply rmap_ok in H as [a [_ ->]]. discriminate.
  - destruct (lookup n e) as [v|]; [|discriminate]. apply rmap_ok in H as [a [Ha ->]].
    intros E. apply app_eq_nil in E as [_ E]. exact (IH a Ha Hex E).
  - discriminate.
Qed.

Lemma page_templates_have_text :
  existsb is_tchar (tokenise html_template) = true /\ existsb is_tchar (tokenise plain_template) = true.
Proof. split; vm_compute; reflexivity. Qed.

Lemma utf8_nonempty page bytes : utf8_bytes page = Ok bytes -> page <> [] -> bytes <> [].
Proof.
  unfold utf8_bytes. destruct (forallb valid_scalar page); [|discriminate]. intros H Hp. injection H as <-.
  destruct page as [|x r]; [congruence|]. unfold Utf8.encode. cbn [flat_map]. unfold encode1.
  destruct (x <? 128); [discriminate|]. destruct (x <? 2048); [discriminate|]. destruct (x <? 65536); discriminate.
Qed.

Lemma page_nonempty_x b c x page :
  pick_branch (chosen_type (x_in x)) (p_branches spec_policy) = Some b ->
  page_text_x spec_policy b c x = Ok page -> page <> [].
Proof.
  intros Hb Hp. rewrite page_text_x_unfold in Hp. apply rbind_ok in Hp as [body [_ Hp]].
  assert (Hin : b = bh \/ b = bj \/ b = bp).
  { unfold chosen_type in Hb. cbn [pick_branch p_branches spec_policy b_test] in Hb.
    repeat match type of Hb with (if ?x then _ else _) = _ => destruct x end; injection Hb as <-; auto. }
  destruct page_templates_have_text as [Hh Hpl].
  unfold page_of_x in Hp.
  destruct Hin as [ -> | [ -> | -> ] ]; destruct (x_fmt x) as [f|]; unfold page_of in Hp; cbn [b_page bh bj bp] in Hp.
  - exact (render_nonempty _ _ _ Hp Hh).
  - exact (render_nonempty _ _ _ Hp Hh).
  - apply rmap_ok in Hp as [m [_ ->]]. discriminate.
  - injection Hp as <-. discriminate.
  - exact (render_nonempty _ _ _ Hp Hpl).
  - exact (render_nonempty _ _ _ Hp Hpl).
Qed.

Lemma ref_obj_call_x c x s : ref_obj_x c (with_call_x x s) = ref_obj_x c x.
Proof. reflexivity. Qed.

(* what a rendering call does to the fresh object *)
Lemma ref_prepare_ok_x c x o' :
  ref_prepare_x c x (ref_obj_x c x) = Ok o' ->
  (c_empty c = true /\ o' = ref_obj_x c x) \/ (c_empty c = false /\ ob_body o' <> []).
Proof.
  unfold ref_prepare_x. destruct (c_empty c) eqn:He.
  - intros H; injection H as <-. left; auto.
  - destruct (pick_branch (chosen_type (x_in x)) (p_branches spec_policy)) as [b|] eqn:Hb.
    + intros H. apply rbind_ok in H as [page [Hp H]]. apply rmap_ok in H as [bytes [Hu ->]].
      right. split; [reflexivity|]. cbn [set_resp ob_body].
      exact (utf8_nonempty _ _ Hu (page_nonempty_x b c x page Hb Hp)).
    + unfold chosen_type in Hb. cbn [pick_branch p_branches spec_policy b_test] in Hb.
      repeat match type of Hb with (if ?x then _ else _) = _ => destruct x end; discriminate.
Qed.

Definition hist_inv_x (c : cls) (x : xinput) (o : obj) (done : option output) : Prop :=
  (done = None /\ o = ref_obj_x c x) \/ (exists out, done = Some out /\ ob_body o <> [] /\ respond o = out).

Lemma gen_calls_ref_x c x : find_cls (i_cls (x_in x)) classes = Some c ->
  forall l o done, hist_inv_x c x o done ->
  map Some (gen_calls o l) = calls_g (fun s => prepare_x spec_policy (with_call_x x s)) done l.
Proof.
  intros Hf. induction l as [|s r IH]; intros o done Hinv; [reflexivity|].
  cbn [gen_calls calls_g map].
  destruct Hinv as [ [-> ->] | [out [-> [Hb <-] ] ] ].
  - (* no body yet: this call renders *)
    assert (Hf' : find_cls (i_cls (x_in (with_call_x x s))) classes = Some c) by exact Hf.
    pose proof (ref_prepare_respond_x c (with_call_x x s) Hf') as Hr. rewrite ref_obj_call_x in Hr.
    rewrite gen_call_is_prepare.
    pose proof (gen_prepare_is_model_x (fun _ _ => snd s) c (with_call_x x s) (ref_obj_x c x)
                  (fresh_ref_x c (with_call_x x s)) eq_refl) as Hg.
    change (i_environ (x_in (with_call_x x s))) with (fst s) in Hg. rewrite Hg. clear Hg.
    cbv zeta. rewrite <- Hr.
    destruct (ref_prepare_x c (with_call_x x s) (ref_obj_x c x)) as [o'| | |] eqn:E;
      cbn [rbind rmap map]; try (f_equal; apply IH; left; split; reflexivity).
    f_equal. apply IH.
    pose proof (ref_prepare_ok_x c (with_call_x x s)) as Hok. rewrite ref_obj_call_x in Hok.
    destruct (Hok o' E) as [ [He ->] | [He Hne] ].
    + left. split; [|reflexivity]. unfold stored, respond, ref_obj_x. cbn [o_body ob_body is_nil]. reflexivity.
    + right. exists (respond o'). split; [|split; [exact Hne|reflexivity]].
      unfold stored. cbn [respond o_body]. destruct (ob_body o'); [congruence|reflexivity].
  - (* a body is stored: every call repeats it *)
    rewrite gen_call_is_prepare, (gen_prepare_stored _ o (fst s) Hb). cbn [rbind map].
    f_equal. apply IH. right. exists (respond o). auto.
Qed.

(* ---- the regenerated program, threaded through any sequence of calls, is the reference history *)
Theorem generated_history_is_model_x x l : model_calls_x x l = ref_calls_x x l.
Proof.
  unfold model_calls_x, ref_calls_x. destruct (find_cls (i_cls (x_in x)) classes) as [c|] eqn:Hf.
  - rewrite gen_obj_is_model_x. apply (gen_calls_ref_x c x Hf). left; auto.
  - induction l as [|s r IH]; [reflexivity|]. cbn [map calls_g].
    assert (E : prepare_x spec_policy (with_call_x x s) = None).
    { unfold prepare_x. cbv zeta. change (i_cls (x_in (with_call_x x s))) with (i_cls (x_in x)). rewrite Hf. reflexivity. }
    cbv zeta. rewrite E. cbn [stored]. f_equal. exact IH.
Qed.

(* calls of Model/C19.v is calls_g at the core single-call function *)
Lemma calls_is_calls_g P i l : forall done,
  calls P i done l = calls_g (fun s => prepare P (with_call i s)) done l.
Proof. induction l as [|s r IH]; intros done; [reflexivity|]. cbn [calls calls_g]. destruct done; cbv zeta; rewrite IH; reflexivity. Qed.

Theorem generated_history_is_model i l : model_calls i l = ref_calls i l.
Proof.
  unfold model_calls. rewrite generated_history_is_model_x. unfold ref_calls_x, ref_calls.
  rewrite calls_is_calls_g. reflexivity.
Qed.

(* the history check, for any single-call function *)
Lemma history_ok_calls_g prep l : forall done seen,
  (forall o, done = Some o -> existsb (fun x => is_ok_out x o) seen = true) ->
  history_ok_from seen (calls_g prep done l) (map prep l) = true.
Proof.
  induction l as [|s r IH]; intros done seen Hinv; [reflexivity|].
  cbn [calls_g map]. destruct done as [o|].
  - cbn [history_ok_from]. rewrite (existsb_cons_r _ _ _ (Hinv o eq_refl)). cbn [andb].
    apply IH. intros o' Ho'. injection Ho' as <-. apply existsb_cons_r. apply Hinv. reflexivity.
  - cbv zeta. set (x := prep s). cbn [history_ok_from].
    assert (Hhead : match x with
                    | Some (Ok o) => existsb (fun y => is_ok_out y o) (x :: seen)
                    | _ => match x with Some (Ok _) => false | _ => true end
                    end = true).
    { destruct x as [[o| | |]|]; try reflexivity. cbn [existsb is_ok_out]. rewrite out_eqb_refl. reflexivity. }
    rewrite Hhead. cbn [andb]. apply IH. intros o Ho.
    unfold stored in Ho. destruct x as [[o'| | |]|]; try discriminate.
    destruct (is_nil (o_body o')); [discriminate|]. injection Ho as <-.
    cbn [existsb is_ok_out]. rewrite out_eqb_refl. reflexivity.
Qed.

Theorem history_check_generated_x x l : history_ok (model_calls_x x l) (spec_singles_x x l) = true.
Proof.
  rewrite generated_history_is_model_x. unfold ref_calls_x, spec_singles_x, history_ok.
  apply history_ok_calls_g. intros o H; discriminate.
Qed.

(* every response of a history (with formatter / keywords) is the single-call specification of one
   of the calls made so far *)
Theorem history_consistent_generated_x x l k o :
  nth_error (model_calls_x x l) k = Some (Some (Ok o)) ->
  exists j s, (j <= k)%nat /\ nth_error l j = Some s /\ model_x (with_call_x x s) = Some (Ok o).
Proof.
  intros Hk.
  destruct (history_ok_sound _ [] _ (history_check_generated_x x l) k o Hk) as [[]|[j [Hj Hn]]].
  unfold spec_singles_x in Hn. rewrite nth_error_map in Hn.
  destruct (nth_error l j) as [s|] eqn:Es; [|discriminate].
  exists j, s. split; [exact Hj|]. split; [exact Es|]. simpl in Hn. injection Hn as Hn.
  rewrite generated_is_spec_x. exact Hn.
Qed.

(* the history theorems of Proofs/C19.v, about the regenerated program *)
Corollary history_consistent_generated i l k o :
  nth_error (model_calls i l) k = Some (Some (Ok o)) ->
  exists j s, (j <= k)%nat /\ nth_error l j = Some s /\ model (with_call i s) = Some (Ok o).
Proof.
  rewrite generated_history_is_model. intros H.
  destruct (history_consistent i l k o H) as (j & s & Hj & Hn & Hs).
  exists j, s. rewrite generated_is_spec. auto.
Qed.

Corollary history_check_generated i l : history_ok (model_calls i l) (spec_singles i l) = true.
Proof. rewrite generated_history_is_model. apply history_consistent_b. Qed.

(* ---- non-vacuity: a formatter reading a request header; with the header a JSON response that reads back,
   without it no response *)
Definition ex_fmt : fmt := [(k_message, FBody); ([114; 105; 100], FEnv [72; 84; 84; 80; 95; 88; 95; 82; 73; 68])].
Definition ex_xin (env : list (text * text)) : xinput :=
  mkX (mkInput n_notfound (Some [60; 97; 62; 36; 123; 98; 114; 125]) None None [] [] env None [t_json])
      (Some ex_fmt) (Some t_html) None.
Example ex_formatter_ok :
  exists o, spec_x (ex_xin [([72; 84; 84; 80; 95; 88; 95; 82; 73; 68], [55])]) = Some (Ok o) /\ o_ctype o = t_json /\
            exists m, json_read_object (o_body o) = Some [(k_message, m); ([114; 105; 100], [55])].
Proof. eexists. split; [vm_compute; reflexivity|]. split; [reflexivity|]. eexists. vm_compute. reflexivity. Qed.
Example ex_formatter_keyerror : spec_x (ex_xin []) = Some KeyErr.
Proof. vm_compute. reflexivity. Qed.

(* ------------------------------------------------------------------ the plain-text form
   (no escaping is promised or wanted: text/plain is not interpreted; the statement is the
   explicit whole response, so every supplied text is there verbatim and exactly once) *)
Lemma plain_template_tokens : tokenise plain_template = [TRef k_status; TChar 10; TChar 10; TRef k_body].
Proof. vm_compute. reflexivity. Qed.

Lemma plain_page_render st body :
  substitute plain_template [(k_status, st); (k_body, body)] = Ok (st ++ [10; 10] ++ body).
Proof.
  unfold substitute. rewrite plain_template_tokens.
  cbn [render lookup text_eqb k_status k_body N.eqb Pos.eqb andb rmap app]. rewrite app_nil_r. reflexivity.
Qed.

Lemma plain_comment i : html_comment_of bp i = or_empty (i_comment i).
Proof.
  unfold html_comment_of. cbn [bp b_cpre b_csuf b_esc b_comment_escaped maybe_esc esc_apply].
  destruct (or_empty (i_comment i)); [reflexivity|]. cbn [is_nil app]. rewrite app_nil_r. reflexivity.
Qed.

Lemma plain_body_shape i c :
  find_cls (i_cls i) classes = Some c -> c_empty c = false -> c_default_tmpl c = true -> i_tmpl i = None ->
  chosen_type i <> t_html -> chosen_type i <> t_json ->
  spec i = Some (rmap (mkOutput (status_of c) t_plain cs_utf8)
    (utf8_bytes (status_of c ++ [10; 10] ++
                 expl_of c i ++ [10; 10; 10] ++ or_empty (i_detail i) ++ [10] ++ or_empty (i_comment i) ++ [10]))).
Proof.
  intros Hf He Hd Hn Hh Hj. unfold spec, prepare. rewrite Hf, He.
  cbn [pick_branch p_branches spec_policy b_test].
  destruct (text_eqb (chosen_type i) t_html) eqn:E1; [apply text_eqb_eq in E1; contradiction|].
  destruct (text_eqb (chosen_type i) t_json) eqn:E2; [apply text_eqb_eq in E2; contradiction|].
  f_equal. rewrite page_text_unfold. unfold tmpl_of, is_custom. rewrite Hn, Hd, (default_tmpl_text _ c Hf Hd). cbn [negb].
  change (mkBranch None t_plain false EscNone [10] [] [] true PagePlain) with bp.
  rewrite build_args_spec, default_body_render. cbn [rbind]. unfold page_of. cbn [bp b_page].
  rewrite plain_page_render. unfold default_body. rewrite plain_comment.
  cbn [bp b_esc b_br esc_apply b_ctype b_charset_none rbind].
  rewrite ?rmap_rbind. apply rbind_cong; [|reflexivity]. f_equal.
Qed.

Example ex_plain : exists o, spec (mkInput n_notfound (Some [60; 36; 123; 98; 114; 125]) (Some [38]) None [] [] [] None []) = Some (Ok o)
  /\ o_ctype o = t_plain.
Proof. eexists. split; [vm_compute; reflexivity|reflexivity]. Qed.

(* ------------------------------------------------------------------ a Content-Type written on the object before the call
   (NewResponse subscriber, response callback, tween -- or the constructor's keywords) never reaches the
   client of a rendering class: the answer of __call__ is the same whatever content type / charset the
   object carried, because prepare() labels the response with the form it renders *)
Theorem relabel_irrelevant neg c x ct cs :
  c_empty c = false ->
  i_offers (x_in x) = neg (env_get accept_key accept_default (i_environ (x_in x))) offers ->
  rmap fst (gen_call neg (set_resp (ref_obj_x c x) ct cs []) (i_environ (x_in x))) =
  rmap fst (gen_call neg (ref_obj_x c x) (i_environ (x_in x))).
Proof.
  intros He Hoff. rewrite !gen_call_is_prepare.
  rewrite (gen_prepare_is_model_x neg c x _ (ex_intro _ ct (ex_intro _ cs eq_refl)) Hoff).
  rewrite (gen_prepare_is_model_x neg c x _ (fresh_ref_x c x) Hoff).
  unfold ref_prepare_x. rewrite He.
  destruct (pick_branch (chosen_type (x_in x)) (p_branches spec_policy)) as [b|] eqn:Hb.
  - destruct (page_text_x spec_policy b c x) as [page| | |]; try reflexivity;
      cbn [rbind]; destruct (utf8_bytes page); reflexivity.
  - unfold chosen_type in Hb. cbn [pick_branch p_branches spec_policy b_test] in Hb.
    repeat match type of Hb with (if ?x then _ else _) = _ => destruct x end; discriminate.
Qed.

(* ------------------------------------------------------------------ raise sites outside httpexceptions.py
   the regenerated argument expressions equal the reference: which request property reaches which
   constructor argument, in which fixed text; no site passes a body template *)
Lemma with_qs_spec base qs : with_qs base qs = if truthy qs then base ++ [63] ++ qs else base.
Proof. unfold with_qs, truthy. destruct qs; reflexivity. Qed.

Theorem sites_generated_are_model r :
  gen_site_router r = site_router r /\ gen_site_static_missing r = site_static_missing r /\
  gen_site_static_oob r = site_static_oob r /\ gen_site_static_slash r = site_static_slash r /\
  gen_site_append_slash r = site_append_slash r.
Proof.
  unfold gen_site_router, gen_site_static_missing, gen_site_static_oob, gen_site_static_slash, gen_site_append_slash,
         site_router, site_static_missing, site_static_oob, site_static_slash, site_append_slash.
  rewrite !with_qs_spec. unfold truthy.
  repeat split; try reflexivity.
  all: try (rewrite ?app_nil_r; reflexivity).
  all: destruct (r_query_string r); cbn [is_nil negb]; rewrite <- ?app_assoc, ?app_nil_r; reflexivity.
Qed.

Theorem site_gen_is_ref name g : site_gen name = Some g -> exists f, site_ref name = Some f /\ forall r, g r = f r.
Proof.
  unfold site_gen, site_ref.
  repeat match goal with |- context [if ?b then _ else _] => destruct b end; intros H; try discriminate;
    injection H as <-; eexists; (split; [reflexivity|]); intros r;
    destruct (sites_generated_are_model r) as (H1 & H2 & H3 & H4 & H5); assumption.
Qed.

(* through every site: no body template, no comment; detail / location are request properties inside
   fixed text -- so the core shape theorems (html_body_shape, html_move_shape, not_found_page_safe,
   no_request_markup) apply to the pages these sites produce *)
Theorem sites_plain_inputs name f r en ofs :
  site_ref name = Some f ->
  let i := input_of (f r) en ofs in
  i_tmpl i = None /\ i_comment i = None /\ i_expl i = None /\ i_headers i = [] /\
  (i_detail i = None \/ exists pre, i_detail i = Some (pre ++ r_path_info r) \/ i_detail i = Some (pre ++ r_url r)).
Proof.
  unfold site_ref.
  repeat match goal with |- context [if ?b then _ else _] => destruct b end; intros H; try discriminate;
    injection H as <-; cbv zeta; unfold input_of; cbn; repeat split; auto.
  - right. exists []. left. reflexivity.
  - right. exists []. right. reflexivity.
  - right. exists s_out_of_bounds. right. reflexivity.
Qed.

(* the model the correspondence run uses for a site case equals the specification of the reference site *)
Theorem site_model_is_spec name g f r en ofs :
  site_gen name = Some g -> site_ref name = Some f ->
  model (input_of (g r) en ofs) = spec (input_of (f r) en ofs).
Proof.
  intros Hg Hf. destruct (site_gen_is_ref name g Hg) as [f' [Hf' Heq]]. rewrite Hf in Hf'. injection Hf' as <-.
  rewrite Heq. apply generated_is_spec.
Qed.

(* ------------------------------------------------------------------ seventh round *)
(* _no_escape, regenerated, is the identity on a str *)
Theorem gen_no_escape_is_model v : gen_no_escape v = no_escape v.
Proof. reflexivity. Qed.

(* message sites: the formats regenerated from config/views.py, viewderivers.py, csrf.py, exceptions.py are the
   reference formats *)
Theorem msite_generated_is_model name args : msite_gen name args = msite_ref name args.
Proof. reflexivity. Qed.

Theorem site_m_model_is_spec name args g en ofs :
  msite_gen name args = Some g ->
  msite_ref name args = Some g /\ model (input_of_m g en ofs) = spec (input_of_m g en ofs).
Proof. intros H. split; [rewrite <- msite_generated_is_model; exact H|apply generated_is_spec]. Qed.

(* the secured-view message: fixed text around the function name, which is not rescanned *)
Example ex_unauthorized fn : exists pre suf,
  msite_ref [102; 111; 114; 98; 105; 100; 100; 101; 110] [fn] = Some (n_HTTPForbidden, pre ++ fn ++ suf, None).
Proof.
  exists [85; 110; 97; 117; 116; 104; 111; 114; 105; 122; 101; 100; 58; 32],
         [32; 102; 97; 105; 108; 101; 100; 32; 112; 101; 114; 109; 105; 115; 115; 105; 111; 110; 32; 99; 104; 101; 99; 107].
  reflexivity.
Qed.

(* an empty comment is no comment: the same page (no html_comment wrapper, empty ${comment}), in every
   form, for class and custom templates -- the case frame_comment (non-empty comments) leaves out *)
Theorem comment_empty_is_none b c i :
  page_text spec_policy b c (with_comment i (Some [])) = page_text spec_policy b c (with_comment i None).
Proof. reflexivity. Qed.
Theorem spec_comment_empty_is_none i : spec (with_comment i (Some [])) = spec (with_comment i None).
Proof. reflexivity. Qed.

(* ------------------------------------------------------------------ last round *)
(* '%s' substitution: the argument is inserted verbatim and never scanned; text without '%' is copied *)
Lemma format_s_other c r args : c <> 37 -> format_s (c :: r) args = c :: format_s r args.
Proof.
  intros H. destruct c as [|p]; [reflexivity|].
  repeat (destruct p as [p|p|]; try reflexivity).
  exfalso; apply H; reflexivity.
Qed.

Theorem format_s_no_rescan pre suf a rest :
  Forall (fun c => c <> 37) pre ->
  format_s (pre ++ 37 :: 115 :: suf) (a :: rest) = pre ++ a ++ format_s suf rest.
Proof.
  induction 1 as [|c r Hc _ IH]; [reflexivity|].
  cbn [app]. rewrite (format_s_other c _ _ Hc), IH. reflexivity.
Qed.

Theorem format_s_plain s args : Forall (fun c => c <> 37) s -> format_s s args = s.
Proof.
  induction 1 as [|c r Hc _ IH]; [reflexivity|]. rewrite (format_s_other c _ _ Hc), IH. reflexivity.
Qed.

(* the predicate-mismatch message: fixed text, function name, fixed text, predicate text, fixed text *)
Example ex_predicate_mismatch fn p : exists a b c,
  msite_ref [112; 109; 95; 115; 105; 110; 103; 108; 101] [fn; p] = Some (n_HTTPNotFound, a ++ fn ++ b ++ p ++ c, None).
Proof.
  exists [112; 114; 101; 100; 105; 99; 97; 116; 101; 32; 109; 105; 115; 109; 97; 116; 99; 104; 32; 102; 111; 114; 32; 118; 105; 101; 119; 32],
         [32; 40], [41].
  reflexivity.
Qed.

(* exception_response: the class picked for a status code has that code, a public name, and is in the table *)
Lemma status_class_from_sound code l : forall acc c,
  (forall a, acc = Some a -> In a classes /\ c_code a = code /\ status_entry a = true) ->
  (forall x, In x l -> In x classes) ->
  status_class_from code l acc = Some c -> In c classes /\ c_code c = code /\ status_entry c = true.
Proof.
  induction l as [|x r IH]; intros acc c Hacc Hl H; [exact (Hacc c H)|].
  cbn [status_class_from] in H. apply (IH _ c) in H; [exact H| |intros y Hy; apply Hl; right; exact Hy].
  intros a Ha. destruct (status_entry x && text_eqb (c_code x) code) eqn:E.
  - injection Ha as <-. apply andb_true_iff in E as [E1 E2]. apply text_eqb_eq in E2.
    split; [apply Hl; left; reflexivity|split; assumption].
  - exact (Hacc a Ha).
Qed.

Theorem status_class_sound code c :
  status_class code = Some c ->
  In c classes /\ c_code c = code /\ startswith [95] (c_name c) = false /\ mem_text (c_name c) status_map_excluded = false.
Proof.
  intros H. destruct (status_class_from_sound code classes None c) as (Hin & Hc & He); auto; [intros a Ha; discriminate|].
  unfold status_entry in He. apply andb_true_iff in He as [He _]. apply andb_true_iff in He as [H1 H2].
  repeat split; auto; [destruct (startswith [95] (c_name c)); [discriminate|reflexivity]
                      |destruct (mem_text (c_name c) status_map_excluded); [discriminate|reflexivity]].
Qed.

(* which class the factory picks for the codes shared by several classes, and for an unknown code *)
Example ex_status_classes :
  option_map c_name (status_class [52; 48; 52]) = Some n_HTTPNotFound /\
  option_map c_name (status_class [52; 48; 48]) = Some n_HTTPBadRequest /\
  option_map c_name (status_class [52; 48; 51]) = Some n_HTTPForbidden /\
  option_map c_name (status_class [51; 48; 49]) = Some n_HTTPMovedPermanently /\
  status_class [57; 57; 57] = None.
Proof. vm_compute. repeat split; reflexivity. Qed.
