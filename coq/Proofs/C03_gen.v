(* C03 -- the program REGENERATED from the source on this run (Gen/Facts_C03_gen.v) equals the
   hand-written reference model (Model/C03.v), for all inputs; the property theorems are then
   restated about the regenerated program.

   The scripts never mention the text of the generated terms: they take the loops apart by
   pattern, do one induction per loop, case-split on the atoms of the primitive table and ask
   that both sides compute to the same result or to the induction hypothesis.  They are therefore
   insensitive to the names of locals, to nesting/order of tests, elif vs nested if, and-splitting;
   they fail as soon as some valuation of the atoms leads the regenerated program elsewhere. *)
From Coq Require Import List NArith ZArith Bool Lia.
Import ListNotations.
Require Import Verif.Lib.Wire Verif.Lib.Text Verif.Gen.Facts_C03 Verif.Model.C03 Verif.Gen.Facts_C03_gen
               Verif.Proofs.C03.

(* ------------------------------------------------------------ the __call__ of the stock predicates *)
Theorem gen_pred_xhr_is_model b rq : gen_pred_xhr b rq = eval_pred rq (PXhr b).
Proof. reflexivity. Qed.
Theorem gen_pred_request_method_is_model vals rq : gen_pred_request_method vals rq = eval_pred rq (PMethod vals).
Proof. reflexivity. Qed.
Theorem gen_pred_path_info_is_model pat rq : gen_pred_path_info pat rq = eval_pred rq (PPathInfo pat).
Proof. unfold gen_pred_path_info. cbn [eval_pred]. destruct (regex_match _ _ _); reflexivity. Qed.
Theorem gen_pred_is_authenticated_is_model b rq : gen_pred_is_authenticated b rq = eval_pred rq (PIsAuth b).
Proof. reflexivity. Qed.
Theorem gen_pred_custom_is_model i rq : gen_pred_custom i rq = eval_pred rq (PCustom i).
Proof. reflexivity. Qed.
Theorem gen_pred_physical_path_is_model val rq : gen_pred_physical_path val rq = eval_pred rq (PPhysPath val).
Proof. unfold gen_pred_physical_path. cbn [eval_pred]. destruct (q_has_name rq); reflexivity. Qed.

Theorem gen_pred_request_param_is_model reqs rq : gen_pred_request_param reqs rq = eval_pred rq (PParam reqs).
Proof.
  unfold gen_pred_request_param. cbn [eval_pred].
  induction reqs as [|[k v] l IH]; [reflexivity|]. cbn [forallb fst snd]. cbn -[assoc].
  destruct (assoc k (q_params rq)) as [actual|]; [|reflexivity].
  destruct v as [v|]; cbn; [destruct (text_eqb actual v); cbn|]; try reflexivity; apply IH.
Qed.

Theorem gen_pred_header_is_model vals rq : gen_pred_header vals rq = eval_pred rq (PHeader vals).
Proof.
  unfold gen_pred_header. cbn [eval_pred].
  induction vals as [|[n v] l IH]; [reflexivity|]. cbn [forallb fst snd]. cbn -[assoc regex_match].
  unfold header_present.
  destruct v as [pat|]; destruct (assoc n (q_headers rq)) as [value|]; cbn -[regex_match]; try reflexivity; try apply IH.
  destruct (regex_match (q_regex rq) pat value); cbn; [apply IH|reflexivity].
Qed.

Theorem gen_pred_accept_is_model values rq : gen_pred_accept values rq = eval_pred rq (PAccept values).
Proof.
  unfold gen_pred_accept, acceptable_texts. cbn [eval_pred].
  induction values as [|o l IH]; [reflexivity|]. cbn [filter existsb].
  destruct (N.ltb 0 (offer_q rq o)); [reflexivity|exact IH].
Qed.

Theorem gen_pred_containment_is_model i s rq : gen_pred_containment i rq = eval_pred rq (PContainment i s).
Proof.
  unfold gen_pred_containment, find_iface. cbn [eval_pred].
  induction (q_lineage rq) as [|loc l IH]; [reflexivity|]. cbn [find existsb].
  destruct (memN i (snd loc)); [reflexivity|exact IH].
Qed.

Theorem gen_pred_match_param_is_model reqs rq : gen_pred_match_param reqs rq = eval_pred rq (PMatchParam reqs).
Proof.
  unfold gen_pred_match_param. cbn [eval_pred].
  destruct (q_matchdict rq) as [[|e md]|]; cbn [matchdict_truthy]; try reflexivity.
  all: induction reqs as [|[k v] l IH]; [reflexivity|]; cbn [forallb fst snd matchdict_get]; cbn -[assoc];
    destruct (opt_text_eqb (assoc k (e :: md)) v); cbn; [apply IH|reflexivity].
Qed.

Theorem gen_pred_not_is_model p rq : gen_pred_not p rq = eval_pred rq (PNot p).
Proof. reflexivity. Qed.

Theorem gen_eval_pred_is_model rq p : gen_eval_pred rq p = eval_pred rq p.
Proof.
  destruct p; unfold gen_eval_pred;
    rewrite ?gen_pred_xhr_is_model, ?gen_pred_request_method_is_model, ?gen_pred_path_info_is_model,
      ?gen_pred_request_param_is_model, ?gen_pred_header_is_model, ?gen_pred_accept_is_model,
      ?(gen_pred_containment_is_model id str), ?gen_pred_match_param_is_model, ?gen_pred_physical_path_is_model,
      ?gen_pred_is_authenticated_is_model, ?gen_pred_custom_is_model, ?gen_pred_not_is_model; reflexivity.
Qed.

Lemma forallb_gen_eval rq l : forallb (fun x => gen_eval_pred rq x) l = forallb (eval_pred rq) l.
Proof. induction l as [|p l IH]; simpl; [reflexivity|]. rewrite gen_eval_pred_is_model, IH. reflexivity. Qed.

Theorem gen_checker_is_model rq v : gen_checker rq v = qualifies rq v.
Proof. unfold gen_checker, qualifies. apply forallb_gen_eval. Qed.

Theorem gen_predicate_wrapper_is_model rq v : gen_predicate_wrapper rq v = call_reg rq v.
Proof.
  unfold gen_predicate_wrapper, call_reg, qualifies.
  match goal with
  | |- ?F (r_preds v) = _ =>
      enough (H : forall l, F l = if forallb (eval_pred rq) l then Some (r_tag v) else None) by apply H
  end.
  induction l as [|p l IH]; [reflexivity|]. cbn -[gen_eval_pred]. rewrite gen_eval_pred_is_model.
  destruct (eval_pred rq p); simpl; [apply IH|reflexivity].
Qed.

Theorem gen_predicated_view_is_model v rq : gen_predicated_view v rq = call_reg rq v.
Proof.
  unfold gen_predicated_view. rewrite <- gen_predicate_wrapper_is_model.
  destruct (r_preds v) eqn:E; simpl; [|reflexivity].
  unfold gen_predicate_wrapper. rewrite E. reflexivity.
Qed.

Lemma media_get_subset m o :
  media_get m o = match assoc (o_full o) (mv_media m) with Some s => s | None => [] end.
Proof. reflexivity. Qed.

Theorem gen_get_views_is_model m rq : gen_get_views m rq = get_views m rq.
Proof.
  unfold gen_get_views, get_views.
  destruct (mv_accepts m) as [|o os] eqn:E; [reflexivity|]. cbn [nonempty_list].
  match goal with
  | |- ?F ?l0 nil = _ =>
      enough (H : forall l acc, F l acc = acc ++ flat_map (fun o => match assoc (o_full o) (mv_media m) with
                                                                     | Some s => s | None => [] end) l ++ mv_views m)
        by apply (H l0 nil)
  end.
  induction l as [|x l IH]; intros acc; simpl; [reflexivity|].
  rewrite IH. unfold media_get. rewrite <- !app_assoc. reflexivity.
Qed.

Theorem gen_mv_call_is_model m rq : gen_mv_call m rq = mv_call rq (get_views m rq).
Proof.
  unfold gen_mv_call. rewrite gen_get_views_is_model.
  induction (get_views m rq) as [|e l IH]; [reflexivity|]. simpl.
  rewrite gen_predicated_view_is_model. destruct (call_reg rq (e_view e)); [reflexivity|apply IH].
Qed.

(* MultiView.match (used by __permitted__ / __call_permissive__ / __discriminator__): the first view of
   get_views without predicates or whose checker holds *)
Definition mv_match (rq : request) (m : mview) : option reg :=
  find (qualifies rq) (map e_view (get_views m rq)).

Theorem gen_mv_match_is_model m rq : gen_mv_match m rq = mv_match rq m.
Proof.
  unfold gen_mv_match, mv_match. rewrite gen_get_views_is_model.
  induction (get_views m rq) as [|e l IH]; [reflexivity|].
  cbn -[qualifies gen_checker nonempty_list]. rewrite gen_checker_is_model.
  destruct (qualifies rq (e_view e)) eqn:Q.
  - destruct (nonempty_list _); reflexivity.
  - destruct (r_preds (e_view e)) eqn:E; cbn [nonempty_list]; [unfold qualifies in Q; rewrite E in Q; discriminate|apply IH].
Qed.

Theorem gen_call_component_is_model rq c : gen_call_component rq c = call_component rq c.
Proof.
  destruct c as [v|m]; simpl; [apply gen_predicated_view_is_model|apply gen_mv_call_is_model].
Qed.

Theorem gen_find_views_is_model R cls rsro csro name :
  gen_find_views R cls rsro csro name = find_views R cls rsro csro name.
Proof.
  unfold gen_find_views, find_views. rewrite find_view_types_ok.
  match goal with
  | |- ?F ?l0 nil = flat_map ?g ?l0 =>
      enough (H : forall l acc, F l acc = acc ++ flat_map g l) by apply (H l0 nil)
  end.
  induction l as [|[r c] l IH]; intros acc; cbn [flat_map]; [cbn; rewrite app_nil_r; reflexivity|].
  cbn -[app]. unfold registered_at. cbn [fst snd].
  destruct (R (mkSlot cls r c name) IView), (R (mkSlot cls r c name) ISecuredView),
    (R (mkSlot cls r c name) IMultiView); rewrite IH; cbn; rewrite <- ?app_assoc; reflexivity.
Qed.

Theorem gen_call_view_is_model R cls rq : gen_call_view R cls rq = call_view R cls rq.
Proof.
  unfold gen_call_view, call_view. rewrite gen_find_views_is_model.
  match goal with
  | |- ?F ?l0 None None = _ =>
      enough (H : forall l, (F l None None = call_loop rq l false) /\ (F l None (Some tt) = call_loop rq l true))
        by apply (H l0)
  end.
  induction l as [|c l [IH1 IH2]]; [split; reflexivity|].
  cbn [call_loop]. rewrite <- gen_call_component_is_model.
  split; cbn; destruct (gen_call_component rq c); try reflexivity; assumption.
Qed.

(* ------------------------------------------------------------ the property theorems, about the regenerated lookup *)
Theorem gen_lookup_winner ao regs cls rq :
  Forall reg_wf regs -> NoDup (map key regs) -> no_accept regs ->
  NoDup (q_req_sro rq) -> NoDup (q_ctx_sro rq) -> order_respects regs ->
  spec_ok cls regs rq (gen_call_view (register_all ao regs) cls rq) = true.
Proof. rewrite gen_call_view_is_model. apply lookup_winner. Qed.

Theorem gen_failing_pred_never_runs R cls rq t :
  gen_call_view R cls rq = Ran t ->
  exists x, In x (tried R cls rq) /\ qualifies rq x = true /\ r_tag x = t.
Proof. rewrite gen_call_view_is_model. apply failing_pred_never_runs. Qed.

Theorem gen_not_found_only_if_none R cls rq :
  not_found (gen_call_view R cls rq) -> forall x, In x (tried R cls rq) -> qualifies rq x = false.
Proof. rewrite gen_call_view_is_model. apply not_found_only_if_none. Qed.

(* ------------------------------------------------------------ text() / phash() of the predicate classes:
   the identity of a registration inside its slot.  The scripts peel the common context off both sides
   (f_equal) and compare the per-item functions on every shape of item. *)
Ltac text_same :=
  repeat first [ reflexivity
               | apply map_ext; let e := fresh "e" in intros e; destruct e as [? [[|? ?]|]]; reflexivity
               | apply map_ext; let e := fresh "e" in intros e; destruct e; reflexivity
               | f_equal ].

Theorem gen_text_xhr_is_model b : gen_text_xhr b = pred_phash (PXhr b).
Proof. unfold gen_text_xhr; cbn [pred_phash]; text_same. Qed.
Theorem gen_text_request_method_is_model vals : gen_text_request_method vals = pred_phash (PMethod vals).
Proof. unfold gen_text_request_method; cbn [pred_phash]; text_same. Qed.
Theorem gen_text_path_info_is_model o : gen_text_path_info o = pred_phash (PPathInfo o).
Proof. unfold gen_text_path_info; cbn [pred_phash]; text_same. Qed.
Theorem gen_text_request_param_is_model reqs : gen_text_request_param reqs = pred_phash (PParam reqs).
Proof. unfold gen_text_request_param; cbn [pred_phash]; text_same. Qed.
Theorem gen_text_header_is_model vals : gen_text_header vals = pred_phash (PHeader vals).
Proof. unfold gen_text_header; cbn [pred_phash]; text_same. Qed.
Theorem gen_text_accept_is_model values : gen_text_accept values = pred_phash (PAccept values).
Proof. unfold gen_text_accept; cbn [pred_phash]; text_same. Qed.
Theorem gen_text_containment_is_model i s : gen_text_containment s = pred_phash (PContainment i s).
Proof. unfold gen_text_containment; cbn [pred_phash]; text_same. Qed.
Theorem gen_text_match_param_is_model reqs : gen_text_match_param reqs = pred_phash (PMatchParam reqs).
Proof. unfold gen_text_match_param; cbn [pred_phash]; text_same. Qed.
Theorem gen_text_physical_path_is_model val : gen_text_physical_path val = pred_phash (PPhysPath val).
Proof. unfold gen_text_physical_path; cbn [pred_phash]; text_same. Qed.
Theorem gen_text_is_authenticated_is_model b : gen_text_is_authenticated b = pred_phash (PIsAuth b).
Proof. unfold gen_text_is_authenticated; cbn [pred_phash]; text_same. Qed.
Theorem gen_phash_custom_is_model i : gen_phash_custom i = pred_phash (PCustom i).
Proof. unfold gen_phash_custom; cbn [pred_phash]; text_same. Qed.
Theorem gen_phash_not_is_model p : gen_phash_not p = pred_phash (PNot p).
Proof.
  unfold gen_phash_not, gen_notted_text. cbn [pred_phash].
  destruct (nonempty (pred_phash p)); reflexivity.
Qed.

Theorem gen_pred_phash_is_model p : gen_pred_phash p = pred_phash p.
Proof.
  destruct p; unfold gen_pred_phash;
    rewrite ?gen_text_xhr_is_model, ?gen_text_request_method_is_model, ?gen_text_path_info_is_model,
      ?gen_text_request_param_is_model, ?gen_text_header_is_model, ?gen_text_accept_is_model,
      ?(gen_text_containment_is_model id str), ?gen_text_match_param_is_model, ?gen_text_physical_path_is_model,
      ?gen_text_is_authenticated_is_model, ?gen_phash_custom_is_model, ?gen_phash_not_is_model; reflexivity.
Qed.

(* ------------------------------------------------------------ constructors (__init__) that normalise their value *)
Lemma split1_memN c s : split1 c s = None <-> memN c s = false.
Proof.
  induction s as [|x r IH]; simpl; [tauto|].
  rewrite (N.eqb_sym c x). destruct (N.eqb x c); simpl.
  - split; discriminate.
  - destruct (split1 c r) as [[a b]|].
    + split; [discriminate|]. intros H. apply IH in H. discriminate.
    + split; [intros _; apply IH; reflexivity|reflexivity].
Qed.

Theorem gen_mk_request_method_spec l :
  gen_mk_request_method l =
  Some (PMethod (if mem_text rm_get (sorted_texts l) && negb (mem_text rm_head (sorted_texts l))
                 then sorted_texts (sorted_texts l ++ [rm_head]) else sorted_texts l)).
Proof.
  unfold gen_mk_request_method, rm_get, rm_head.
  destruct (mem_text _ (sorted_texts l)); [destruct (mem_text _ (sorted_texts l))|]; reflexivity.
Qed.

Theorem gen_mk_request_param_spec l :
  gen_mk_request_param l = Some (PParam (map param_req (sorted_texts l))).
Proof.
  unfold gen_mk_request_param.
  match goal with
  | |- ?F ?l0 nil = _ =>
      enough (H : forall ps acc, F ps acc = Some (PParam (acc ++ map param_req ps))) by apply (H l0 nil)
  end.
  induction ps as [|p ps IH]; intros acc.
  - cbn. rewrite app_nil_r. reflexivity.
  - cbn [map]. lazy beta iota zeta.
    destruct p as [|c rest].
    + cbn. rewrite IH, <- app_assoc. reflexivity.
    + unfold param_req. cbn [starts_with tl]. rewrite andb_true_r, (N.eqb_sym 61 c). change eqc with 61%N.
      destruct (N.eqb c 61) eqn:Ec.
      * destruct (split1 61 rest) as [[k v]|] eqn:S.
        -- destruct (memN 61 rest) eqn:M; [|apply split1_memN in M; congruence].
           cbn [fst snd]. rewrite IH, <- app_assoc. reflexivity.
        -- apply split1_memN in S. rewrite S. rewrite IH, <- app_assoc. reflexivity.
      * destruct (split1 61 (c :: rest)) as [[k v]|] eqn:S.
        -- destruct (memN 61 (c :: rest)) eqn:M; [|apply split1_memN in M; congruence].
           cbn [fst snd]. rewrite IH, <- app_assoc. reflexivity.
        -- apply split1_memN in S. rewrite S. rewrite IH, <- app_assoc. reflexivity.
Qed.

Theorem gen_mk_header_spec l :
  gen_mk_header l = Some (PHeader (map header_req (sorted_texts l))).
Proof.
  unfold gen_mk_header.
  match goal with
  | |- ?F ?l0 nil = _ =>
      enough (H : forall ps acc, F ps acc = Some (PHeader (acc ++ map header_req ps))) by apply (H l0 nil)
  end.
  induction ps as [|p ps IH]; intros acc.
  - cbn. rewrite app_nil_r. reflexivity.
  - cbn [map]. lazy beta iota zeta. unfold header_req.
    destruct (split1 58 p) as [[a b]|] eqn:S.
    + destruct (memN 58 p) eqn:M; [|apply split1_memN in M; congruence].
      cbn [fst snd]. rewrite IH, <- app_assoc. reflexivity.
    + apply split1_memN in S. rewrite S. rewrite IH, <- app_assoc. reflexivity.
Qed.

Theorem gen_mk_physical_path_is_model v : gen_mk_physical_path v = mk_phys v.
Proof. destruct v; reflexivity. Qed.

Lemma map_opt_map {A B C} (f : B -> option C) (g : A -> B) l : map_opt f (map g l) = map_opt (fun x => f (g x)) l.
Proof. induction l as [|x l IH]; simpl; [reflexivity|]. rewrite IH. reflexivity. Qed.
Lemma map_opt_ext {A B} (f g : A -> option B) l : (forall x, f x = g x) -> map_opt f l = map_opt g l.
Proof. intros H. induction l as [|x l IH]; simpl; [reflexivity|]. rewrite H, IH. reflexivity. Qed.

Theorem gen_mk_match_param_is_model v l : as_tuple v = Some l -> gen_mk_match_param l = mk_match_param v.
Proof.
  intros Hv. unfold gen_mk_match_param, mk_match_param, as_sorted_tuple. rewrite Hv. cbn [obind].
  rewrite map_opt_map.
  match goal with
  | |- match map_opt ?f ?l0 with _ => _ end = obind (map_opt ?g ?l0) _ =>
      rewrite (map_opt_ext f g l0) by (intros p; destruct (split1 _ p) as [[x y]|]; reflexivity)
  end.
  destruct (map_opt _ _); reflexivity.
Qed.

Theorem gen_factory_is_model name v : gen_factory name v = factory name v.
Proof.
  unfold gen_factory.
  destruct (text_eqb_spec name nm_request_method) as [->|H1].
  { unfold factory. change (text_eqb nm_request_method nm_xhr) with false.
    change (text_eqb nm_request_method nm_request_method) with true. cbv iota.
    unfold mk_method, as_sorted_tuple. destruct (as_tuple v) as [l|]; [|reflexivity].
    cbn [obind]. apply gen_mk_request_method_spec. }
  destruct (text_eqb_spec name nm_request_param) as [->|H2].
  { unfold factory. change (text_eqb nm_request_param nm_xhr) with false.
    change (text_eqb nm_request_param nm_request_method) with false.
    change (text_eqb nm_request_param nm_path_info) with false.
    change (text_eqb nm_request_param nm_request_param) with true. cbv iota.
    unfold mk_param, as_sorted_tuple. destruct (as_tuple v) as [l|]; [|reflexivity].
    cbn [obind]. apply gen_mk_request_param_spec. }
  destruct (text_eqb_spec name nm_header) as [->|H3].
  { unfold factory. change (text_eqb nm_header nm_xhr) with false.
    change (text_eqb nm_header nm_request_method) with false.
    change (text_eqb nm_header nm_path_info) with false.
    change (text_eqb nm_header nm_request_param) with false.
    change (text_eqb nm_header nm_header) with true. cbv iota.
    unfold mk_header, as_sorted_tuple. destruct (as_tuple v) as [l|]; [|reflexivity].
    cbn [obind]. apply gen_mk_header_spec. }
  destruct (text_eqb_spec name nm_match_param) as [->|H4].
  { unfold factory. change (text_eqb nm_match_param nm_xhr) with false.
    change (text_eqb nm_match_param nm_request_method) with false.
    change (text_eqb nm_match_param nm_path_info) with false.
    change (text_eqb nm_match_param nm_request_param) with false.
    change (text_eqb nm_match_param nm_header) with false.
    change (text_eqb nm_match_param nm_accept) with false.
    change (text_eqb nm_match_param nm_containment) with false.
    change (text_eqb nm_match_param nm_match_param) with true. cbv iota.
    destruct (as_tuple v) as [l|] eqn:Ev.
    - apply (gen_mk_match_param_is_model v l Ev).
    - unfold mk_match_param, as_sorted_tuple. rewrite Ev. reflexivity. }
  destruct (text_eqb_spec name nm_physical_path) as [->|H5]; [|reflexivity].
  unfold factory. change (text_eqb nm_physical_path nm_xhr) with false.
  change (text_eqb nm_physical_path nm_request_method) with false.
  change (text_eqb nm_physical_path nm_path_info) with false.
  change (text_eqb nm_physical_path nm_request_param) with false.
  change (text_eqb nm_physical_path nm_header) with false.
  change (text_eqb nm_physical_path nm_accept) with false.
  change (text_eqb nm_physical_path nm_containment) with false.
  change (text_eqb nm_physical_path nm_match_param) with false.
  change (text_eqb nm_physical_path nm_physical_path) with true. cbv iota.
  apply gen_mk_physical_path_is_model.
Qed.

(* ------------------------------------------------------------ PredicateList.make *)
Definition made_triple (m : made) : Z * list pred * text := (m_order m, m_preds m, m_phash m).

Definition kw_dels (l : list text) (kw : kwargs) : kwargs := fold_left (fun k n => kw_del n k) l kw.

Lemma assoc_kw_del k x (kw : kwargs) : k <> x -> assoc k (kw_del x kw) = assoc k kw.
Proof.
  intros Hne. unfold kw_del. induction kw as [|[k0 v0] kw IH]; simpl; [reflexivity|].
  destruct (text_eqb_spec k0 x) as [->|Hx]; simpl.
  - destruct (text_eqb_spec k x); [contradiction|exact IH].
  - destruct (text_eqb k k0); [reflexivity|exact IH].
Qed.

Lemma make_loop_kw_del l x i kw acc : ~ In x l -> make_loop l i (kw_del x kw) acc = make_loop l i kw acc.
Proof.
  revert i acc. induction l as [|n l IH]; intros i acc Hx; simpl; [reflexivity|].
  rewrite assoc_kw_del by (intros ->; apply Hx; simpl; auto).
  destruct (assoc n kw); [destruct (make_vals n i l0 acc); simpl|]; try reflexivity; apply IH; intros H; apply Hx; simpl; auto.
Qed.

Lemma kw_dels_leftover l (kw : kwargs) :
  nonempty_list (kw_dels l kw) = negb (forallb (fun e => mem_text (fst e) l) kw).
Proof.
  revert kw. induction l as [|n l IH]; intros kw; simpl.
  - destruct kw; reflexivity.
  - unfold kw_dels in *. simpl. rewrite IH. f_equal. unfold kw_del.
    induction kw as [|[k0 v0] kw IHk]; simpl; [reflexivity|].
    destruct (text_eqb k0 n); simpl; rewrite IHk; reflexivity.
Qed.

Lemma concat_snoc (ps : list pred) p :
  concat (map pred_phash (ps ++ [p])) = concat (map pred_phash ps) ++ pred_phash p.
Proof. rewrite map_app, concat_app. simpl. rewrite app_nil_r. reflexivity. Qed.

Theorem gen_make_is_model names kw :
  NoDup names -> gen_make names kw = option_map made_triple (make names kw).
Proof.
  intros Hnd. unfold gen_make, make. rewrite <- (negb_involutive (forallb _ kw)), <- kw_dels_leftover.
  match goal with
  | |- ?F names 0%Z kw nil nil nil = _ =>
      enough (H : forall l i kwc ps ws, NoDup l ->
                 F l i kwc (concat (map pred_phash ps)) ws ps =
                 match make_loop l i kwc (ps, ws) with
                 | None => None
                 | Some (ps', ws') =>
                     if nonempty_list (kw_dels l kwc) then None
                     else Some (order_of (score_of ws') (Z.of_nat (length ps')), ps', concat (map pred_phash ps'))
                 end)
  end.
  { pose proof (H names 0%Z kw nil nil Hnd) as H0. change (concat (map pred_phash nil)) with (@nil N) in H0.
    rewrite H0. destruct (nonempty_list (kw_dels names kw)); simpl.
    - destruct (make_loop names 0 kw ([], [])) as [[? ?]|]; reflexivity.
    - destruct (make_loop names 0 kw ([], [])) as [[? ?]|]; reflexivity. }
  induction l as [|name l IH]; intros i kwc ps ws Hl.
  - (* after the loop: leftover keywords, then the score loop *)
    cbn [make_loop kw_dels fold_left]. destruct (nonempty_list kwc); [reflexivity|].
    unfold score_of. rewrite score_init_eq.
    match goal with
    | |- ?G ws 0%Z = _ =>
        enough (HS : forall w s, G w s = Some (order_of (fold_left score_step w s) (Z.of_nat (length ps)), ps,
                                               concat (map pred_phash ps))) by apply HS
    end.
    induction w as [|b w IHw]; intros s; [reflexivity|]. cbn [fold_left]. rewrite <- (IHw (score_step s b)). reflexivity.
  - inversion Hl as [|? ? Hni Hl']; subst.
    cbn [make_loop]. lazy beta iota zeta; cbn [fst snd].
    destruct (assoc name kwc) as [vals|].
    2:{ rewrite (IH _ _ _ _ Hl'). rewrite make_loop_kw_del by assumption. reflexivity. }
    match goal with
    | |- ?G vals _ ws ps = _ =>
        enough (HV : forall vs ps ws,
                   G vs (concat (map pred_phash ps)) ws ps =
                   match make_vals name i vs (ps, ws) with
                   | None => None
                   | Some (ps', ws') =>
                       match make_loop l (i + 1) kwc (ps', ws') with
                       | None => None
                       | Some (ps2, ws2) =>
                           if nonempty_list (kw_dels (name :: l) kwc) then None
                           else Some (order_of (score_of ws2) (Z.of_nat (length ps2)), ps2, concat (map pred_phash ps2))
                       end
                   end)
    end.
    { rewrite HV. destruct (make_vals name i vals (ps, ws)) as [[? ?]|]; reflexivity. }
    induction vs as [|[nt v] vs IHv]; intros ps0 ws0.
    + cbn [make_vals]. rewrite (IH _ _ _ _ Hl'). rewrite make_loop_kw_del by assumption. reflexivity.
    + cbn [make_vals fst snd]. lazy beta iota zeta; cbn [fst snd].
      unfold factory_of. rewrite !gen_factory_is_model.
      destruct nt; destruct (factory name v) as [p|]; cbn [obind]; try reflexivity.
      * lazy beta iota zeta; cbn [fst snd]. rewrite gen_pred_phash_is_model, <- concat_snoc. apply IHv.
      * lazy beta iota zeta; cbn [fst snd]. rewrite gen_pred_phash_is_model, <- concat_snoc. apply IHv.
Qed.


(* ------------------------------------------------------------ the regenerated identity texts keep values apart *)
(* two containment= values give the same registration key exactly when their str() is the same text (the
   class / interface is printed in full; a shortened print would merge same-named classes of different modules) *)
Theorem gen_containment_phash_iff i j s t :
  gen_pred_phash (PContainment i s) = gen_pred_phash (PContainment j t) <-> s = t.
Proof.
  rewrite !gen_pred_phash_is_model. cbn [pred_phash]. split; [apply app_inv_head|intros ->; reflexivity].
Qed.

(* not_(P) and P never share a key when P has a real phash, for the REGENERATED Notted.phash *)
Theorem gen_notted_phash_differs p :
  pred_phash p <> [] -> gen_pred_phash (PNot p) <> gen_pred_phash p.
Proof.
  rewrite !gen_pred_phash_is_model. cbn [pred_phash]. intros Hne.
  destruct (pred_phash p) as [|c r] eqn:E; [contradiction|]. cbn [nonempty].
  intros H. apply (f_equal (@length N)) in H. rewrite app_length in H.
  assert (0 < length not_mark)%nat by (vm_compute; lia). lia.
Qed.
Example gen_notted_phash_differs_nonvacuous :
  pred_phash (PXhr true) <> [] /\ gen_pred_phash (PNot (PXhr true)) <> gen_pred_phash (PXhr true).
Proof. split; [vm_compute; discriminate|apply gen_notted_phash_differs; vm_compute; discriminate]. Qed.

(* ------------------------------------------------------------ attr_wrapped_view: when the three attributes exist *)
Theorem gen_attr_wrapped_is_model v : gen_attr_wrapped v = attr_wrapped v.
Proof.
  unfold gen_attr_wrapped, attr_wrapped.
  destruct (r_accept v); destruct (Z.eqb (r_order v) max_order); destruct (text_eqb (r_phash v) default_phash);
    reflexivity.
Qed.

(* ------------------------------------------------------------ sort_accept_offers and its two nested functions *)
Theorem gen_offer_sort_key_is_model order maxw o : gen_offer_sort_key order maxw o = offer_key order maxw o.
Proof. unfold gen_offer_sort_key, gen_find_order_index, offer_key. destruct (o_params o); reflexivity. Qed.

Lemma insert_by_ext {A} (f g : A -> A -> bool) x l : (forall a b, f a b = g a b) -> insert_by f x l = insert_by g x l.
Proof. intros H. induction l as [|y r IH]; simpl; [reflexivity|]. rewrite H, IH. reflexivity. Qed.
Lemma isort_ext {A} (f g : A -> A -> bool) l : (forall a b, f a b = g a b) -> isort f l = isort g l.
Proof. intros H. induction l as [|y r IH]; simpl; [reflexivity|]. rewrite IH. apply insert_by_ext. exact H. Qed.

Theorem gen_sort_accept_offers_is_model offers order :
  gen_sort_accept_offers offers order = sort_accept_offers offers order.
Proof.
  unfold gen_sort_accept_offers, sort_accept_offers. apply isort_ext. intros a b.
  rewrite !gen_offer_sort_key_is_model. reflexivity.
Qed.

(* ------------------------------------------------------------ MultiView.add (state of self threaded through) *)
Lemma media_set_set k (v w : list entry) m : media_set k v (media_set k w m) = media_set k v m.
Proof.
  induction m as [|[k' v'] m IH]; simpl.
  - rewrite text_eqb_refl. reflexivity.
  - destruct (text_eqb k k') eqn:E; simpl; [rewrite text_eqb_refl; reflexivity|]. rewrite E, IH. reflexivity.
Qed.

Lemma list_set_app {A} (p : list A) x y r :
  list_set (Z.of_nat (length p)) x (p ++ y :: r) = p ++ x :: r.
Proof.
  induction p as [|a p IH]; [reflexivity|].
  cbn [length app list_set]. destruct (Z.eqb_spec (Z.of_nat (S (length p))) 0) as [E|_]; [lia|].
  replace (Z.of_nat (S (length p)) - 1)%Z with (Z.of_nat (length p)) by lia. rewrite IH. reflexivity.
Qed.

Lemma replace_phash_cons ph new x t :
  replace_phash ph new (x :: t) =
  if text_eqb ph (e_phash x) then Some (new :: t)
  else match replace_phash ph new t with Some r' => Some (x :: r') | None => None end.
Proof. reflexivity. Qed.

Lemma len_snoc {A} (p : list A) x : Z.of_nat (length (p ++ [x])) = (Z.of_nat (length p) + 1)%Z.
Proof. rewrite app_length. simpl. lia. Qed.

Theorem gen_mv_add_is_model m v order phash accept ao :
  gen_mv_add m v order phash accept ao = mv_add m v order phash accept ao.
Proof.
  unfold gen_mv_add, mv_add.
  match goal with
  | |- ?F (mv_views m) 0%Z = _ =>
      enough (H : forall p l, mv_views m = p ++ l ->
                 F l (Z.of_nat (length p)) =
                 match replace_phash phash (order, v, phash) l with
                 | Some l' => mkMV (p ++ l') (mv_media m) (mv_accepts m)
                 | None =>
                     match accept with
                     | None => mkMV (isort entry_leb (mv_views m ++ [(order, v, phash)])) (mv_media m) (mv_accepts m)
                     | Some a =>
                         let subset := match assoc (o_full a) (mv_media m) with Some s => s | None => [] end in
                         match replace_phash phash (order, v, phash) subset with
                         | Some subset' => mkMV (mv_views m) (media_set (o_full a) subset' (mv_media m)) (mv_accepts m)
                         | None =>
                             mkMV (mv_views m)
                                  (media_set (o_full a) (isort entry_leb (subset ++ [(order, v, phash)])) (mv_media m))
                                  (sort_accept_offers (if offer_mem a (mv_accepts m) then mv_accepts m else mv_accepts m ++ [a])
                                                      (match ao with Some o => o | None => [] end))
                         end
                     end
                 end)
  end.
  { pose proof (H nil (mv_views m) eq_refl) as H0. change (Z.of_nat (length (@nil entry))) with 0%Z in H0.
    rewrite H0. destruct (replace_phash _ _ (mv_views m)); reflexivity. }
  intros p l. revert p. induction l as [|x t IH]; intros p Hp.
  - (* no entry of views has this phash *)
    cbn [replace_phash]. lazy beta iota zeta.
    destruct accept as [a|]; [|reflexivity].
    rewrite ?gen_sort_accept_offers_is_model.
    unfold media_store, media_lookup, offerset_add, opt_list_get.
    set (S0 := match assoc (o_full a) (mv_media m) with Some s => s | None => [] end).
    rewrite !media_set_set.
    match goal with
    | |- ?F2 S0 0%Z = _ =>
        enough (H2 : forall q l2, S0 = q ++ l2 ->
                   F2 l2 (Z.of_nat (length q)) =
                   match replace_phash phash (order, v, phash) l2 with
                   | Some l' => mkMV (mv_views m) (media_set (o_full a) (q ++ l') (mv_media m)) (mv_accepts m)
                   | None =>
                       mkMV (mv_views m)
                            (media_set (o_full a) (isort entry_leb (S0 ++ [(order, v, phash)])) (mv_media m))
                            (sort_accept_offers (if offer_mem a (mv_accepts m) then mv_accepts m else mv_accepts m ++ [a])
                                                (match ao with Some o => o | None => [] end))
                   end)
    end.
    { pose proof (H2 nil S0 eq_refl) as H0. change (Z.of_nat (length (@nil entry))) with 0%Z in H0.
      rewrite H0. destruct (replace_phash _ _ S0); reflexivity. }
    intros q l2. revert q. induction l2 as [|y t2 IH2]; intros q Hq.
    + reflexivity.
    + rewrite replace_phash_cons. lazy beta iota zeta.
      destruct (text_eqb phash (e_phash y)).
      * rewrite media_set_set. rewrite Hq, list_set_app. reflexivity.
      * rewrite <- (len_snoc q y). rewrite (IH2 (q ++ [y])) by (rewrite <- app_assoc; exact Hq).
        destruct (replace_phash phash (order, v, phash) t2); [rewrite <- app_assoc|]; reflexivity.
  - rewrite replace_phash_cons. lazy beta iota zeta.
    destruct (text_eqb phash (e_phash x)).
    + rewrite Hp, list_set_app. reflexivity.
    + rewrite <- (len_snoc p x). rewrite (IH (p ++ [x])) by (rewrite <- app_assoc; exact Hp).
      destruct (replace_phash phash (order, v, phash) t); [rewrite <- app_assoc|]; reflexivity.
Qed.
