(* C03 -- the program REGENERATED from the source on this run (Gen/Facts_C03_gen.v) equals the
   hand-written reference model (Model/C03.v), for all inputs; the property theorems are then
   restated about the regenerated program.

   The scripts never mention the text of the generated terms: they take the loops apart by
   pattern, do one induction per loop, case-split on the atoms of the primitive table and ask
   that both sides compute to the same result or to the induction hypothesis.  They are therefore
   insensitive to the names of locals, to nesting/order of tests, elif vs nested if, and-splitting;
   they fail as soon as some valuation of the atoms leads the regenerated program elsewhere. *)
From Coq Require Import List NArith ZArith Bool Lia.
Import ListNotations.
Require Import Verif.Lib.Wire Verif.Lib.Text Verif.Gen.Facts_C03 Verif.Model.C03 Verif.Gen.Facts_C03_gen
               Verif.Proofs.C03.

(* ------------------------------------------------------------ the __call__ of the stock predicates *)
Theorem gen_pred_xhr_is_model b rq : gen_pred_xhr b rq = eval_pred rq (PXhr b).
Proof. reflexivity. Qed.
Theorem gen_pred_request_method_is_model vals rq : gen_pred_request_method vals rq = eval_pred rq (PMethod vals).
Proof. reflexivity. Qed.
Theorem gen_pred_path_info_is_model pat rq : gen_pred_path_info pat rq = eval_pred rq (PPathInfo pat).
Proof. unfold gen_pred_path_info. cbn [eval_pred]. destruct (regex_match _ _ _); reflexivity. Qed.
Theorem gen_pred_is_authenticated_is_model b rq : gen_pred_is_authenticated b rq = eval_pred rq (PIsAuth b).
Proof. reflexivity. Qed.
Theorem gen_pred_custom_is_model i rq : gen_pred_custom i rq = eval_pred rq (PCustom i).
Proof. reflexivity. Qed.
Theorem gen_pred_physical_path_is_model val rq : gen_pred_physical_path val rq = eval_pred rq (PPhysPath val).
Proof. unfold gen_pred_physical_path. cbn [eval_pred]. destruct (q_has_name rq); reflexivity. Qed.

Theorem gen_pred_request_param_is_model reqs rq : gen_pred_request_param reqs rq = eval_pred rq (PParam reqs).
Proof.
  unfold gen_pred_request_param. cbn [eval_pred].
  induction reqs as [|[k v] l IH]; [reflexivity|]. cbn [forallb fst snd]. cbn -[assoc].
  destruct (assoc k (q_params rq)) as [actual|]; [|reflexivity].
  destruct v as [v|]; cbn; [destruct (text_eqb actual v); cbn|]; try reflexivity; apply IH.
Qed.

Theorem gen_pred_header_is_model vals rq : gen_pred_header vals rq = eval_pred rq (PHeader vals).
Proof.
  unfold gen_pred_header. cbn [eval_pred].
  induction vals as [|[n v] l IH]; [reflexivity|]. cbn [forallb fst snd]. cbn -[assoc regex_match].
  unfold header_present.
  destruct v as [pat|]; destruct (assoc n (q_headers rq)) as [value|]; cbn -[regex_match]; try reflexivity; try apply IH.
  destruct (regex_match (q_regex rq) pat value); cbn; [apply IH|reflexivity].
Qed.

Theorem gen_pred_accept_is_model values rq : gen_pred_accept values rq = eval_pred rq (PAccept values).
Proof.
  unfold gen_pred_accept, acceptable_texts. cbn [eval_pred].
  induction values as [|o l IH]; [reflexivity|]. cbn [filter existsb].
  destruct (N.ltb 0 (offer_q rq o)); [reflexivity|exact IH].
Qed.

Theorem gen_pred_containment_is_model i s rq : gen_pred_containment i rq = eval_pred rq (PContainment i s).
Proof.
  unfold gen_pred_containment, find_iface. cbn [eval_pred].
  induction (q_lineage rq) as [|loc l IH]; [reflexivity|]. cbn [find existsb].
  destruct (memN i (snd loc)); [reflexivity|exact IH].
Qed.

Theorem gen_pred_match_param_is_model reqs rq : gen_pred_match_param reqs rq = eval_pred rq (PMatchParam reqs).
Proof.
  unfold gen_pred_match_param. cbn [eval_pred].
  destruct (q_matchdict rq) as [[|e md]|]; cbn [matchdict_truthy]; try reflexivity.
  all: induction reqs as [|[k v] l IH]; [reflexivity|]; cbn [forallb fst snd matchdict_get]; cbn -[assoc];
    destruct (opt_text_eqb (assoc k (e :: md)) v); cbn; [apply IH|reflexivity].
Qed.

Theorem gen_pred_not_is_model p rq : gen_pred_not p rq = eval_pred rq (PNot p).
Proof. reflexivity. Qed.

Theorem gen_eval_pred_is_model rq p : gen_eval_pred rq p = eval_pred rq p.
Proof.
  destruct p; unfold gen_eval_pred;
    rewrite ?gen_pred_xhr_is_model, ?gen_pred_request_method_is_model, ?gen_pred_path_info_is_model,
      ?gen_pred_request_param_is_model, ?gen_pred_header_is_model, ?gen_pred_accept_is_model,
      ?(gen_pred_containment_is_model id str), ?gen_pred_match_param_is_model, ?gen_pred_physical_path_is_model,
      ?gen_pred_is_authenticated_is_model, ?gen_pred_custom_is_model, ?gen_pred_not_is_model; reflexivity.
Qed.

Lemma forallb_gen_eval rq l : forallb (fun x => gen_eval_pred rq x) l = forallb (eval_pred rq) l.
Proof. induction l as [|p l IH]; simpl; [reflexivity|]. rewrite gen_eval_pred_is_model, IH. reflexivity. Qed.

Theorem gen_checker_is_model rq v : gen_checker rq v = qualifies rq v.
Proof. unfold gen_checker, qualifies. apply forallb_gen_eval. Qed.

Theorem gen_predicate_wrapper_is_model rq v : gen_predicate_wrapper rq v = call_reg rq v.
Proof.
  unfold gen_predicate_wrapper, call_reg, qualifies.
  match goal with
  | |- ?F (r_preds v) = _ =>
      enough (H : forall l, F l = if forallb (eval_pred rq) l then Some (r_tag v) else None) by apply H
  end.
  induction l as [|p l IH]; [reflexivity|]. cbn -[gen_eval_pred]. rewrite gen_eval_pred_is_model.
  destruct (eval_pred rq p); simpl; [apply IH|reflexivity].
Qed.

Theorem gen_predicated_view_is_model v rq : gen_predicated_view v rq = call_reg rq v.
Proof.
  unfold gen_predicated_view. rewrite <- gen_predicate_wrapper_is_model.
  destruct (r_preds v) eqn:E; simpl; [|reflexivity].
  unfold gen_predicate_wrapper. rewrite E. reflexivity.
Qed.

Lemma media_get_subset m o :
  media_get m o = match assoc (o_full o) (mv_media m) with Some s => s | None => [] end.
Proof. reflexivity. Qed.

Theorem gen_get_views_is_model m rq : gen_get_views m rq = get_views m rq.
Proof.
  unfold gen_get_views, get_views.
  destruct (mv_accepts m) as [|o os] eqn:E; [reflexivity|]. cbn [nonempty_list].
  match goal with
  | |- ?F ?l0 nil = _ =>
      enough (H : forall l acc, F l acc = acc ++ flat_map (fun o => match assoc (o_full o) (mv_media m) with
                                                                     | Some s => s | None => [] end) l ++ mv_views m)
        by apply (H l0 nil)
  end.
  induction l as [|x l IH]; intros acc; simpl; [reflexivity|].
  rewrite IH. unfold media_get. rewrite <- !app_assoc. reflexivity.
Qed.

Theorem gen_mv_call_is_model m rq : gen_mv_call m rq = mv_call rq (get_views m rq).
Proof.
  unfold gen_mv_call. rewrite gen_get_views_is_model.
  induction (get_views m rq) as [|e l IH]; [reflexivity|]. simpl.
  rewrite gen_predicated_view_is_model. destruct (call_reg rq (e_view e)); [reflexivity|apply IH].
Qed.

(* MultiView.match (used by __permitted__ / __call_permissive__ / __discriminator__): the first view of
   get_views without predicates or whose checker holds *)
Definition mv_match (rq : request) (m : mview) : option reg :=
  find (qualifies rq) (map e_view (get_views m rq)).

Theorem gen_mv_match_is_model m rq : gen_mv_match m rq = mv_match rq m.
Proof.
  unfold gen_mv_match, mv_match. rewrite gen_get_views_is_model.
  induction (get_views m rq) as [|e l IH]; [reflexivity|].
  cbn -[qualifies gen_checker nonempty_list]. rewrite gen_checker_is_model.
  destruct (qualifies rq (e_view e)) eqn:Q.
  - destruct (nonempty_list _); reflexivity.
  - destruct (r_preds (e_view e)) eqn:E; cbn [nonempty_list]; [unfold qualifies in Q; rewrite E in Q; discriminate|apply IH].
Qed.

Theorem gen_call_component_is_model rq c : gen_call_component rq c = call_component rq c.
Proof.
  destruct c as [v|m]; simpl; [apply gen_predicated_view_is_model|apply gen_mv_call_is_model].
Qed.

Theorem gen_find_views_is_model R cls rsro csro name :
  gen_find_views R cls rsro csro name = find_views R cls rsro csro name.
Proof.
  unfold gen_find_views, find_views. rewrite find_view_types_ok.
  match goal with
  | |- ?F ?l0 nil = flat_map ?g ?l0 =>
      enough (H : forall l acc, F l acc = acc ++ flat_map g l) by apply (H l0 nil)
  end.
  induction l as [|[r c] l IH]; intros acc; cbn [flat_map]; [cbn; rewrite app_nil_r; reflexivity|].
  cbn -[app]. unfold registered_at. cbn [fst snd].
  destruct (R (mkSlot cls r c name) IView), (R (mkSlot cls r c name) ISecuredView),
    (R (mkSlot cls r c name) IMultiView); rewrite IH; cbn; rewrite <- ?app_assoc; reflexivity.
Qed.

Theorem gen_call_view_is_model R cls rq : gen_call_view R cls rq = call_view R cls rq.
Proof.
  unfold gen_call_view, call_view. rewrite gen_find_views_is_model.
  match goal with
  | |- ?F ?l0 None None = _ =>
      enough (H : forall l, (F l None None = call_loop rq l false) /\ (F l None (Some tt) = call_loop rq l true))
        by apply (H l0)
  end.
  induction l as [|c l [IH1 IH2]]; [split; reflexivity|].
  cbn [call_loop]. rewrite <- gen_call_component_is_model.
  split; cbn; destruct (gen_call_component rq c); try reflexivity; assumption.
Qed.

(* ------------------------------------------------------------ the property theorems, about the regenerated lookup *)
Theorem gen_lookup_winner ao regs cls rq :
  Forall reg_wf regs -> NoDup (map key regs) -> no_accept regs ->
  NoDup (q_req_sro rq) -> NoDup (q_ctx_sro rq) -> order_respects regs ->
  spec_ok cls regs rq (gen_call_view (register_all ao regs) cls rq) = true.
Proof. rewrite gen_call_view_is_model. apply lookup_winner. Qed.

Theorem gen_failing_pred_never_runs R cls rq t :
  gen_call_view R cls rq = Ran t ->
  exists x, In x (tried R cls rq) /\ qualifies rq x = true /\ r_tag x = t.
Proof. rewrite gen_call_view_is_model. apply failing_pred_never_runs. Qed.

Theorem gen_not_found_only_if_none R cls rq :
  not_found (gen_call_view R cls rq) -> forall x, In x (tried R cls rq) -> qualifies rq x = false.
Proof. rewrite gen_call_view_is_model. apply not_found_only_if_none. Qed.

(* ------------------------------------------------------------ PredicateList.make *)
Definition made_triple (m : made) : Z * list pred * text := (m_order m, m_preds m, m_phash m).

Definition kw_dels (l : list text) (kw : kwargs) : kwargs := fold_left (fun k n => kw_del n k) l kw.

Lemma assoc_kw_del k x (kw : kwargs) : k <> x -> assoc k (kw_del x kw) = assoc k kw.
Proof.
  intros Hne. unfold kw_del. induction kw as [|[k0 v0] kw IH]; simpl; [reflexivity|].
  destruct (text_eqb_spec k0 x) as [->|Hx]; simpl.
  - destruct (text_eqb_spec k x); [contradiction|exact IH].
  - destruct (text_eqb k k0); [reflexivity|exact IH].
Qed.

Lemma make_loop_kw_del l x i kw acc : ~ In x l -> make_loop l i (kw_del x kw) acc = make_loop l i kw acc.
Proof.
  revert i acc. induction l as [|n l IH]; intros i acc Hx; simpl; [reflexivity|].
  rewrite assoc_kw_del by (intros ->; apply Hx; simpl; auto).
  destruct (assoc n kw); [destruct (make_vals n i l0 acc); simpl|]; try reflexivity; apply IH; intros H; apply Hx; simpl; auto.
Qed.

Lemma kw_dels_leftover l (kw : kwargs) :
  nonempty_list (kw_dels l kw) = negb (forallb (fun e => mem_text (fst e) l) kw).
Proof.
  revert kw. induction l as [|n l IH]; intros kw; simpl.
  - destruct kw; reflexivity.
  - unfold kw_dels in *. simpl. rewrite IH. f_equal. unfold kw_del.
    induction kw as [|[k0 v0] kw IHk]; simpl; [reflexivity|].
    destruct (text_eqb k0 n); simpl; rewrite IHk; reflexivity.
Qed.

Lemma concat_snoc (ps : list pred) p :
  concat (map pred_phash (ps ++ [p])) = concat (map pred_phash ps) ++ pred_phash p.
Proof. rewrite map_app, concat_app. simpl. rewrite app_nil_r. reflexivity. Qed.

Theorem gen_make_is_model names kw :
  NoDup names -> gen_make names kw = option_map made_triple (make names kw).
Proof.
  intros Hnd. unfold gen_make, make. rewrite <- (negb_involutive (forallb _ kw)), <- kw_dels_leftover.
  match goal with
  | |- ?F names 0%Z kw nil nil nil = _ =>
      enough (H : forall l i kwc ps ws, NoDup l ->
                 F l i kwc (concat (map pred_phash ps)) ws ps =
                 match make_loop l i kwc (ps, ws) with
                 | None => None
                 | Some (ps', ws') =>
                     if nonempty_list (kw_dels l kwc) then None
                     else Some (order_of (score_of ws') (Z.of_nat (length ps')), ps', concat (map pred_phash ps'))
                 end)
  end.
  { pose proof (H names 0%Z kw nil nil Hnd) as H0. change (concat (map pred_phash nil)) with (@nil N) in H0.
    rewrite H0. destruct (nonempty_list (kw_dels names kw)); simpl.
    - destruct (make_loop names 0 kw ([], [])) as [[? ?]|]; reflexivity.
    - destruct (make_loop names 0 kw ([], [])) as [[? ?]|]; reflexivity. }
  induction l as [|name l IH]; intros i kwc ps ws Hl.
  - (* after the loop: leftover keywords, then the score loop *)
    cbn [make_loop kw_dels fold_left]. destruct (nonempty_list kwc); [reflexivity|].
    unfold score_of. rewrite score_init_eq.
    match goal with
    | |- ?G ws 0%Z = _ =>
        enough (HS : forall w s, G w s = Some (order_of (fold_left score_step w s) (Z.of_nat (length ps)), ps,
                                               concat (map pred_phash ps))) by apply HS
    end.
    induction w as [|b w IHw]; intros s; [reflexivity|]. cbn [fold_left]. rewrite <- (IHw (score_step s b)). reflexivity.
  - inversion Hl as [|? ? Hni Hl']; subst.
    cbn [make_loop]. lazy beta iota zeta; cbn [fst snd].
    destruct (assoc name kwc) as [vals|].
    2:{ rewrite (IH _ _ _ _ Hl'). rewrite make_loop_kw_del by assumption. reflexivity. }
    match goal with
    | |- ?G vals _ ws ps = _ =>
        enough (HV : forall vs ps ws,
                   G vs (concat (map pred_phash ps)) ws ps =
                   match make_vals name i vs (ps, ws) with
                   | None => None
                   | Some (ps', ws') =>
                       match make_loop l (i + 1) kwc (ps', ws') with
                       | None => None
                       | Some (ps2, ws2) =>
                           if nonempty_list (kw_dels (name :: l) kwc) then None
                           else Some (order_of (score_of ws2) (Z.of_nat (length ps2)), ps2, concat (map pred_phash ps2))
                       end
                   end)
    end.
    { rewrite HV. destruct (make_vals name i vals (ps, ws)) as [[? ?]|]; reflexivity. }
    induction vs as [|[nt v] vs IHv]; intros ps0 ws0.
    + cbn [make_vals]. rewrite (IH _ _ _ _ Hl'). rewrite make_loop_kw_del by assumption. reflexivity.
    + cbn [make_vals fst snd]. lazy beta iota zeta; cbn [fst snd].
      unfold factory_of. destruct nt; destruct (factory name v) as [p|]; cbn [obind]; try reflexivity.
      * lazy beta iota zeta; cbn [fst snd]. rewrite <- concat_snoc. apply IHv.
      * lazy beta iota zeta; cbn [fst snd]. rewrite <- concat_snoc. apply IHv.
Qed.

