(* C14 -- part 6: END-TO-END composition.  What run_C14 computes for a request -- the trace of the pipeline built from
   the REGENERATED functions with the REGENERATED constants ([code_params], [subrequest_use_tweens_default]) -- is
   accepted by the whole judge the check applies to the implementation's trace ([judge_all] = rendering judge +
   raising-site judge), for the ordinary scenarios and for the subrequest scenario.  Composition of: C14_facts_ok,
   C14_subrequest_default_ok, run_request_gen_is_model, run_request_sub_gen_is_model, judge_accepts_model_pm,
   judge_accepts_sub, judge_site_accepts_model, judge_site_accepts_sub. *)
From Coq Require Import List NArith ZArith Bool Lia.
Import ListNotations.
Require Import Verif.Lib.Wire Verif.Gen.Facts_C03 Verif.Model.C03 Verif.Proofs.C03 Verif.Gen.Facts_C14 Verif.Model.C14
               Verif.Proofs.C14 Verif.Proofs.C14_b Verif.Proofs.C14_c Verif.Proofs.C14_d Verif.Proofs.C14_gen
               Verif.Proofs.C14_e.

(* the trace run_C14 computes for one request ([sub]: the subrequest scenario with use_tweens as passed) *)
Definition model_trace (W : world) (ri : rinfo) (sub : option (option bool)) : list event :=
  match sub with
  | Some ut => run_request_sub_gen code_params W ri (sub_tweens subrequest_use_tweens_default ut)
  | None => run_request_gen code_params W ri
  end.

Theorem model_trace_judged regs W ri sub :
  no_pm code_params W ->
  match sub with
  | Some _ => sec_of (ri_under ri) = true
  | None => permissive_checks_predicates = true \/ sec_of (ri_under ri) = true
  end ->
  (forall e, spec_ok exc_classifier_id regs (exc_request code_params W ri e)
               (call_view (w_reg W) exc_classifier_id (exc_request code_params W ri e)) = true) ->
  isa W cn_Exception ctx_resource = false ->
  (forall site, In site [site_under; site_tween] ->
     isa W cn_HTTPNotFound (fresh_nf site) = true /\ isa W cn_HTTPNotFound (fresh_pme site) = true
     /\ isa W cn_Exception (fresh_pme site) = true
     /\ isa W cn_HTTPForbidden (fresh_forb site) = true /\ isa W cn_Exception (fresh_forb site) = true
     /\ isa W cn_HTTPNotFound (fresh_forb site) = false) ->
  judge_all false regs W ri sub (model_trace W ri sub) = true.
Proof.
  unfold model_trace, judge_all. rewrite facts_ok, subrequest_default_ok.
  intros Hno Hsec Hlook Hres Hfresh.
  change (judge_gen false) with judge.
  destruct sub as [ut|].
  - rewrite run_request_sub_gen_is_model.
    rewrite (judge_accepts_sub _ regs W ri Hno Hlook Hfresh Hsec).
    rewrite judge_site_accepts_sub. reflexivity.
  - rewrite (gen_judge_accepts _ regs W ri Hno Hsec Hlook Hres Hfresh).
    rewrite (gen_judge_site_accepts _ W ri Hres). reflexivity.
Qed.

(* the subrequest theorem without the premise on the tween program: in the subrequest scenario the outer request is
   never dispatched itself -- its program is [URaise] by construction (Model/C14.v get_rinfo_s) *)
Theorem judge_accepts_sub_outer b regs W ri e0 pre tweens :
  no_pm (spec_params_b b) W ->
  (forall e, spec_ok exc_classifier_id regs (exc_request (spec_params_b b) W (set_under ri (URaise e0) pre) e)
               (call_view (w_reg W) exc_classifier_id (exc_request (spec_params_b b) W (set_under ri (URaise e0) pre) e)) = true) ->
  (forall site, In site [site_under; site_tween] ->
     isa W cn_HTTPNotFound (fresh_nf site) = true /\ isa W cn_HTTPNotFound (fresh_pme site) = true
     /\ isa W cn_Exception (fresh_pme site) = true
     /\ isa W cn_HTTPForbidden (fresh_forb site) = true /\ isa W cn_Exception (fresh_forb site) = true
     /\ isa W cn_HTTPNotFound (fresh_forb site) = false) ->
  judge regs W (set_under ri (URaise e0) pre)
        (run_request_sub_m (spec_params_b b) W (set_under ri (URaise e0) pre) tweens) = true.
Proof. intros Hno Hlook Hfresh. apply judge_accepts_sub; try assumption. reflexivity. Qed.

(* non-vacuity of [model_trace_judged]: the world and subrequest of judge_accepts_sub_nonvacuous, both scenarios *)
Example model_trace_judged_nonvacuous :
  no_pm code_params ex_W
  /\ sec_of (ri_under sx2_ri) = true
  /\ (forall e, spec_ok exc_classifier_id ex_regs14 (exc_request code_params ex_W sx2_ri e)
                  (call_view (w_reg ex_W) exc_classifier_id (exc_request code_params ex_W sx2_ri e)) = true)
  /\ judge_all false ex_regs14 ex_W sx2_ri (Some None) (model_trace ex_W sx2_ri (Some None)) = true
  /\ judge_all false ex_regs14 ex_W ex_ri None (model_trace ex_W ex_ri None) = true.
Proof.
  destruct judge_accepts_sub_nonvacuous as [H1 [H2 [H3 _]]].
  rewrite facts_ok. change (spec_params_b permissive_checks_predicates) with spec_params.
  split; [exact H1|]. split; [exact H3|]. split; [exact H2|].
  split; vm_compute; reflexivity.
Qed.
