(* C17 -- round 5: the helpers themselves (route_url, current_route_url, static_url) and the function forms of
   pyramid.url, REGENERATED from the source on this run (Gen/Code_C17.v), equal the reference model.  As in
   Proofs/C17_gen.v the scripts never mention the generated text: unfold, split on the inputs' constructors and on
   every scrutinee that is left, normalise ++. *)
From Coq Require Import List NArith ZArith Bool Lia.
Import ListNotations.
Require Import Verif.Lib.Wire Verif.Lib.Text Verif.Lib.Utf8 Verif.Lib.Percent
               Verif.Gen.Facts_C17 Verif.Model.C17 Verif.Model.C17_glue Verif.Gen.Code_C17 Verif.Proofs.C17 Verif.Proofs.C17_gen
               Verif.Proofs.C17_total.
Open Scope N_scope.

Ltac res_cases :=
  repeat match goal with
         | |- context [rbind ?r _] =>
             lazymatch r with
             | Ok _ => fail
             | Err _ => fail
             | _ => destruct r; cbn [rbind]
             end
         | |- context [match ?x with _ => _ end] => is_var x; destruct x
         | |- context [if ?c then _ else _] =>
             lazymatch c with
             | context [if _ then _ else _] => fail
             | true => fail
             | false => fail
             | _ => destruct c eqn:?
             end
         | |- context [let '(_, _) := ?p in _] => is_var p; destruct p
         end.

Ltac fin_route c p kw els :=
  repeat match goal with
         | |- context [parse_url_overrides ?e ?o] => destruct (parse_url_overrides e o) as [[[? ?] ?]|]; cbn [rbind fst snd]
         end;
  try reflexivity;
  destruct (generate p kw) as [path|]; cbn [rbind]; [|reflexivity];
  destruct els as [|x0 els]; cbn [rbind]; [rewrite ?app_nil_r, <- ?app_assoc; reflexivity|];
  destruct (join_elements_c c (x0 :: els)); destruct (endswith_char 47 path); cbn [rbind app];
  rewrite <- ?app_assoc; reflexivity.

Theorem gen_route_url_is_model c e xs rs n els o kw :
  gen_route_url c e xs rs n els o kw = route_url_x c e xs rs n els o kw.
Proof.
  unfold gen_route_url, route_url_x, route_url, c17_ext_pregen, c17_ext_of, c17_route_of, c17_els_truthy.
  destruct (assoc n rs) as [p|]; cbn [onone negb]; [|destruct (assoc n xs); reflexivity].
  destruct (assoc n xs) as [x|]; cbn [onone negb rbind]; [destruct (o_app_url o); cbn [rbind]; [reflexivity|]|];
    fin_route c p kw els.
Qed.

Theorem gen_current_route_url_is_model c e xs rs rname matched md gt els o kw :
  gen_current_route_url c e xs rs rname matched md gt els o kw = current_route_url_x c e xs rs rname matched md gt els o kw.
Proof.
  unfold gen_current_route_url, current_route_url_x.
  destruct rname, matched, (o_query o); reflexivity.
Qed.

Theorem gen_static_url_is_model e rs regs path o kw : gen_static_url e rs regs path o kw = static_url_x e rs regs path o kw.
Proof. unfold gen_static_url, c17_static_generate, c17_no_static_info. destruct regs; reflexivity. Qed.

(* the function forms pyramid.url.route_url(route_name, request, ..) .. delegate to the method of the same name *)
Theorem gen_fn_route_url_is_model c e xs rs n els o kw : gen_fn_route_url c e xs rs n els o kw = route_url_x c e xs rs n els o kw.
Proof. reflexivity. Qed.
Theorem gen_fn_route_path_is_model c e xs rs n els o kw : gen_fn_route_path c e xs rs n els o kw = route_path_x c e xs rs n els o kw.
Proof. reflexivity. Qed.
Theorem gen_fn_resource_url_is_model c e rs names els o vroot rn :
  gen_fn_resource_url c e rs names els o vroot rn = resource_url_x c e rs names els o vroot rn.
Proof. reflexivity. Qed.
Theorem gen_fn_static_url_is_model e rs regs path o kw : gen_fn_static_url e rs regs path o kw = static_url_x e rs regs path o kw.
Proof. reflexivity. Qed.
Theorem gen_fn_static_path_is_model e rs regs path o kw : gen_fn_static_path e rs regs path o kw = static_path_x e rs regs path o kw.
Proof. reflexivity. Qed.
Theorem gen_fn_current_route_url_is_model c e xs rs rname matched md gt els o kw :
  gen_fn_current_route_url c e xs rs rname matched md gt els o kw = current_route_url_x c e xs rs rname matched md gt els o kw.
Proof. reflexivity. Qed.
Theorem gen_fn_current_route_path_is_model c e xs rs rname matched md gt els o kw :
  gen_fn_current_route_path c e xs rs rname matched md gt els o kw = current_route_path_x c e xs rs rname matched md gt els o kw.
Proof. reflexivity. Qed.

(* the pregenerator closure of add_route for a route whose pattern is a full URL: an _app_url of the caller is refused,
   otherwise _app_url := (_scheme, else the pattern's scheme, else the request's) :// (the pattern's netloc) *)
Theorem gen_ext_pregen_is_model e els o x : c17_ext_wf x -> gen_ext_pregen e els o x = c17_ext_pregen e o x.
Proof.
  unfold gen_ext_pregen, c17_ext_pregen, c17_ext_wf, c17_ext_scheme, ext_app_url. intros Hx.
  destruct x as [[s|] nl]; cbn [fst snd oget] in *;
    destruct (o_app_url o), (o_scheme o); cbn [onone oget ttruthy]; rewrite <- ?app_assoc; try reflexivity.
  all: destruct s; [exfalso; apply Hx; reflexivity|]; cbn [ttruthy]; reflexivity.
Qed.

(* the three rules of the scheme of an external route's URL, about the regenerated closure *)
Theorem gen_ext_pregen_scheme_precedence e els o x o' :
  c17_ext_wf x -> gen_ext_pregen e els o x = Ok o' ->
  o_app_url o = None
  /\ o_app_url o' = Some ((match o_scheme o with
                           | Some s => s
                           | None => match fst x with Some s => s | None => e_scheme e end
                           end) ++ [58; 47; 47] ++ snd x)
  /\ o_scheme o' = o_scheme o /\ o_host o' = o_host o /\ o_port o' = o_port o
  /\ o_query o' = o_query o /\ o_anchor o' = o_anchor o.
Proof.
  intros Hx H. rewrite gen_ext_pregen_is_model in H by assumption. unfold c17_ext_pregen in H.
  destruct (o_app_url o) eqn:E; [discriminate|]. inversion H; subst. cbn. repeat split; reflexivity.
Qed.

(* route_url as regenerated, on an external route: the result starts with the application URL the regenerated closure chose *)
Theorem gen_route_url_external c e xs rs n els o kw x u :
  assoc n xs = Some x -> gen_route_url c e xs rs n els o kw = Ok u ->
  o_app_url o = None /\ exists rest, u = ext_app_url e o x ++ rest.
Proof. rewrite gen_route_url_is_model. apply external_route_authority. Qed.

Theorem gen_fn_forms_are_model :
  (forall c e xs rs n els o kw, gen_fn_route_url c e xs rs n els o kw = route_url_x c e xs rs n els o kw)
  /\ (forall c e xs rs n els o kw, gen_fn_route_path c e xs rs n els o kw = route_path_x c e xs rs n els o kw)
  /\ (forall c e rs names els o vroot rn, gen_fn_resource_url c e rs names els o vroot rn = resource_url_x c e rs names els o vroot rn)
  /\ (forall e rs regs path o kw, gen_fn_static_url e rs regs path o kw = static_url_x e rs regs path o kw)
  /\ (forall e rs regs path o kw, gen_fn_static_path e rs regs path o kw = static_path_x e rs regs path o kw)
  /\ (forall c e xs rs rname matched md gt els o kw,
        gen_fn_current_route_url c e xs rs rname matched md gt els o kw = current_route_url_x c e xs rs rname matched md gt els o kw)
  /\ (forall c e xs rs rname matched md gt els o kw,
        gen_fn_current_route_path c e xs rs rname matched md gt els o kw = current_route_path_x c e xs rs rname matched md gt els o kw).
Proof.
  repeat split; intros;
    first [apply gen_fn_route_url_is_model | apply gen_fn_route_path_is_model | apply gen_fn_resource_url_is_model
          | apply gen_fn_static_url_is_model | apply gen_fn_static_path_is_model | apply gen_fn_current_route_url_is_model
          | apply gen_fn_current_route_path_is_model].
Qed.

(* the property theorems, about route_url as regenerated *)
Theorem gen_route_url_decodes c e xs rs n els o kw u :
  assoc n xs = None ->
  wf_query (o_query o) -> wf_anchor (o_anchor o) ->
  join_elements_c c els = join_elements els ->
  gen_route_url c e xs rs n els o kw = Ok u ->
  exists app path sfx qt f,
    parse_app e o = Ok app
    /\ Forall pc (path ++ sfx) /\ Forall qc qt /\ Forall qc f
    /\ (~ In 35 app -> ~ In 63 app -> cut_ref u = (app ++ path ++ sfx, qt, f))
    /\ query_decodes (o_query o) qt
    /\ (forall t, spec_anchor (o_anchor o) = Some t -> unquote_text f = Some t)
    /\ (els <> [] -> exists s ts, (sfx = s \/ sfx = 47 :: s)
                                  /\ spec_elements els = Some ts /\ decode_segments s = Some ts).
Proof.
  intros Hx Hq Ha Hc H. rewrite gen_route_url_is_model, route_url_x_plain in H by assumption.
  exact (route_url_decodes _ _ _ _ _ _ _ _ Hq Ha Hc H).
Qed.

Theorem gen_route_url_pct c e xs rs n els o kw u :
  assoc n xs = None ->
  wf_query (o_query o) -> wf_anchor (o_anchor o) ->
  join_elements_c c els = join_elements els ->
  gen_route_url c e xs rs n els o kw = Ok u ->
  exists app rest, parse_app e o = Ok app /\ u = app ++ rest /\ pct_ok rest = true.
Proof.
  intros Hx Hq Ha Hc H. rewrite gen_route_url_is_model, route_url_x_plain in H by assumption.
  exact (route_url_pct _ _ _ _ _ _ _ _ Hq Ha Hc H).
Qed.

Theorem gen_route_url_total c e xs rs n els o kw :
  assoc n xs = None -> must_route e rs n els o kw = true -> exists u, gen_route_url c e xs rs n els o kw = Ok u.
Proof. intros Hx H. rewrite gen_route_url_is_model, route_url_x_plain by assumption. apply route_url_total, H. Qed.
