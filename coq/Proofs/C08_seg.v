(* C08 -- executions that are NOT one sorted commit: traces and intermediate commits.

   trace_permutation_invariant: the scheduling theorem of Proofs/C08.v restated for ARBITRARY execution orders
   (traces) T, T' of the same statements -- not only for stable sorts by phase: if in both traces nobody
   overwrites what an earlier statement read (okL), they keep the member order of every ordered container and
   the statements obey H1 / H2, both end in the same store.

   segmented_commit_invariant / closed_prefix_commit_equiv: a program issued as  a ; commit() ; b ; commit()
   (each commit executing its own statements sorted by phase) ends in the store of the single commit of a ++ b
   whenever the prefix is CLOSED (no statement of b writes a key a statement of a reads) and the ordered
   containers see a's members first -- which holds as soon as the members of one ordered container share a phase.
   This is the theorem behind the harness's intermediate-commit variants (prop.closed_prefix). *)
From Coq Require Import List NArith ZArith Bool Lia Permutation Sorted.
Import ListNotations.
Require Import Verif.Lib.Wire Verif.Lib.C04Sort Verif.Gen.Facts_C08 Verif.Model.C04 Verif.Model.C08.
Require Import Verif.Proofs.C08.

(* ------------------------------------------------------------------ hypotheses only look at membership *)
Lemma H1_incl l l' : (forall x, In x l' -> In x l) -> H1 l -> H1 l'.
Proof. intros Hi H a b k Ha Hb. apply H; apply Hi; assumption. Qed.

Lemma okL_app A B :
  okL A -> okL B -> (forall s r s', In s A -> In r (sreads s) -> In s' B -> writes r s' = false) -> okL (A ++ B).
Proof.
  induction A as [|a A IH]; intros HA HB Hc; cbn [app]; [exact HB|].
  cbn [okL] in *. destruct HA as [Ha HA]. split.
  - intros r s' Hr Hs'. destruct Hs' as [<-|Hs'].
    + apply (Ha r a Hr). left. reflexivity.
    + apply in_app_or in Hs'. destruct Hs' as [Hs'|Hs'].
      * apply (Ha r s' Hr). right. exact Hs'.
      * apply (Hc a r s'); [left; reflexivity|exact Hr|exact Hs'].
  - apply IH; [exact HA|exact HB|]. intros s r s' Hs Hr Hs'. apply (Hc s r s'); [right; exact Hs|exact Hr|exact Hs'].
Qed.

(* ------------------------------------------------------------------ the writers of one key, along a trace *)
Lemma writers_comb_eq_trace T T' k G :
  NoDup (map sid T) -> Permutation T T' -> Horder T T' -> H1 T ->
  comb G (filter (writes k) T) [] = comb G (filter (writes k) T') [].
Proof.
  intros Hnd P Ho H.
  pose proof (filter_perm (writes k) T T' P) as PW.
  destruct (writers_class T k Hnd H) as [Hlen|[Hseq|[Hacc HndA]]].
  - assert (E : filter (writes k) T = filter (writes k) T'); [|rewrite E; reflexivity].
    destruct (filter (writes k) T) as [|x [|y R]].
    + symmetry. apply Permutation_nil. exact PW.
    + symmetry. apply Permutation_length_1_inv. exact PW.
    + cbn [length] in Hlen. lia.
  - assert (E : filter (writes k) T = filter (writes k) T'); [|rewrite E; reflexivity].
    assert (Hs : forall m, (forall s, In s m -> In s T) -> filter (writes k) m = filter (seq_writer k) m).
    { intros m Hm. apply filter_ext_in. intros s Hsm. unfold seq_writer.
      destruct (writes k s) eqn:Wr; [|rewrite andb_false_r; reflexivity].
      unfold is_seq. rewrite (Hseq s); [reflexivity|]. apply filter_In. split; [apply Hm; exact Hsm|exact Wr]. }
    rewrite (Hs T) by auto.
    rewrite (Hs T') by (intros s; apply Permutation_in; symmetry; exact P).
    apply Ho.
  - apply comb_acc_eq; [exact Hacc|exact HndA|exact PW].
Qed.

Lemma key_step_trace T T' k :
  NoDup (map sid T) -> Permutation T T' -> Horder T T' -> H1 T -> okL T -> okL T' ->
  (forall s r, In s T -> writes k s = true -> In r (sreads s) -> runl T empty r = runl T' empty r) ->
  runl T empty k = runl T' empty k.
Proof.
  intros Hnd P Ho h1 ok ok' Hr.
  rewrite (runl_char T empty ok k), (runl_char T' empty ok' k).
  change (empty k) with (@nil (N * value)).
  rewrite <- (writers_comb_eq_trace T T' k (runl T' empty) Hnd P Ho h1).
  apply comb_ext. intros s r Hs Hrd. apply (proj1 (filter_In _ _ _)) in Hs. destruct Hs as [Hs Hw].
  apply (Hr s r); assumption.
Qed.

Theorem trace_permutation_invariant : forall T T',
  NoDup (map sid T) -> Permutation T T' -> Horder T T' -> H1 T -> H2 T -> okL T -> okL T' ->
  store_eq (runl T empty) (runl T' empty).
Proof.
  intros T T' Hnd P Ho h1 h2 ok ok'.
  destruct (phase_bounds T) as [b [B Hb]].
  assert (Hn : forall n k, (forall s, In s T -> writes k s = true -> (sphase s < b + Z.of_nat n)%Z) ->
                           runl T empty k = runl T' empty k).
  { induction n as [|n IH]; intros k Hk; apply (key_step_trace T T' k Hnd P Ho h1 ok ok'); intros s r Hs Hw Hrd.
    - exfalso. specialize (Hk s Hs Hw). specialize (Hb s Hs). lia.
    - apply IH. intros s' Hs' Hw'. specialize (h2 s s' r Hs Hs' Hrd Hw'). specialize (Hk s Hs Hw). lia. }
  intros k. apply (Hn (Z.to_nat (B - b))). intros s Hs _. specialize (Hb s Hs). lia.
Qed.

(* ------------------------------------------------------------------ two commits *)
Definition closed_prefix (a b : list stmt) : Prop :=
  forall s r s', In s a -> In r (sreads s) -> In s' b -> writes r s' = false.

Lemma closed_prefixb_sound a b : closed_prefixb a b = true -> closed_prefix a b.
Proof.
  unfold closed_prefixb. intros H s r s' Hs Hr Hs'.
  rewrite forallb_forall in H. specialize (H s Hs).
  rewrite forallb_forall in H. specialize (H r Hr).
  rewrite forallb_forall in H. specialize (H s' Hs').
  apply negb_true_iff. exact H.
Qed.

(* the store after  a ; commit ; b ; commit *)
Definition final2 (a b : list stmt) : store := runl (schedule b) (runl (schedule a) empty).

Theorem segmented_commit_invariant : forall a b,
  NoDup (map sid (a ++ b)) -> H1 (a ++ b) -> H2 (a ++ b) -> closed_prefix a b ->
  (forall k, filter (seq_writer k) (schedule a ++ schedule b) = filter (seq_writer k) (schedule (a ++ b))) ->
  store_eq (final2 a b) (final (a ++ b)).
Proof.
  intros a b Hnd h1 h2 Hc Ho. unfold final2, final. rewrite <- runl_app.
  assert (P : Permutation (schedule a ++ schedule b) (schedule (a ++ b))).
  { unfold schedule. rewrite !sort_perm. reflexivity. }
  assert (Hin : forall x, In x (schedule a ++ schedule b) -> In x (a ++ b)).
  { intros x Hx. apply in_or_app. apply in_app_or in Hx. destruct Hx as [Hx|Hx]; apply (proj1 (schedule_In _ _)) in Hx; [left|right]; exact Hx. }
  apply trace_permutation_invariant.
  - apply (Permutation_NoDup (l := map sid (a ++ b))); [|exact Hnd].
    apply Permutation_map. symmetry. rewrite P. unfold schedule. apply sort_perm.
  - exact P.
  - exact Ho.
  - exact (H1_incl _ _ Hin h1).
  - exact (H2_incl _ _ Hin h2).
  - apply okL_app.
    + apply schedule_okL. eapply H2_incl; [|exact h2]. intros x Hx. apply in_or_app. left. exact Hx.
    + apply schedule_okL. eapply H2_incl; [|exact h2]. intros x Hx. apply in_or_app. right. exact Hx.
    + intros s r s' Hs Hr Hs'. apply (Hc s r s'); [apply (proj1 (schedule_In _ _)); exact Hs|exact Hr|apply (proj1 (schedule_In _ _)); exact Hs'].
  - apply schedule_okL. exact h2.
Qed.

(* sufficient for the order hypothesis: the members of one ordered container share a phase (true of the table:
   routes, subscribers, tweens, static registrations in the default phase; predicates, derivers, accept order in PHASE1) *)
Definition seq_same_phase (l : list stmt) : Prop :=
  forall k s s', In s l -> In s' l -> seq_writer k s = true -> seq_writer k s' = true -> sphase s = sphase s'.

Lemma sort_all_le {A} (leb : A -> A -> bool) l :
  (forall x y, In x l -> In y l -> leb x y = true) -> sort leb l = l.
Proof.
  induction l as [|x r IH]; intros H; cbn [sort]; [reflexivity|].
  rewrite IH by (intros u v Hu Hv; apply H; right; assumption).
  destruct r as [|y r']; [reflexivity|]. cbn [insert].
  rewrite (H x y); [reflexivity|left; reflexivity|right; left; reflexivity].
Qed.

Lemma schedule_same_phase l : (forall x y, In x l -> In y l -> sphase x = sphase y) -> schedule l = l.
Proof.
  intros H. unfold schedule. apply sort_all_le. intros x y Hx Hy. unfold phase_leb. rewrite (H x y Hx Hy). apply Z.leb_refl.
Qed.

Lemma seq_order_of_same_phase a b : seq_same_phase (a ++ b) ->
  forall k, filter (seq_writer k) (schedule a ++ schedule b) = filter (seq_writer k) (schedule (a ++ b)).
Proof.
  intros H k. rewrite filter_app, !schedule_filter, filter_app.
  assert (E : forall m, (forall x, In x m -> In x (a ++ b)) ->
                        schedule (filter (seq_writer k) m) = filter (seq_writer k) m).
  { intros m Hm. apply schedule_same_phase. intros x y Hx Hy.
    apply filter_In in Hx. apply filter_In in Hy. destruct Hx as [Hx Wx]. destruct Hy as [Hy Wy].
    apply (H k x y); auto. }
  rewrite (E a) by (intros x Hx; apply in_or_app; left; exact Hx).
  rewrite (E b) by (intros x Hx; apply in_or_app; right; exact Hx).
  rewrite <- filter_app. symmetry. apply E. auto.
Qed.

Theorem closed_prefix_commit_equiv : forall a b,
  NoDup (map sid (a ++ b)) -> H1 (a ++ b) -> H2 (a ++ b) -> closed_prefix a b -> seq_same_phase (a ++ b) ->
  store_eq (final2 a b) (final (a ++ b)).
Proof.
  intros a b Hnd h1 h2 Hc Hs. apply segmented_commit_invariant; try assumption.
  apply seq_order_of_same_phase. exact Hs.
Qed.

(* any two ways of issuing the program -- one commit or two, any order inside the segments that keeps the
   ordered containers, any closed cut -- end in the same store *)
Theorem segmented_variants_agree : forall a b l',
  NoDup (map sid (a ++ b)) -> H1 (a ++ b) -> H2 (a ++ b) -> closed_prefix a b -> seq_same_phase (a ++ b) ->
  Permutation (a ++ b) l' -> Horder (a ++ b) l' ->
  store_eq (final2 a b) (final l').
Proof.
  intros a b l' Hnd h1 h2 Hc Hs P Ho k.
  rewrite (closed_prefix_commit_equiv a b Hnd h1 h2 Hc Hs k).
  apply (commit_permutation_invariant (a ++ b) l' Hnd P Ho h1 h2).
Qed.

(* ------------------------------------------------------------------ ... which the regenerated table guarantees *)
Definition seq_row (f : N) (r : row) : bool := existsb (fun w => N.eqb (fst w) f && N.eqb (snd w) 1) (rwrites r).
Definition seq_writers_fam (f : N) : list row := filter (seq_row f) rows.
Definition fam_seq_same_phase (f : N) : bool :=
  match seq_writers_fam f with
  | [] => true
  | r0 :: rs => forallb (fun r => Z.eqb (rphase r) (rphase r0)) rs
  end.
Definition table_seq_ok : bool := forallb (fun r => forallb (fun w => fam_seq_same_phase (fst w)) (rwrites r)) rows.

Lemma table_seq_ok_holds : table_seq_ok = true.
Proof. vm_compute. reflexivity. Qed.

Lemma fam_seq_phase f r r' : fam_seq_same_phase f = true -> In r (seq_writers_fam f) -> In r' (seq_writers_fam f) ->
  rphase r = rphase r'.
Proof.
  unfold fam_seq_same_phase. destruct (seq_writers_fam f) as [|r0 rs]; intros H Hr Hr'; [destruct Hr|].
  rewrite forallb_forall in H.
  assert (E : forall x, In x (r0 :: rs) -> rphase x = rphase r0).
  { intros x [<-|Hx]; [reflexivity|]. apply Z.eqb_eq. apply H. exact Hx. }
  rewrite (E r Hr), (E r' Hr'). reflexivity.
Qed.

Lemma conforms_seq_row r s k : conforms r s = true -> seq_writer k s = true ->
  seq_row (fam_of k) r = true /\ sphase s = rphase r /\ exists w, In w (rwrites r) /\ fst w = fam_of k.
Proof.
  intros C W. unfold conforms in C.
  apply andb_prop in C. destruct C as [C Wr]. apply andb_prop in C. destruct C as [Ph _].
  unfold seq_writer in W. apply andb_prop in W. destruct W as [Sq Wk].
  unfold is_seq in Sq. destruct (smode s) eqn:M; try discriminate.
  rewrite forallb_forall in Wr. specialize (Wr k (proj1 (memN_In _ _) Wk)). cbn [mode_code] in Wr.
  split; [exact Wr|]. split; [apply Z.eqb_eq; exact Ph|].
  apply existsb_exists in Wr. destruct Wr as [w [Hw E]]. apply andb_prop in E. destruct E as [E _].
  exists w. split; [exact Hw|]. apply N.eqb_eq. exact E.
Qed.

Theorem table_seq_same_phase : table_seq_ok = true -> forall (l : list (row * stmt)),
  (forall p, In p l -> In (fst p) rows /\ conforms (fst p) (snd p) = true) -> seq_same_phase (map snd l).
Proof.
  intros T l Hl k s s' Hs Hs' W W'.
  apply in_map_iff in Hs. destruct Hs as [[r a'] [Ea Ha]]. cbn [snd] in Ea. subst a'.
  apply in_map_iff in Hs'. destruct Hs' as [[r' b'] [Eb Hb]]. cbn [snd] in Eb. subst b'.
  destruct (Hl _ Ha) as [Rr Ca]. destruct (Hl _ Hb) as [Rr' Cb]. cbn [fst snd] in Rr, Ca, Rr', Cb.
  destruct (conforms_seq_row r s k Ca W) as [Sr [Ps [w [Hw Ew]]]].
  destruct (conforms_seq_row r' s' k Cb W') as [Sr' [Ps' _]].
  rewrite Ps, Ps'.
  apply (fam_seq_phase (fam_of k)).
  - unfold table_seq_ok in T. rewrite forallb_forall in T. specialize (T r Rr).
    rewrite forallb_forall in T. specialize (T w Hw). rewrite Ew in T. exact T.
  - apply filter_In. split; assumption.
  - apply filter_In. split; assumption.
Qed.

(* programs made of rows of the regenerated table: two commits after a closed prefix = one commit *)
Theorem table_programs_segmented : forall (a b : list (row * stmt)),
  (forall p, In p (a ++ b) -> In (fst p) rows /\ conforms (fst p) (snd p) = true) ->
  NoDup (map sid (map snd a ++ map snd b)) -> H1 (map snd a ++ map snd b) -> closed_prefix (map snd a) (map snd b) ->
  store_eq (final2 (map snd a) (map snd b)) (final (map snd a ++ map snd b)).
Proof.
  intros a b Hl Hnd h1 Hc.
  assert (h2 : H2 (map snd a ++ map snd b)) by (rewrite <- map_app; apply table_programs_H2; exact Hl).
  assert (hs : seq_same_phase (map snd a ++ map snd b))
    by (rewrite <- map_app; apply (table_seq_same_phase table_seq_ok_holds); exact Hl).
  apply closed_prefix_commit_equiv; assumption.
Qed.

(* the closedness hypothesis is needed: a reader committed before its (lower-phase) writer is even declared *)
Module SegEx.
  Definition wr : stmt := mkS 1 (-20) MSet 0 [] [7%N].          (* e.g. set_default_permission *)
  Definition rd : stmt := mkS 2 0 MAcc 5 [7%N] [9%N].            (* a view reading it *)
  Definition other : stmt := mkS 3 0 MSeq 0 [] [11%N].           (* a route *)

  (* closed cut {wr, rd} | {other}: two commits = one commit *)
  Example closed_cut_ok :
    closed_prefix [rd; wr] [other] /\
    final2 [rd; wr] [other] 9%N = final [rd; wr; other] 9%N /\ final2 [rd; wr] [other] 9%N <> [].
  Proof.
    split; [|split].
    - intros s r s' Hs Hr Hs'. destruct Hs' as [<-|[]]. destruct Hs as [<-|[<-|[]]]; cbn in Hr.
      + destruct Hr as [<-|[]]. reflexivity.
      + destruct Hr.
    - vm_compute. reflexivity.
    - vm_compute. discriminate.
  Qed.

  (* open cut {rd} | {wr}: the view is committed before the permission exists -- a different store *)
  Example open_cut_differs :
    ~ closed_prefix [rd] [wr] /\ final2 [rd] [wr] 9%N <> final [rd; wr] 9%N.
  Proof.
    split.
    - intros H. specialize (H rd 7%N wr (or_introl eq_refl) (or_introl eq_refl) (or_introl eq_refl)). vm_compute in H. discriminate.
    - vm_compute. discriminate.
  Qed.

  Example hypotheses_satisfiable :
    NoDup (map sid ([rd; wr] ++ [other])) /\ h1b ([rd; wr] ++ [other]) = true /\ h2b ([rd; wr] ++ [other]) = true.
  Proof. split; [repeat constructor; cbn; intuition discriminate|split; vm_compute; reflexivity]. Qed.
End SegEx.
