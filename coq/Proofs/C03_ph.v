(* C03: the predicate hash -- what equal phashes mean (finding C03-phash-collision), predicates with
   an empty phash, and stability of ties in a MultiView *)
From Coq Require Import List NArith ZArith Bool Lia Sorting.Sorted Sorting.Permutation.
Import ListNotations.
Require Import Verif.Lib.Wire Verif.Lib.Text Verif.Gen.Facts_C03 Verif.Model.C03 Verif.Proofs.C03 Verif.Proofs.C03_w.

(* ------------------------------------------------------------------ *)
(* with the digest modelled as injective, two predicate lists hash alike exactly when the
   concatenations of their texts are equal -- not when the lists (or the lists of texts) are *)
Theorem phash_equal_iff names kw1 kw2 m1 m2 :
  make names kw1 = Some m1 -> make names kw2 = Some m2 ->
  (m_phash m1 = m_phash m2 <->
   concat (map pred_phash (m_preds m1)) = concat (map pred_phash (m_preds m2))).
Proof.
  intros H1 H2. destruct (make_spec _ _ _ H1) as (_ & E1 & _). destruct (make_spec _ _ _ H2) as (_ & E2 & _).
  rewrite E1, E2. reflexivity.
Qed.

(* the refutation of "equal phash => same predicates": request_param='aheader b' against
   request_param='a', header='b' *)
Definition t_a : text := [97]%N.
Definition t_b : text := [98]%N.
Definition t_aheaderb : text := [97; 104; 101; 97; 100; 101; 114; 32; 98]%N.
Definition col_a1 : view_args := mkArgs 1 5 [] [(nm_request_param, [(false, VText t_aheaderb)])] None false 1.
Definition col_a2 : view_args :=
  mkArgs 1 5 [] [(nm_request_param, [(false, VText t_a)]); (nm_header, [(false, VText t_b)])] None false 2.
Definition col_regs : list reg :=
  Eval vm_compute in somes [reg_of_args pred_names view_classifier col_a1;
                            reg_of_args pred_names view_classifier col_a2].
Definition col_rq : request :=
  mkReq rm_get [(t_aheaderb, [118]%N)] [] false None false [47%N] [] true [] [] [] [1; 0]%N [5; 0]%N [].

Theorem phash_collision_refuted :
  exists v1 v2,
    col_regs = [v1; v2] /\ Forall (made_by pred_names) col_regs
    /\ r_phash v1 = r_phash v2                                   (* equal digests *)
    /\ map pred_phash (r_preds v1) <> map pred_phash (r_preds v2)  (* different predicate texts *)
    /\ r_order v1 <> r_order v2
    /\ qualifies col_rq v1 = true /\ qualifies col_rq v2 = false
    (* registered one after the other, the second replaces the first: Not Found although v1 qualifies *)
    /\ call_view (register_all accept_order_default col_regs) view_classifier col_rq = NotFoundPme
    /\ map r_tag (spec_winners view_classifier col_regs col_rq) = [1%N].
Proof.
  unfold col_regs. eexists _, _. split; [reflexivity|].
  split. { constructor; [exists view_classifier, col_a1; vm_compute; reflexivity|].
           constructor; [exists view_classifier, col_a2; vm_compute; reflexivity|constructor]. }
  split; [vm_compute; reflexivity|]. split; [vm_compute; discriminate|]. split; [vm_compute; discriminate|].
  vm_compute. repeat split.
Qed.

(* ------------------------------------------------------------------ *)
(* a (third-party) predicate whose phash is empty adds nothing to the digest *)
Theorem empty_phash_invisible l1 l2 i :
  concat (map pred_phash (l1 ++ PThird i [] :: l2)) = concat (map pred_phash (l1 ++ l2)).
Proof. rewrite !map_app, !concat_app. reflexivity. Qed.

Theorem empty_phash_collides_with_no_predicates i : concat (map pred_phash [PThird i []]) = default_phash.
Proof. reflexivity. Qed.

(* observation: in one slot {third-party predicate with empty phash} and {} hash alike; the later
   registration replaces the earlier IN PLACE, so the predicate-less view sits before a
   one-predicate view of the slot and wins although that view qualifies *)
Definition t_third : text := [122; 116]%N.
Definition eph_a0 : view_args := mkArgs 1 5 [] [(t_third, [(false, VThird 7 [])])] None false 0.
Definition eph_a1 : view_args := mkArgs 1 5 [] [(nm_custom, [(false, VObj 5 [])])] None false 1.
Definition eph_a4 : view_args := mkArgs 1 5 [] [] None false 4.
Definition eph_regs : list reg :=
  Eval vm_compute in somes (map (reg_of_args (pred_names ++ [t_third]) view_classifier) [eph_a0; eph_a1; eph_a4]).
Definition eph_rq : request :=
  mkReq rm_get [] [] false None false [47%N] [] true [] [] [5%N] [1; 0]%N [5; 0]%N [].

Theorem empty_phash_observation :
  map r_phash eph_regs = [default_phash; pfx_custom ++ dec 5; default_phash]
  /\ map n_preds eph_regs = [1; 1; 0]%nat
  /\ call_view (register_all accept_order_default eph_regs) view_classifier eph_rq = Ran 4
  /\ map r_tag (spec_winners view_classifier eph_regs eph_rq) = [1%N].
Proof. vm_compute. repeat split. Qed.

(* ------------------------------------------------------------------ *)
(* stability: the stable insertion sort keeps the registration order among entries of one order *)

Definition same_order (k : Z) (e : entry) : bool := Z.eqb (e_order e) k.

Lemma filter_insert k x l :
  entries_sorted l ->
  filter (same_order k) (insert_by entry_leb x l) =
  if same_order k x then x :: filter (same_order k) l else filter (same_order k) l.
Proof.
  induction 1 as [|y l Hl IH Hy]; simpl; [destruct (same_order k x); reflexivity|].
  destruct (entry_leb x y) eqn:E; simpl; [destruct (same_order k x); reflexivity|].
  rewrite IH. unfold same_order, entry_leb in *. apply Z.leb_gt in E.
  destruct (Z.eqb_spec (e_order y) k), (Z.eqb_spec (e_order x) k); try reflexivity. lia.
Qed.

Theorem isort_stable k l : filter (same_order k) (isort entry_leb l) = filter (same_order k) l.
Proof.
  induction l as [|x l IH]; simpl; [reflexivity|].
  rewrite filter_insert by (apply isort_sorted; [apply entry_leb_total|apply entry_leb_trans]).
  rewrite IH. reflexivity.
Qed.

(* any sequence of adds without accept= and with pairwise different phashes: among entries of equal
   order, views lists them in registration order *)
Definition plain_add (a : reg * Z * text) : add_args := let '(v, o, ph) := a in (v, o, ph, None, None).
Definition add_entry (a : reg * Z * text) : entry := let '(v, o, ph) := a in (o, v, ph).

Theorem multiview_ties_in_registration_order (adds : list (reg * Z * text)) k :
  NoDup (map (fun a => snd a) adds) ->
  filter (same_order k) (mv_views (fold_left mv_add_args (map plain_add adds) mv_empty))
  = filter (same_order k) (map add_entry adds).
Proof.
  intros Hnd.
  assert (G : forall adds m,
             NoDup (map e_phash (mv_views m) ++ map (fun a : reg * Z * text => snd a) adds) ->
             filter (same_order k) (mv_views (fold_left mv_add_args (map plain_add adds) m))
             = filter (same_order k) (mv_views m) ++ filter (same_order k) (map add_entry adds)).
  { clear. induction adds as [|[[v o] ph] adds IH]; intros m Hnd; simpl; [rewrite app_nil_r; reflexivity|].
    assert (Hrep : replace_phash ph (o, v, ph) (mv_views m) = None).
    { apply replace_phash_none. intros e He E. apply NoDup_remove_2 in Hnd. apply Hnd.
      apply in_or_app. left. apply in_map_iff. exists e. auto. }
    try unfold mv_add. rewrite Hrep. rewrite IH.
    - simpl mv_views. rewrite isort_stable, filter_app. simpl. rewrite <- app_assoc.
      unfold add_entry. destruct (same_order k (o, v, ph)); reflexivity.
    - simpl mv_views.
      pose proof (Permutation_map e_phash (isort_perm entry_leb (mv_views m ++ [(o, v, ph)]))) as HP.
      eapply Permutation_NoDup;
        [apply Permutation_app_tail, Permutation_sym, HP|].
      rewrite map_app, <- app_assoc. simpl. exact Hnd. }
  rewrite G; [reflexivity|]. simpl. exact Hnd.
Qed.
