(* C07 -- the history clause: the process-wide caches behind the modelled
   functions (lru_cache on split_path_info and _join_path_tuple, the
   _segment_cache dictionary of quote_path_segment) never change an answer.
   Every function of Model/C07.v is rewritten in state-passing style over the
   caches record of Proofs/C02_memo.v (each memoised call goes through the
   memo tables, hits included) and proved to return the cache-free answer from
   ANY cache state whose entries are true pairs; composed over whole cases and
   over histories of cases. *)
From Coq Require Import List NArith ZArith Bool Lia.
Import ListNotations.
Require Import Verif.Lib.Wire Verif.Lib.Text Verif.Lib.PathNorm Verif.Lib.Utf8 Verif.Lib.Percent
               Verif.Lib.C07Types Verif.Gen.Facts_C02 Verif.Gen.Facts_C07
               Verif.Model.C02 Verif.Proofs.C02 Verif.Proofs.C02_memo Verif.Model.C07.
Close Scope N_scope.

(* ------------------------------------------------------------ a small state monad *)
Definition st (A : Type) := caches -> A * caches.
Definition sret {A} (a : A) : st A := fun C => (a, C).
Definition sbind0 {A B} (m : st A) (k : A -> st B) : st B := fun C => let '(a, C1) := m C in k a C1.
Definition sbind {A B} (m : st (out A)) (k : A -> st (out B)) : st (out B) :=
  sbind0 m (fun r => match r with Val a => k a | Err e => sret (Err e) end).
Definition smap {A B} (f : A -> B) (m : st A) : st B := sbind0 m (fun a => sret (f a)).

(* [m] answers [p] from every valid cache state and leaves a valid cache state *)
Definition tracks {A} (m : st A) (p : A) : Prop :=
  forall C, caches_ok C -> fst (m C) = p /\ caches_ok (snd (m C)).

Lemma tracks_ret {A} (a : A) : tracks (sret a) a.
Proof. intros C H. split; [reflexivity|exact H]. Qed.

Lemma tracks_bind0 {A B} (m : st A) p (k : A -> st B) kp :
  tracks m p -> (forall a, tracks (k a) (kp a)) -> tracks (sbind0 m k) (kp p).
Proof.
  intros Hm Hk C HC. unfold sbind0. destruct (m C) as [a C1] eqn:E.
  destruct (Hm C HC) as [H1 H2]. rewrite E in H1, H2. simpl in H1, H2. subst a. apply Hk, H2.
Qed.

Lemma tracks_bind {A B} (m : st (out A)) p (k : A -> st (out B)) kp :
  tracks m p -> (forall a, tracks (k a) (kp a)) -> tracks (sbind m k) (xbind p kp).
Proof.
  intros Hm Hk. unfold sbind.
  apply (tracks_bind0 m p _ (fun r => match r with Val a => kp a | Err e => Err e end)); [exact Hm|].
  intros [a|e]; [apply Hk|apply tracks_ret].
Qed.

Lemma tracks_map {A B} (f : A -> B) m p : tracks m p -> tracks (smap f m) (f p).
Proof. intros H. unfold smap. apply (tracks_bind0 m p _ f H). intros a. apply tracks_ret. Qed.

Lemma tracks_eq {A} (m : st A) p p' : tracks m p -> p = p' -> tracks m p'.
Proof. intros H <-. exact H. Qed.

(* ------------------------------------------------------------ the memoised primitives *)
Definition join_m (l : list text) : st (out text) := smap lift (fun C => join_st C l).
Definition trav_m (rn : rnode) (q : request) : st (out tdict) := smap lift (fun C => traverser_st C rn q).
Definition quote_m (seg safe : text) : st (result text) := fun C => quote_st C seg safe.
Definition spi_m (p : text) : st (list text) :=
  fun C => let '(l, spc) := spi_memo lru_split_path_info (c_spi C) p in
           (l, mkCaches spc (c_tpi C) (c_join C) (c_seg C)).

Lemma join_m_ok l : tracks (join_m l) (lift (join_path_tuple l)).
Proof. apply tracks_map. intros C H. apply join_st_ok, H. Qed.
Lemma trav_m_ok rn q : tracks (trav_m rn q) (lift (traverser_call rn q)).
Proof. apply tracks_map. intros C H. apply traverser_st_ok, H. Qed.
Lemma quote_m_ok seg safe : tracks (quote_m seg safe) (quote_path_segment_safe seg safe).
Proof. intros C H. apply quote_st_ok, H. Qed.
Lemma spi_m_ok p : tracks (spi_m p) (split_path_info p).
Proof.
  intros C (H1 & H2 & H3 & H4). unfold spi_m.
  destruct (spi_memo lru_split_path_info (c_spi C) p) as [l spc] eqn:E.
  destruct (spi_memo_ok lru_split_path_info (c_spi C) p H1) as [A B]. rewrite E in A, B. simpl in *.
  split; [exact A|]. repeat split; assumption.
Qed.

(* ------------------------------------------------------------ the model, state-passing *)
Definition resource_path_st (root : res) (r : pos) (els : list text) : st (out text) :=
  sbind (sret (resource_path_tuple root r els)) join_m.

Lemma resource_path_st_ok root r els : tracks (resource_path_st root r els) (resource_path root r els).
Proof. apply tracks_bind; [apply tracks_ret|intros t; apply join_m_ok]. Qed.

Definition pick_resource (root : res) (start : pos) (path : text) : out rnode :=
  match path with
  | c :: _ => if N.eqb c slash then Val ([], root)
              else match node_at root start with Some n => Val (start, n) | None => Err EUnsupported end
  | [] => match node_at root start with Some n => Val (start, n) | None => Err EUnsupported end
  end.

Definition traverse7_st (root : res) (start : pos) (p : api_path) : st (out tdict) :=
  sbind (match p with
         | PStr s => sret (Val s)
         | PTuple [] => sret (Val [])
         | PTuple l => join_m l
         end)
        (fun path =>
           if negb (is_ascii path) then sret (Err (EExn UnicodeEncodeError))
           else sbind (sret (pick_resource root start path))
                  (fun resource => sbind (sret (blank_path_info path))
                     (fun path_info => trav_m resource (mkReq (Some path_info) None None)))).

Lemma traverse7_st_ok root start p : tracks (traverse7_st root start p) (traverse7 root start p).
Proof.
  unfold traverse7_st, traverse7. apply tracks_bind.
  - destruct p as [s|[|x l]]; [apply tracks_ret|apply tracks_ret|apply join_m_ok].
  - intros path. destruct (negb (is_ascii path)); [apply tracks_ret|].
    apply tracks_bind; [apply tracks_ret|]. intros resource.
    apply tracks_bind; [apply tracks_ret|]. intros pi. apply trav_m_ok.
Qed.

Definition found_of (d : tdict) : out found :=
  Val (match t_view_name d with [] => FoundAt (t_context d) | _ => KeyErr end).

Definition find7_st (root : res) (start : pos) (p : api_path) : st (out found) :=
  sbind (traverse7_st root start p) (fun d => sret (found_of d)).
Lemma find7_st_ok root start p : tracks (find7_st root start p) (find7 root start p).
Proof. apply tracks_bind; [apply traverse7_st_ok|intros d; apply tracks_ret]. Qed.

Definition find7_str_o_st (ok : bool) (root : res) (start : pos) (path : text) : st (out found) :=
  if negb (is_ascii path) then sret (Err (EExn UnicodeEncodeError))
  else sbind (sret (pick_resource root start path))
         (fun resource => sbind (sret (blank_path_info_o ok path))
            (fun path_info => sbind (trav_m resource (mkReq (Some path_info) None None))
               (fun d => sret (found_of d)))).
Lemma find7_str_o_st_ok ok root start path :
  tracks (find7_str_o_st ok root start path) (find7_str_o ok root start path).
Proof.
  unfold find7_str_o_st, find7_str_o. destruct (negb (is_ascii path)); [apply tracks_ret|].
  apply tracks_bind; [apply tracks_ret|]. intros resource.
  apply tracks_bind; [apply tracks_ret|]. intros pi.
  apply tracks_bind; [apply trav_m_ok|]. intros d. apply tracks_ret.
Qed.

Definition adapter_st (m : url_mode) (root : res) (r : pos) (vroot : option text) : st (out rurl) :=
  sbind (sret (resource_path_tuple root r [])) (fun ppt0 =>
  sbind (join_m ppt0) (fun pp0 =>
    let '(ppt, pp) := if texts_eqb ppt0 c07_root_tuple then (ppt0, pp0)
                      else (ppt0 ++ [c07_trail_elt], pp0 ++ c07_trail_sep) in
    match vroot with
    | None => sret (Val (mkRU pp pp ppt ppt))
    | Some raw =>
        match m with
        | UrlTupleCompare =>
            sbind (sret (lift (decode_path_info raw))) (fun d =>
            sbind0 (spi_m d) (fun vt =>
              let n := length vt in
              if negb (Nat.eqb n 0) && Model.C07.texts_eqb (firstn n (skipn 1 ppt)) vt then
                let vpt := c07_vtuple_head ++ skipn (S n) ppt in
                sbind (join_m vpt) (fun vp => sret (Val (mkRU vp pp vpt ppt)))
              else sret (Val (mkRU pp pp ppt ppt))))
        | UrlStringPrefix =>
            let v := rstrip_char slash raw in
            if negb (is_nil v) && startswith v pp then
              let n := length (split_on slash v) in
              sret (Val (mkRU (skipn (length v) pp) pp (c07_vtuple_head ++ skipn n ppt) ppt))
            else sret (Val (mkRU pp pp ppt ppt))
        end
    end)).

Lemma adapter_st_ok m root r vroot : tracks (adapter_st m root r vroot) (resource_url_adapter m root r vroot).
Proof.
  unfold adapter_st, resource_url_adapter. apply tracks_bind; [apply tracks_ret|]. intros ppt0.
  apply tracks_bind; [apply join_m_ok|]. intros pp0.
  destruct (if Model.C07.texts_eqb ppt0 c07_root_tuple then (ppt0, pp0)
            else (ppt0 ++ [c07_trail_elt], pp0 ++ c07_trail_sep)) as [ppt pp].
  destruct vroot as [raw|]; [|apply tracks_ret]. destruct m.
  - destruct (negb (is_nil (rstrip_char slash raw)) && startswith (rstrip_char slash raw) pp); apply tracks_ret.
  - apply tracks_bind; [apply tracks_ret|]. intros d.
    apply (tracks_bind0 (spi_m d) (split_path_info d) _
             (fun vt => if negb (Nat.eqb (length vt) 0) && Model.C07.texts_eqb (firstn (length vt) (skipn 1 ppt)) vt
                        then xbind (lift (join_path_tuple (c07_vtuple_head ++ skipn (S (length vt)) ppt)))
                               (fun vp => Val (mkRU vp pp (c07_vtuple_head ++ skipn (S (length vt)) ppt) ppt))
                        else Val (mkRU pp pp ppt ppt))); [apply spi_m_ok|].
    intros vt. cbv zeta.
    destruct (negb (Nat.eqb (length vt) 0) && Model.C07.texts_eqb (firstn (length vt) (skipn 1 ppt)) vt); [|apply tracks_ret].
    apply tracks_bind; [apply join_m_ok|]. intros vp. apply tracks_ret.
Qed.

Fixpoint rmap_q_st (safe : text) (l : list text) : st (result (list text)) :=
  match l with
  | [] => sret (Ok [])
  | x :: r => sbind0 (quote_m x safe) (fun y =>
                match y with
                | Ok y' => sbind0 (rmap_q_st safe r) (fun ys => sret (rbind ys (fun ys' => Ok (y' :: ys'))))
                | Exc e => sret (Exc e)
                | Unsupported => sret Unsupported
                end)
  end.
Lemma rmap_q_st_ok safe l : tracks (rmap_q_st safe l) (rmap (fun e => quote_path_segment_safe e safe) l).
Proof.
  induction l as [|x r IH]; [apply tracks_ret|]. simpl.
  apply (tracks_bind0 (quote_m x safe) (quote_path_segment_safe x safe) _
           (fun y => match y with
                     | Ok y' => rbind (rmap (fun e => quote_path_segment_safe e safe) r) (fun ys' => Ok (y' :: ys'))
                     | Exc e => Exc e | Unsupported => Unsupported end)); [apply quote_m_ok|].
  intros [y'|e|]; [|apply tracks_ret|apply tracks_ret].
  apply (tracks_bind0 _ _ _ (fun ys => rbind ys (fun ys' => Ok (y' :: ys'))) IH). intros ys. apply tracks_ret.
Qed.

Definition join_elements_st (els : list text) : st (out text) :=
  sbind (smap lift (rmap_q_st c07_elements_safe els)) (fun qs => sret (Val (join c07_elements_sep qs))).
Lemma join_elements_st_ok els : tracks (join_elements_st els) (join_elements els).
Proof. apply tracks_bind; [apply tracks_map, rmap_q_st_ok|intros qs; apply tracks_ret]. Qed.

Definition suffix_st (els : list text) : st (out text) :=
  match els with [] => sret (Val []) | _ => join_elements_st els end.
Lemma suffix_st_ok els : tracks (suffix_st els) (match els with [] => Val [] | _ => join_elements els end).
Proof. destruct els; [apply tracks_ret|apply join_elements_st_ok]. Qed.

Definition resource_url_st m root r els vroot sn (host : option text) : st (out text) :=
  sbind (adapter_st m root r vroot) (fun ru =>
    match host with
    | None => sret (Err EUnsupported)
    | Some h => sbind (sret (application_url h sn)) (fun a =>
                sbind (suffix_st els) (fun suffix => sret (Val (a ++ ru_vp ru ++ suffix))))
    end).
Lemma resource_url_st_ok m root r els vroot sn host :
  tracks (resource_url_st m root r els vroot sn host) (resource_url m root r els vroot sn host).
Proof.
  apply tracks_bind; [apply adapter_st_ok|]. intros ru. destruct host as [h|]; [|apply tracks_ret].
  apply tracks_bind; [apply tracks_ret|]. intros a.
  apply tracks_bind; [apply suffix_st_ok|]. intros s. apply tracks_ret.
Qed.

Definition request_resource_path_st m root r els vroot sn : st (out text) :=
  sbind (sret (if c07_script_quoted then quoted_script_name sn else lift (decode_path_info sn))) (fun a =>
  sbind (adapter_st m root r vroot) (fun ru =>
  sbind (suffix_st els) (fun suffix => sret (Val (a ++ ru_vp ru ++ suffix))))).
Lemma request_resource_path_st_ok m root r els vroot sn :
  tracks (request_resource_path_st m root r els vroot sn) (request_resource_path m root r els vroot sn).
Proof.
  apply tracks_bind; [apply tracks_ret|]. intros a.
  apply tracks_bind; [apply adapter_st_ok|]. intros ru.
  apply tracks_bind; [apply suffix_st_ok|]. intros s. apply tracks_ret.
Qed.

Definition virtual_root_st m root r vroot : st (out found) :=
  sbind (adapter_st m root r vroot) (fun ru =>
    let vpath := ru_vp ru in
    let rpath := ru_pp ru in
    if negb (text_eqb rpath vpath) && endswith vpath rpath then
      find7_st root r (PStr (match vpath with [] => [] | _ => firstn (length rpath - length vpath) rpath end))
    else sret (Val (FoundAt []))).
Lemma virtual_root_st_ok m root r vroot : tracks (virtual_root_st m root r vroot) (virtual_root m root r vroot).
Proof.
  apply tracks_bind; [apply adapter_st_ok|]. intros ru. cbv zeta.
  destruct (negb (text_eqb (ru_pp ru) (ru_vp ru)) && endswith (ru_vp ru) (ru_pp ru)); [apply find7_st_ok|apply tracks_ret].
Qed.

Definition request_back_st m root r vroot : st (out (pos * text * option pos)) :=
  sbind (adapter_st m root r vroot) (fun ru =>
  sbind (trav_m ([], root) (mkReq (Some (Percent.unquote (ru_vp ru))) None vroot)) (fun d =>
    sret (Val (t_context d, t_view_name d, match t_view_name d with [] => Some (t_context d) | _ => None end)))).
Lemma request_back_st_ok m root r vroot : tracks (request_back_st m root r vroot) (request_back m root r vroot).
Proof.
  apply tracks_bind; [apply adapter_st_ok|]. intros ru.
  apply tracks_bind; [apply trav_m_ok|]. intros d. apply tracks_ret.
Qed.

(* ------------------------------------------------------------ whole cases, histories *)
Fixpoint sseq {A} (l : list (st A)) : st (list A) :=
  match l with
  | [] => sret []
  | m :: r => sbind0 m (fun a => sbind0 (sseq r) (fun l' => sret (a :: l')))
  end.
Lemma sseq_ok {A} (ms : list (st A)) (ps : list A) : Forall2 tracks ms ps -> tracks (sseq ms) ps.
Proof.
  induction 1 as [|m p ms ps Hm _ IH]; [apply tracks_ret|]. simpl.
  apply (tracks_bind0 m p _ (fun a => a :: ps) Hm). intros a.
  apply (tracks_bind0 (sseq ms) ps _ (fun l' => a :: l') IH). intros l'. apply tracks_ret.
Qed.

Definition find_via {T} (src : out T) (k : T -> st (out found)) : st (out found) := sbind (sret src) k.

Definition model_obs_st (m : url_mode) (c : case) : st (list val) :=
  let root := c_tree c in
  let r := c_r c in
  let a := c_a c in
  sseq (
  [ sret (put_out put_tuple (resource_path_tuple root r (c_els c)));
    smap (put_out put_text) (resource_path_st root r (c_els c));
    smap (put_out put_found) (sbind (sret (resource_path_tuple root r [])) (fun t => find7_st root a (PTuple t)));
    smap (put_out put_found) (sbind (resource_path_st root r []) (fun s => find7_st root a (PStr s)));
    smap (put_out put_found) (find7_st root a (PTuple (c_rel c)));
    smap (put_out put_found) (sbind (sret (resource_path_tuple root a (c_rel c))) (fun t => find7_st root r (PTuple t)));
    smap (put_out put_found) (find7_str_o_st (c_host_ok c) root a (c_rel_str c));
    smap (put_out put_found)
         (sbind (sbind (resource_path_st root a [])
                       (fun pa => sret (Val (match c_rel_str c with [] => pa | _ => pa ++ slash :: c_rel_str c end))))
                (fun s => find7_st root r (PStr s)));
    smap (put_out put_rurl) (adapter_st m root r (c_vroot c));
    smap (put_out put_text) (resource_url_st m root r (c_els c) (c_vroot c) (c_script c) (c_app c));
    smap (put_out put_text) (request_resource_path_st m root r (c_els c) (c_vroot c) (c_script c));
    smap (put_out put_found) (virtual_root_st m root r (c_vroot c));
    smap (put_out put_back) (request_back_st m root r (c_vroot c)) ]
  ++ map (fun p => smap (put_out put_text) (resource_url_st m root p [] (c_vroot c) (c_script c) (c_app c))) (c_more c)).

Lemma model_obs_st_ok m c : tracks (model_obs_st m c) (model_obs m c).
Proof.
  unfold model_obs_st, model_obs. apply sseq_ok. apply Forall2_app.
  2:{ induction (c_more c) as [|p l IH]; [constructor|]. simpl. constructor; [|exact IH].
      apply tracks_map, resource_url_st_ok. }
  repeat (apply Forall2_cons); try apply Forall2_nil.
  - apply tracks_ret.
  - apply tracks_map, resource_path_st_ok.
  - apply tracks_map. apply tracks_bind; [apply tracks_ret|intros t; apply find7_st_ok].
  - apply tracks_map. apply tracks_bind; [apply resource_path_st_ok|intros s; apply find7_st_ok].
  - apply tracks_map, find7_st_ok.
  - apply tracks_map. apply tracks_bind; [apply tracks_ret|intros t; apply find7_st_ok].
  - apply tracks_map, find7_str_o_st_ok.
  - apply tracks_map. apply tracks_bind; [|intros s; apply find7_st_ok].
    unfold abs_string. apply tracks_bind; [apply resource_path_st_ok|intros pa; apply tracks_ret].
  - apply tracks_map, adapter_st_ok.
  - apply tracks_map, resource_url_st_ok.
  - apply tracks_map, request_resource_path_st_ok.
  - apply tracks_map, virtual_root_st_ok.
  - apply tracks_map, request_back_st_ok.
Qed.

(* a history of cases run in one process, caches never cleared *)
Fixpoint run_cases_st (m : url_mode) (C : caches) (cs : list case) : list (list val) :=
  match cs with
  | [] => []
  | c :: r => let '(o, C1) := model_obs_st m c C in o :: run_cases_st m C1 r
  end.

Theorem history_free7 m : forall cs C, caches_ok C -> run_cases_st m C cs = map (model_obs m) cs.
Proof.
  induction cs as [|c cs IH]; intros C H; [reflexivity|]. simpl.
  destruct (model_obs_st m c C) as [o C1] eqn:E.
  destruct (model_obs_st_ok m c C H) as [H1 H2]. rewrite E in H1, H2. simpl in H1, H2.
  rewrite H1, (IH C1 H2). reflexivity.
Qed.

(* non-vacuity: the second of two identical cases is answered from warm caches *)
Definition hist_case : case :=
  mkCase (Node (Some [([97]%N, Node (Some [([98]%N, Node None)]))])) [0; 0] [0] [[98]%N] [98]%N
         [[99]%N] (Some [47; 97]%N) [] (Some [104]%N) true [[0]; []].
Example history_example7 :
  let '(o1, C1) := model_obs_st UrlTupleCompare hist_case cold in
  let '(o2, C2) := model_obs_st UrlTupleCompare hist_case C1 in
  o1 = o2 /\ o1 = model_obs UrlTupleCompare hist_case /\
  length (c_join C1) = length (c_join C2) /\
  (Nat.eqb lru_join_path_tuple 0 || negb (Nat.eqb (length (c_join C1)) 0))%bool = true /\   (* no memo on _join_path_tuple since 883ea66 *)
  negb (Nat.eqb (length (c_seg C1)) 0) = true /\ negb (Nat.eqb (length (c_spi C1)) 0) = true.
Proof. vm_compute. repeat split; reflexivity. Qed.
