(* C17 -- totality: when the spec says a URL is due ([must_route] / [must_resource] / [must_static]: the route exists,
   every placeholder has a value, every supplied text can be encoded), the helpers do produce one.  This is the
   "no URL produced although .." verdict of the judge, proved of the model instead of only observed on the run. *)
From Coq Require Import List NArith ZArith Bool Lia.
Import ListNotations.
Require Import Verif.Lib.Wire Verif.Lib.Text Verif.Lib.Utf8 Verif.Lib.Percent Verif.Lib.PathNorm Verif.Lib.C06Utf8
               Verif.Gen.Facts_C17 Verif.Model.C17 Verif.Proofs.C17.
Open Scope N_scope.

Lemma Facts_ok_join_key : join_elements_key_stringified = true.
Proof. reflexivity. Qed.

Lemma c17_ascii_valid s : Forall ascii s -> forallb valid_scalar s = true.
Proof.
  induction 1 as [|c r Hc _ IH]; [reflexivity|]. cbn [forallb]. rewrite IH. unfold ascii in Hc. unfold valid_scalar.
  rewrite andb_true_r. apply orb_true_iff. left. apply N.ltb_lt. lia.
Qed.

Lemma c17_utf8_enc_total t : forallb valid_scalar t = true -> utf8_enc t = Ok (encode t).
Proof. intros H. unfold utf8_enc. rewrite H. reflexivity. Qed.

(* ---- values *)
Lemma c17_to_bytes_total v : enc_ok v = true -> exists b, to_bytes v = Ok b.
Proof.
  destruct v as [t|b|z|k s]; cbn [enc_ok to_bytes]; intros H; eauto using c17_utf8_enc_total.
Qed.
Lemma c17_url_quote_total safe v : enc_ok v = true -> exists q, url_quote safe v = Ok q.
Proof. intros H. destruct (c17_to_bytes_total v H) as (b & Hb). unfold url_quote. rewrite Hb. cbn [rbind]. eauto. Qed.
Lemma c17_quote_plus_total v : enc_ok v = true -> exists q, quote_plus v = Ok q.
Proof. intros H. destruct (c17_to_bytes_total v H) as (b & Hb). unfold quote_plus. rewrite Hb. cbn [rbind]. eauto. Qed.
Lemma c17_quote_via_total v : enc_ok v = true -> exists q, quote_via v = Ok q.
Proof. intros H. unfold quote_via. destruct urlencode_quote_via_is_quote_plus; [apply c17_quote_plus_total|apply c17_url_quote_total]; exact H. Qed.

Lemma c17_spec_text_text_of v t : spec_text v = Some t -> text_of v = Ok t /\ forallb valid_scalar t = true.
Proof.
  destruct v as [s|b|z|k s]; cbn [spec_text text_of].
  - destruct (forallb valid_scalar s) eqn:E; [|discriminate]. intros H; inversion H; subst. auto.
  - intros H. unfold utf8_dec. rewrite H. split; [reflexivity|]. eapply decode_valid; eassumption.
  - intros H; inversion H; subst. split; [reflexivity|]. apply c17_ascii_valid, show_Z_ascii.
  - destruct (forallb valid_scalar s) eqn:E; [|discriminate]. intros H; inversion H; subst. auto.
Qed.

Lemma c17_qps_total safe v : text_ok v = true -> exists q, quote_path_segment safe v = Ok q.
Proof.
  unfold text_ok. destruct (spec_text v) as [t|] eqn:E; [|discriminate]. intros _.
  apply c17_spec_text_text_of in E. destruct E as [Ht Hv].
  unfold quote_path_segment. rewrite Ht. cbn [rbind]. rewrite (c17_utf8_enc_total _ Hv). cbn [rbind]. eauto.
Qed.

Lemma c17_mapM_total {A B} (f : A -> res B) l : (forall x, In x l -> exists y, f x = Ok y) -> exists ys, mapM f l = Ok ys.
Proof.
  induction l as [|x l IH]; intros H; [exists []; reflexivity|].
  destruct (H x (or_introl eq_refl)) as (y & Hy). destruct IH as (ys & Hys); [intros z Hz; apply H; right; exact Hz|].
  exists (y :: ys). cbn [mapM]. rewrite Hy. cbn [rbind]. rewrite Hys. reflexivity.
Qed.

Lemma c17_forallb_in {A} (f : A -> bool) l x : forallb f l = true -> In x l -> f x = true.
Proof. intros H Hin. rewrite forallb_forall in H. auto. Qed.

(* ---- extra path elements *)
Lemma join_elements_total els : forallb text_ok els = true -> exists s, join_elements els = Ok s.
Proof.
  intros H. unfold join_elements.
  destruct (c17_mapM_total (quote_path_segment join_elements_safe) els) as (qs & Hq).
  { intros x Hx. apply c17_qps_total. eapply c17_forallb_in; eassumption. }
  rewrite Hq. cbn [rbind]. eauto.
Qed.

Lemma join_elements_c_total c els : forallb text_ok els = true -> exists s, join_elements_c c els = Ok s.
Proof.
  intros H. rewrite join_elements_cache_transparent_repaired by apply Facts_ok_join_key. apply join_elements_total, H.
Qed.

(* ---- route.generate *)
Lemma c17_gen_value_total b v : kwval_ok v = true -> exists q, gen_value b v = Ok q.
Proof.
  destruct v as [x|l shown]; cbn [kwval_ok gen_value].
  - intros H. destruct x as [t|bs|z|k s]; try (apply c17_qps_total; exact H).
    unfold text_ok in H. cbn [spec_text] in H. destruct (decode bs) as [t|] eqn:E; [|discriminate].
    unfold utf8_dec. rewrite E. cbn [rbind]. apply c17_qps_total. unfold text_ok. cbn [spec_text].
    rewrite (decode_valid _ _ E). reflexivity.
  - intros H. apply andb_true_iff in H. destruct H as [Hl Hs]. destruct b.
    + destruct (c17_mapM_total q_value l) as (qs & Hq).
      { intros x Hx. apply c17_qps_total. eapply c17_forallb_in; eassumption. }
      rewrite Hq. cbn [rbind]. eauto.
    + apply c17_qps_total. unfold text_ok. cbn [spec_text]. rewrite Hs. reflexivity.
Qed.

Lemma c17_build_newdict_total p kw :
  forallb (fun kv : text * kwval => kwval_ok (snd kv)) kw = true ->
  exists d, build_newdict p kw = Ok d /\ map fst d = map fst kw.
Proof.
  unfold build_newdict. induction kw as [|[k v] kw IH]; intros H; [exists []; split; reflexivity|].
  cbn [forallb snd] in H. apply andb_true_iff in H. destruct H as [Hv Hr]. destruct (IH Hr) as (d & Hd & Hk).
  destruct (c17_gen_value_total (is_star_key p k) v Hv) as (q & Hq).
  exists ((k, q) :: d). cbn [mapM fst snd]. rewrite Hq. cbn [rbind]. rewrite Hd. cbn [rbind map fst]. rewrite Hk. auto.
Qed.

Lemma c17_assoc_keys {A} n (d : list (text * A)) : In n (map fst d) -> assoc n d <> None.
Proof.
  induction d as [|[k v] d IH]; [intros []|]. cbn [map fst assoc]. intros [E|H].
  - subst. rewrite text_eqb_refl. discriminate.
  - destruct (text_eqb n k); [discriminate|auto].
Qed.
Lemma c17_keys_assoc {A} n (d : list (text * A)) : assoc n d <> None -> In n (map fst d).
Proof.
  induction d as [|[k v] d IH]; [intros H; contradiction H; reflexivity|]. cbn [map fst assoc].
  destruct (text_eqb n k) eqn:E; [intros _; left; symmetry; apply text_eqb_eq; exact E|intros H; right; auto].
Qed.

Lemma c17_lit_part_total safe s : forallb valid_scalar s = true -> exists q, lit_part safe s = Ok (TLit (double_pct q)).
Proof.
  intros Hv. unfold lit_part, quote_path_segment. cbn [text_of rbind]. rewrite (c17_utf8_enc_total _ Hv). cbn [rbind]. eauto.
Qed.

Definition c17_hole_fn (h : text * text) : res (list tpart) :=
  match snd h with
  | [] => Ok [TSlot (fst h)]
  | s => rlet l := lit_part compile_literal_safe s in Ok [TSlot (fst h); l]
  end.

Lemma c17_holes_total holes : forallb (fun h : text * text => forallb valid_scalar (snd h)) holes = true ->
  exists hs, mapM c17_hole_fn holes = Ok hs /\ forall n, In (TSlot n) (concat hs) -> In n (map fst holes).
Proof.
  induction holes as [|[n l] holes IH]; intros H; [exists []; split; [reflexivity|intros ? []]|].
  cbn [forallb snd] in H. apply andb_true_iff in H. destruct H as [Hl Hr]. destruct (IH Hr) as (hs & Hm & Hin).
  cbn [mapM]. unfold c17_hole_fn at 1. cbn [fst snd]. destruct l as [|c l].
  - cbn [rbind]. rewrite Hm. cbn [rbind]. eexists. split; [reflexivity|].
    intros m Hm'. cbn [concat app map fst] in *. destruct Hm' as [E|Hm']; [inversion E; left; reflexivity|right; auto].
  - destruct (c17_lit_part_total compile_literal_safe (c :: l) Hl) as (q & ->). cbn [rbind]. rewrite Hm. cbn [rbind].
    eexists. split; [reflexivity|].
    intros m Hm'. cbn [concat app map fst] in *. destruct Hm' as [E|[E|Hm']]; [inversion E; left; reflexivity|discriminate|right; auto].
Qed.

Lemma c17_gen_template_total g : pattern_ok g = true ->
  exists tpl, gen_template g = Ok tpl /\ forall n, In (TSlot n) tpl -> In n (slots g).
Proof.
  unfold pattern_ok. intros H. apply andb_true_iff in H. destruct H as [Hp Hh]. unfold gen_template.
  destruct (c17_lit_part_total compile_prefix_safe _ Hp) as (q & ->). cbn [rbind].
  destruct (c17_holes_total _ Hh) as (hs & Hm & Hin). unfold c17_hole_fn in Hm. rewrite Hm. cbn [rbind].
  eexists. split; [reflexivity|]. intros n [E|Hn]; [discriminate|]. unfold slots. apply in_app_or in Hn. apply in_or_app.
  destruct Hn as [Hn|Hn]; [left; auto|right]. destruct (star_slot g) as [r|]; [|contradiction].
  destruct Hn as [E|[]]. inversion E. left. reflexivity.
Qed.

Lemma c17_format_total d tpl : Forall lit_ok tpl -> (forall n, In (TSlot n) tpl -> assoc n d <> None) ->
  exists parts, mapM (format_part d) tpl = Ok parts.
Proof.
  induction 1 as [|t r Ht _ IH]; intros Hs; [exists []; reflexivity|].
  destruct IH as (parts & IH); [intros n Hn; apply Hs; right; exact Hn|].
  cbn [mapM]. destruct t as [s|n].
  - destruct Ht as (q & -> & _). cbn [format_part]. rewrite undouble_double. cbn [rbind]. rewrite IH. cbn [rbind]. eauto.
  - cbn [format_part]. destruct (assoc n d) eqn:Ea; [|exfalso; apply (Hs n); [left; reflexivity|exact Ea]].
    cbn [rbind]. rewrite IH. cbn [rbind]. eauto.
Qed.

Theorem generate_total p kw :
  pattern_ok p = true -> forallb (has_key kw) (slots p) = true ->
  forallb (fun kv : text * kwval => kwval_ok (snd kv)) kw = true ->
  exists u, generate p kw = Ok u.
Proof.
  intros Hp Hs Hk. destruct (c17_gen_template_total p Hp) as (tpl & Ht & Hslots).
  destruct (c17_build_newdict_total p kw Hk) as (d & Hd & Hkeys).
  destruct (c17_format_total d tpl (gen_template_ok _ _ Ht)) as (parts & Hparts).
  { intros n Hn. apply c17_assoc_keys. rewrite Hkeys. apply c17_keys_assoc.
    pose proof (c17_forallb_in _ _ _ Hs (Hslots n Hn)) as Hh. unfold has_key in Hh. destruct (assoc n kw); [discriminate|discriminate]. }
  exists (concat parts). unfold generate. rewrite Ht, Hd. cbn [rbind]. rewrite Hparts. reflexivity.
Qed.

(* ---- query string, fragment, application URL *)
Lemma c17_emit_seq_total k l : forallb enc_ok l = true -> forall st, exists st', emit_seq st k l = Ok st'.
Proof.
  induction l as [|x l IH]; intros H st; [eexists; reflexivity|].
  cbn [forallb] in H. apply andb_true_iff in H. destruct H as [Hx Hl].
  destruct (c17_quote_via_total x Hx) as (q & Hq). cbn [emit_seq]. rewrite Hq. cbn [rbind]. apply IH, Hl.
Qed.

Lemma c17_ints_enc_ok b : forallb enc_ok (map (fun c => PInt (Z.of_N c)) b) = true.
Proof. induction b as [|c b IH]; [reflexivity|]. cbn [map forallb enc_ok]. exact IH. Qed.

Lemma c17_urlencode_step_total st kv : enc_ok (fst kv) = true -> qval_ok (snd kv) = true ->
  exists st', urlencode_step st kv = Ok st'.
Proof.
  intros Hk Hv. unfold urlencode_step. destruct (c17_quote_via_total _ Hk) as (k & ->). cbn [rbind].
  destruct (snd kv) as [|x|l]; cbn [qval_ok] in Hv.
  - cbn [rbind]. eauto.
  - destruct x as [t|b|z|n s].
    + destruct (c17_quote_via_total _ Hv) as (q & ->). cbn [rbind]. eauto.
    + destruct (c17_emit_seq_total k _ (c17_ints_enc_ok b) st) as (st' & ->). cbn [rbind]. eauto.
    + destruct (c17_quote_via_total _ Hv) as (q & ->). cbn [rbind]. eauto.
    + destruct (c17_quote_via_total _ Hv) as (q & ->). cbn [rbind]. eauto.
  - destruct (c17_emit_seq_total k l Hv st) as (st' & ->). cbn [rbind]. eauto.
Qed.

Lemma urlencode_total l :
  forallb (fun kv : pval * qval => enc_ok (fst kv) && qval_ok (snd kv)) l = true -> exists s, urlencode l = Ok s.
Proof.
  intros H. unfold urlencode.
  enough (G : forall st, exists st', urlencode_loop st l = Ok st') by (destruct (G ([], [])) as (st' & ->); cbn [rbind]; eauto).
  induction l as [|kv l IH]; intros st; [eexists; reflexivity|].
  cbn [forallb] in H. apply andb_true_iff in H. destruct H as [Hkv Hl]. apply andb_true_iff in Hkv. destruct Hkv as [Hk Hv].
  destruct (c17_urlencode_step_total st kv Hk Hv) as (st' & Hs). cbn [urlencode_loop]. rewrite Hs. cbn [rbind]. apply IH, Hl.
Qed.

Lemma query_string_total q : query_ok q = true -> exists s, query_string q = Ok s.
Proof.
  destruct q as [[t|l]|]; cbn [query_ok query_string]; intros H; [| |eauto].
  - destruct (query_truthy (QStr t)); [|eauto].
    destruct (c17_url_quote_total query_str_safe (PStr t) H) as (s & ->). cbn [rbind]. eauto.
  - destruct (query_truthy (QPairs l)); [|eauto]. destruct (urlencode_total l H) as (s & ->). cbn [rbind]. eauto.
Qed.

Lemma fragment_total a : anchor_ok a = true -> exists s, fragment a = Ok s.
Proof.
  destruct a as [v|]; cbn [anchor_ok fragment]; intros H; [|eauto]. destruct (truthy v); [|eauto].
  destruct (c17_url_quote_total anchor_quote_safe v H) as (s & ->). cbn [rbind]. eauto.
Qed.

Lemma quoted_script_name_total e : forallb valid_scalar (e_script e) = true -> exists s, quoted_script_name e = Ok s.
Proof.
  intros H. unfold quoted_script_name. rewrite (c17_utf8_enc_total _ H). cbn [rbind]. apply c17_url_quote_total. reflexivity.
Qed.

Lemma parse_url_overrides_total e o :
  forallb valid_scalar (e_script e) = true -> query_ok (o_query o) = true -> anchor_ok (o_anchor o) = true ->
  exists r, parse_url_overrides e o = Ok r.
Proof.
  intros Hs Hq Ha. unfold parse_url_overrides. destruct (quoted_script_name_total e Hs) as (sn & Hsn).
  destruct (query_string_total _ Hq) as (qs & ->). destruct (fragment_total _ Ha) as (fr & ->).
  destruct (o_app_url o); cbn [rbind]; [eauto|]. rewrite Hsn. cbn [rbind]. eauto.
Qed.

(* ---- the helpers *)
Theorem route_url_total c e rs n els o kw :
  must_route e rs n els o kw = true -> exists u, route_url c e rs n els o kw = Ok u.
Proof.
  unfold must_route, route_url. destruct (assoc n rs) as [p|]; [|discriminate]. intros H.
  repeat (apply andb_true_iff in H; let H' := fresh "H" in destruct H as [H H']).
  destruct (parse_url_overrides_total e o) as ([[app qs] fr] & ->); try assumption. cbn [rbind].
  destruct (generate_total p kw) as (path & ->); try assumption. cbn [rbind].
  destruct els as [|x els]; cbn [rbind]; [eauto|].
  destruct (join_elements_c_total c (x :: els)) as (s & ->); [assumption|]. cbn [rbind]. eauto.
Qed.

(* .. and then the path form exists too, and is the url form minus scheme://authority *)
Theorem route_path_total c e rs n els o kw :
  o_app_url o = None -> must_route e rs n els o kw = true ->
  exists u p, route_url c e rs n els o kw = Ok u /\ route_path c e rs n els o kw = Ok p /\ u = host_part e o ++ p.
Proof.
  intros Ho H. destruct (route_url_total c e rs n els o kw H) as (u & Hu).
  destruct (route_path_is_url_minus_authority _ _ _ _ _ _ _ _ Ho Hu) as (p & Hp & E). eauto.
Qed.

Lemma c17_norm_names_ok names : forallb text_ok names = true ->
  forallb text_ok (map (fun n => if truthy n then n else PStr []) names) = true.
Proof.
  induction names as [|x names IH]; [reflexivity|]. cbn [forallb map]. intros H. apply andb_true_iff in H. destruct H as [Hx Hr].
  rewrite (IH Hr), andb_true_r. destruct (truthy x); [exact Hx|reflexivity].
Qed.

Lemma join_path_tuple_total names : forallb text_ok names = true -> exists p, join_path_tuple names = Ok p.
Proof.
  intros H. unfold join_path_tuple.
  destruct (c17_mapM_total (quote_path_segment path_tuple_safe) names) as (qs & ->); [|cbn [rbind]; eauto].
  intros x Hx. apply c17_qps_total. eapply c17_forallb_in; eassumption.
Qed.

Lemma c17_forallb_skipn {A} (f : A -> bool) n l : forallb f l = true -> forallb f (skipn n l) = true.
Proof.
  revert l. induction n as [|n IH]; intros l H; [exact H|]. destruct l as [|x l]; [reflexivity|].
  cbn [skipn]. cbn [forallb] in H. apply andb_true_iff in H. apply IH, H.
Qed.

Lemma resource_adapter_total names vroot :
  forallb text_ok names = true ->
  match vroot with Some v => match decode v with Some _ => true | None => false end | None => true end = true ->
  exists r, resource_adapter names vroot = Ok r.
Proof.
  intros Hn Hv. unfold resource_adapter. pose proof (c17_norm_names_ok names Hn) as Hn'.
  set (names' := map (fun n => if truthy n then n else PStr []) names) in *.
  destruct (join_path_tuple_total (PStr [] :: names')) as (p & ->); [cbn [forallb]; rewrite Hn'; reflexivity|]. cbn [rbind].
  destruct vroot as [v|]; [|eauto]. unfold utf8_dec. destruct (decode v) as [t|]; [|discriminate]. cbn [rbind].
  match goal with |- context [if ?c then _ else _] => destruct c end; [|eauto].
  match goal with |- context [join_path_tuple ?l] => destruct (join_path_tuple_total l) as (vp & ->) end; [|cbn [rbind]; eauto].
  change (forallb text_ok (PStr [] :: ?l)) with (forallb text_ok l). apply c17_forallb_skipn.
  destruct names' as [|p0 names']; [reflexivity|].
  change (forallb text_ok (PStr [] :: ?l)) with (forallb text_ok l). rewrite forallb_app, Hn'. reflexivity.
Qed.

(* resource_url, with or without a virtual root (no route_name=) *)
Theorem resource_url_x_total c e rs names els o vroot :
  must_resource e rs names els o vroot None = true -> exists u, resource_url_x c e rs names els o vroot None = Ok u.
Proof.
  unfold must_resource. intros H.
  repeat match goal with H : _ && _ = true |- _ => apply andb_true_iff in H; destruct H end.
  unfold resource_url_x. destruct (resource_adapter_total names vroot) as ([vp vpt] & ->); try assumption. cbn [rbind].
  destruct (parse_url_overrides_total e o) as ([[app qs] fr] & ->); try assumption. cbn [rbind].
  destruct els as [|x els]; cbn [rbind]; [eauto|].
  destruct (join_elements_c_total c (x :: els)) as (s & ->); [assumption|]. cbn [rbind]. eauto.
Qed.

Theorem resource_url_total c e names els o :
  must_resource e [] names els o None None = true -> exists u, resource_url c e names els o = Ok u.
Proof. intros H. rewrite <- (resource_url_x_plain c e [] names els o). apply resource_url_x_total, H. Qed.

(* static_url for an asset below a route registration; current_route_url *)
Theorem static_url_x_total e rs regs path o kw sub s rname :
  find_reg_x regs path = Some (sub, RRoute s rname) ->
  must_static e rs regs path o kw = true -> exists u, static_url_x e rs regs path o kw = Ok u.
Proof. unfold must_static, static_url_x. intros ->. apply route_url_total. Qed.

Theorem current_route_url_total c e rs rname matched md gt els o kw n :
  (match rname with Some x => Some x | None => matched end) = Some n ->
  must_route e rs n els (match o_query o with Some _ => o | None => set_query o (QPairs gt) end) (dupdate md kw) = true ->
  exists u, current_route_url c e rs rname matched md gt els o kw = Ok u.
Proof. unfold current_route_url. intros ->. apply route_url_total. Qed.

(* non-vacuity: a route with a placeholder and a star, elements, query with a sequence and a None, an anchor *)
Example must_route_example :
  must_route (mkEnv [104;116;116;112] None [108] [56;48] [47;109;121;32;97;112;112])
             [([114], mkPat [47;97;47] [([120], [47])] (Some [114;101;115;116]))] [114]
             [PStr [233]; PInt 7; PBytes [195;169]]
             (mkOv None None None None (Some (QPairs [(PStr [107], QVSeq [PStr [32]; PInt 0]); (PStr [110], QVNone)])) (Some (PStr [8364])))
             [([120], KScalar (PStr [32])); ([114;101;115;116], KSeq [PStr [97]; PStr [98;47]] [])] = true.
Proof. vm_compute. reflexivity. Qed.
