(* C16 -- variant acceptability for the REGENERATED program, from the configuration as written: every 200 answer of the
   regenerated __call__ on the instance the regenerated constructor built is a smallest existing variant acceptable to the
   client of that request, whatever the filemap has cached. *)
From Coq Require Import List NArith ZArith PeanoNat Bool Lia.
Import ListNotations.
Require Import Verif.Lib.Wire Verif.Lib.Text Verif.Lib.PathNorm Verif.Lib.Utf8 Verif.Lib.Percent Verif.Lib.C16Posix
               Verif.Gen.Facts_C16 Verif.Model.C16 Verif.Model.C16_prims Verif.Gen.Facts_C16_gen
               Verif.Proofs.C16 Verif.Proofs.C16_b Verif.Proofs.C16_gen Verif.Proofs.C16_c Verif.Proofs.C16_d.
Open Scope N_scope.

Lemma exc_variant_ok c fs rq k : variant_ok c fs rq (RExc k).
Proof. apply not200_variant_ok. intros b e v. discriminate. Qed.

(* one call of the regenerated __call__, any configuration, any way of obtaining the path tuple, any exact filemap *)
Theorem gen_call_variant_ok c rq pi fs b sub fm :
  fm_exact c fs fm -> variant_ok c fs rq (out_resp (fst (fst (gen_call c rq pi fs b sub fm)))).
Proof.
  intros Hfm. destruct b.
  - rewrite gen_call_subpath_eq. unfold rewrap. cbn [fst snd]. rewrite out_res_out.
    apply serve_variant_ok. assumption.
  - rewrite gen_call_path_info_eq. unfold view_tuple.
    destruct (decode pi) as [s|]; [|apply exc_variant_ok].
    destruct view_decodes_again.
    + destruct (latin1 s); [|apply exc_variant_ok].
      destruct (decode s); [|apply exc_variant_ok].
      unfold rewrap. cbn [fst snd]. rewrite out_res_out. apply serve_variant_ok. assumption.
    + unfold rewrap. cbn [fst snd]. rewrite out_res_out. apply serve_variant_ok. assumption.
Qed.

(* END TO END: configuration as written -> gen_init -> gen_call.  No hypothesis on what was written, on the file system
   or on the request: a 200 answer carries the content of an existing file p, is labelled with p's encoding, that
   encoding is acceptable to the client of THIS request, and no acceptable existing candidate is smaller *)
Theorem gen_end_to_end_variant s fs encmap us rq pi b sub fm :
  let c := view_config s (created_view s encmap us) in
  fm_exact c fs fm ->
  forall body enc vary, out_resp (fst (fst (gen_call c rq pi fs b sub fm))) = R200 body enc vary ->
  exists name p,
    let keyed := fst (sizes fs (fst (probe c fs (candidates c name)))) in
    spec_acceptable rq enc = true /\
    (exists sz, fs_stat fs p = Some (EFile sz body)) /\
    exists k, In (k, (p, enc)) keyed /\ k = entry_size (fs_stat fs p) /\
      forall k' f', In (k', f') keyed -> spec_acceptable rq (snd f') = true -> k <= k'.
Proof. intros c Hfm. exact (gen_call_variant_ok c rq pi fs b sub fm Hfm). Qed.

(* non-vacuity: a directly created view over "/r" with the variant encoding "g" configured; the regenerated program serves the smaller "f.g", labelled "g", to a client that accepts it *)
Example gen_variant_nonvacuous :
  let s := mkSetup [47; 114] None [113] [] (ex_cfg 3 [47; 114]) in
  let c := view_config s (created_view s [([46; 103], [103])] true) in
  fm_exact c ex_fs [] /\
  out_resp (fst (fst (gen_call c (mkReq [] [] [] true [[103]]) [47; 102] ex_fs true [[102]] []))) = R200 [9] (Some [103]) true.
Proof. cbv zeta. split; [apply fm_exact_nil|vm_compute; reflexivity]. Qed.
