(* C09 proofs, part 2: what was issued parses back (ticket_roundtrip). *)
From Coq Require Import List NArith ZArith Bool Lia ZifyBool ZifyN.
Import ListNotations.
Require Import Verif.Lib.Wire Verif.Lib.Text Verif.Lib.Percent Verif.Lib.Utf8 Verif.Lib.C09Base Verif.Lib.C09BaseP.
Require Import Verif.Gen.Facts_C09 Verif.Model.C09.
Ltac Zify.zify_post_hook ::= Z.div_mod_to_equations.
Open Scope N_scope.

(* ------------------------------------------------------------------ facts the round trip rests on *)
Lemma facts_widths : ts_width = ts_field /\ ts_width = 8%nat /\ ts_base = 16.
Proof. repeat split; reflexivity. Qed.

Lemma facts_quote : is_ascii quote_safe = true /\ is_safe quote_safe 37 = false /\ is_safe quote_safe bang = false
                    /\ bang <> 37 /\ is_hex_upper bang = false.
Proof. repeat split; try reflexivity; discriminate. Qed.

Lemma facts_tokens :
  memN bang tok_first = false /\ memN bang tok_rest = false /\ bang <> 10
  /\ memN comma tok_first = false /\ memN comma tok_rest = false /\ comma <> 10 /\ bang <> comma.
Proof. repeat split; try reflexivity; discriminate. Qed.

(* ------------------------------------------------------------------ tokens *)
Lemma rest_ok_chars s c : rest_ok s = true -> In c s -> memN c tok_rest = true \/ c = 10.
Proof.
  unfold rest_ok. intros H Hin. apply orb_true_iff in H as [H|H].
  - rewrite forallb_forall in H. left. apply H. exact Hin.
  - apply andb_true_iff in H as [_ H]. destruct (rev s) as [|x r] eqn:E; [discriminate|].
    destruct (N.eqb_spec x 10) as [->|Hne].
    + assert (Hs : s = rev r ++ [10]).
      { pose proof (rev_involutive s) as RI. rewrite E in RI. symmetry. exact RI. }
      rewrite Hs in Hin. apply in_app_or in Hin as [Hin|[<-|[]]]; [|auto].
      left. rewrite forallb_forall in H. apply H. apply in_rev. exact Hin.
    + exfalso. destruct x as [|p]; [discriminate|].
      do 4 (try destruct p as [p|p|]; try discriminate). contradiction.
Qed.

Lemma valid_token_chars t c :
  valid_token t = true -> In c t -> memN c tok_first = true \/ memN c tok_rest = true \/ c = 10.
Proof.
  unfold valid_token. intros H Hin. apply andb_true_iff in H as [_ H].
  destruct t as [|x r]; [discriminate|]. apply andb_true_iff in H as [H1 H2].
  destruct Hin as [<-|Hin]; [auto|]. destruct (rest_ok_chars r c H2 Hin); auto.
Qed.

Lemma valid_token_no c t :
  memN c tok_first = false -> memN c tok_rest = false -> c <> 10 -> valid_token t = true -> ~ In c t.
Proof.
  intros H1 H2 H3 Hv Hin. destruct (valid_token_chars t c Hv Hin) as [H|[H|H]]; congruence.
Qed.

Lemma valid_token_nonempty t : valid_token t = true -> t <> [].
Proof. intros H E. subst. unfold valid_token in H. simpl in H. discriminate. Qed.

Lemma join_no c sep l : ~ In c sep -> Forall (fun t => ~ In c t) l -> ~ In c (join sep l).
Proof.
  intros Hs Hl. induction Hl as [|x r Hx Hr IH]; [intros []|].
  destruct r as [|y r]; [exact Hx|].
  change (join sep (x :: y :: r)) with (x ++ sep ++ join sep (y :: r)).
  intros Hin. apply in_app_or in Hin as [Hin|Hin]; [auto|].
  apply in_app_or in Hin as [Hin|Hin]; auto.
Qed.

Lemma join_nonempty sep x r : x <> [] -> join sep (x :: r) <> [].
Proof.
  intros Hx. destruct r as [|y r]; [exact Hx|].
  change (join sep (x :: y :: r)) with (x ++ sep ++ join sep (y :: r)).
  destruct x; [contradiction|discriminate].
Qed.

(* ------------------------------------------------------------------ strip *)
Lemma strip_id c s x s1 s2 y :
  s = x :: s1 -> s = s2 ++ [y] -> x <> c -> y <> c -> strip_char c s = s.
Proof.
  intros E1 E2 Hx Hy. destruct s2 as [|x2 s2].
  - simpl in E2. subst s. inversion E2; subst.
    unfold strip_char, rstrip_char. simpl.
    repeat (match goal with |- context [N.eqb ?z c] => destruct (N.eqb_spec z c); [contradiction|]; simpl end).
    reflexivity.
  - rewrite E2. rewrite E1 in E2. simpl in E2. inversion E2; subst. apply strip_ends; assumption.
Qed.

Section RT.
Variable H : text -> list N -> text.
Variable dsz : text -> nat.
Variable uni : N -> N.

Definition H_len := forall a x, length (H a x) = (dsz a * digest_mult)%nat.
Definition H_head := forall a x, exists c r, H a x = c :: r /\ c <> strip_ch.

Definition joined (toks : list text) : text := join [comma] toks.

Lemma cookie_shape alg ip t sec enc toks ud :
  cookie_value H alg ip t sec enc toks ud =
  calculate_digest H alg ip (Z.of_N t) sec enc (joined toks) ud
    ++ hex_pad ts_width t ++ quote_str quote_safe enc ++ bang
    :: (match joined toks with [] => [] | _ => joined toks ++ [bang] end) ++ ud.
Proof. reflexivity. Qed.

Theorem fields_roundtrip alg ip t sec enc toks ud :
  H_len -> H_head -> t < 4294967296 -> is_ascii enc = true ->
  Forall (fun tk => valid_token tk = true) toks ->
  ud <> [] -> ~ In bang ud -> last ud 0 <> strip_ch ->
  parse_fields dsz uni alg (cookie_value H alg ip t sec enc toks ud)
  = FOk (calculate_digest H alg ip (Z.of_N t) sec enc (joined toks) ud) (Z.of_N t) enc (joined toks) ud.
Proof.
  intros HL HH Ht Henc Htok Hud Hbang Hlast.
  destruct facts_widths as (W1 & W2 & W3). destruct facts_quote as (Q1 & Q2 & Q3 & Q4 & Q5).
  destruct facts_tokens as (T1 & T2 & T3 & T4 & T5 & T6 & T7).
  set (D := calculate_digest H alg ip (Z.of_N t) sec enc (joined toks) ud).
  set (Hx := hex_pad ts_width t).
  set (Q := quote_str quote_safe enc).
  set (T := match joined toks with [] => [] | _ => joined toks ++ [bang] end).
  assert (LD : length D = digest_len dsz alg) by (unfold D, calculate_digest, digest_len; apply HL).
  assert (LH : length Hx = ts_field).
  { unfold Hx. rewrite <- W1. apply hex_pad_length; rewrite W2; [exact Ht|lia]. }
  unfold parse_fields. rewrite cookie_shape. fold D Hx Q T.
  (* stripping the quote character changes nothing *)
  assert (ST : strip_char strip_ch (D ++ Hx ++ Q ++ bang :: T ++ ud) = D ++ Hx ++ Q ++ bang :: T ++ ud).
  { destruct (HH alg (H alg (digest_msg ip (Z.of_N t) sec enc (joined toks) ud) ++ encode sec)) as (c0 & r0 & E0 & N0).
    destruct (exists_last Hud) as (ud' & y & Ey).
    eapply strip_id with (x := c0) (y := y).
    - unfold D, calculate_digest. rewrite E0. reflexivity.
    - rewrite Ey. rewrite !app_comm_cons, !app_assoc. reflexivity.
    - exact N0.
    - rewrite Ey, last_last in Hlast. exact Hlast. }
  rewrite ST.
  rewrite (firstn_app_exact D _ _ LD), (skipn_app_exact D _ _ LD).
  rewrite (firstn_app_exact Hx _ _ LH).
  unfold Hx. rewrite W3, py_int_hex_pad. fold Hx.
  replace (D ++ Hx ++ Q ++ bang :: T ++ ud) with ((D ++ Hx) ++ Q ++ bang :: T ++ ud) by (rewrite <- app_assoc; reflexivity).
  rewrite (skipn_app_exact (D ++ Hx)) by (rewrite app_length; lia).
  (* the quoted user id contains no bang *)
  assert (NQ : ~ In bang Q).
  { unfold Q, quote_str. apply quote_no_char; auto. rewrite encode_ascii by assumption. apply ascii_bytes. assumption. }
  rewrite (split1_app bang Q (T ++ ud) NQ).
  assert (UQ : unquote_str Q = enc) by (apply unquote_quote_str; assumption).
  rewrite UQ.
  assert (NJ : ~ In bang (joined toks)).
  { unfold joined. apply join_no.
    - intros [E|[]]. apply T7. symmetry. exact E.
    - eapply Forall_impl; [|exact Htok]. intros tk Hv. apply valid_token_no; assumption. }
  unfold T. destruct (joined toks) as [|j0 jr] eqn:EJ.
  - simpl. rewrite (split1_none bang ud Hbang). reflexivity.
  - rewrite <- app_assoc. simpl app at 2.
    rewrite (split1_app bang (j0 :: jr) ud NJ). reflexivity.
Qed.

Theorem ticket_roundtrip alg ip t sec enc toks ud :
  H_len -> H_head -> t < 4294967296 -> is_ascii enc = true ->
  Forall (fun tk => valid_token tk = true) toks ->
  ud <> [] -> ~ In bang ud -> last ud 0 <> strip_ch ->
  parse_ticket H dsz uni sec (cookie_value H alg ip t sec enc toks ud) ip alg
  = POk (Z.of_N t) enc (match toks with [] => [[]] | _ => toks end) ud.
Proof.
  intros HL HH Ht Henc Htok Hud Hbang Hlast.
  unfold parse_ticket. rewrite fields_roundtrip by assumption.
  unfold strings_differ. rewrite text_eqb_refl. simpl.
  f_equal. destruct toks as [|t0 tr]; [reflexivity|].
  unfold joined. apply split_join; [discriminate|].
  destruct facts_tokens as (T1 & T2 & T3 & T4 & T5 & T6 & T7).
  eapply Forall_impl; [|exact Htok]. intros tk Hv. apply valid_token_no; assumption.
Qed.

(* ------------------------------------------------------------------ typed user ids *)
Definition uval_ok (u : uval) : Prop :=
  match u with
  | VStr t => forallb valid_scalar t = true
  | VInt _ => True
  | VBytes b => Forall (fun x => x < 256) b
  end.
Definition tag_of (u : uval) : text :=
  fst (match u with VInt _ => enc_int | VStr _ => enc_str | VBytes _ => enc_bytes end).

Lemma encode1_bytes c : valid_scalar c = true -> Forall (fun b => b < 256) (encode1 c).
Proof.
  unfold valid_scalar, encode1. intros Hv.
  destruct (c <? 128) eqn:E1; [repeat constructor; lia|].
  destruct (c <? 2048) eqn:E2; [repeat constructor; lia|].
  destruct (c <? 65536) eqn:E3; repeat constructor; lia.
Qed.

Lemma encode_bytes t : forallb valid_scalar t = true -> Forall (fun b => b < 256) (encode t).
Proof.
  induction t as [|c t IH]; simpl; intros Hv; [constructor|].
  apply andb_true_iff in Hv as [Hc Ht]. unfold encode. simpl. apply Forall_app. split.
  - apply encode1_bytes. assumption.
  - apply IH. assumption.
Qed.

Lemma ascii_is_bytes s : is_ascii s = true -> is_bytes s = true.
Proof.
  unfold is_ascii, is_bytes. rewrite !forallb_forall. intros Hs x Hx. specialize (Hs x Hx). lia.
Qed.

Lemma decode_one ty u0 :
  decode_userid uni [userid_typename ++ ty] u0 =
  match lookup_text ty decoders with
  | Some k => apply_dec uni k u0
  | None => Some u0
  end.
Proof.
  assert (SP : starts_typename (userid_typename ++ ty) = Some ty).
  { unfold starts_typename. apply strip_prefix_spec. reflexivity. }
  cbn [decode_userid]. destruct (userid_typename ++ ty) as [|x l] eqn:E.
  - exfalso. apply (f_equal (@length N)) in E. rewrite app_length in E. simpl in E. discriminate.
  - rewrite SP. destruct (lookup_text ty decoders) as [k|]; [|reflexivity].
    destruct (apply_dec uni k u0); reflexivity.
Qed.

Lemma ud_facts u :
  let ud := userid_typename ++ tag_of u in
  ud <> [] /\ ~ In bang ud /\ last ud 0 <> strip_ch /\ split_on pipe ud = [ud].
Proof.
  destruct u; cbv zeta; (split; [discriminate|]); (split; [intros Hin; apply memN_In in Hin; vm_compute in Hin; discriminate|]);
    (split; [vm_compute; discriminate|vm_compute; reflexivity]).
Qed.

Lemma encode_userid_ok u :
  uval_ok u ->
  exists enc, encode_userid u = Some (tag_of u, enc) /\ is_ascii enc = true
              /\ decode_userid uni [userid_typename ++ tag_of u] (VStr enc) = Some u.
Proof.
  destruct u as [t|z|b]; cbn [uval_ok]; intros Hok.
  - exists (b64encode (encode t)).
    pose proof (encode_bytes t Hok) as HB. pose proof (b64encode_ascii _ HB) as HA.
    split; [unfold encode_userid; simpl; rewrite Hok; reflexivity|]. split; [exact HA|].
    rewrite decode_one. change (lookup_text (tag_of (VStr t)) decoders) with (Some DB64Utf8).
    unfold apply_dec. rewrite (ascii_is_bytes _ HA), (b64decode_encode _ HB), (decode_encode t Hok). reflexivity.
  - exists (dec_of_Z z). split; [reflexivity|]. split; [apply dec_of_Z_ascii|].
    rewrite decode_one. change (lookup_text (tag_of (VInt z)) decoders) with (Some DInt).
    unfold apply_dec. rewrite py_int_dec_of_Z. reflexivity.
  - exists (b64encode b). pose proof (b64encode_ascii _ Hok) as HA.
    split; [reflexivity|]. split; [exact HA|].
    rewrite decode_one. change (lookup_text (tag_of (VBytes b)) decoders) with (Some DB64).
    unfold apply_dec. rewrite (ascii_is_bytes _ HA), (b64decode_encode _ Hok). reflexivity.
Qed.

(* the code's timeout test is the property's "at most issue time plus timeout" *)
Lemma timed_out_spec c ts n2 :
  timed_out c ts n2 = match timeout c with
                      | Some t => negb (Z.eqb t 0) && negb (Z.leb n2 (2 * (ts + t)))
                      | None => false
                      end.
Proof.
  unfold timed_out. destruct (timeout c) as [t|]; [|reflexivity].
  change (cmp_eval timeout_cmp (2 * (ts + t)) n2) with (Z.ltb (2 * (ts + t)) n2).
  rewrite Z.leb_antisym. rewrite negb_involutive. reflexivity.
Qed.

Local Opaque userid_typename.

(* a ticket issued by remember() at [now r], presented at [now r'] to a helper with the same secret,
   algorithm and (effective) address: exactly the issued identity, user-id type preserved, as long as
   now r' <= now r + timeout (or no timeout); nothing afterwards *)
Theorem identify_roundtrip c r r' u ma toks hs k v :
  H_len -> H_head -> (0 <= now r < 4294967296)%Z -> uval_ok u ->
  remember H c r u ma toks = Some hs -> In k hs -> ck_value k = Some v ->
  cookie r' = Some v -> eff_ip c r' = eff_ip c r ->
  identify_pre H dsz uni c r' =
  match spec_issued_identity c (Z.to_N (now r)) u (match toks with [] => [[]] | _ => toks end) (now2 r') with
  | Some (ts, u', tk) => ISome ts u' tk (userid_typename ++ tag_of u)
  | None => INone
  end.
Proof.
  intros HL HH Hnow Hok Hrem Hin Hv Hck Hip.
  destruct (encode_userid_ok u Hok) as (enc & EE & EA & ED).
  destruct (ud_facts u) as (U1 & U2 & U3 & U4).
  unfold remember in Hrem. destruct (eff_ip c r) as [ip|] eqn:Eip; [|discriminate].
  rewrite EE in Hrem. destruct (forallb valid_token toks) eqn:Etok; [|discriminate].
  inversion Hrem; subst hs; clear Hrem. destruct Hin as [<-|[]]. cbn [ck_value] in Hv. inversion Hv; subst v; clear Hv.
  unfold identify_pre. rewrite Hck, Hip.
  assert (Ftok : Forall (fun tk => valid_token tk = true) toks) by (apply Forall_forall; apply forallb_forall; exact Etok).
  rewrite ticket_roundtrip; auto; [|lia].
  rewrite timed_out_spec. unfold spec_issued_identity. rewrite !Z2N.id by lia.
  rewrite U4, ED.
  destruct (timeout c) as [t|]; [|reflexivity].
  destruct (negb (Z.eqb t 0) && negb (Z.leb (now2 r') (2 * (now r + t)))); reflexivity.
Qed.

End RT.

(* boundary (arguments are twice the clock value): accepted at now = issue + timeout, rejected half a
   second and one second later *)
Corollary identify_boundary c t0 u toks t :
  timeout c = Some t -> (0 < t)%Z ->
  spec_issued_identity c t0 u toks (2 * (Z.of_N t0 + t)) = Some (Z.of_N t0, u, toks)
  /\ spec_issued_identity c t0 u toks (2 * (Z.of_N t0 + t) + 1) = None
  /\ spec_issued_identity c t0 u toks (2 * (Z.of_N t0 + t + 1)) = None.
Proof.
  intros Ht Hpos. unfold spec_issued_identity. rewrite Ht.
  assert (E0 : Z.eqb t 0 = false) by lia. rewrite E0.
  assert (E1 : Z.leb (2 * (Z.of_N t0 + t)) (2 * (Z.of_N t0 + t)) = true) by lia.
  assert (E2 : Z.leb (2 * (Z.of_N t0 + t) + 1) (2 * (Z.of_N t0 + t)) = false) by lia.
  assert (E3 : Z.leb (2 * (Z.of_N t0 + t + 1)) (2 * (Z.of_N t0 + t)) = false) by lia.
  rewrite E1, E2, E3. repeat split; reflexivity.
Qed.
