(* C05 proofs: the deriver order, the permission table of _secured_view, trace invariants of the
   call semantics (mediation, refusal, source of HTTPForbidden, attribution of policy calls). *)
From Coq Require Import List NArith ZArith Bool Lia.
Import ListNotations.
Require Import Verif.Lib.Wire Verif.Gen.Facts_C03 Verif.Model.C03 Verif.Gen.Facts_C05 Verif.Model.C05.
Require Verif.Gen.Facts_C18 Verif.Model.C18_base Verif.Model.C18.
Local Close Scope N_scope.
Local Open Scope nat_scope.

(* ================================================================== *)
(* the deriver order, computed from the regenerated declarations *)

Lemma deriver_names_eq :
  deriver_names = [nm_attr_wrapped_view; nm_predicated_view; nm_secured_view; nm_csrf_view; nm_owrapped_view;
                   nm_http_cached_view; nm_decorated_view; nm_rendered_view; nm_mapped_view].
Proof. vm_compute. reflexivity. Qed.

Lemma secured_outermost :
  exists ds mid,
    C18_base.sorted C18.default_derivers = C18_base.Sorted ds /\
    map fst ds = nm_secured_view :: mid ++ [nm_mapped_view] /\
    ~ In nm_secured_view mid /\
    deriver_names = Facts_C18.dv_outer ++ map fst ds.
Proof.
  eexists. exists [nm_csrf_view; nm_owrapped_view; nm_http_cached_view; nm_decorated_view; nm_rendered_view].
  split; [vm_compute; reflexivity|]. split; [vm_compute; reflexivity|]. split; [|vm_compute; reflexivity].
  intros H. repeat (destruct H as [H|H]; [discriminate H|]). exact H.
Qed.

Definition pred_part (d : dview) : list wrapper := match r_preds (d_reg d) with [] => [] | _ => [WPred] end.
Definition sec_part (d : dview) : list wrapper := match d_perm d with Some p => [WSecured p] | None => [] end.
Definition ow_part (d : dview) : list wrapper := match d_wrapper d with [] => [] | n => [WOWrapped n] end.
Definition deco_part (d : dview) : list wrapper := if d_deco d then [WDeco] else [].
Definition csrf_part (d : dview) : list wrapper := if d_csrf d then [WCsrf] else [].

(* predicates first, then the permission check, then the CSRF check, then the wrapper view, then the decorator, then the callable *)
Lemma wrappers_shape d : wrappers d = pred_part d ++ sec_part d ++ csrf_part d ++ ow_part d ++ deco_part d.
Proof.
  unfold wrappers. rewrite deriver_names_eq.
  unfold pred_part, sec_part, ow_part, deco_part, csrf_part.
  cbn [flat_map].
  change (wrap_of d nm_attr_wrapped_view) with (@nil wrapper).
  change (wrap_of d nm_csrf_view) with (if d_csrf d then [WCsrf] else []).
  change (wrap_of d nm_http_cached_view) with (@nil wrapper).
  change (wrap_of d nm_rendered_view) with (@nil wrapper).
  change (wrap_of d nm_mapped_view) with (@nil wrapper).
  change (wrap_of d nm_predicated_view) with (match r_preds (d_reg d) with [] => [] | _ => [WPred] end).
  change (wrap_of d nm_secured_view) with (match d_perm d with Some p => [WSecured p] | None => [] end).
  change (wrap_of d nm_owrapped_view) with (match d_wrapper d with [] => [] | n => [WOWrapped n] end).
  change (wrap_of d nm_decorated_view) with (if d_deco d then [WDeco] else []).
  rewrite !app_nil_l, !app_nil_r. reflexivity.
Qed.

(* ================================================================== *)
(* the permission _secured_view closes over *)

Lemma secured_permission_spec st eo perm p :
  secured_permission st eo perm = Some p <->
  rs_policy st = true /\ is_npr p = false /\
  (perm = Some p \/ (perm = None /\ eo = false /\ rs_defperm st = Some p)).
Proof.
  unfold secured_permission.
  destruct (rs_policy st), eo, perm as [q|], (rs_defperm st) as [dq|]; cbn;
    try destruct (is_npr q) eqn:Eq; try destruct (is_npr dq) eqn:Edq; cbn;
    (split; [intros H; try discriminate H; try (inversion H; subst; clear H) | intros (H1 & H2 & H3)]);
    repeat match goal with
           | |- _ /\ _ => split
           | |- true = true => reflexivity
           | H : _ \/ _ |- _ => destruct H
           | H : _ /\ _ |- _ => destruct H
           | H : Some _ = Some _ |- _ => inversion H; subst; clear H
           | H : None = Some _ |- _ => discriminate H
           | H : Some _ = None |- _ => discriminate H
           | H : false = true |- _ => discriminate H
           | H : true = false |- _ => discriminate H
           end; try congruence; auto.
Qed.

(* the table, row by row *)
Lemma secured_no_policy st eo perm : rs_policy st = false -> secured_permission st eo perm = None.
Proof. unfold secured_permission. intros ->. destruct (if negb eo && is_none perm then _ else _) as [q|]; [destruct (is_npr q)|]; reflexivity. Qed.

Lemma secured_explicit st eo p :
  rs_policy st = true -> is_npr p = false -> secured_permission st eo (Some p) = Some p.
Proof. intros. apply secured_permission_spec. auto. Qed.

Lemma secured_marker st eo p : is_npr p = true -> secured_permission st eo (Some p) = None.
Proof.
  intros H. destruct (secured_permission st eo (Some p)) as [q|] eqn:E; [|reflexivity].
  apply secured_permission_spec in E. destruct E as (_ & Hq & [E|(E & _)]); [inversion E; subst; congruence|discriminate].
Qed.

Lemma secured_default st p :
  rs_policy st = true -> rs_defperm st = Some p -> is_npr p = false -> secured_permission st false None = Some p.
Proof. intros. apply secured_permission_spec. split; [assumption|]. split; [assumption|]. right. auto. Qed.

Lemma secured_exception_only_no_default st : secured_permission st true None = None.
Proof.
  destruct (secured_permission st true None) as [q|] eqn:E; [|reflexivity].
  apply secured_permission_spec in E. destruct E as (_ & _ & [E|(_ & E & _)]); discriminate.
Qed.

Lemma secured_nothing st eo : rs_defperm st = None -> secured_permission st eo None = None.
Proof.
  intros H. destruct (secured_permission st eo None) as [q|] eqn:E; [|reflexivity].
  apply secured_permission_spec in E. destruct E as (_ & _ & [E|(_ & _ & E)]); congruence.
Qed.

(* ================================================================== *)
(* trace invariants *)

Definition body_behave (b : body) : behave := match b with Plain bh => bh | Slash _ bh => bh end.

Section Inv.
  Variable R : registry.
  Variable D : list (N * dview).
  Variable tb : grants.
  Variable q : rq5.

  (* --- mediation *)
  Definition head_ok (seen : trace) (e : event) : Prop :=
    match e with
    | Body t c | Deco t c =>
        (exists d, assocN t D = Some d) /\
        forall d p, assocN t D = Some d -> d_perm d = Some p -> In (Permits p c true) seen
    | _ => True
    end.
  Fixpoint guarded_from (seen tr : trace) : Prop :=
    match tr with
    | [] => True
    | e :: r => head_ok seen e /\ guarded_from (e :: seen) r
    end.

  Lemma head_ok_weaken seen seen' e : (forall x, In x seen -> In x seen') -> head_ok seen e -> head_ok seen' e.
  Proof. destruct e; simpl; auto; intros Hs [Hk H]; (split; [exact Hk|]); intros d p' Hd Hp; apply Hs; eauto. Qed.

  Lemma guarded_weaken tr : forall seen seen',
    (forall x, In x seen -> In x seen') -> guarded_from seen tr -> guarded_from seen' tr.
  Proof.
    induction tr as [|e r IH]; simpl; intros seen seen' Hs H; [exact I|].
    destruct H as [H1 H2]. split; [eapply head_ok_weaken; eauto|].
    eapply IH; [|exact H2]. intros x [->|Hx]; [left; reflexivity|right; auto].
  Qed.

  Lemma guarded_app a : forall seen b,
    guarded_from seen a -> guarded_from [] b -> guarded_from seen (a ++ b).
  Proof.
    induction a as [|e r IH]; simpl; intros seen b Ha Hb.
    - eapply guarded_weaken; [|exact Hb]. intros x [].
    - destruct Ha as [H1 H2]. split; [exact H1|]. apply IH; assumption.
  Qed.

  (* positional reading *)
  Lemma guarded_nth tr : forall seen i e t c d p,
    guarded_from seen tr -> nth_error tr i = Some e -> (e = Body t c \/ e = Deco t c) ->
    assocN t D = Some d -> d_perm d = Some p ->
    In (Permits p c true) seen \/ exists j, j < i /\ nth_error tr j = Some (Permits p c true).
  Proof.
    induction tr as [|x r IH]; intros seen i e t c d p G Hn He Hd Hp; [destruct i; discriminate|].
    destruct G as [G1 G2]. destruct i as [|i]; simpl in Hn.
    - inversion Hn; subst x. left. destruct He as [->| ->]; simpl in G1; destruct G1 as [_ G1]; eauto.
    - destruct (IH _ _ _ _ _ _ _ G2 Hn He Hd Hp) as [[Hx|Hin]|(j & Hj & Hnj)].
      + right. exists 0. split; [lia|]. simpl. rewrite Hx. reflexivity.
      + left. exact Hin.
      + right. exists (S j). split; [lia|exact Hnj].
  Qed.

  (* --- refusal: a refused check is the last event of its call, and the call raises HTTPForbidden *)
  Fixpoint refusal_last (tr : trace) (o : res) : Prop :=
    match tr with
    | [] => True
    | Permits _ _ false :: r => r = [] /\ o = Raise EForbidden
    | _ :: r => refusal_last r o
    end.

  Lemma refusal_last_app a : forall oa b ob,
    refusal_last a oa -> oa <> Raise EForbidden -> refusal_last b ob -> refusal_last (a ++ b) ob.
  Proof.
    induction a as [|e r IH]; simpl; intros oa b ob Ha Hne Hb; [exact Hb|].
    destruct e as [p c [|]| | |]; try (eapply IH; eauto).
    destruct Ha as [_ Ha]. contradiction.
  Qed.

  Lemma refusal_last_res tr o o' : refusal_last tr o -> o <> Raise EForbidden -> refusal_last tr o'.
  Proof.
    induction tr as [|e r IH]; simpl; intros H Hne; [exact I|].
    destruct e as [p c [|]| | |]; auto. destruct H as [_ H]. contradiction.
  Qed.

  Lemma refusal_last_nth tr : forall o j p c,
    refusal_last tr o -> nth_error tr j = Some (Permits p c false) -> S j = length tr /\ o = Raise EForbidden.
  Proof.
    induction tr as [|e r IH]; intros o j p c H Hn; [destruct j; discriminate|].
    destruct j as [|j]; simpl in Hn.
    - inversion Hn; subst e. simpl in H. destruct H as [-> ->]. split; reflexivity.
    - assert (Hr : refusal_last r o).
      { destruct e as [p' c' [|]| | |]; simpl in H; auto. destruct H as [-> _]. destruct j; discriminate. }
      destruct (IH _ _ _ _ Hr Hn) as [H1 H2]. split; [simpl; lia|exact H2].
  Qed.

  (* --- HTTPForbidden comes from a refusal or from the application *)
  Fixpoint last_opt (tr : trace) : option event :=
    match tr with [] => None | [e] => Some e | _ :: r => last_opt r end.

  Definition forbidding (e : event) : Prop :=
    match e with
    | Permits _ _ false => True
    | Body t _ => exists d, assocN t D = Some d /\ body_behave (d_body d) = BRaise EForbidden
    | _ => False
    end.
  Definition forb_src (tr : trace) (o : res) : Prop :=
    o = Raise EForbidden -> exists e, last_opt tr = Some e /\ forbidding e.

  Lemma last_opt_cons x tr e : last_opt tr = Some e -> last_opt (x :: tr) = Some e.
  Proof. destruct tr; [discriminate|]. simpl. auto. Qed.

  Lemma last_opt_app a b e : last_opt b = Some e -> last_opt (a ++ b) = Some e.
  Proof. induction a as [|x a IH]; simpl; intros H; [exact H|]. apply IH in H. destruct (a ++ b); [discriminate|exact H]. Qed.

  Lemma forb_src_app a b o : forb_src b o -> forb_src (a ++ b) o.
  Proof. intros H Ho. destruct (H Ho) as (e & He & Hf). exists e. split; [apply last_opt_app; exact He|exact Hf]. Qed.

  Lemma forb_src_cons x tr o : forb_src tr o -> forb_src (x :: tr) o.
  Proof. intros H. apply (forb_src_app [x]). exact H. Qed.

  Lemma forb_src_other tr o : o <> Raise EForbidden -> forb_src tr o.
  Proof. intros H Ho. contradiction. Qed.

  (* --- every policy call is made on behalf of a registered view that closed over that permission *)
  Definition on_behalf (p : text) : Prop :=
    exists t d, assocN t D = Some d /\ (d_perm d = Some p \/ exists bh, d_body d = Slash (Some p) bh).
  Definition perm_src (tr : trace) : Prop := forall p c b, In (Permits p c b) tr -> on_behalf p.

  Lemma perm_src_app a b : perm_src a -> perm_src b -> perm_src (a ++ b).
  Proof. intros Ha Hb p c x H. apply in_app_or in H. destruct H; eauto. Qed.

  (* --- the three position-free invariants together *)
  Definition inv3 (x : trace * res) : Prop :=
    refusal_last (fst x) (snd x) /\ forb_src (fst x) (snd x) /\ perm_src (fst x).

  Lemma inv3_nil o : o <> Raise EForbidden -> inv3 ([], o).
  Proof. intros H. repeat split; simpl; [apply forb_src_other; exact H|intros p c b []]. Qed.

  Lemma inv3_seq a oa b ob : inv3 (a, oa) -> oa <> Raise EForbidden -> inv3 (b, ob) -> inv3 (a ++ b, ob).
  Proof.
    intros (A1 & A2 & A3) Hne (B1 & B2 & B3). simpl in *. repeat split; simpl.
    - eapply refusal_last_app; eauto.
    - apply forb_src_app. exact B2.
    - apply perm_src_app; assumption.
  Qed.

  Lemma inv3_res tr o o' : inv3 (tr, o) -> o <> Raise EForbidden -> o' <> Raise EForbidden -> inv3 (tr, o').
  Proof.
    intros (A1 & A2 & A3) H H'. simpl in *. repeat split; simpl; [eapply refusal_last_res; eauto|apply forb_src_other; exact H'|exact A3].
  Qed.

  Definition good (x : trace * res) : Prop := guarded_from [] (fst x) /\ inv3 x.

  Lemma good_nil o : o <> Raise EForbidden -> good ([], o).
  Proof. intros H. split; [exact I|apply inv3_nil; exact H]. Qed.

  Lemma good_seq a oa b ob : good (a, oa) -> oa <> Raise EForbidden -> good (b, ob) -> good (a ++ b, ob).
  Proof.
    intros [G1 I1] Hne [G2 I2]. split; simpl in *; [apply guarded_app; assumption|eapply inv3_seq; eauto].
  Qed.

  (* ---------------------------------------------------------------- *)
  (* the derived view *)

  Lemma behave_res_forb t bh : behave_res t bh = Raise EForbidden -> bh = BRaise EForbidden.
  Proof. destruct bh as [|e]; simpl; [discriminate|]. intros H; inversion H; reflexivity. Qed.

  Lemma run_body_inv3 d t c : assocN t D = Some d -> inv3 (run_body tb (d_body d) t c).
  Proof.
    intros Hd. unfold run_body. destruct (d_body d) as [bh|ip bh] eqn:Eb.
    - repeat split; simpl.
      + intros Ho. eexists. split; [reflexivity|]. simpl. exists d. split; [exact Hd|].
        rewrite Eb. simpl. apply behave_res_forb in Ho. exact Ho.
      + intros p c' b [H|[]]. discriminate H.
    - destruct ip as [p|].
      + destruct (granted tb p c); repeat split; simpl.
        * intros Ho. eexists. split; [reflexivity|]. simpl. exists d. split; [exact Hd|].
          rewrite Eb. simpl. apply behave_res_forb in Ho. exact Ho.
        * intros p' c' b [H|[H|[]]]; [|discriminate H]. inversion H; subst.
          exists t, d. split; [exact Hd|]. right. exists bh. exact Eb.
        * intros _. eexists. split; [reflexivity|exact I].
        * intros p' c' b [H|[]]. inversion H; subst.
          exists t, d. split; [exact Hd|]. right. exists bh. exact Eb.
      + repeat split; simpl.
        * intros Ho. eexists. split; [reflexivity|]. simpl. exists d. split; [exact Hd|].
          rewrite Eb. simpl. apply behave_res_forb in Ho. exact Ho.
        * intros p c' b [H|[]]. discriminate H.
  Qed.

  Lemma res_not_forb_ret t : Ret t <> Raise EForbidden.
  Proof. discriminate. Qed.

  Section WithLookup.
    Variable lookup : text -> ctx -> trace * res.
    Hypothesis lookup_good : forall n c, good (lookup n c).

    Lemma run_ws_inv3 d t c ws :
      assocN t D = Some d -> (forall p, In (WSecured p) ws -> d_perm d = Some p) ->
      inv3 (run_ws tb q lookup ws d t c).
    Proof.
      intros Hd. induction ws as [|w r IH]; intros Hs; simpl.
      - apply run_body_inv3. exact Hd.
      - assert (Hr : forall p, In (WSecured p) r -> d_perm d = Some p) by (intros p Hp; apply Hs; right; exact Hp).
        specialize (IH Hr).
        destruct w as [|p|n| |]; [| | | |destruct (q_csrf_ok q); [exact IH|apply inv3_nil; discriminate]].
        + destruct (qualifies (q_base q) (d_reg d)); [exact IH|]. apply inv3_nil. discriminate.
        + destruct (granted tb p c).
          * destruct (run_ws tb q lookup r d t c) as [tr o]. destruct IH as (A1 & A2 & A3). simpl in *.
            repeat split; simpl; [exact A1|apply forb_src_cons; exact A2|].
            intros p' c' b [H|H]; [|eauto]. inversion H; subst.
            exists t, d. split; [exact Hd|]. left. apply Hs. left. reflexivity.
          * repeat split; simpl.
            -- intros _. eexists. split; [reflexivity|exact I].
            -- intros p' c' b [H|[]]. inversion H; subst.
               exists t, d. split; [exact Hd|]. left. apply Hs. left. reflexivity.
        + destruct (run_ws tb q lookup r d t c) as [tr o].
          destruct o as [t'|e| |]; try exact IH.
          destruct (lookup_good n c) as [_ L]. destruct (lookup n c) as [tr2 o2].
          assert (inv3 (tr ++ tr2, o2)) as H2 by (eapply inv3_seq; [exact IH|discriminate|exact L]).
          destruct o2 as [t2|e2| |]; try exact H2.
          eapply inv3_res; [exact H2|discriminate|discriminate].
        + destruct (run_ws tb q lookup r d t c) as [tr o]. destruct IH as (A1 & A2 & A3). simpl in *.
          repeat split; simpl; [exact A1|apply forb_src_cons; exact A2|].
          intros p' c' b [H|H]; [discriminate H|eauto].
    Qed.

    (* the decorator and the callable of a view that closed over p only run after Permits p c true:
       either the check was already seen, or WSecured p comes before every WDeco of the list *)
    Fixpoint sec_first (p : text) (ws : list wrapper) : bool :=
      match ws with
      | [] => false
      | WSecured p' :: r => text_eqb p p' || sec_first p r
      | WDeco :: _ => false
      | _ :: r => sec_first p r
      end.

    Lemma body_trace_guarded seen d t c :
      assocN t D = Some d ->
      (forall p, d_perm d = Some p -> In (Permits p c true) seen) ->
      guarded_from seen (fst (run_body tb (d_body d) t c)).
    Proof.
      intros Hd Hc. unfold run_body.
      assert (Hb : forall seen', (forall x, In x seen -> In x seen') -> head_ok seen' (Body t c)).
      { intros seen' Hs. split; [exists d; exact Hd|]. intros d' p' Hd' Hp'. rewrite Hd in Hd'. inversion Hd'; subst d'. apply Hs. auto. }
      destruct (d_body d) as [bh|[p|] bh]; simpl.
      - split; [apply (Hb seen); auto|exact I].
      - destruct (granted tb p c); simpl.
        + split; [exact I|]. split; [apply (Hb (Permits p c true :: seen)); intros x Hx; right; exact Hx|exact I].
        + split; exact I.
      - split; [apply (Hb seen); auto|exact I].
    Qed.

    Lemma run_ws_guarded d t c ws : forall seen,
      assocN t D = Some d ->
      (forall p, d_perm d = Some p -> In (Permits p c true) seen \/ sec_first p ws = true) ->
      guarded_from seen (fst (run_ws tb q lookup ws d t c)).
    Proof.
      induction ws as [|w r IH]; intros seen Hd Hc; simpl.
      - apply body_trace_guarded; [exact Hd|]. intros p Hp. destruct (Hc p Hp) as [H|H]; [exact H|discriminate H].
      - destruct w as [|p|n| |]; [| | | |destruct (q_csrf_ok q); [|exact I]; apply IH; [exact Hd|exact Hc]].
        + destruct (qualifies (q_base q) (d_reg d)); [|exact I]. apply IH; [exact Hd|]. exact Hc.
        + destruct (granted tb p c); [|simpl; split; exact I].
          specialize (IH (Permits p c true :: seen) Hd).
          destruct (run_ws tb q lookup r d t c) as [tr o]. simpl in *. split; [exact I|].
          apply IH. intros p' Hp'. destruct (Hc p' Hp') as [H|H]; [left; right; exact H|].
          apply orb_true_iff in H. destruct H as [H|H]; [|right; exact H].
          apply text_eqb_eq in H. subst p'. left. left. reflexivity.
        + specialize (IH seen Hd Hc).
          destruct (run_ws tb q lookup r d t c) as [tr o]. simpl in IH.
          destruct o as [t'|e| |]; simpl; try exact IH.
          destruct (lookup_good n c) as [L _]. destruct (lookup n c) as [tr2 o2]. simpl in *.
          apply guarded_app; assumption.
        + assert (Hin : forall p, d_perm d = Some p -> In (Permits p c true) seen).
          { intros p Hp. destruct (Hc p Hp) as [H|H]; [exact H|discriminate H]. }
          specialize (IH (Deco t c :: seen) Hd).
          destruct (run_ws tb q lookup r d t c) as [tr o]. simpl in *. split.
          * split; [exists d; exact Hd|]. intros d' p' Hd' Hp'. rewrite Hd in Hd'. inversion Hd'; subst d'. auto.
          * apply IH. intros p Hp. left. right. auto.
    Qed.

    Lemma sec_first_wrappers d p : d_perm d = Some p -> sec_first p (wrappers d) = true.
    Proof.
      intros Hp. rewrite wrappers_shape. unfold pred_part, sec_part. rewrite Hp.
      destruct (r_preds (d_reg d)); simpl; rewrite text_eqb_refl; reflexivity.
    Qed.

    Lemma wrappers_secured d p : In (WSecured p) (wrappers d) -> d_perm d = Some p.
    Proof.
      rewrite wrappers_shape. unfold pred_part, sec_part, ow_part, deco_part, csrf_part. intros H.
      repeat (apply in_app_or in H; destruct H as [H|H]).
      - destruct (r_preds (d_reg d)); [destruct H|]. destruct H as [H|[]]; discriminate H.
      - destruct (d_perm d) as [p'|]; [|destruct H]. destruct H as [H|[]]. inversion H; reflexivity.
      - destruct (d_csrf d); [|destruct H]. destruct H as [H|[]]; discriminate H.
      - destruct (d_wrapper d); [destruct H|]. destruct H as [H|[]]; discriminate H.
      - destruct (d_deco d); [|destruct H]. destruct H as [H|[]]; discriminate H.
    Qed.

    Lemma call_reg_good v c : good (call_reg D tb q lookup v c).
    Proof.
      unfold call_reg. destruct (assocN (r_tag v) D) as [d|] eqn:Hd; [|apply good_nil; discriminate].
      split.
      - apply run_ws_guarded; [exact Hd|]. intros p Hp. right. apply sec_first_wrappers. exact Hp.
      - apply run_ws_inv3; [exact Hd|]. apply wrappers_secured.
    Qed.

    Lemma good_pair (x : trace * res) : good x -> good (fst x, snd x).
    Proof. destruct x; auto. Qed.

    Lemma mv_call5_good l c : good (mv_call5 D tb q lookup l c).
    Proof.
      induction l as [|e r IH]; simpl; [apply good_nil; discriminate|].
      pose proof (call_reg_good (e_view e) c) as H.
      destruct (call_reg D tb q lookup (e_view e) c) as [tr o].
      destruct o as [t|x| |]; try exact H.
      destruct x; try exact H.
      destruct (mv_call5 D tb q lookup r c) as [tr2 o2].
      eapply good_seq; [exact H|discriminate|exact IH].
    Qed.

    Lemma call_component5_good cmp c : good (call_component5 D tb q lookup cmp c).
    Proof. destruct cmp; simpl; [apply call_reg_good|apply mv_call5_good]. Qed.

    Lemma call_loop5_good l c : forall pme, good (call_loop5 D tb q lookup l c pme).
    Proof.
      induction l as [|cmp r IH]; intros pme; simpl.
      - apply good_nil. destruct pme; discriminate.
      - pose proof (call_component5_good cmp c) as H.
        destruct (call_component5 D tb q lookup cmp c) as [tr o].
        destruct o as [t|x| |]; try exact H.
        destruct x; try exact H.
        specialize (IH true).
        destruct (call_loop5 D tb q lookup r c true) as [tr2 o2].
        eapply good_seq; [exact H|discriminate|exact IH].
    Qed.
  End WithLookup.

  Lemma call_view5_good fuel : forall cls req_sro name c, good (call_view5 R D tb q fuel cls req_sro name c).
  Proof.
    induction fuel as [|f IH]; intros cls req_sro name c; simpl; [apply good_nil; discriminate|].
    apply call_loop5_good. intros n c'. apply IH.
  Qed.

  Lemma handle_request_good : good (handle_request R D tb q).
  Proof.
    unfold handle_request.
    pose proof (call_view5_good fuel0 view_classifier (q_main_sro q) (q_view_name (q_base q)) (q_ctx q)) as H.
    destruct (call_view5 R D tb q fuel0 view_classifier (q_main_sro q) (q_view_name (q_base q)) (q_ctx q)) as [tr o].
    destruct o as [t|e| |]; try exact H.
    destruct H as [G I3]. split; [exact G|]. eapply inv3_res; [exact I3|discriminate|discriminate].
  Qed.

  (* ---------------------------------------------------------------- *)
  (* router level *)

  Lemma guarded_raised seen e tr : guarded_from [] tr -> guarded_from seen (Raised e :: tr).
  Proof. intros H. simpl. split; [exact I|]. eapply guarded_weaken; [|exact H]. intros x []. Qed.

  Lemma router_split :
    exists tr1 o1,
      handle_request R D tb q = (tr1, o1) /\ good (tr1, o1) /\
      match o1 with
      | Ret t => router_call R D tb q = (tr1, Resp t)
      | Raise e =>
          exists tr2 o2,
            call_view5 R D tb q fuel0 exc_classifier (q_comb_sro q) [] (CExc e) = (tr2, o2) /\ good (tr2, o2) /\
            fst (router_call R D tb q) = tr1 ++ Raised e :: tr2 /\
            (o2 = Raise EForbidden -> snd (router_call R D tb q) = Propagated EForbidden) /\
            (snd (router_call R D tb q) = Propagated EForbidden -> o2 = Raise EForbidden \/ e = EForbidden)
      | _ => router_call R D tb q = (tr1, FStuck)
      end.
  Proof.
    pose proof handle_request_good as H. unfold router_call.
    destruct (handle_request R D tb q) as [tr1 o1]. exists tr1, o1. split; [reflexivity|]. split; [exact H|].
    destruct o1 as [t|e| |]; try reflexivity.
    pose proof (call_view5_good fuel0 exc_classifier (q_comb_sro q) [] (CExc e)) as H2.
    destruct (call_view5 R D tb q fuel0 exc_classifier (q_comb_sro q) [] (CExc e)) as [tr2 o2].
    exists tr2, o2. split; [reflexivity|]. split; [exact H2|]. split; [reflexivity|]. split.
    - intros ->. reflexivity.
    - simpl. destruct o2 as [t2|e2| |]; try discriminate.
      + destruct e2; try discriminate; intros Hp; inversion Hp; auto.
      + intros Hp; inversion Hp; auto.
  Qed.

  Lemma router_guarded : guarded_from [] (fst (router_call R D tb q)).
  Proof.
    destruct router_split as (tr1 & o1 & _ & [G1 _] & Hr). simpl in G1.
    destruct o1 as [t'|e'| |]; try (rewrite Hr; exact G1).
    destruct Hr as (tr2 & o2 & _ & [G2 _] & Ht & _). rewrite Ht. simpl in G2.
    apply guarded_app; [exact G1|]. apply guarded_raised. exact G2.
  Qed.

  (* mediation, positional form *)
  Lemma mediation : forall i e t c d p,
    nth_error (fst (router_call R D tb q)) i = Some e -> (e = Body t c \/ e = Deco t c) ->
    assocN t D = Some d -> d_perm d = Some p ->
    exists j, j < i /\ nth_error (fst (router_call R D tb q)) j = Some (Permits p c true).
  Proof.
    intros i e t c d p Hn He Hd Hp.
    assert (G : guarded_from [] (fst (router_call R D tb q))).
    { destruct router_split as (tr1 & o1 & _ & [G1 _] & Hr). simpl in G1.
      destruct o1 as [t'|e'| |]; try (rewrite Hr; exact G1).
      destruct Hr as (tr2 & o2 & _ & [G2 _] & Ht & _). rewrite Ht. simpl in G2.
      apply guarded_app; [exact G1|]. apply guarded_raised. exact G2. }
    destruct (guarded_nth _ _ _ _ _ _ _ _ G Hn He Hd Hp) as [[]|H]. exact H.
  Qed.

  (* a refusal is followed at once by the 403 handling; while an exception view is being rendered
     HTTPForbidden leaves the application instead; in no case does another event of the refused view follow *)
  Lemma refusal_blocks : forall j p c,
    nth_error (fst (router_call R D tb q)) j = Some (Permits p c false) ->
    nth_error (fst (router_call R D tb q)) (S j) = Some (Raised EForbidden) \/
    (S j = length (fst (router_call R D tb q)) /\ snd (router_call R D tb q) = Propagated EForbidden /\
     exists k e, k < j /\ nth_error (fst (router_call R D tb q)) k = Some (Raised e)).
  Proof.
    intros j p c Hn.
    destruct router_split as (tr1 & o1 & _ & [_ (R1 & _ & _)] & Hr). simpl in R1.
    destruct o1 as [t'|e'| |].
    - rewrite Hr in *. simpl in *. destruct (refusal_last_nth _ _ _ _ _ R1 Hn) as [_ H]. discriminate H.
    - destruct Hr as (tr2 & o2 & _ & [_ (R2 & _ & _)] & Ht & Hf & _). simpl in R2. rewrite Ht in *.
      destruct (Nat.lt_ge_cases j (length tr1)) as [Hlt|Hge].
      + rewrite nth_error_app1 in Hn by exact Hlt.
        destruct (refusal_last_nth _ _ _ _ _ R1 Hn) as [Hl Ho]. inversion Ho; subst e'.
        left. rewrite nth_error_app2 by lia. replace (S j - length tr1) with 0 by lia. reflexivity.
      + rewrite nth_error_app2 in Hn by exact Hge.
        destruct (j - length tr1) as [|j'] eqn:Ej; simpl in Hn; [discriminate Hn|].
        destruct (refusal_last_nth _ _ _ _ _ R2 Hn) as [Hl Ho].
        right. split; [rewrite app_length; simpl; lia|]. split; [apply Hf; exact Ho|].
        exists (length tr1), e'. split; [lia|]. rewrite nth_error_app2 by lia.
        replace (length tr1 - length tr1) with 0 by lia. reflexivity.
    - rewrite Hr in *. simpl in *. destruct (refusal_last_nth _ _ _ _ _ R1 Hn) as [_ H]. discriminate H.
    - rewrite Hr in *. simpl in *. destruct (refusal_last_nth _ _ _ _ _ R1 Hn) as [_ H]. discriminate H.
  Qed.

  Lemma raised_not_permits tr : forall j p c b,
    nth_error tr j = Some (Permits p c b) -> forall e, nth_error tr j <> Some (Raised e).
  Proof. intros j p c b H e H'. rewrite H in H'. discriminate H'. Qed.

  (* never blocked otherwise: when the main handler raises HTTPForbidden, the last thing that happened
     is a refused check or a view callable that raises HTTPForbidden itself *)
  Lemma forbidden_has_source : forall tr,
    handle_request R D tb q = (tr, Raise EForbidden) ->
    exists e, last_opt tr = Some e /\ forbidding e.
  Proof.
    intros tr H. pose proof handle_request_good as G. rewrite H in G. destruct G as [_ (_ & F & _)]. apply F. reflexivity.
  Qed.

  Lemma forbidden_has_source_exc : forall e tr,
    call_view5 R D tb q fuel0 exc_classifier (q_comb_sro q) [] (CExc e) = (tr, Raise EForbidden) ->
    exists e', last_opt tr = Some e' /\ forbidding e'.
  Proof.
    intros e tr H. pose proof (call_view5_good fuel0 exc_classifier (q_comb_sro q) [] (CExc e)) as G.
    rewrite H in G. destruct G as [_ (_ & F & _)]. apply F. reflexivity.
  Qed.

  (* the policy is asked only on behalf of a registered view that closed over that permission *)
  Lemma permits_on_behalf : forall p c b, In (Permits p c b) (fst (router_call R D tb q)) -> on_behalf p.
  Proof.
    intros p c b Hin.
    destruct router_split as (tr1 & o1 & _ & [_ (_ & _ & P1)] & Hr). simpl in P1.
    destruct o1 as [t'|e'| |]; try (rewrite Hr in Hin; simpl in Hin; eauto).
    destruct Hr as (tr2 & o2 & _ & [_ (_ & _ & P2)] & Ht & _). simpl in P2. rewrite Ht in Hin.
    apply in_app_or in Hin. destruct Hin as [H|[H|H]]; [eauto|discriminate H|eauto].
  Qed.

  Lemma unprotected_never_asked :
    (forall t d, In (t, d) D -> d_perm d = None /\ forall p bh, d_body d <> Slash (Some p) bh) ->
    forall p c b, ~ In (Permits p c b) (fst (router_call R D tb q)).
  Proof.
    intros HD p c b Hin. destruct (permits_on_behalf _ _ _ Hin) as (t & d & Hd & Hp).
    assert (Hmem : In (t, d) D).
    { clear -Hd. induction D as [|[k v] r IH]; simpl in *; [discriminate|].
      destruct (N.eqb t k) eqn:E; [apply N.eqb_eq in E; inversion Hd; subst; left; reflexivity|right; auto]. }
    destruct (HD _ _ Hmem) as [H1 H2]. destruct Hp as [Hp|(bh & Hb)]; [congruence|]. eapply H2; eauto.
  Qed.
End Inv.
