(* C05 proofs *)
From Coq Require Import List NArith ZArith Bool Lia.
Import ListNotations.
Require Import Verif.Lib.Wire Verif.Gen.Facts_C03 Verif.Model.C03 Verif.Gen.Facts_C05 Verif.Model.C05.
Require Verif.Gen.Facts_C18 Verif.Model.C18.
Local Close Scope N_scope.
Local Open Scope nat_scope.

Lemma deriver_names_eq :
  deriver_names = [nm_attr_wrapped_view; nm_predicated_view; nm_secured_view; nm_csrf_view; nm_owrapped_view;
                   nm_http_cached_view; nm_decorated_view; nm_rendered_view; nm_mapped_view].
Proof. vm_compute. reflexivity. Qed.
